--------------------------------- MODULE RelH ---------------------------------
(***************************************************************************)
(* C04, sequential part: up to three consumers add and remove links and      *)
(* monitors on ONE target in any order (a consumer may hold both kinds),     *)
(* then the target goes away.  The reference replays the operations with     *)
(* their recorded results and keeps who holds what; afterwards every held    *)
(* link has produced exactly one exit and every held monitor exactly one     *)
(* down notification, nobody got anything else, and no relation is left.     *)
(***************************************************************************)
EXTENDS Naturals, Sequences, FiniteSets, TLC, Json
CONSTANTS TraceFile, Checks
TraceLog == ndJsonDeserialize(TraceFile)
VARIABLES l, mismatch
vars == <<l, mismatch>>

RECURSIVE Held(_, _, _, _)
\* set of <<consumer, kind>> held after the first k-1 operations
Held(ops, res, k, h) ==
  IF k > Len(ops) THEN h
  ELSE LET o == ops[k]
           kind == IF o.op \in {"link", "unlink"} THEN "link" ELSE "monitor"
       IN IF o.op \in {"link", "monitor"} /\ res[k] = "ok" THEN Held(ops, res, k + 1, h \cup {<<o.c, kind>>})
          ELSE IF o.op \in {"unlink", "demonitor"} /\ res[k] = "ok" THEN Held(ops, res, k + 1, h \ {<<o.c, kind>>})
          ELSE Held(ops, res, k + 1, h)

\* results of the operations themselves: adding what is held is refused, removing what is not held is refused
RECURSIVE ResOk(_, _, _, _)
ResOk(ops, res, k, h) ==
  IF k > Len(ops) THEN TRUE
  ELSE LET o == ops[k]
           kind == IF o.op \in {"link", "unlink"} THEN "link" ELSE "monitor"
           has == <<o.c, kind>> \in h
           want == IF o.op \in {"link", "monitor"} THEN (IF has THEN "exist" ELSE "ok") ELSE (IF has THEN "ok" ELSE "norel")
           h2 == IF o.op \in {"link", "monitor"} THEN h \cup {<<o.c, kind>>} ELSE h \ {<<o.c, kind>>}
       IN res[k] = want /\ ResOk(ops, res, k + 1, h2)

Judge(e) ==
  LET h == Held(e.ops, e.res, 1, {}) IN
  IF ~ResOk(e.ops, e.res, 1, {}) THEN "RelationResult"
  ELSE IF \E c \in 1..3 : e.exits[c] # (IF <<c, "link">> \in h THEN 1 ELSE 0) THEN "ExactlyOneNotice"
  ELSE IF \E c \in 1..3 : e.downs[c] # (IF <<c, "monitor">> \in h THEN 1 ELSE 0) THEN "ExactlyOneNotice"
  ELSE IF \E c \in 1..3 : e.other[c] # 0 THEN "NoStray"
  ELSE IF e.left # 0 THEN "NoStaleRelation"
  ELSE ""

Init == l = 1 /\ mismatch = "" /\ TLCSet(1, 1) /\ TLCSet(2, <<>>)
Next ==
  IF mismatch # ""
    THEN TLCSet(2, Append(TLCGet(2), <<mismatch, l - 1>>)) /\ mismatch' = "" /\ UNCHANGED l
    ELSE /\ l <= Len(TraceLog)
         /\ mismatch' = (IF Checks = {} THEN "" ELSE Judge(TraceLog[l]))
         /\ l' = l + 1
Spec == Init /\ [][Next]_vars
HWM == TLCSet(1, IF l > TLCGet(1) THEN l ELSE TLCGet(1))
TraceAccepted ==
  /\ \A k \in 1..Len(TLCGet(2)) : PrintT(<<"CLAUSE_VIOLATED", TLCGet(2)[k][1], "LINE", TLCGet(2)[k][2]>>)
  /\ IF TLCGet(1) = Len(TraceLog) + 1 THEN TLCGet(2) = <<>>
     ELSE PrintT(<<"TRACE_REJECTED_AT_LINE", TLCGet(1), "OF", Len(TraceLog)>>) /\ FALSE
=============================================================================
