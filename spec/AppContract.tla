----------------------------- MODULE AppContract -----------------------------
(***************************************************************************)
(* C17 (and the application clause of C10): the application lifecycle as a  *)
(* sequential reference, written from the documentation and the property    *)
(* text.  An application with N members (member FailAt fails in Init on the *)
(* first start), optionally depending on a second application; histories of *)
(* load / start(mode) / member failure(reason) / stop / stop-force / unload *)
(* executed on a real node, each operation followed by quiescence.          *)
(*   start:  dependencies first, members in order, Start callback once;     *)
(*           a failed start leaves no member running, state loaded.         *)
(*   member failure: Permanent - any; Transient - abnormal; Temporary -     *)
(*           the last member: all members terminated, Terminate callback    *)
(*           once with the causing reason, state back to loaded.            *)
(*   stop / stop-force: success only after all members terminated.          *)
(* Each recorded line is replayed on the reference and compared.            *)
(***************************************************************************)
EXTENDS Naturals, Sequences, FiniteSets, TLC, Json
CONSTANTS TraceFile, Checks
TraceLog == ndJsonDeserialize(TraceFile)

VARIABLES l, n, defmode, failat, dep, st, alive, mode, startCb, termCb, firstStart, depst, mismatch, skipping
cfgvars == <<n, defmode, failat, dep>>
refvars == <<st, alive, mode, startCb, termCb, firstStart, depst>>

Abnormal(r) == r \notin {"normal", "shutdown"}
AllDead == [i \in 1..n |-> FALSE]
AllLive == [i \in 1..n |-> TRUE]
Cur == [st |-> st, alive |-> alive, mode |-> mode, startCb |-> startCb, termCb |-> termCb, firstStart |-> firstStart, depst |-> depst,
        res |-> "ok", why |-> "", checkwhy |-> FALSE, started |-> FALSE, failed |-> FALSE]

ApplyFault(i, reason, s) ==
     IF s.st = "running" /\ i \in 1..n /\ s.alive[i] THEN
        LET a1 == [s.alive EXCEPT ![i] = FALSE]
            trigger == s.mode = "perm" \/ (s.mode = "trans" /\ Abnormal(reason))
        IN IF trigger THEN [s EXCEPT !.alive = AllDead, !.st = "loaded", !.termCb = @ + 1, !.why = reason, !.checkwhy = TRUE]
           ELSE IF a1 = AllDead THEN [s EXCEPT !.alive = AllDead, !.st = "loaded", !.termCb = @ + 1]
           ELSE [s EXCEPT !.alive = a1]
     ELSE s

\* the reference: returns the next state record plus expectations for this line
Apply(e, s) ==
  IF e.op = "load" THEN
     IF s.st = "unloaded" THEN [s EXCEPT !.st = "loaded", !.depst = IF dep THEN "loaded" ELSE "none"] ELSE [s EXCEPT !.res = "taken"]
  ELSE IF e.op = "unload" THEN
     IF s.st = "loaded" THEN [s EXCEPT !.st = "unloaded"]
     ELSE IF s.st = "running" THEN [s EXCEPT !.res = "running"] ELSE [s EXCEPT !.res = "unknown"]
  ELSE IF e.op = "start" THEN
     \* (the harness lets the member fail in Init only during the first start CALL of a history, whatever its outcome)
     IF s.st = "unloaded" THEN [s EXCEPT !.res = "unknown", !.firstStart = FALSE]
     ELSE IF s.st = "running" THEN [s EXCEPT !.res = "running", !.firstStart = FALSE]
     ELSE LET d == IF dep /\ s.depst = "loaded" THEN "running" ELSE s.depst IN
          IF failat > 0 /\ s.firstStart
            THEN [s EXCEPT !.depst = d, !.firstStart = FALSE, !.res = "err:R:initfail", !.failed = TRUE]
            ELSE [s EXCEPT !.depst = d, !.firstStart = FALSE, !.st = "running", !.alive = AllLive, !.startCb = @ + 1, !.started = TRUE,
                           !.mode = IF e.opmode = "" THEN defmode ELSE e.opmode]
  ELSE IF e.op = "startdie" THEN
     \* member i dies between its spawn and its entry into the group: a start followed by that death (if the member was not caught
     \* in the window - e.held false - nothing but the start happened)
     LET s1 == IF s.st = "unloaded" THEN [s EXCEPT !.res = "unknown", !.firstStart = FALSE]
               ELSE IF s.st = "running" THEN [s EXCEPT !.res = "running", !.firstStart = FALSE]
               ELSE LET d == IF dep /\ s.depst = "loaded" THEN "running" ELSE s.depst IN
                    IF failat > 0 /\ s.firstStart
                      THEN [s EXCEPT !.depst = d, !.firstStart = FALSE, !.res = "err:R:initfail", !.failed = TRUE]    \* the start fails further on: nothing stays
                      ELSE [s EXCEPT !.depst = d, !.firstStart = FALSE, !.st = "running", !.alive = AllLive, !.startCb = @ + 1, !.started = TRUE, !.mode = defmode]
     IN IF e.held /\ s.st = "loaded" /\ s1.st = "running" THEN [ApplyFault(e.i, "kill", s1) EXCEPT !.started = FALSE] ELSE s1
  ELSE IF e.op = "termrace" THEN
     \* two terminations of one run overlap (the first is kept before it looks whether it was the last member, the second - told to
     \* exit meanwhile - right after it has left the group): the outcome is that of the two one after the other
     LET s1 == ApplyFault(e.i, e.reason, s) IN
     IF e.held /\ s1.st = "running" THEN ApplyFault(e.j, "shutdown", s1) ELSE s1
  ELSE IF e.op = "startstop" THEN
     \* a stop request arrives while the start is between two members: either it is refused and the start goes through, or it is
     \* served after the start - never a half-started application
     LET s1 == IF s.st = "unloaded" THEN [s EXCEPT !.res = "unknown", !.firstStart = FALSE]
               ELSE IF s.st = "running" THEN [s EXCEPT !.res = "running", !.firstStart = FALSE]
               ELSE LET d == IF dep /\ s.depst = "loaded" THEN "running" ELSE s.depst IN
                    [s EXCEPT !.depst = d, !.firstStart = FALSE, !.st = "running", !.alive = AllLive, !.startCb = @ + 1, !.started = TRUE, !.mode = defmode]
     IN IF e.held /\ e.res2 = "ok" /\ s1.st = "running"
          THEN [s1 EXCEPT !.alive = AllDead, !.st = "loaded", !.termCb = @ + 1, !.why = IF e.reason = "force" THEN "kill" ELSE "shutdown", !.checkwhy = TRUE, !.started = FALSE]
          ELSE s1
  ELSE IF e.op = "fault" THEN ApplyFault(e.i, e.reason, s)
  ELSE IF e.op = "fault2" THEN
     \* member j sits in a handler while member i dies; j then leaves its handler with its own reason: the outcome is that of the two
     \* faults one after the other - in particular the reason of the FIRST one that makes the application stop is the causing reason
     LET s1 == ApplyFault(e.i, e.reason, s) IN
     IF s1.st = "running" THEN ApplyFault(e.j, e.reason2, s1) ELSE s1
  ELSE IF e.op = "stopunload" THEN
     \* a stop during which an unload is attempted: the outcome is that of the stop (the unload must have been refused, see Compare)
     IF s.st = "unloaded" THEN [s EXCEPT !.res = "unknown"]
     ELSE IF s.st = "loaded" THEN [s EXCEPT !.st = "unloaded"]       \* nothing to stop: the unload goes through
     ELSE [s EXCEPT !.alive = AllDead, !.st = IF e.held THEN "loaded" ELSE "unloaded", !.termCb = @ + 1, !.why = "shutdown", !.checkwhy = TRUE]
  ELSE IF e.op = "depstopstart" THEN
     \* the dependency is stopped (its member keeps the stop in progress for a while) and the application is started meanwhile: the
     \* start must be refused (see Compare), so nothing changes here; the dependency ends up loaded
     IF dep /\ s.depst = "running" THEN [s EXCEPT !.depst = "loaded", !.res = "ok"] ELSE s
  ELSE IF e.op \in {"stop", "stopforce"} THEN
     IF s.st = "unloaded" THEN [s EXCEPT !.res = "unknown"]
     ELSE IF s.st = "loaded" THEN s
     ELSE [s EXCEPT !.alive = AllDead, !.st = "loaded", !.termCb = @ + 1, !.why = IF e.op = "stop" THEN "shutdown" ELSE "kill", !.checkwhy = TRUE]
  ELSE s

Increasing(sq) == \A a, b \in 1..Len(sq) : a < b => sq[a] < sq[b]

Compare(e, s) ==
  IF "NoHang" \in Checks /\ e.hung THEN "NoHang"
  \* an application that is running or stopping cannot be unloaded
  ELSE IF "UnloadRefused" \in Checks /\ e.op = "stopunload" /\ e.held /\ s.checkwhy /\ e.res2 = "ok" THEN "UnloadRefused"
  \* an application whose dependency is on its way down cannot be started
  ELSE IF "StartNeedsDeps" \in Checks /\ e.op = "depstopstart" /\ e.held /\ e.res2 = "ok" THEN "StartNeedsDeps"
  \* ApplicationStopForce waits with a zero timeout: it may report "stopping" although everything is down (not judged)
  ELSE IF "Result" \in Checks /\ e.res # s.res /\ ~(e.op = "stopforce" /\ e.res = "stopping" /\ s.res = "ok") THEN "Result"
  ELSE IF "State" \in Checks /\ e.state # s.st THEN "State"
  ELSE IF "Members" \in Checks /\ e.alive # s.alive THEN "Members"
  ELSE IF "StartOnce" \in Checks /\ e.startcb # s.startCb THEN "StartOnce"
  ELSE IF "TermOnce" \in Checks /\ ~s.failed /\ e.termcb # s.termCb THEN "TermOnce"
  ELSE IF "TermReason" \in Checks /\ s.checkwhy /\ e.termwhy # (IF s.why \in {"normal", "shutdown", "kill"} THEN s.why ELSE "R:" \o s.why) THEN "TermReason"
  ELSE IF "StartMode" \in Checks /\ s.started /\ e.startmode # s.mode THEN "StartMode"
  ELSE IF "MembersInOrder" \in Checks /\ s.started /\ (e.initorder # [i \in 1..n |-> i]) THEN "MembersInOrder"
  ELSE IF "DepsFirst" \in Checks /\ s.started /\ dep /\ (e.depstate # "running" \/ ~e.depfirst) THEN "DepsFirst"
  ELSE IF "NoOrphan" \in Checks /\ e.orphans # 0 THEN "NoOrphan"
  ELSE ""

Init ==
  /\ l = 1 /\ n = 0 /\ defmode = "" /\ failat = 0 /\ dep = FALSE
  /\ st = "unloaded" /\ alive = <<>> /\ mode = "" /\ startCb = 0 /\ termCb = 0 /\ firstStart = TRUE /\ depst = "none"
  /\ mismatch = "" /\ skipping = FALSE /\ TLCSet(1, 1) /\ TLCSet(2, <<>>)

Line ==
  LET e == TraceLog[l] IN
  IF e.ev = "cfg" THEN
     /\ n' = e.n /\ defmode' = e.mode /\ failat' = e.failat /\ dep' = e.dep
     /\ st' = "unloaded" /\ alive' = [i \in 1..e.n |-> FALSE] /\ mode' = "" /\ startCb' = 0 /\ termCb' = 0 /\ firstStart' = TRUE /\ depst' = "none"
     /\ mismatch' = ""
  ELSE IF e.ev = "op" THEN
     LET s == Apply(e, Cur) IN
     /\ UNCHANGED cfgvars
     /\ st' = s.st /\ alive' = s.alive /\ mode' = s.mode /\ startCb' = s.startCb /\ firstStart' = s.firstStart /\ depst' = s.depst
     \* after a failed start the code may or may not run the Terminate callback (not specified): adopt what was observed
     /\ termCb' = IF s.failed THEN e.termcb ELSE s.termCb
     /\ mismatch' = Compare(e, s)
  ELSE UNCHANGED <<cfgvars, refvars>> /\ mismatch' = ""

Next ==
  IF mismatch # ""
    THEN /\ TLCSet(2, Append(TLCGet(2), <<mismatch, l - 1>>))
         /\ skipping' = TRUE /\ mismatch' = "" /\ UNCHANGED <<cfgvars, refvars, l>>
    ELSE /\ l <= Len(TraceLog)
         /\ IF skipping /\ TraceLog[l].ev # "cfg"
              THEN l' = l + 1 /\ UNCHANGED <<cfgvars, refvars, mismatch, skipping>>
              ELSE Line /\ l' = l + 1 /\ skipping' = FALSE
Spec == Init /\ [][Next]_<<cfgvars, refvars, l, mismatch, skipping>>

HWM == TLCSet(1, IF l > TLCGet(1) THEN l ELSE TLCGet(1))
TraceAccepted ==
  /\ \A k \in 1..Len(TLCGet(2)) : PrintT(<<"CLAUSE_VIOLATED", TLCGet(2)[k][1], "LINE", TLCGet(2)[k][2]>>)
  /\ IF TLCGet(1) = Len(TraceLog) + 1 THEN TLCGet(2) = <<>>
     ELSE PrintT(<<"TRACE_REJECTED_AT_LINE", TLCGet(1), "OF", Len(TraceLog)>>) /\ FALSE
=============================================================================
