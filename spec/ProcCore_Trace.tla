--------------------------- MODULE ProcCore_Trace ---------------------------
(***************************************************************************)
(* Trace specification: accepts an execution recorded from the real code      *)
(* (harness/proccore, one ndjson line per step granted by the controller)  *)
(* only if it is a behaviour of ProcCore, binding the logged projection     *)
(* (state word, table membership, queue lengths, visible queue contents,    *)
(* in-callback counter, results, picked message, terminate reason) to the   *)
(* spec variables.  All ProcCore invariants are evaluated in every state.   *)
(* Many executions are concatenated; a "reset" line starts a new one.       *)
(***************************************************************************)
EXTENDS ProcCore, Json

CONSTANT TraceFile
TraceLog == ndJsonDeserialize(TraceFile)

VARIABLE l     \* next line of TraceLog to consume
tvars == <<vars, l>>

TraceInit == Init /\ l = 1 /\ TLCSet(1, 1)

ResetVars ==
  /\ state' = (IF WithSpawn THEN "init" ELSE "sleep") /\ inTable' = ~WithSpawn
  /\ sp' = (IF WithSpawn THEN [pc |-> "start", named |-> FALSE] ELSE [pc |-> "none", named |-> TRUE])
  /\ mbox' = [q \in QSet |-> <<>>]
  /\ spc' = [s \in Senders |-> IF Len(Ops[s]) = 0 THEN "done" ELSE "send.lookup"]
  /\ sn' = [s \in Senders |-> 1]
  /\ sres' = [s \in Senders |-> <<>>]
  /\ rpc' = [r \in Runners |-> "none"]
  /\ rcur' = [r \in Runners |-> NoCell]
  /\ rwhy' = [r \in Runners |-> ""]
  /\ kpc' = [k \in Killers |-> "start"]
  /\ kres' = [k \in Killers |-> ""]
  /\ tpc' = [t \in TThreads |-> "none"]
  /\ inCb' = {} /\ handled' = <<>> /\ terms' = <<>> /\ unregs' = 0
  /\ cbAfterTerm' = FALSE

\* the logged projection of the process after the step
Bind(e) ==
  /\ state' = e.st
  /\ inTable' = (e.tab = "T")
  /\ \A i \in 1..4 : Len(mbox'[QSeq[i]]) = e.ql[i]
  /\ \A i \in 1..4 : VisPrefix(mbox'[QSeq[i]]) = e.vis[i]
  /\ Cardinality(inCb') = e.incb

Last(sq) == sq[Len(sq)]

TraceReset ==
  /\ l <= Len(TraceLog) /\ TraceLog[l].ev = "reset"
  /\ ResetVars
  /\ Bind(TraceLog[l])
  /\ l' = l + 1

TraceEnd ==
  /\ l <= Len(TraceLog) /\ TraceLog[l].ev = "end"
  /\ TraceLog[l].stall = FALSE
  /\ UNCHANGED vars
  /\ Bind(TraceLog[l])
  /\ Quiescent
  /\ l' = l + 1

StepS(e) ==
  /\ e.th \in Senders /\ spc[e.th] = e.from
  /\ SStep(e.th)
  /\ spc'[e.th] = e.to
  /\ (e.res # "" => (Len(sres'[e.th]) = Len(sres[e.th]) + 1 /\ Last(sres'[e.th]) = e.res))
  /\ (e.res = "" => sres'[e.th] = sres[e.th])

StepR(e) ==
  /\ e.th \in Runners /\ rpc[e.th] = e.from
  /\ RStep(e.th)
  /\ rpc'[e.th] = e.to
  /\ (e.to = "cb" => rcur'[e.th].id = e.id)
  /\ (e.to = "term" => Last(terms') = e.reason)

StepK(e) ==
  /\ e.th \in Killers /\ kpc[e.th] = e.from
  /\ KStep(e.th)
  /\ kpc'[e.th] = e.to
  /\ (e.to = "done" => kres'[e.th] = e.res)

StepT(e) ==
  /\ e.th \in TThreads /\ tpc[e.th] = e.from
  /\ TStep(e.th)
  /\ tpc'[e.th] = e.to
  /\ (e.to = "term" => Last(terms') = e.reason)

StepP(e) ==
  /\ e.th = "P" /\ sp.pc = e.from
  /\ PStep
  /\ sp'.pc = e.to

TraceStep ==
  /\ l <= Len(TraceLog) /\ TraceLog[l].ev = "step"
  /\ LET e == TraceLog[l] IN
     /\ e.stall = FALSE
     /\ \/ (e.k = "S" /\ StepS(e))
        \/ (e.k = "R" /\ StepR(e))
        \/ (e.k = "K" /\ StepK(e))
        \/ (e.k = "T" /\ StepT(e))
        \/ (e.k = "P" /\ StepP(e))
     /\ Bind(e)
  /\ l' = l + 1

TraceNext == TraceReset \/ TraceStep \/ TraceEnd

TraceSpec == TraceInit /\ [][TraceNext]_tvars

\* high-water mark of consumed lines (needs -workers 1)
HWM == TLCSet(1, IF l > TLCGet(1) THEN l ELSE TLCGet(1))

TraceAccepted ==
  IF TLCGet(1) = Len(TraceLog) + 1 THEN TRUE
  ELSE /\ PrintT(<<"TRACE_REJECTED_AT_LINE", TLCGet(1), "OF", Len(TraceLog)>>)
       /\ FALSE
=============================================================================
