------------------------------- MODULE MetaObs --------------------------------
(***************************************************************************)
(* Trace oracle for meta-process scenarios (harness/metafam): every callback *)
(* entry and exit of a real meta-process, logged under one mutex, is         *)
(* replayed and the clauses of spec/MetaCore.tla are evaluated:              *)
(*   SerialHandlers  no HandleMessage begins while another one is running    *)
(*   SerialTerm      Terminate does not overlap a HandleMessage              *)
(*   TermOnce        Terminate runs at most once                             *)
(*   Final           no HandleMessage begins after Terminate began           *)
(*   AtMostOnce      no message is handled twice                             *)
(*   NoLoss          at the "end" marker of a scenario in which the meta     *)
(*                   was not terminated, every accepted message was handled  *)
(* events: send(id,res) hb(id) he(id) tb(reason) te sr end                   *)
(***************************************************************************)
EXTENDS Naturals, Sequences, FiniteSets, TLC, Json
CONSTANTS TraceFile, Checks
TraceLog == ndJsonDeserialize(TraceFile)
VARIABLES l, mismatch
vars == <<l, mismatch>>

RECURSIVE Walk(_, _, _, _, _, _, _)
\* k: position; act: set of active callback ids ("T" for Terminate); terms: count; tb: Terminate begun; done: handled ids; sr: Start returned
Walk(ev, k, act, terms, tb, done, sr) ==
  IF k > Len(ev) THEN ""
  ELSE LET e == ev[k] IN
    IF e.ev = "hb" THEN
         IF act \ {"T"} # {} THEN "SerialHandlers"
         ELSE IF "T" \in act THEN "SerialTerm"
         ELSE IF tb THEN "Final"
         ELSE IF e.id \in done THEN "AtMostOnce"
         ELSE Walk(ev, k + 1, act \cup {e.id}, terms, tb, done \cup {e.id}, sr)
    ELSE IF e.ev = "he" THEN Walk(ev, k + 1, act \ {e.id}, terms, tb, done, sr)
    ELSE IF e.ev = "tb" THEN
         IF terms >= 1 THEN "TermOnce"
         ELSE IF act # {} THEN "SerialTerm"
         ELSE Walk(ev, k + 1, act \cup {"T"}, terms + 1, TRUE, done, sr)
    ELSE IF e.ev = "te" THEN Walk(ev, k + 1, act \ {"T"}, terms, tb, done, sr)
    ELSE IF e.ev = "sr" THEN Walk(ev, k + 1, act, terms, tb, done, TRUE)
    ELSE IF e.ev = "end" THEN
         IF ~tb /\ ~sr /\ \E i \in 1..Len(ev) : ev[i].ev = "send" /\ ev[i].res = "ok" /\ i < k /\ ev[i].id \notin done THEN "NoLoss"
         ELSE Walk(ev, k + 1, act, terms, tb, done, sr)
    ELSE Walk(ev, k + 1, act, terms, tb, done, sr)

Judge(x) == Walk(x.events, 1, {}, 0, FALSE, {}, FALSE)
Init == l = 1 /\ mismatch = "" /\ TLCSet(1, 1) /\ TLCSet(2, <<>>)
Next ==
  IF mismatch # ""
    THEN TLCSet(2, Append(TLCGet(2), <<mismatch, l - 1>>)) /\ mismatch' = "" /\ UNCHANGED l
    ELSE /\ l <= Len(TraceLog)
         /\ mismatch' = (IF Checks = {} THEN "" ELSE Judge(TraceLog[l]))
         /\ l' = l + 1
Spec == Init /\ [][Next]_vars
HWM == TLCSet(1, IF l > TLCGet(1) THEN l ELSE TLCGet(1))
TraceAccepted ==
  /\ \A k \in 1..Len(TLCGet(2)) : PrintT(<<"CLAUSE_VIOLATED", TLCGet(2)[k][1], "LINE", TLCGet(2)[k][2]>>)
  /\ IF TLCGet(1) = Len(TraceLog) + 1 THEN TLCGet(2) = <<>>
     ELSE PrintT(<<"TRACE_REJECTED_AT_LINE", TLCGet(1), "OF", Len(TraceLog)>>) /\ FALSE
=============================================================================
