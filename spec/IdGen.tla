-------------------------------- MODULE IdGen --------------------------------
(***************************************************************************)
(* Identifier generation (C06, C07): node.MakeRef derives the words of a    *)
(* reference from one atomic counter by bit slicing:                        *)
(*      ID[0] = c mod 2^Low        ID[1] = c div 2^Shift                     *)
(* (node/core.go MakeRef; aliases and meta-process ids are minted from it). *)
(* The references of a node's life are pairwise distinct iff the slicing is *)
(* injective, i.e. iff Shift <= Low.  As pinned the code had Low = 18,      *)
(* Shift = 46: the 2^18+1-th reference equals the first one.                *)
(* The harness measures Low and Shift of the real generator (where ID[0]    *)
(* wraps, where ID[1] first changes) and this module is checked with the    *)
(* measured relation scaled down (Low' = min(Low,3), Shift' = Low' + sign). *)
(***************************************************************************)
EXTENDS Naturals, FiniteSets, TLC
CONSTANTS Low, Shift, Max
VARIABLES c, seen, dup
Pow2(n) == IF n = 0 THEN 1 ELSE IF n = 1 THEN 2 ELSE IF n = 2 THEN 4 ELSE IF n = 3 THEN 8 ELSE IF n = 4 THEN 16 ELSE IF n = 5 THEN 32 ELSE 64
Ref(x) == <<x % Pow2(Low), x \div Pow2(Shift)>>
Init == c = 0 /\ seen = {} /\ dup = FALSE
Next == /\ c < Max
        /\ c' = c + 1
        /\ dup' = (dup \/ Ref(c + 1) \in seen)
        /\ seen' = seen \cup {Ref(c + 1)}
Spec == Init /\ [][Next]_<<c, seen, dup>>
Fresh == ~dup
=============================================================================
