------------------------------- MODULE Registry -------------------------------
(***************************************************************************)
(* Name registration racing with other registrations, with UnregisterName   *)
(* and with the termination of the process (C06).                           *)
(*                                                                         *)
(* Node.RegisterName(name, pid) = name.lookup (processes.Load + alive check)*)
(*   name.flag  (p.registered CAS false->true)                              *)
(*   name.store (names.LoadOrStore; roll the flag back when taken)          *)
(*   name.set   (p.name = name)                                             *)
(*   [repaired] name.recheck (process not alive any more => take the name   *)
(*              back with CompareAndDelete and fail); the cleanup of the    *)
(*              terminator uses CompareAndDelete as well                    *)
(* Termination (Node.Kill of a sleeping process):                           *)
(*   kill.zombie (state word leaves the alive states), unreg.delete         *)
(*   (processes.Delete), unreg.release (the cleanup of the name: reads the  *)
(*   flag and the name field, deletes the table entry)                      *)
(* Code anchors: node/node.go RegisterName, Kill, unregisterProcess.        *)
(***************************************************************************)
EXTENDS Naturals, FiniteSets, Sequences, TLC

CONSTANTS
  Procs,        \* e.g. {"P1","P2"}
  Names,        \* e.g. {"n1","n2"}
  Registrars,   \* thread labels {"G1","G2"}
  Tgt,          \* [Registrars -> Procs]  process the registrar registers a name for
  Want,         \* [Registrars -> Names]
  Victim,       \* the process the terminator kills
  Fix_NameLeak  \* TRUE = repaired design (re-check after setting the name)

VARIABLES
  inTable, alive,     \* [Procs -> BOOLEAN]
  registered, pname,  \* [Procs -> BOOLEAN], [Procs -> name or ""]
  names,              \* [Names -> owner process or ""]
  gpc, gres,          \* registrar pc / result
  tpc

vars == <<inTable, alive, registered, pname, names, gpc, gres, tpc>>

Init ==
  /\ inTable = [p \in Procs |-> TRUE] /\ alive = [p \in Procs |-> TRUE]
  /\ registered = [p \in Procs |-> FALSE] /\ pname = [p \in Procs |-> ""]
  /\ names = [n \in Names |-> ""]
  /\ gpc = [g \in Registrars |-> "name.lookup"] /\ gres = [g \in Registrars |-> ""]
  /\ tpc = "start"

Fail(g, e) == gpc' = [gpc EXCEPT ![g] = "done"] /\ gres' = [gres EXCEPT ![g] = e]

GLookup(g) ==
  /\ gpc[g] = "name.lookup"
  /\ IF ~inTable[Tgt[g]] THEN Fail(g, "unknown")
     ELSE IF ~alive[Tgt[g]] THEN Fail(g, "terminated")
     ELSE gpc' = [gpc EXCEPT ![g] = "name.flag"] /\ UNCHANGED gres
  /\ UNCHANGED <<inTable, alive, registered, pname, names, tpc>>

GFlag(g) ==
  /\ gpc[g] = "name.flag"
  /\ IF ~registered[Tgt[g]]
       THEN registered' = [registered EXCEPT ![Tgt[g]] = TRUE] /\ gpc' = [gpc EXCEPT ![g] = "name.store"] /\ UNCHANGED gres
       ELSE Fail(g, "taken") /\ UNCHANGED registered
  /\ UNCHANGED <<inTable, alive, pname, names, tpc>>

GStore(g) ==
  /\ gpc[g] = "name.store"
  /\ IF names[Want[g]] # ""
       THEN registered' = [registered EXCEPT ![Tgt[g]] = FALSE] /\ Fail(g, "taken") /\ UNCHANGED names
       ELSE /\ names' = [names EXCEPT ![Want[g]] = Tgt[g]]
            /\ gpc' = [gpc EXCEPT ![g] = "name.set"] /\ UNCHANGED <<registered, gres>>
  /\ UNCHANGED <<inTable, alive, pname, tpc>>

GSet(g) ==
  /\ gpc[g] = "name.set"
  /\ pname' = [pname EXCEPT ![Tgt[g]] = Want[g]]
  /\ IF Fix_NameLeak THEN gpc' = [gpc EXCEPT ![g] = "name.recheck"] /\ UNCHANGED gres
     ELSE gpc' = [gpc EXCEPT ![g] = "done"] /\ gres' = [gres EXCEPT ![g] = "ok"]
  /\ UNCHANGED <<inTable, alive, registered, names, tpc>>

GRecheck(g) ==
  /\ gpc[g] = "name.recheck"
  /\ IF alive[Tgt[g]]
       THEN gpc' = [gpc EXCEPT ![g] = "done"] /\ gres' = [gres EXCEPT ![g] = "ok"] /\ UNCHANGED names
       ELSE /\ names' = IF names[Want[g]] = Tgt[g] THEN [names EXCEPT ![Want[g]] = ""] ELSE names
            /\ Fail(g, "terminated")
  /\ UNCHANGED <<inTable, alive, registered, pname, tpc>>

TStart == tpc = "start" /\ tpc' = "kill.zombie" /\ UNCHANGED <<inTable, alive, registered, pname, names, gpc, gres>>
TSkip == tpc = "start" /\ tpc' = "skipped" /\ UNCHANGED <<inTable, alive, registered, pname, names, gpc, gres>>
TSwap == tpc = "kill.zombie" /\ alive' = [alive EXCEPT ![Victim] = FALSE] /\ tpc' = "unreg.delete"
         /\ UNCHANGED <<inTable, registered, pname, names, gpc, gres>>
TDelete == tpc = "unreg.delete" /\ inTable' = [inTable EXCEPT ![Victim] = FALSE] /\ tpc' = "unreg.release"
           /\ UNCHANGED <<alive, registered, pname, names, gpc, gres>>
\* as pinned: if p.registered { names.Delete(p.name) } - a plain delete, whoever owns that entry;
\* repaired: names.CompareAndDelete(p.name, p) - only the victim's own entry
TName ==
  /\ tpc = "unreg.release"
  /\ names' = IF registered[Victim] /\ pname[Victim] # "" /\ (~Fix_NameLeak \/ names[pname[Victim]] = Victim)
               THEN [names EXCEPT ![pname[Victim]] = ""] ELSE names
  /\ tpc' = "done"
  /\ UNCHANGED <<inTable, alive, registered, pname, gpc, gres>>

GStep(g) == GLookup(g) \/ GFlag(g) \/ GStore(g) \/ GSet(g) \/ GRecheck(g)
TStep == TStart \/ TSkip \/ TSwap \/ TDelete \/ TName
Next == (\E g \in Registrars : GStep(g)) \/ TStep
Spec == Init /\ [][Next]_vars

-----------------------------------------------------------------------------
Quiescent == (\A g \in Registrars : gpc[g] = "done") /\ tpc \in {"done", "skipped"}
\* of several claims of one name at most one wins; of several claims for one process at most one wins
\* (a later claim of the same name may succeed once the earlier owner has terminated and released it)
OneWinner == \A g, h \in Registrars : (g # h /\ gres[g] = "ok" /\ gres[h] = "ok") =>
                 /\ Tgt[g] # Tgt[h]
                 /\ (Want[g] = Want[h] => (~alive[Tgt[g]] \/ ~alive[Tgt[h]]))
\* a name belongs to at most one live process which believes it owns it
OwnerConsistent == Quiescent => \A n \in Names : names[n] # "" =>
      (inTable[names[n]] /\ pname[names[n]] = n /\ registered[names[n]])
\* nothing resolves to a terminated process
Released == Quiescent => \A n \in Names : names[n] # "" => inTable[names[n]]
\* a successful claim on a process that is still alive is visible
WinnerHolds == Quiescent => \A g \in Registrars : (gres[g] = "ok" /\ inTable[Tgt[g]]) => names[Want[g]] = Tgt[g]
=============================================================================
