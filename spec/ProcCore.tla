------------------------------ MODULE ProcCore ------------------------------
(***************************************************************************)
(* Process core of ergo: state word, four MPSC mailboxes (two-step         *)
(* lock-free push), run loop, send paths, Node.Kill, terminate election.    *)
(*                                                                         *)
(* Implementation-shaped: ONE ACTION PER YIELD POINT of the code           *)
(* (lib.VerifPoint, build tag "verif"); the pc of a thread is the name of   *)
(* the yield point it is parked at.  A step of thread t from pc p is the    *)
(* code between yield point p and the next one.                             *)
(*                                                                         *)
(* Code anchors: node/process.go run(), node/node.go Kill()/               *)
(* unregisterProcess(), node/core.go RouteSend*/sendExitMessage,           *)
(* lib/mpsc.go Push/Pop/Item, act/actor.go ProcessRun.                      *)
(* Properties: C01 (Serial), C02 (delivery), C03 (order), C05 (terminate). *)
(***************************************************************************)
EXTENDS Naturals, Sequences, FiniteSets, TLC

CONSTANTS
  Senders,        \* set of sender thread labels, e.g. {"S1","S2"}
  Ops,            \* [Senders -> Seq([q : QSet, kind : Kinds])]
  Killers,        \* set of killer thread labels
  TOf,            \* [Killers -> label of the terminate goroutine Kill starts]
  RSeq,           \* sequence of runner slot labels <<"R1","R2",...>>
  Limit,          \* mailbox size per queue, 0 = unbounded
  Trap,           \* BOOLEAN: process traps exit signals
  WithSpawn,      \* BOOLEAN: the process is being spawned (with a registered name) by thread "P" while the senders act
  Fix_KillZombee, \* TRUE = Kill treats Zombee like Running (repaired P1)
  Mut_NoRecheck,  \* self-test mutant: no mailbox re-check after the sleep CAS
  Mut_WakeBeforePush \* self-test mutant: unused in Core (kept for MC files)

QSeq == <<"urgent", "system", "main", "log">>
QSet == {"urgent", "system", "main", "log"}
\* kinds of operations a sender performs
\*  msg    regular message, handler returns nil
\*  err    regular message, handler returns an error (terminates with that error)
\*  panic  regular message, handler panics
\*  exit   exit signal from a non-parent (trapped if Trap)
\*  exitp  exit signal from the parent (never trapped)
\*  call   regular message whose handler makes a synchronous request to another process (which answers at once):
\*         waitResponse = wait.enter (CAS running -> wait), select, wait.leave (CAS wait -> running)
Kinds == {"msg", "err", "panic", "exit", "exitp", "call"}

Runners == {RSeq[i] : i \in 1..Len(RSeq)}
TThreads == {TOf[k] : k \in Killers}

VARIABLES
  state,      \* process state word: init sleep running wait zombee terminated
  inTable,    \* present in node.processes
  mbox,       \* [QSet -> Seq([id, kind, linked])] in head-swap order
  spc,        \* [Senders -> pc]
  sn,         \* [Senders -> index of the current op]
  sres,       \* [Senders -> Seq(result)] results of completed ops
  rpc,        \* [Runners -> pc]
  rcur,       \* [Runners -> cell being handled or NoCell]
  rwhy,       \* [Runners -> reason the runner terminates the process with]
  kpc,        \* [Killers -> pc]
  kres,       \* [Killers -> result of Kill]
  tpc,        \* [TThreads -> pc]
  inCb,       \* set of thread labels currently inside a user callback
  handled,    \* Seq of message ids in the order their handler was entered
  terms,      \* Seq of reasons the terminate callback was entered with
  unregs,     \* number of unregisterProcess executions
  cbAfterTerm,\* a handler callback was entered after terminate was entered
  sp          \* spawner thread "P" (node.spawn with a registered name): [pc, named]; pc = "none" when the process exists from the start

vars == <<state, inTable, mbox, spc, sn, sres, rpc, rcur, rwhy, kpc, kres, tpc,
          inCb, handled, terms, unregs, cbAfterTerm, sp>>

NoCell == [id |-> "", kind |-> "", linked |-> FALSE]
MsgId(s, n) == s \o ":" \o ToString(n)
Alive(st) == st \in {"init", "sleep", "running", "wait"}

Init ==
  /\ state = (IF WithSpawn THEN "init" ELSE "sleep") /\ inTable = ~WithSpawn
  /\ sp = (IF WithSpawn THEN [pc |-> "start", named |-> FALSE] ELSE [pc |-> "none", named |-> TRUE])
  /\ mbox = [q \in QSet |-> <<>>]
  /\ spc = [s \in Senders |-> IF Len(Ops[s]) = 0 THEN "done" ELSE "send.lookup"]
  /\ sn = [s \in Senders |-> 1]
  /\ sres = [s \in Senders |-> <<>>]
  /\ rpc = [r \in Runners |-> "none"]
  /\ rcur = [r \in Runners |-> NoCell]
  /\ rwhy = [r \in Runners |-> ""]
  /\ kpc = [k \in Killers |-> "start"]
  /\ kres = [k \in Killers |-> ""]
  /\ tpc = [t \in TThreads |-> "none"]
  /\ inCb = {} /\ handled = <<>> /\ terms = <<>> /\ unregs = 0
  /\ cbAfterTerm = FALSE

-----------------------------------------------------------------------------
(* Senders: RouteSendPID = lookup, alive check, push (swap), link, run().   *)
(* sendExitMessage has no alive check.                                       *)

Op(s) == Ops[s][sn[s]]
IsExit(s) == Op(s).kind \in {"exit", "exitp"}
OpQ(s) == IF IsExit(s) THEN "urgent" ELSE Op(s).q

Finish(s, res) ==
  /\ sres' = [sres EXCEPT ![s] = Append(@, res)]
  /\ sn' = [sn EXCEPT ![s] = @ + 1]
  /\ spc' = [spc EXCEPT ![s] = IF sn[s] >= Len(Ops[s]) THEN "done" ELSE "send.lookup"]

\* a send by pid reads the process table, a send by name the name table
Present(s) == IF Op(s).via = "name" THEN sp.named ELSE inTable
SLookup(s) ==
  /\ spc[s] = "send.lookup"
  /\ IF Present(s)
       THEN /\ spc' = [spc EXCEPT ![s] = IF IsExit(s) THEN "mpsc.push" ELSE "send.alive"]
            /\ UNCHANGED <<sres, sn>>
       ELSE Finish(s, "unknown")
  /\ UNCHANGED <<state, inTable, mbox, rpc, rcur, rwhy, kpc, kres, tpc, inCb, handled, terms, unregs, cbAfterTerm, sp>>

SAlive(s) ==
  /\ spc[s] = "send.alive"
  /\ IF Alive(state)
       THEN spc' = [spc EXCEPT ![s] = "mpsc.push"] /\ UNCHANGED <<sres, sn>>
       ELSE Finish(s, "terminated")
  /\ UNCHANGED <<state, inTable, mbox, rpc, rcur, rwhy, kpc, kres, tpc, inCb, handled, terms, unregs, cbAfterTerm, sp>>

\* queueLimitMPSC.Push: length check, then head swap (the cell is not yet reachable from the tail)
SPush(s) ==
  /\ spc[s] = "mpsc.push"
  /\ LET q == OpQ(s) IN
     IF Limit > 0 /\ Len(mbox[q]) + 1 > Limit
       THEN Finish(s, "full") /\ UNCHANGED mbox
       ELSE /\ mbox' = [mbox EXCEPT ![q] = Append(@, [id |-> MsgId(s, sn[s]), kind |-> Op(s).kind, linked |-> FALSE])]
            /\ spc' = [spc EXCEPT ![s] = "mpsc.link"]
            /\ UNCHANGED <<sres, sn>>
  /\ UNCHANGED <<state, inTable, rpc, rcur, rwhy, kpc, kres, tpc, inCb, handled, terms, unregs, cbAfterTerm, sp>>

\* store old_head.next: the cell becomes reachable
SLink(s) ==
  /\ spc[s] = "mpsc.link"
  /\ LET q == OpQ(s)
         i == CHOOSE j \in 1..Len(mbox[q]) : mbox[q][j].id = MsgId(s, sn[s])
     IN mbox' = [mbox EXCEPT ![q][i].linked = TRUE]
  /\ spc' = [spc EXCEPT ![s] = "run.wake"]
  /\ UNCHANGED <<state, inTable, sres, sn, rpc, rcur, rwhy, kpc, kres, tpc, inCb, handled, terms, unregs, cbAfterTerm, sp>>

FreeSlots == {i \in 1..Len(RSeq) : rpc[RSeq[i]] \in {"none", "done"}}
LowestFree == RSeq[CHOOSE i \in FreeSlots : \A j \in FreeSlots : i <= j]

\* process.run(): CAS sleep -> running; on success start a runner goroutine
SWake(s) ==
  /\ spc[s] = "run.wake"
  /\ IF state = "sleep"
       THEN /\ FreeSlots # {}      \* else the model bound is too small: SlotsSuffice reports it
            /\ rpc' = [rpc EXCEPT ![LowestFree] = "run.begin"]
            /\ state' = "running"
       ELSE UNCHANGED <<state, rpc>>
  /\ Finish(s, "ok")
  /\ UNCHANGED <<inTable, mbox, rcur, rwhy, kpc, kres, tpc, inCb, handled, terms, unregs, cbAfterTerm, sp>>

-----------------------------------------------------------------------------
(* Runner goroutine: process.run() body + act.Actor.ProcessRun loop         *)

\* a queue is seen non-empty by Pop()/Item() iff its first cell is linked
VisibleHead(q) == Len(mbox[q]) > 0 /\ mbox[q][1].linked
\* the cells reachable from the tail: maximal linked prefix
RECURSIVE VisPrefix(_)
VisPrefix(cells) == IF cells = <<>> \/ ~cells[1].linked THEN <<>>
                    ELSE <<cells[1].id>> \o VisPrefix(Tail(cells))
Visible(q) == VisPrefix(mbox[q])

RBegin(r) ==
  /\ rpc[r] = "run.begin"
  /\ rpc' = [rpc EXCEPT ![r] = "actor.pick"]
  /\ UNCHANGED <<state, inTable, mbox, spc, sn, sres, rcur, rwhy, kpc, kres, tpc, inCb, handled, terms, unregs, cbAfterTerm, sp>>

\* the three non-log classes in priority order
PickClass == CHOOSE i \in 1..3 : VisibleHead(QSeq[i]) /\ \A k \in 1..(i-1) : ~VisibleHead(QSeq[k])

\* one iteration of the dequeue loop up to the entry of the handler (atomic under the controller)
RPick(r) ==
  /\ rpc[r] = "actor.pick"
  /\ IF state # "running"
       THEN \* killed: ProcessRun returns TerminateReasonKill
            /\ rpc' = [rpc EXCEPT ![r] = "run.term"]
            /\ rwhy' = [rwhy EXCEPT ![r] = "kill"]
            /\ UNCHANGED <<mbox, rcur, inCb, cbAfterTerm>>
       ELSE IF \E i \in 1..3 : VisibleHead(QSeq[i])
         THEN LET q == QSeq[PickClass]
                  c == mbox[q][1]
                  direct == c.kind = "exitp" \/ (c.kind = "exit" /\ ~Trap)
              IN /\ mbox' = [mbox EXCEPT ![q] = Tail(@)]
                 /\ IF direct
                      THEN \* untrapped exit: no callback, ProcessRun returns the reason
                           /\ rpc' = [rpc EXCEPT ![r] = "run.term"]
                           /\ rwhy' = [rwhy EXCEPT ![r] = "exit:" \o c.id]
                           /\ UNCHANGED <<rcur, inCb, cbAfterTerm>>
                      ELSE /\ rcur' = [rcur EXCEPT ![r] = c]
                           /\ rpc' = [rpc EXCEPT ![r] = "cb"]
                           /\ inCb' = inCb \cup {r}
                           /\ cbAfterTerm' = (cbAfterTerm \/ terms # <<>>)
                           /\ UNCHANGED rwhy
         ELSE /\ rpc' = [rpc EXCEPT ![r] = "run.sleep"]
              /\ UNCHANGED <<mbox, rcur, rwhy, inCb, cbAfterTerm>>
  /\ handled' = IF rpc'[r] = "cb" THEN Append(handled, rcur'[r].id) ELSE handled
  /\ UNCHANGED <<state, inTable, spc, sn, sres, kpc, kres, tpc, terms, unregs, sp>>

\* handler body and return
RCb(r) ==
  /\ rpc[r] = "cb" /\ rcur[r].kind # "call"
  /\ inCb' = inCb \ {r}
  /\ rcur' = [rcur EXCEPT ![r] = NoCell]
  /\ LET k == rcur[r].kind IN
     IF k = "err" THEN rpc' = [rpc EXCEPT ![r] = "run.term"] /\ rwhy' = [rwhy EXCEPT ![r] = "err:" \o rcur[r].id]
     ELSE IF k = "panic" THEN rpc' = [rpc EXCEPT ![r] = "run.term"] /\ rwhy' = [rwhy EXCEPT ![r] = "panic"]
     ELSE rpc' = [rpc EXCEPT ![r] = "actor.pick"] /\ UNCHANGED rwhy
  /\ UNCHANGED <<state, inTable, mbox, spc, sn, sres, kpc, kres, tpc, handled, terms, unregs, cbAfterTerm, sp>>

\* the handler of a "call" message: up to the state CAS of waitResponse (the runner stays inside the callback)
\* (process.CallPID refuses at once unless the state word is running: then the handler just returns)
RCbCall(r) ==
  /\ rpc[r] = "cb" /\ rcur[r].kind = "call"
  /\ IF state = "running"
       THEN rpc' = [rpc EXCEPT ![r] = "wait.enter"] /\ UNCHANGED <<inCb, rcur>>
       ELSE rpc' = [rpc EXCEPT ![r] = "actor.pick"] /\ inCb' = inCb \ {r} /\ rcur' = [rcur EXCEPT ![r] = NoCell]
  /\ UNCHANGED <<state, inTable, mbox, spc, sn, sres, rwhy, kpc, kres, tpc, handled, terms, unregs, cbAfterTerm, sp>>

\* CAS running -> wait; on failure (killed meanwhile) the call returns an error and the handler returns
RWaitEnter(r) ==
  /\ rpc[r] = "wait.enter"
  /\ IF state = "running"
       THEN state' = "wait" /\ rpc' = [rpc EXCEPT ![r] = "wait.leave"] /\ UNCHANGED <<inCb, rcur>>
       ELSE UNCHANGED state /\ rpc' = [rpc EXCEPT ![r] = "actor.pick"] /\ inCb' = inCb \ {r} /\ rcur' = [rcur EXCEPT ![r] = NoCell]
  /\ UNCHANGED <<inTable, mbox, spc, sn, sres, rwhy, kpc, kres, tpc, handled, terms, unregs, cbAfterTerm, sp>>

\* the response is there: CAS wait -> running (fails if the process was killed while waiting); the handler returns
RWaitLeave(r) ==
  /\ rpc[r] = "wait.leave"
  /\ state' = IF state = "wait" THEN "running" ELSE state
  /\ rpc' = [rpc EXCEPT ![r] = "actor.pick"]
  /\ inCb' = inCb \ {r}
  /\ rcur' = [rcur EXCEPT ![r] = NoCell]
  /\ UNCHANGED <<inTable, mbox, spc, sn, sres, rwhy, kpc, kres, tpc, handled, terms, unregs, cbAfterTerm, sp>>

RSleep(r) ==
  /\ rpc[r] = "run.sleep"
  /\ IF state = "running"
       THEN /\ state' = "sleep"
            /\ rpc' = [rpc EXCEPT ![r] = IF Mut_NoRecheck THEN "done" ELSE "run.recheck"]
       ELSE \* killed meanwhile (zombee)
            /\ rpc' = [rpc EXCEPT ![r] = "run.zombie"]
            /\ UNCHANGED state
  /\ UNCHANGED <<inTable, mbox, spc, sn, sres, rcur, rwhy, kpc, kres, tpc, inCb, handled, terms, unregs, cbAfterTerm, sp>>

RRecheck(r) ==
  /\ rpc[r] = "run.recheck"
  /\ rpc' = [rpc EXCEPT ![r] = IF \E q \in QSet : VisibleHead(q) THEN "run.reacquire" ELSE "done"]
  /\ UNCHANGED <<state, inTable, mbox, spc, sn, sres, rcur, rwhy, kpc, kres, tpc, inCb, handled, terms, unregs, cbAfterTerm, sp>>

RReacquire(r) ==
  /\ rpc[r] = "run.reacquire"
  /\ IF state = "sleep"
       THEN state' = "running" /\ rpc' = [rpc EXCEPT ![r] = "actor.pick"]
       ELSE UNCHANGED state /\ rpc' = [rpc EXCEPT ![r] = "done"]
  /\ UNCHANGED <<inTable, mbox, spc, sn, sres, rcur, rwhy, kpc, kres, tpc, inCb, handled, terms, unregs, cbAfterTerm, sp>>

\* swap to terminated elects the finaliser
RTerm(r) ==
  /\ rpc[r] \in {"run.term", "run.zombie"}
  /\ state' = "terminated"
  /\ rpc' = [rpc EXCEPT ![r] = IF state = "terminated" THEN "done" ELSE "unreg.delete"]
  /\ rwhy' = [rwhy EXCEPT ![r] = IF rpc[r] = "run.zombie" THEN "kill" ELSE @]
  /\ UNCHANGED <<inTable, mbox, spc, sn, sres, rcur, kpc, kres, tpc, inCb, handled, terms, unregs, cbAfterTerm, sp>>

\* unregisterProcess, then entry of the terminate callback
RUnreg(r) ==
  /\ rpc[r] = "unreg.delete"
  /\ inTable' = FALSE /\ unregs' = unregs + 1 /\ sp' = [sp EXCEPT !.named = FALSE]
  /\ rpc' = [rpc EXCEPT ![r] = "term"]
  /\ inCb' = inCb \cup {r}
  /\ terms' = Append(terms, rwhy[r])
  /\ UNCHANGED <<state, mbox, spc, sn, sres, rcur, rwhy, kpc, kres, tpc, handled, cbAfterTerm>>

RTermCb(r) ==
  /\ rpc[r] = "term"
  /\ inCb' = inCb \ {r}
  /\ rpc' = [rpc EXCEPT ![r] = "done"]
  /\ UNCHANGED <<state, inTable, mbox, spc, sn, sres, rcur, rwhy, kpc, kres, tpc, handled, terms, unregs, cbAfterTerm, sp>>

-----------------------------------------------------------------------------
(* Node.Kill *)

KStart(k) ==
  /\ kpc[k] = "start"
  /\ kpc' = [kpc EXCEPT ![k] = "kill.lookup"]
  /\ UNCHANGED <<state, inTable, mbox, spc, sn, sres, rpc, rcur, rwhy, kres, tpc, inCb, handled, terms, unregs, cbAfterTerm, sp>>

\* a fault thread may stay away, otherwise quiescent-state invariants would be vacuous
KSkip(k) ==
  /\ kpc[k] = "start"
  /\ kpc' = [kpc EXCEPT ![k] = "done"]
  /\ kres' = [kres EXCEPT ![k] = "skip"]
  /\ UNCHANGED <<state, inTable, mbox, spc, sn, sres, rpc, rcur, rwhy, tpc, inCb, handled, terms, unregs, cbAfterTerm, sp>>

KLookup(k) ==
  /\ kpc[k] = "kill.lookup"
  /\ IF inTable THEN kpc' = [kpc EXCEPT ![k] = "kill.zombie"] /\ UNCHANGED kres
     ELSE kpc' = [kpc EXCEPT ![k] = "done"] /\ kres' = [kres EXCEPT ![k] = "unknown"]
  /\ UNCHANGED <<state, inTable, mbox, spc, sn, sres, rpc, rcur, rwhy, tpc, inCb, handled, terms, unregs, cbAfterTerm, sp>>

KZombie(k) ==
  /\ kpc[k] = "kill.zombie"
  /\ state' = "zombee"
  /\ LET nxt == IF state \in {"wait", "running"} THEN "done"
                ELSE IF state = "zombee" /\ Fix_KillZombee THEN "done"
                ELSE IF state = "terminated" THEN "kill.restore"
                ELSE "kill.term"
     IN /\ kpc' = [kpc EXCEPT ![k] = nxt]
        /\ kres' = [kres EXCEPT ![k] = IF nxt = "done" THEN "ok" ELSE @]
  /\ UNCHANGED <<inTable, mbox, spc, sn, sres, rpc, rcur, rwhy, tpc, inCb, handled, terms, unregs, cbAfterTerm, sp>>

KRestore(k) ==
  /\ kpc[k] = "kill.restore"
  /\ state' = "terminated"
  /\ kpc' = [kpc EXCEPT ![k] = "done"]
  /\ kres' = [kres EXCEPT ![k] = "ok"]
  /\ UNCHANGED <<inTable, mbox, spc, sn, sres, rpc, rcur, rwhy, tpc, inCb, handled, terms, unregs, cbAfterTerm, sp>>

KTerm(k) ==
  /\ kpc[k] = "kill.term"
  /\ state' = "terminated"
  /\ IF state = "terminated"
       THEN kpc' = [kpc EXCEPT ![k] = "done"] /\ kres' = [kres EXCEPT ![k] = "ok"]
       ELSE kpc' = [kpc EXCEPT ![k] = "unreg.delete"] /\ UNCHANGED kres
  /\ UNCHANGED <<inTable, mbox, spc, sn, sres, rpc, rcur, rwhy, tpc, inCb, handled, terms, unregs, cbAfterTerm, sp>>

\* unregisterProcess, start the terminate goroutine, return
KUnreg(k) ==
  /\ kpc[k] = "unreg.delete"
  /\ inTable' = FALSE /\ unregs' = unregs + 1 /\ sp' = [sp EXCEPT !.named = FALSE]
  /\ kpc' = [kpc EXCEPT ![k] = "done"]
  /\ kres' = [kres EXCEPT ![k] = "ok"]
  /\ tpc' = [tpc EXCEPT ![TOf[k]] = "kill.tbegin"]
  /\ UNCHANGED <<state, mbox, spc, sn, sres, rpc, rcur, rwhy, inCb, handled, terms, cbAfterTerm>>

TBegin(t) ==
  /\ tpc[t] = "kill.tbegin"
  /\ tpc' = [tpc EXCEPT ![t] = "term"]
  /\ inCb' = inCb \cup {t}
  /\ terms' = Append(terms, "kill")
  /\ UNCHANGED <<state, inTable, mbox, spc, sn, sres, rpc, rcur, rwhy, kpc, kres, handled, unregs, cbAfterTerm, sp>>

TTermCb(t) ==
  /\ tpc[t] = "term"
  /\ inCb' = inCb \ {t}
  /\ tpc' = [tpc EXCEPT ![t] = "done"]
  /\ UNCHANGED <<state, inTable, mbox, spc, sn, sres, rpc, rcur, rwhy, kpc, kres, handled, terms, unregs, cbAfterTerm, sp>>

-----------------------------------------------------------------------------
(* node.spawn (with Register): names.LoadOrStore, ProcessInit (a callback), [spawn.register] state := sleep,
   processes.Store, p.run() [run.wake].  Senders that address the name reach the process while it is in the init state:
   their push succeeds, their wake-up CAS fails, and the final p.run() must pick the messages up. *)
PStart ==
  /\ sp.pc = "start"
  /\ sp' = [pc |-> "init", named |-> TRUE]
  /\ inCb' = inCb \cup {"P"}
  /\ UNCHANGED <<state, inTable, mbox, spc, sn, sres, rpc, rcur, rwhy, kpc, kres, tpc, handled, terms, unregs, cbAfterTerm>>
PInitDone ==
  /\ sp.pc = "init"
  /\ sp' = [sp EXCEPT !.pc = "spawn.register"]
  /\ inCb' = inCb \ {"P"}
  /\ UNCHANGED <<state, inTable, mbox, spc, sn, sres, rpc, rcur, rwhy, kpc, kres, tpc, handled, terms, unregs, cbAfterTerm>>
PRegister ==
  /\ sp.pc = "spawn.register"
  /\ state' = "sleep" /\ inTable' = TRUE
  /\ sp' = [sp EXCEPT !.pc = "run.wake"]
  /\ UNCHANGED <<mbox, spc, sn, sres, rpc, rcur, rwhy, kpc, kres, tpc, inCb, handled, terms, unregs, cbAfterTerm>>
PWake ==
  /\ sp.pc = "run.wake"
  /\ IF state = "sleep"
       THEN /\ FreeSlots # {}
            /\ rpc' = [rpc EXCEPT ![LowestFree] = "run.begin"]
            /\ state' = "running"
       ELSE UNCHANGED <<state, rpc>>
  /\ sp' = [sp EXCEPT !.pc = "done"]
  /\ UNCHANGED <<inTable, mbox, spc, sn, sres, rcur, rwhy, kpc, kres, tpc, inCb, handled, terms, unregs, cbAfterTerm>>
PStep == PStart \/ PInitDone \/ PRegister \/ PWake

SStep(s) == SLookup(s) \/ SAlive(s) \/ SPush(s) \/ SLink(s) \/ SWake(s)
RStep(r) == RBegin(r) \/ RPick(r) \/ RCb(r) \/ RCbCall(r) \/ RWaitEnter(r) \/ RWaitLeave(r) \/ RSleep(r) \/ RRecheck(r) \/ RReacquire(r)
            \/ RTerm(r) \/ RUnreg(r) \/ RTermCb(r)
KStep(k) == KStart(k) \/ KSkip(k) \/ KLookup(k) \/ KZombie(k) \/ KRestore(k) \/ KTerm(k) \/ KUnreg(k)
TStep(t) == TBegin(t) \/ TTermCb(t)

Next ==
  \/ \E s \in Senders : SStep(s)
  \/ \E r \in Runners : RStep(r)
  \/ \E k \in Killers : KStep(k)
  \/ \E t \in TThreads : TStep(t)
  \/ PStep

Spec == Init /\ [][Next]_vars

-----------------------------------------------------------------------------
(* Properties *)

Range(f) == {f[x] : x \in DOMAIN f}
SeqSet(sq) == {sq[i] : i \in 1..Len(sq)}

\* C01: at most one callback of the process at any instant
Serial == Cardinality(inCb) <= 1

\* the process is owned by at most one runner (a runner that gave the process back and is
\* re-checking the mailbox legitimately coexists with its successor)
Owners == {r \in Runners : rpc[r] \in {"run.begin", "actor.pick", "cb", "wait.enter", "wait.leave", "run.sleep"}}
OneOwner == Cardinality(Owners) <= 1

\* model bound check: a wake-up never lacks a free runner slot
SlotsSuffice == (state = "sleep" /\ \E s \in Senders : spc[s] = "run.wake") => FreeSlots # {}

\* C05
TermOnce == Len(terms) <= 1 /\ unregs <= 1
TermFinal == ~cbAfterTerm
KillActed == \E k \in Killers : kpc[k] \notin {"start", "kill.lookup", "kill.zombie"} /\ kres[k] # "skip" /\ kres[k] # "unknown"
ValidReasons ==
  (IF KillActed THEN {"kill"} ELSE {})
  \cup {"err:" \o m : m \in {c \in SeqSet(handled) : \E s \in Senders : \E n \in 1..Len(Ops[s]) : MsgId(s, n) = c /\ Ops[s][n].kind = "err"}}
  \cup (IF \E s \in Senders : \E n \in 1..Len(Ops[s]) : Ops[s][n].kind = "panic" /\ MsgId(s, n) \in SeqSet(handled) THEN {"panic"} ELSE {})
  \cup UNION {{"exit:" \o MsgId(s, n) : n \in {i \in 1..Len(Ops[s]) : Ops[s][i].kind = "exitp" \/ (Ops[s][i].kind = "exit" /\ ~Trap)}} : s \in Senders}
ReasonRight == \A i \in 1..Len(terms) : terms[i] \in ValidReasons

ActiveRunners == {r \in Runners : rpc[r] \notin {"none", "done"}}
Quiescent == /\ sp.pc \in {"none", "done"}
             /\ \A s \in Senders : spc[s] = "done"
             /\ \A k \in Killers : kpc[k] = "done"
             /\ \A t \in TThreads : tpc[t] \in {"none", "done"}
             /\ ActiveRunners = {}

\* C05: at quiescence the process is asleep or properly finalised, exactly one terminate callback
QuiescentState == Quiescent =>
   \/ (state = "sleep" /\ inTable /\ terms = <<>>)
   \/ (state = "terminated" /\ ~inTable /\ Len(terms) = 1 /\ unregs = 1)
\* a Kill that found the process and returned leaves it dead
KillKills == Quiescent /\ (\E k \in Killers : kres[k] = "ok") => state = "terminated"

\* C02
OkSet == UNION {{MsgId(s, n) : n \in {i \in 1..Len(sres[s]) : sres[s][i] = "ok"}} : s \in Senders}
RefusedSet == UNION {{MsgId(s, n) : n \in {i \in 1..Len(sres[s]) : sres[s][i] # "ok"}} : s \in Senders}
HandledSet == SeqSet(handled)
NoLostWakeup == (Quiescent /\ state = "sleep") => \A q \in QSet : mbox[q] = <<>>
ExactlyOnce == (Quiescent /\ state = "sleep") => HandledSet = OkSet
NoDupHandle == \A i, j \in 1..Len(handled) : i # j => handled[i] # handled[j]
RefusedNever == RefusedSet \cap HandledSet = {}
\* a message is handled only after its push began (sanity of the observation)
HandledWasSent == \A m \in HandledSet : \E s \in Senders : \E n \in 1..Len(Ops[s]) : MsgId(s, n) = m /\ n <= sn[s]

\* C03: per-sender FIFO within a class
SenderOf(m) == CHOOSE s \in Senders : \E n \in 1..Len(Ops[s]) : MsgId(s, n) = m
IndexOf(m) == CHOOSE n \in 1..Len(Ops[SenderOf(m)]) : MsgId(SenderOf(m), n) = m
ClassOf(m) == LET o == Ops[SenderOf(m)][IndexOf(m)] IN IF o.kind \in {"exit", "exitp"} THEN "urgent" ELSE o.q
SenderFifo == \A i, j \in 1..Len(handled) :
                 (i < j /\ SenderOf(handled[i]) = SenderOf(handled[j]) /\ ClassOf(handled[i]) = ClassOf(handled[j]))
                    => IndexOf(handled[i]) < IndexOf(handled[j])
\* C03: strict priority: while a handler is being entered no visible message of a higher class is waiting
\* (checked as an action property in the trace specs; in the Core it holds by construction of RPick)

\* exhaustive-run view: the observation variables do not influence behaviour
View == <<state, inTable, mbox, spc, sn, rpc, rcur, rwhy, kpc, kres, tpc, inCb, Len(terms), unregs, cbAfterTerm, sp>>
=============================================================================
