--------------------------- MODULE Registry_Trace ---------------------------
(***************************************************************************)
(* Trace specification for Registry (same conventions as Relations_Trace): *)
(* lines of model threads are consumed as Core steps with the logged fields *)
(* bound while that is possible (conformance), every line updates the       *)
(* observations, and the C06 clauses are stated over the observations:      *)
(* the results the registration calls returned, and - at quiescence - which *)
(* process every name really resolves to (a probe message sent by name is   *)
(* answered by its receiver; "!dead" = the name resolves to a terminated    *)
(* process), which processes are in the process table and which name each   *)
(* process believes it owns.                                                *)
(***************************************************************************)
EXTENDS Registry, Json

CONSTANTS TraceFile, Checks
TraceLog == ndJsonDeserialize(TraceFile)

VARIABLES l, drift, oRes, oOwner, oIntab, oPname, atEnd, viol
ovars == <<oRes, oOwner, oIntab, oPname, atEnd>>
tvars == <<vars, l, drift, ovars, viol>>

TraceInit ==
  /\ Init /\ l = 1 /\ drift = 0 /\ viol = ""
  /\ oRes = [g \in Registrars |-> ""]
  /\ oOwner = [n \in Names |-> "?"] /\ oIntab = [p \in Procs |-> "T"] /\ oPname = [p \in Procs |-> ""]
  /\ atEnd = FALSE
  /\ TLCSet(1, 1) /\ TLCSet(2, <<"", 0>>) /\ TLCSet(3, 0) /\ TLCSet(4, 0)

Observe(e) ==
  /\ oRes' = IF e.th \in Registrars /\ e.x.gres # "" THEN [oRes EXCEPT ![e.th] = e.x.gres] ELSE oRes
  /\ oOwner' = [n \in Names |-> e.s.owner[n]]
  /\ oIntab' = [p \in Procs |-> e.s.intab[p]]
  /\ oPname' = [p \in Procs |-> e.s.pname[p]]

ResetCore ==
  /\ inTable' = [p \in Procs |-> TRUE] /\ alive' = [p \in Procs |-> TRUE]
  /\ registered' = [p \in Procs |-> FALSE] /\ pname' = [p \in Procs |-> ""]
  /\ names' = [n \in Names |-> ""]
  /\ gpc' = [g \in Registrars |-> "name.lookup"] /\ gres' = [g \in Registrars |-> ""]
  /\ tpc' = "start"

LineReset(e) ==
  /\ e.ev = "reset" /\ ResetCore
  /\ oRes' = [g \in Registrars |-> ""]
  /\ oOwner' = [n \in Names |-> e.s.owner[n]] /\ oIntab' = [p \in Procs |-> e.s.intab[p]] /\ oPname' = [p \in Procs |-> e.s.pname[p]]
  /\ atEnd' = FALSE

CoreStep(e) ==
  /\ e.ev = "step" /\ e.stall = FALSE
  /\ \/ /\ e.th \in Registrars /\ gpc[e.th] = e.from
        /\ GStep(e.th)
        /\ gpc'[e.th] = e.to
        /\ (e.x.gres # "" => gres'[e.th] = e.x.gres)
     \/ /\ e.th = "T" /\ tpc = e.from
        /\ TStep
        /\ tpc' = IF e.to = "done" /\ e.x.tres = "skip" THEN "skipped" ELSE e.to
  /\ \A p \in Procs : inTable'[p] = (e.s.intab[p] = "T")
  /\ \A p \in Procs : pname'[p] = e.s.pname[p]

AuxStep(e) == e.ev = "step" /\ e.th \notin Registrars /\ e.th # "T" /\ UNCHANGED vars

CoreEnd(e) ==
  /\ e.ev = "end" /\ e.stall = FALSE /\ UNCHANGED vars /\ Quiescent
  /\ \A n \in Names : e.s.owner[n] = names[n]
  /\ \A p \in Procs : inTable[p] = (e.s.intab[p] = "T")

CoreLine(e) == CoreStep(e) \/ AuxStep(e) \/ CoreEnd(e)

Line ==
  LET e == TraceLog[l] IN
  IF e.ev = "reset" THEN LineReset(e) /\ drift' = 0
  ELSE /\ IF drift = 0 /\ ENABLED CoreLine(e)
            THEN CoreLine(e) /\ UNCHANGED drift
            ELSE /\ UNCHANGED vars /\ drift' = (IF drift = 0 THEN l ELSE drift)
                 /\ (drift = 0 => TLCSet(4, TLCGet(4) + 1))
                 /\ (TLCGet(3) = 0 => TLCSet(3, l))
       /\ Observe(e)
       /\ atEnd' = (e.ev = "end" /\ e.stall = FALSE)

-----------------------------------------------------------------------------
(* C06 clauses over the observations *)
OneWinnerO == atEnd => \A g, h \in Registrars : (g # h /\ oRes[g] = "ok" /\ oRes[h] = "ok") =>
                 /\ Tgt[g] # Tgt[h]
                 /\ (Want[g] = Want[h] => (oIntab[Tgt[g]] = "F" \/ oIntab[Tgt[h]] = "F"))
\* at quiescence a name resolves to nobody or to a process that is in the table and believes it owns the name;
\* never to a terminated process, and no probe is lost
ResolvesO == atEnd => \A n \in Names :
   \/ oOwner[n] = ""
   \/ (oOwner[n] \in Procs /\ oIntab[oOwner[n]] = "T" /\ oPname[oOwner[n]] = n)
ReleasedO == atEnd => \A n \in Names : oOwner[n] # "!dead"
\* two names never resolve to one process, one process holds at most one name
UniqueO == atEnd => \A n, m \in Names : (n # m /\ oOwner[n] \in Procs) => oOwner[n] # oOwner[m]
\* a registration that succeeded for a process that is still there is effective
WinnerHoldsO == atEnd => \A g \in Registrars : (oRes[g] = "ok" /\ oIntab[Tgt[g]] = "T") => oOwner[Want[g]] = Tgt[g]

Bad ==
  IF "OneWinner" \in Checks /\ ~OneWinnerO THEN "OneWinner"
  ELSE IF "Released" \in Checks /\ ~ReleasedO THEN "Released"
  ELSE IF "Resolves" \in Checks /\ ~ResolvesO THEN "Resolves"
  ELSE IF "Unique" \in Checks /\ ~UniqueO THEN "Unique"
  ELSE IF "WinnerHolds" \in Checks /\ ~WinnerHoldsO THEN "WinnerHolds"
  ELSE ""

TraceNext ==
  /\ viol = ""
  /\ IF Bad # ""
       THEN viol' = Bad /\ TLCSet(2, <<Bad, l - 1>>) /\ UNCHANGED <<vars, l, drift, ovars>>
       ELSE l <= Len(TraceLog) /\ Line /\ l' = l + 1 /\ UNCHANGED viol

TraceSpec == TraceInit /\ [][TraceNext]_tvars

HWM == TLCSet(1, IF l > TLCGet(1) THEN l ELSE TLCGet(1))
TraceAccepted ==
  /\ (TLCGet(3) # 0 => PrintT(<<"CORE_DRIFT_AT_LINE", TLCGet(3), "EXECUTIONS", TLCGet(4)>>))
  /\ IF TLCGet(2) # <<"", 0>>
       THEN PrintT(<<"CLAUSE_VIOLATED", TLCGet(2)[1], "LINE", TLCGet(2)[2]>>) /\ FALSE
     ELSE IF TLCGet(1) = Len(TraceLog) + 1 THEN TRUE
     ELSE PrintT(<<"TRACE_REJECTED_AT_LINE", TLCGet(1), "OF", Len(TraceLog)>>) /\ FALSE
=============================================================================
