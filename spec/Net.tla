--------------------------------- MODULE Net ----------------------------------
(***************************************************************************)
(* C12 / C13: oracle for delivery histories between two real nodes.         *)
(* A case: node B has receiver R1 (room), receiver R2 (mailbox of one, held  *)
(* in its handler with the mailbox full) and no process behind "none"; B's   *)
(* acceptor announces MaxMessageSize = maxsize (0 = none).  Senders on node  *)
(* A send / call, plain or important, by pid, name or alias, with a payload  *)
(* of a given size and compression setting, while the relay cuts the byte    *)
(* stream of every pooled link into segments of `chunk` bytes.  After the    *)
(* sends the harness waits for quiescence and records what every receiver    *)
(* got ("recv").  "stream" lines carry, per (sender, receiver) pair, the     *)
(* sequence numbers in arrival order.                                        *)
(* The model of one send is its expected outcome:                            *)
(*   beyond the limit            -> refused at the sender, nothing delivered *)
(*   to R1                       -> in R1's mailbox exactly once, "ok"       *)
(*   to R2 (full) / none         -> nowhere; important: the remote reason;   *)
(*                                  plain send: "ok"; plain call: timeout    *)
(* Every recorded line is consumed; clause violations are recorded with the  *)
(* line number and the rest of that case is skipped.                         *)
(***************************************************************************)
EXTENDS Naturals, Sequences, FiniteSets, TLC, Json
CONSTANTS TraceFile, Checks
TraceLog == ndJsonDeserialize(TraceFile)

VARIABLES l, maxsize, sends, mismatch, skipping
vars == <<l, maxsize, sends, mismatch, skipping>>

Slack == 200   \* frame + codec overhead never exceeds this for the payloads used
Beyond(e) == maxsize > 0 /\ e.s.comp = "" /\ e.len > maxsize
Fits(e)   == maxsize = 0 \/ (IF e.s.comp = "" THEN e.len + Slack <= maxsize ELSE 2 * e.len + Slack <= maxsize)
\* (a compressed frame may be larger than the payload: lzw expands incompressible data)
\* compressed payloads near the limit: either outcome, but a consistent one
Count(items, id) == Cardinality({k \in 1..Len(items) : items[k].id = id})
Item(items, id) == items[CHOOSE k \in 1..Len(items) : items[k].id = id]

ResIfPlaced(e) == "ok"
ResIfNotPlaced(e) ==
  LET why == IF e.s.to = "R2" THEN "full" ELSE "unknown" IN
  IF e.s.important THEN why ELSE IF e.s.call THEN "timeout" ELSE "ok"

\* clause violated by send line e given the receivers' items, "" if none
JudgeSend(e, items) ==
  LET n == Count(items, e.s.id)
      refused == e.res = "toolarge"
      wantPlaced == e.s.to = "R1"
  IN
  IF Beyond(e) THEN (IF ~refused \/ n # 0 THEN "OversizeRefused" ELSE "")
  ELSE IF refused /\ Fits(e) THEN "OversizeRefused"
  ELSE IF refused THEN (IF n # 0 THEN "ExactlyOnce" ELSE "")
  ELSE IF wantPlaced /\ n # 1 THEN "ExactlyOnce"
  ELSE IF ~wantPlaced /\ n # 0 THEN "Addressee"
  ELSE IF e.s.important /\ ((e.res = "ok") # wantPlaced) THEN "ImportantTruthful"
  ELSE IF e.s.important /\ ~wantPlaced /\ e.res # ResIfNotPlaced(e) THEN "ImportantTruthful"
  ELSE IF ~e.s.important /\ e.res # (IF wantPlaced THEN ResIfPlaced(e) ELSE ResIfNotPlaced(e)) THEN "SendResult"
  ELSE IF wantPlaced /\ Item(items, e.s.id).at # e.s.to THEN "Addressee"
  ELSE IF wantPlaced /\ Item(items, e.s.id).from # e.frompid THEN "TrueSender"
  ELSE IF wantPlaced /\ (Item(items, e.s.id).len # e.len \/ Item(items, e.s.id).sum # e.sum
                          \/ Item(items, e.s.id).kind # (IF e.s.call THEN "call" ELSE "msg")) THEN "PayloadEqual"
  ELSE IF wantPlaced /\ e.s.call /\ e.reply # e.sum THEN "ReplyEqual"
  ELSE ""

JudgeRecv(e) ==
  LET bad == {k \in 1..Len(sends) : JudgeSend(sends[k], e.items) # ""}
      foreign == {k \in 1..Len(e.items) : \A j \in 1..Len(sends) : sends[j].s.id # e.items[k].id}
  IN IF bad # {} THEN LET k == CHOOSE x \in bad : \A j \in bad : x <= j IN JudgeSend(sends[k], e.items) \o "__" \o sends[k].s.id
     ELSE IF foreign # {} THEN "Addressee"
     ELSE ""

Increasing(s) == \A i \in 1..(Len(s) - 1) : s[i] < s[i + 1]
NoDup(s) == \A i, j \in 1..Len(s) : i # j => s[i] # s[j]
JudgeStream(e) ==
  IF ~NoDup(e.seq) \/ \E i \in 1..Len(e.seq) : e.seq[i] \notin 1..e.n THEN "StreamOnce"
  ELSE IF e.senderrs = 0 /\ e.lossy = FALSE /\ Len(e.seq) # e.n THEN "StreamOnce"
  ELSE IF ~Increasing(e.seq) THEN "PairFifo"
  \* after a cut link had time to be re-dialled everything flows again: the second batch (40 messages) arrives completely and in order
  ELSE IF e.lossy /\ (Len(e.after) # 40 \/ ~Increasing(e.after)) THEN "AfterRedial"
  ELSE ""

\* ---- remote event subscribers (C18 "from another node") -------------------------------
\* e.sums: everything published, in order ("<seq>:<checksum>"); the first e.c.pre before the subscriptions
IsPrefix(a, b) == Len(a) <= Len(b) /\ \A i \in 1..Len(a) : a[i] = b[i]
JudgeEvent(e) ==
  LET pre == IF e.c.pre <= Len(e.sums) THEN e.c.pre ELSE Len(e.sums)
      nb == IF e.c.buffer < pre THEN e.c.buffer ELSE pre
      wantbuf == SubSeq(e.sums, pre - nb + 1, pre)
      wantlive == SubSeq(e.sums, pre + 1, Len(e.sums))
      S == 1..Len(e.subres)
  IN
  IF \E i \in S : e.subres[i] # "ok" THEN "EventSubscribe"
  ELSE IF \E i \in S : e.buf[i] # wantbuf THEN "EventBuffer"
  ELSE IF \E i \in S : ~IsPrefix(e.live[i], wantlive) THEN "EventOnce"
  ELSE IF e.c.end = "" /\ \E i \in S : e.live[i] # wantlive THEN "EventOnce"
  ELSE IF e.c.end # "" /\ \E i \in S : Len(e.notes[i]) # 1 THEN "EventNotice"
  ELSE IF e.c.end # "" /\ \E i \in S : e.live[i] # wantlive THEN "EventLostAtEnd"
  ELSE ""

Init == /\ l = 1 /\ maxsize = 0 /\ sends = <<>> /\ mismatch = "" /\ skipping = FALSE
        /\ TLCSet(1, 1) /\ TLCSet(2, <<>>)

Line ==
  LET e == TraceLog[l] IN
  IF e.ev = "cfg" THEN maxsize' = e.maxsize /\ sends' = <<>> /\ mismatch' = ""
  ELSE IF e.ev = "send" THEN sends' = Append(sends, e) /\ UNCHANGED maxsize /\ mismatch' = ""
  ELSE IF e.ev = "recv" THEN UNCHANGED <<maxsize, sends>> /\ mismatch' = (IF Checks = {} THEN "" ELSE JudgeRecv(e))
  ELSE IF e.ev = "stream" THEN UNCHANGED <<maxsize, sends>> /\ mismatch' = (IF Checks = {} THEN "" ELSE JudgeStream(e))
  ELSE IF e.ev = "revent" THEN UNCHANGED <<maxsize, sends>> /\ mismatch' = (IF Checks = {} THEN "" ELSE JudgeEvent(e))
  ELSE UNCHANGED <<maxsize, sends>> /\ mismatch' = ""

Next ==
  IF mismatch # ""
    THEN /\ TLCSet(2, Append(TLCGet(2), <<mismatch, l - 1>>))
         /\ skipping' = (TraceLog[l - 1].ev \notin {"stream", "revent"}) /\ mismatch' = "" /\ UNCHANGED <<maxsize, sends, l>>
    ELSE /\ l <= Len(TraceLog)
         /\ IF skipping /\ TraceLog[l].ev # "cfg"
              THEN l' = l + 1 /\ UNCHANGED <<maxsize, sends, mismatch, skipping>>
              ELSE Line /\ l' = l + 1 /\ skipping' = FALSE
Spec == Init /\ [][Next]_vars

HWM == TLCSet(1, IF l > TLCGet(1) THEN l ELSE TLCGet(1))
TraceAccepted ==
  /\ \A k \in 1..Len(TLCGet(2)) : PrintT(<<"CLAUSE_VIOLATED", TLCGet(2)[k][1], "LINE", TLCGet(2)[k][2]>>)
  /\ IF TLCGet(1) = Len(TraceLog) + 1 THEN TLCGet(2) = <<>>
     ELSE PrintT(<<"TRACE_REJECTED_AT_LINE", TLCGet(1), "OF", Len(TraceLog)>>) /\ FALSE
=============================================================================
