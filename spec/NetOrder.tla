------------------------------- MODULE NetOrder -------------------------------
(***************************************************************************)
(* C13: the path of the messages of ONE (sender, receiver) pair between two  *)
(* nodes (net/proto/connection.go).                                          *)
(*   send():  the order byte `order = from.ID % 255` picks the pooled link   *)
(*            `pool[order % len(pool)]`; order 0 means "no order kept": the  *)
(*            link is chosen round-robin by the shared counter c.order.      *)
(*   serve(): one goroutine per link reads frames in wire order and pushes   *)
(*            each to the receive queue `orderPeer % NQ`, where orderPeer =  *)
(*            to.ID % 255 travels in byte 6; 0 again means round-robin by    *)
(*            the per-link counter recvN.                                    *)
(*   handleRecvQueue(): one worker per queue pops a frame, decodes it and    *)
(*            puts the message into the mailbox (two steps here: Pop, Put).  *)
(*   Join():  appends a link to the pool; a link that cannot be re-dialled   *)
(*            is removed by `pool[i] = pool[0]; pool = pool[1:]`.            *)
(* Links and queues are FIFO; links have arbitrary relative delays.          *)
(* PairFifo is the property.  TLC decides for which configurations the       *)
(* design keeps it: it holds for non-zero residues on a stable pool and is   *)
(* violated for residue 0 (either side) and while the pool changes - these   *)
(* are the configurations the streams of check_net.py then drive on real     *)
(* nodes through the delaying relay.                                         *)
(***************************************************************************)
EXTENDS Naturals, Sequences, FiniteSets
CONSTANTS N, SRes, RRes, Pool0, MaxPool, NQ, AllowJoin, AllowDrop
VARIABLES sent, pool, nextLink, wire, rrS, recvN, rq, inwork, delivered
vars == <<sent, pool, nextLink, wire, rrS, recvN, rq, inwork, delivered>>
Links == 1..MaxPool
Queues == 0..(NQ - 1)

Init == /\ sent = 0 /\ pool = [i \in 1..Pool0 |-> i] /\ nextLink = Pool0 + 1
        /\ wire = [l \in Links |-> <<>>] /\ rrS = 0 /\ recvN = [l \in Links |-> 0]
        /\ rq = [q \in Queues |-> <<>>] /\ inwork = [q \in Queues |-> 0] /\ delivered = <<>>

Send ==
  /\ sent < N /\ Len(pool) > 0
  /\ LET r2 == IF SRes = 0 THEN rrS + 1 ELSE rrS
         n  == IF SRes = 0 THEN r2 % Len(pool) ELSE SRes % Len(pool)
         lk == pool[n + 1]
     IN /\ rrS' = r2 /\ wire' = [wire EXCEPT ![lk] = Append(@, sent + 1)]
  /\ sent' = sent + 1
  /\ UNCHANGED <<pool, nextLink, recvN, rq, inwork, delivered>>

\* traffic of other processes moves the shared round-robin counters
Noise ==
  /\ \/ rrS' = rrS + 1 /\ UNCHANGED recvN
     \/ \E lk \in Links : recvN' = [recvN EXCEPT ![lk] = @ + 1] /\ UNCHANGED rrS
  /\ UNCHANGED <<sent, pool, nextLink, wire, rq, inwork, delivered>>

Arrive(lk) ==
  /\ wire[lk] # <<>>
  /\ LET k == recvN[lk] + 1
         q == IF RRes > 0 THEN RRes % NQ ELSE k % NQ
     IN /\ recvN' = [recvN EXCEPT ![lk] = k]
        /\ rq' = [rq EXCEPT ![q] = Append(@, Head(wire[lk]))]
  /\ wire' = [wire EXCEPT ![lk] = Tail(@)]
  /\ UNCHANGED <<sent, pool, nextLink, rrS, inwork, delivered>>

Pop(q) == /\ inwork[q] = 0 /\ rq[q] # <<>>
          /\ inwork' = [inwork EXCEPT ![q] = Head(rq[q])] /\ rq' = [rq EXCEPT ![q] = Tail(@)]
          /\ UNCHANGED <<sent, pool, nextLink, wire, rrS, recvN, delivered>>
Put(q) == /\ inwork[q] # 0
          /\ delivered' = Append(delivered, inwork[q]) /\ inwork' = [inwork EXCEPT ![q] = 0]
          /\ UNCHANGED <<sent, pool, nextLink, wire, rrS, recvN, rq>>

Join == /\ AllowJoin /\ nextLink <= MaxPool
        /\ pool' = Append(pool, nextLink) /\ nextLink' = nextLink + 1
        /\ UNCHANGED <<sent, wire, rrS, recvN, rq, inwork, delivered>>
\* the link at position i is lost for good: what it carried is lost with it
Drop(i) == /\ AllowDrop /\ i \in 1..Len(pool) /\ Len(pool) > 1
           /\ pool' = Tail([pool EXCEPT ![i] = pool[1]])
           /\ wire' = [wire EXCEPT ![pool[i]] = <<>>]
           /\ UNCHANGED <<sent, nextLink, rrS, recvN, rq, inwork, delivered>>

Next == Send \/ Noise \/ (\E lk \in Links : Arrive(lk)) \/ (\E q \in Queues : Pop(q) \/ Put(q)) \/ Join \/ (\E i \in 1..MaxPool : Drop(i))
Spec == Init /\ [][Next]_vars

Bound == rrS <= N + 2 /\ \A lk \in Links : recvN[lk] <= N + 2

PairFifo == \A i, j \in 1..Len(delivered) : i < j => delivered[i] < delivered[j]
AtMostOnce == \A i, j \in 1..Len(delivered) : i # j => delivered[i] # delivered[j]
\* without link loss everything sent arrives: checked as "eventually possible" by the final states
NothingLost == (~AllowDrop /\ sent = N /\ (\A lk \in Links : wire[lk] = <<>>) /\ (\A q \in Queues : rq[q] = <<>> /\ inwork[q] = 0)) => Len(delivered) = N
=============================================================================
