---------------------------- MODULE Handshake ----------------------------
(* Scratch prototype: symbolic (Dolev-Yao) model of net/handshake start.go / accept.go / join.go.
   Terms: atoms are strings; H(x, y, ..) is the tuple <<"H", x, y, ..>>. K is the shared cookie,
   unknown to the intruder. The intruder sees every message, can deliver any seen message to anyone
   at any time (replay), and can assemble messages from components it has seen and its own atoms. *)
EXTENDS Naturals, Sequences, FiniteSets, TLC

CONSTANT FixJoinNonce   \* TRUE = repaired design: Join digest must cover a fresh acceptor nonce

K == "K"
None == <<"none">>
NoMsg == [t |-> "nomsg"]
H2(a, b) == <<"H", a, b>>
H3(a, b, c) == <<"H", a, b, c>>

Initiators == {"i1"}
Acceptors == {"a1", "a2"}
Joiners == {"j1"}

VARIABLES net,      \* set of messages ever put on the wire
          ist,      \* initiator state: [pc, sa, sb, peer]
          ast,      \* acceptor state:  [pc, sb, d1, peer, id, kind, jmsg]
          jst,      \* joiner state:    [pc, salt, id]
          fresh     \* counter for fresh salts / ids

vars == <<net, ist, ast, jst, fresh>>

Salt(n) == <<"salt", n>>
ConnId(n) == <<"id", n>>
ExistingId == <<"id", 0>>      \* id of an already established honest connection nA <-> nB

Init ==
  /\ net = {}
  /\ ist = [i \in Initiators |-> [pc |-> "start", sa |-> None, sb |-> None, peer |-> "none"]]
  /\ ast = [a \in Acceptors |-> [pc |-> "wait", sb |-> None, d1 |-> None, peer |-> "none", id |-> None, kind |-> "none", jmsg |-> NoMsg]]
  /\ jst = [j \in Joiners |-> [pc |-> "start", salt |-> None, id |-> ExistingId]]
  /\ fresh = 1

---------------------------------------------------------------------------
(* intruder knowledge *)
HasField(m, f) == f \in DOMAIN m
SeenSalts == {m.salt : m \in {x \in net : HasField(x, "salt")}} \cup {Salt(100)}
SeenDigests == {m.digest : m \in {x \in net : HasField(x, "digest")}}
OwnDigests == {H2(s, "Kx") : s \in SeenSalts} \cup {H3(ExistingId, s, "Kx") : s \in SeenSalts}
Digests == SeenDigests \cup OwnDigests \cup {None}
Ids == {m.id : m \in {x \in net : HasField(x, "id")}} \cup {ConnId(100)}
Nodes == {"nA", "nB", "nx"}

Forge ==
       [t : {"hello"}, salt : SeenSalts, digest : Digests]
  \cup [t : {"intro"}, node : Nodes, digest : Digests]
  \cup [t : {"accept"}, id : Ids, digest : Digests]
  \cup [t : {"join"}, node : Nodes, id : Ids, salt : SeenSalts, digest : Digests]

Deliverable == net \cup Forge      \* what any honest party may receive next

---------------------------------------------------------------------------
(* honest initiator: Start() *)
IStart(i) ==
  /\ ist[i].pc = "start"
  /\ LET sa == Salt(fresh) IN
       /\ net' = net \cup {[t |-> "hello", salt |-> sa, digest |-> H2(sa, K)]}
       /\ ist' = [ist EXCEPT ![i] = [@ EXCEPT !.pc = "wait_hello", !.sa = sa]]
       /\ fresh' = fresh + 1
  /\ UNCHANGED <<ast, jst>>

IHello(i) ==
  /\ ist[i].pc = "wait_hello"
  /\ \E m \in Deliverable :
       /\ m.t = "hello"
       /\ m.digest = H3(m.salt, H2(ist[i].sa, K), K)              \* "incorrect digest" otherwise
       /\ net' = net \cup {[t |-> "intro", node |-> "nA", digest |-> H2(m.salt, K)]}
       /\ ist' = [ist EXCEPT ![i] = [@ EXCEPT !.pc = "wait_accept", !.sb = m.salt]]
  /\ UNCHANGED <<ast, jst, fresh>>

\* Accept and Introduce from the acceptor carry no digest: anything well-formed is taken
IAccept(i) ==
  /\ ist[i].pc = "wait_accept"
  /\ \E m \in Deliverable : \E n \in Deliverable :
       /\ m.t = "accept" /\ n.t = "intro" /\ n.node # "nA"
       /\ net' = net \cup {[t |-> "accept", id |-> None, digest |-> None]}
       /\ ist' = [ist EXCEPT ![i] = [@ EXCEPT !.pc = "connected", !.peer = n.node]]
  /\ UNCHANGED <<ast, jst, fresh>>

(* honest acceptor: Accept() *)
AFirst(a) ==
  /\ ast[a].pc = "wait"
  /\ \E m \in Deliverable :
       \/ /\ m.t = "hello"
          /\ m.digest = H2(m.salt, K)                                \* accept stage 'hello'
          /\ LET sb == Salt(fresh) IN
               /\ net' = net \cup {[t |-> "hello", salt |-> sb, digest |-> H3(sb, m.digest, K)]}
               /\ ast' = [ast EXCEPT ![a] = [@ EXCEPT !.pc = "wait_intro", !.sb = sb, !.d1 = m.digest, !.kind = "full"]]
               /\ fresh' = fresh + 1
       \/ /\ m.t = "join"
          /\ ~FixJoinNonce                                           \* repaired design: see AJoinFixed
          /\ m.digest = H3(m.id, m.salt, K)                          \* "incorrect join digest" otherwise
          /\ m.node = "nA" /\ m.id = ExistingId                     \* network.go: connections.Load(peer) + conn.Join(id) match
          /\ net' = net \cup {[t |-> "accept", id |-> None, digest |-> H2(m.digest, K)]}
          /\ ast' = [ast EXCEPT ![a] = [@ EXCEPT !.pc = "joined", !.peer = m.node, !.id = m.id, !.kind = "join", !.jmsg = m]]
          /\ UNCHANGED fresh
  /\ UNCHANGED <<ist, jst>>

AIntro(a) ==
  /\ ast[a].pc = "wait_intro"
  /\ \E m \in Deliverable :
       /\ m.t = "intro" /\ m.node # "nB"
       /\ m.digest = H2(ast[a].sb, K)                                \* accept stage 'introduce'
       /\ net' = net \cup {[t |-> "accept", id |-> ConnId(fresh), digest |-> None],
                           [t |-> "intro", node |-> "nB", digest |-> None]}
       /\ ast' = [ast EXCEPT ![a] = [@ EXCEPT !.pc = "wait_accept", !.peer = m.node, !.id = ConnId(fresh)]]
       /\ fresh' = fresh + 1
  /\ UNCHANGED <<ist, jst>>

AAccept(a) ==
  /\ ast[a].pc = "wait_accept"
  /\ \E m \in Deliverable : m.t = "accept"
  /\ ast' = [ast EXCEPT ![a] = [@ EXCEPT !.pc = "connected"]]
  /\ UNCHANGED <<net, ist, jst, fresh>>

(* honest joiner: Join() for the existing connection *)
JStart(j) ==
  /\ jst[j].pc = "start"
  /\ LET s == Salt(fresh) IN
       /\ net' = net \cup {[t |-> "join", node |-> "nA", id |-> jst[j].id, salt |-> s, digest |-> H3(jst[j].id, s, K)]}
       /\ jst' = [jst EXCEPT ![j] = [@ EXCEPT !.pc = "wait", !.salt = s]]
       /\ fresh' = fresh + 1
  /\ UNCHANGED <<ist, ast>>

Next ==
  \/ \E i \in Initiators : IStart(i) \/ IHello(i) \/ IAccept(i)
  \/ \E a \in Acceptors : AFirst(a) \/ AIntro(a) \/ AAccept(a)
  \/ \E j \in Joiners : JStart(j)

Spec == Init /\ [][Next]_vars

---------------------------------------------------------------------------
(* properties *)

\* full handshake: an acceptor that reached "connected" was answered by an honest initiator that
\* saw this acceptor's own salt (so the peer knows K) -- replay of old transcripts cannot get here
AcceptorAuth ==
  \A a \in Acceptors : (ast[a].pc \in {"wait_accept", "connected"} /\ ast[a].kind = "full") =>
       \E i \in Initiators : ist[i].sb = ast[a].sb

\* initiator side: the salt it answered was generated by an honest acceptor in response to its own hello
InitiatorAuth ==
  \A i \in Initiators : ist[i].pc \in {"wait_accept", "connected"} =>
       \E a \in Acceptors : ast[a].sb = ist[i].sb /\ ast[a].d1 = H2(ist[i].sa, K)

\* join: each Join an honest node sent is accepted at most once (injective agreement)
JoinNoReplay ==
  \A a, b \in Acceptors : (a # b /\ ast[a].pc = "joined" /\ ast[b].pc = "joined") => ast[a].jmsg # ast[b].jmsg

\* join: an accepted Join was sent by an honest joiner
JoinAuth ==
  \A a \in Acceptors : ast[a].pc = "joined" => \E j \in Joiners : jst[j].salt = ast[a].jmsg.salt /\ ast[a].jmsg.node = "nA"
=============================================================================
