--------------------------------- MODULE Tree ---------------------------------
(***************************************************************************)
(* C10: no orphans.                                                          *)
(* Design model: spec/TreeModel.tla                              : every    *)
(* process has an owner (the supervisor / pool / application that started    *)
(* it); a process is starting (inside its Init: not yet in the process       *)
(* table, unreachable for signals), running or dead.                         *)
(*   Fault(p)     - a running process dies (kill, exit, crash, panic)        *)
(*   Begin(o, c)  - a running owner starts (or restarts) child c             *)
(*   Finish(c)    - c's Init returns: it links itself to the owner and       *)
(*                  becomes running; LinkChecked = the link request notices  *)
(*                  an owner that is already gone (the relation would never  *)
(*                  fire otherwise)                                          *)
(*   FailInit(c)  - c's Init fails: the processes c started during its Init  *)
(*                  are told (NotifyOnFail; the pinned code did not)         *)
(*   Cascade(c)   - the exit of a dead owner reaches running child c         *)
(* NoOrphanQ: when nothing is in flight (no Cascade enabled, nothing         *)
(* starting) no running process has a dead owner.                            *)
(* Oracle part: TLC evaluates the same property on the state recorded at     *)
(* quiescence from real trees after a fault script (spec line "end").        *)
(***************************************************************************)
EXTENDS Naturals, Sequences, FiniteSets, TLC, Json
CONSTANTS TraceFile, Checks
\* ---------------------------------------------------------------- oracle over recorded end states
TraceLog == ndJsonDeserialize(TraceFile)
VARIABLES l, mismatch
vars == <<l, mismatch>>
IsPoolWorker(label) == \E k \in 2..Len(label) : SubSeq(label, k, k) = "#" /\ SubSeq(label, k - 1, k - 1) = "/"
Judge(e) ==
  \* (kind "free": spawned by a worker on its own, without a link - nobody but a node stop is responsible for it)
  IF \E i \in 1..Len(e.procs) : e.procs[i].kind # "free" /\ e.procs[i].alive /\ ~e.procs[i].palive THEN "NoOrphan"
  ELSE IF e.stop \notin {"", "ok"} THEN "StopReturns"
  ELSE IF e.stop = "ok" /\ \E i \in 1..Len(e.left) : ~IsPoolWorker(e.left[i]) THEN "StopWaits"
  ELSE IF e.stop = "ok" /\ e.left # <<>> THEN "StopWaitsPool"
  ELSE IF e.stopkind = "stopnode" /\ \E i \in 1..Len(e.procs) : e.procs[i].inited /\ ~e.procs[i].termed THEN "NodeStopAll"
  ELSE ""
Init == l = 1 /\ mismatch = "" /\ TLCSet(1, 1) /\ TLCSet(2, <<>>)
Next ==
  IF mismatch # ""
    THEN TLCSet(2, Append(TLCGet(2), <<mismatch, l - 1>>)) /\ mismatch' = "" /\ UNCHANGED l
    ELSE /\ l <= Len(TraceLog)
         /\ mismatch' = (IF Checks = {} THEN "" ELSE Judge(TraceLog[l]))
         /\ l' = l + 1
Spec == Init /\ [][Next]_vars
HWM == TLCSet(1, IF l > TLCGet(1) THEN l ELSE TLCGet(1))
TraceAccepted ==
  /\ \A k \in 1..Len(TLCGet(2)) : PrintT(<<"CLAUSE_VIOLATED", TLCGet(2)[k][1], "LINE", TLCGet(2)[k][2]>>)
  /\ IF TLCGet(1) = Len(TraceLog) + 1 THEN TLCGet(2) = <<>>
     ELSE PrintT(<<"TRACE_REJECTED_AT_LINE", TLCGet(1), "OF", Len(TraceLog)>>) /\ FALSE
=============================================================================
