---------------------------- MODULE Frame ----------------------------
(* Frame reassembly in net/proto/connection.go read()/serve() for every way the byte
   stream is cut into reads (C12), and for declared lengths that lie (C16).
   A byte is modelled as <<frame index, offset>>; the header's length field of frame f is Decl[f]. *)
EXTENDS Naturals, Sequences, FiniteSets, TLC

CONSTANTS Lens,           \* Seq of real frame lengths, e.g. <<8, 9, 12>>
          Decl,           \* Seq of declared lengths (Decl = Lens for honest traffic)
          MaxMsg,         \* node_maxmessagesize (0 = unlimited)
          FixShortFrame   \* TRUE = repaired design: a declared length < 8 is an error

Hdr == 8
RECURSIVE Bytes(_)
Bytes(f) == IF f > Len(Lens) THEN <<>> ELSE [i \in 1..Lens[f] |-> <<f, i>>] \o Bytes(f + 1)
Stream == Bytes(1)

VARIABLES pos,        \* bytes of Stream already read from the socket
          buf,        \* current buffer (after the previous frame's tail was carried over)
          expect,
          out,        \* frames handed to the decode queues: Seq of Seq of bytes
          status      \* "run" | "closed" (error or EOF) | "crash"
vars == <<pos, buf, expect, out, status>>

Init == pos = 0 /\ buf = <<>> /\ expect = Hdr /\ out = <<>> /\ status = "run"

\* conn.Read returns any non-empty prefix of what is outstanding
ReadSome ==
  /\ status = "run" /\ Len(buf) < expect /\ pos < Len(Stream)
  /\ \E n \in 1..(Len(Stream) - pos) :
       /\ buf' = buf \o SubSeq(Stream, pos + 1, pos + n)
       /\ pos' = pos + n
  /\ UNCHANGED <<expect, out, status>>

Eof == status = "run" /\ Len(buf) < expect /\ pos = Len(Stream) /\ status' = "closed" /\ UNCHANGED <<pos, buf, expect, out>>

\* enough bytes for what we expect: look at the length field of the frame that starts the buffer
Cut ==
  /\ status = "run" /\ Len(buf) >= expect
  /\ LET f == buf[1][1]
         l == Decl[f]
     IN IF MaxMsg > 0 /\ l > MaxMsg THEN status' = "closed" /\ UNCHANGED <<buf, expect, out>>
        ELSE IF FixShortFrame /\ l < Hdr THEN status' = "closed" /\ UNCHANGED <<buf, expect, out>>
        ELSE IF Len(buf) < l THEN expect' = l /\ UNCHANGED <<buf, out, status>>
        ELSE IF l < Hdr - 1 THEN status' = "crash" /\ UNCHANGED <<buf, expect, out>>   \* serve() indexes buf.B[0], [1], [6] of a shorter slice
        ELSE /\ out' = Append(out, SubSeq(buf, 1, l))
             /\ buf' = SubSeq(buf, l + 1, Len(buf))
             /\ expect' = Hdr /\ UNCHANGED status
  /\ UNCHANGED pos

Next == ReadSome \/ Eof \/ Cut
Spec == Init /\ [][Next]_vars

Honest == Decl = Lens
\* every frame comes out whole, once, in order -- for every segmentation
Whole(fr, f) == fr = [i \in 1..Lens[f] |-> <<f, i>>]
FramesPreserved == Honest => \A k \in 1..Len(out) : Whole(out[k], k)
WithinLimit == MaxMsg = 0 \/ \A f \in 1..Len(Lens) : Lens[f] <= MaxMsg
AllDelivered == (Honest /\ WithinLimit /\ status = "closed" /\ pos = Len(Stream)) => Len(out) = Len(Lens)
\* a frame beyond the limit closes the link; what came before it was delivered whole
OverLimitCloses == (Honest /\ ~WithinLimit /\ status = "closed") => Len(out) < Len(Lens)
NoCrash == status # "crash"
=============================================================================
