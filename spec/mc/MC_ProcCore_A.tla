---------------------------- MODULE MC_ProcCore_A ----------------------------
EXTENDS ProcCore
MC_Senders == {"S1", "S2"}
MC_Ops == [s \in MC_Senders |->
   IF s = "S1" THEN << [q |-> "main", kind |-> "msg"] >>
   ELSE << [q |-> "main", kind |-> "msg"] >>]
MC_Killers == {"K1", "K2"}
MC_TOf == [k \in MC_Killers |-> IF k = "K1" THEN "T1" ELSE "T2"]
MC_RSeq == <<"R1", "R2", "R3">>
=============================================================================
