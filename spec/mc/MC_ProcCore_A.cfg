SPECIFICATION Spec
CONSTANTS
  Senders <- MC_Senders
  Ops <- MC_Ops
  Killers <- MC_Killers
  TOf <- MC_TOf
  RSeq <- MC_RSeq
  Limit = 0
  Trap = FALSE
  Fix_KillZombee = TRUE
  Mut_NoRecheck = FALSE
  Mut_WakeBeforePush = FALSE
INVARIANTS
  Serial OneOwner SlotsSuffice TermOnce TermFinal ReasonRight QuiescentState KillKills
  NoLostWakeup ExactlyOnce NoDupHandle RefusedNever HandledWasSent SenderFifo
CHECK_DEADLOCK FALSE
