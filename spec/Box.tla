--------------------------------- MODULE Box ----------------------------------
(***************************************************************************)
(* C02, the two clauses about bounded mailboxes with a fallback and about    *)
(* delayed sends (oracle over cases recorded on a real node).                *)
(*  fallback: the receiver (mailbox of `cap` messages per class, parked in a *)
(*    handler so that nothing is taken out) gets n messages of one class.    *)
(*    The first cap are accepted and handled by the receiver once it goes    *)
(*    on.  Each later one is, by configuration:                              *)
(*      on      - reported ok, handled exactly once by the fallback process, *)
(*                wrapped with the original recipient and the tag;           *)
(*      off     - reported "mailbox full", handled by nobody;                *)
(*      self    - the fallback is the receiver itself: "mailbox full";       *)
(*      unknown - the fallback name resolves to nobody: an error, handled by *)
(*                nobody.                                                    *)
(*  delayed: SendAfter + cancellation at various moments around the firing   *)
(*    time: cancellation reported success => never delivered; otherwise      *)
(*    delivered exactly once.                                                *)
(***************************************************************************)
EXTENDS Naturals, Sequences, FiniteSets, TLC, Json
CONSTANTS TraceFile, Checks
TraceLog == ndJsonDeserialize(TraceFile)
VARIABLES l, mismatch
vars == <<l, mismatch>>

WantRes(c, i) == IF i <= c.cap THEN "ok" ELSE IF c.mode = "on" THEN "ok" ELSE IF c.mode = "unknown" THEN "unknown" ELSE "full"
JudgeFallback(e) ==
  LET c == e.c
      I == 1..c.n
  IN
  IF \E i \in I : (e.res[i] = "ok") # (e.atr[i] + e.atf[i] = 1) THEN "TruthfulOnce"
  ELSE IF \E i \in I : e.atr[i] + e.atf[i] > 1 THEN "TruthfulOnce"
  ELSE IF \E i \in I : e.res[i] # WantRes(c, i) THEN "FallbackResult"
  ELSE IF \E i \in I : (i <= c.cap /\ e.atr[i] # 1) \/ (i > c.cap /\ e.atr[i] # 0) THEN "FallbackTarget"
  ELSE IF \E i \in I : (i > c.cap /\ c.mode = "on") # (e.atf[i] = 1) THEN "FallbackTarget"
  ELSE IF \E i \in I : e.atf[i] = 1 /\ ~e.wrapok[i] THEN "FallbackWrapped"
  ELSE IF e.stray # 0 THEN "FallbackWrapped"
  ELSE ""
JudgeDelayed(e) ==
  IF \E i \in 1..e.n : e.cancel[i] = "true" /\ e.count[i] # 0 THEN "CancelledNeverSent"
  ELSE IF \E i \in 1..e.n : e.cancel[i] # "true" /\ e.count[i] # 1 THEN "DelayedOnce"
  ELSE ""
Init == l = 1 /\ mismatch = "" /\ TLCSet(1, 1) /\ TLCSet(2, <<>>)
Next ==
  IF mismatch # ""
    THEN TLCSet(2, Append(TLCGet(2), <<mismatch, l - 1>>)) /\ mismatch' = "" /\ UNCHANGED l
    ELSE /\ l <= Len(TraceLog)
         /\ LET e == TraceLog[l] IN
            mismatch' = IF Checks = {} THEN "" ELSE IF e.ev = "fallback" THEN JudgeFallback(e) ELSE IF e.ev = "delayed" THEN JudgeDelayed(e) ELSE ""
         /\ l' = l + 1
Spec == Init /\ [][Next]_vars
HWM == TLCSet(1, IF l > TLCGet(1) THEN l ELSE TLCGet(1))
TraceAccepted ==
  /\ \A k \in 1..Len(TLCGet(2)) : PrintT(<<"CLAUSE_VIOLATED", TLCGet(2)[k][1], "LINE", TLCGet(2)[k][2]>>)
  /\ IF TLCGet(1) = Len(TraceLog) + 1 THEN TLCGet(2) = <<>>
     ELSE PrintT(<<"TRACE_REJECTED_AT_LINE", TLCGet(1), "OF", Len(TraceLog)>>) /\ FALSE
=============================================================================
