-------------------------------- MODULE Events --------------------------------
(***************************************************************************)
(* C18: events as a sequential reference (register / publish / subscribe /  *)
(* unsubscribe / unregister / termination of the producer), written from    *)
(* the property text and the documentation of gen.Process.RegisterEvent /   *)
(* LinkEvent / MonitorEvent / SendEvent.                                     *)
(*   publish: only with the token of the current registration; appended to   *)
(*     the buffer of the last N publications; delivered once to every        *)
(*     current subscriber, in publication order;                             *)
(*   subscribe: returns the buffered publications in order; with Notify the  *)
(*     producer is told when the first subscriber arrives (start) and when    *)
(*     the last one leaves (stop);                                           *)
(*   unregister / termination of the owner: every subscriber gets one exit   *)
(*     (link) or down (monitor) naming the event.                            *)
(* Histories are executed on a real node with quiescence after every         *)
(* operation; every recorded line is replayed here and compared.             *)
(* (The publish-versus-subscribe race is the subject of the atomic-step      *)
(* draft in DESIGN.md Appendix I; it is not bound to the code yet.)          *)
(***************************************************************************)
EXTENDS Naturals, Sequences, FiniteSets, TLC, Json
CONSTANTS TraceFile, Checks
TraceLog == ndJsonDeserialize(TraceFile)

Producers == {"P1", "P2", "N"}     \* "N": the node itself (it owns and publishes events as well; it cannot be told anything)
Consumers == {"C1", "C2", "C3"}
EventNames == {"e1", "e2"}
Procs == Producers \cup Consumers

VARIABLES l, ev, recv, gone, notices, alive, mismatch, skipping
refvars == <<ev, recv, gone, notices, alive>>

NoEvent == [reg |-> FALSE, owner |-> "", n |-> 0, notify |-> FALSE, buf |-> <<>>, subs |-> {}]
Cur == [ev |-> ev, recv |-> recv, gone |-> gone, notices |-> notices, alive |-> alive, res |-> "ok", returned |-> <<>>]

LastN(sq, k) == IF k = 0 THEN <<>> ELSE IF Len(sq) <= k THEN sq ELSE SubSeq(sq, Len(sq) - k + 1, Len(sq))
SubsOf(s, e) == s.ev[e].subs
Word(kind) == IF kind = "link" THEN "exit" ELSE "down"

\* everybody subscribed to e is told that it went away
Drop(s, e, why) ==
  [s EXCEPT !.gone = [c \in Consumers |-> s.gone[c] \o
                        (IF <<c, "link">> \in SubsOf(s, e) THEN <<"exit:" \o e \o ":" \o why>> ELSE <<>>) \o
                        (IF <<c, "monitor">> \in SubsOf(s, e) THEN <<"down:" \o e \o ":" \o why>> ELSE <<>>)],
            !.ev[e] = NoEvent]
RECURSIVE DropAll(_, _, _)
DropAll(s, es, why) == IF es = {} THEN s ELSE LET e == CHOOSE x \in es : TRUE IN DropAll(Drop(s, e, why), es \ {e}, why)

Apply(o, s) ==
  LET e == o.e
      p == o.who
  IN
  IF o.op = "kill" THEN
     IF p \in Procs /\ s.alive[p]
       THEN LET s1 == [s EXCEPT !.alive[p] = FALSE] IN DropAll(s1, {x \in EventNames : s.ev[x].reg /\ s.ev[x].owner = p}, "kill")
       ELSE [s EXCEPT !.res = "dead"]
  ELSE IF ~s.alive[p] THEN [s EXCEPT !.res = "dead"]
  ELSE IF o.op = "register" THEN
     IF s.ev[e].reg THEN [s EXCEPT !.res = "taken"]
     ELSE [s EXCEPT !.ev[e] = [reg |-> TRUE, owner |-> p, n |-> o.buffer, notify |-> o.notify, buf |-> <<>>, subs |-> {}]]
  ELSE IF o.op = "unregister" THEN
     IF ~s.ev[e].reg THEN [s EXCEPT !.res = "unknown"]
     ELSE IF s.ev[e].owner # p THEN [s EXCEPT !.res = "notowner"]
     ELSE Drop(s, e, "unregistered")
  ELSE IF o.op = "publish" THEN
     IF ~s.ev[e].reg THEN [s EXCEPT !.res = "unknown"]
     ELSE [s EXCEPT !.ev[e].buf = LastN(Append(@, o.id), s.ev[e].n),
                    !.recv = [c \in Consumers |-> IF \E k \in {"link", "monitor"} : <<c, k>> \in SubsOf(s, e) THEN Append(s.recv[c], o.id) ELSE s.recv[c]]]
  ELSE IF o.op = "badpublish" THEN
     IF ~s.ev[e].reg THEN [s EXCEPT !.res = "unknown"] ELSE [s EXCEPT !.res = "notowner"]
  ELSE IF o.op = "subscribe" THEN
     IF <<p, o.kind>> \in SubsOf(s, e) THEN [s EXCEPT !.res = "exist"]
     ELSE IF ~s.ev[e].reg THEN [s EXCEPT !.res = "unknown"]
     ELSE [s EXCEPT !.returned = s.ev[e].buf, !.ev[e].subs = @ \cup {<<p, o.kind>>},
                    !.notices = IF s.ev[e].notify /\ SubsOf(s, e) = {} THEN [s.notices EXCEPT ![s.ev[e].owner] = Append(@, "start:" \o e)] ELSE s.notices]
  ELSE IF o.op = "unsubscribe" THEN
     IF <<p, o.kind>> \notin SubsOf(s, e) THEN [s EXCEPT !.res = "norel"]
     ELSE [s EXCEPT !.ev[e].subs = @ \ {<<p, o.kind>>},
                    !.notices = IF s.ev[e].notify /\ SubsOf(s, e) = {<<p, o.kind>>} THEN [s.notices EXCEPT ![s.ev[e].owner] = Append(@, "stop:" \o e)] ELSE s.notices]
  ELSE s

BagOf(sq) == [x \in {sq[i] : i \in 1..Len(sq)} |-> Cardinality({i \in 1..Len(sq) : sq[i] = x})]
Compare(o, s) ==
  IF "Result" \in Checks /\ o.res # s.res THEN "Result"
  ELSE IF "Replay" \in Checks /\ o.op = "subscribe" /\ o.returned # s.returned THEN "Replay"
  ELSE IF "Delivery" \in Checks /\ \E c \in Consumers : o.recv[c] # s.recv[c] THEN "Delivery"
  \* (the order of notifications about DIFFERENT events of one terminated producer is not specified: compare as bags)
  ELSE IF "Gone" \in Checks /\ \E c \in Consumers : BagOf(o.gone[c]) # BagOf(s.gone[c]) THEN "Gone"
  ELSE IF "Notices" \in Checks /\ \E p \in Producers \ {"N"} : o.notices[p] # s.notices[p] THEN "Notices"
  ELSE ""

ResetRef ==
  /\ ev' = [e \in EventNames |-> NoEvent] /\ recv' = [c \in Consumers |-> <<>>] /\ gone' = [c \in Consumers |-> <<>>]
  /\ notices' = [p \in Producers |-> <<>>] /\ alive' = [x \in Procs |-> TRUE]

Init == /\ l = 1 /\ ev = [e \in EventNames |-> NoEvent] /\ recv = [c \in Consumers |-> <<>>] /\ gone = [c \in Consumers |-> <<>>]
        /\ notices = [p \in Producers |-> <<>>] /\ alive = [x \in Procs |-> TRUE]
        /\ mismatch = "" /\ skipping = FALSE /\ TLCSet(1, 1) /\ TLCSet(2, <<>>)

Line ==
  LET o == TraceLog[l] IN
  IF o.ev = "reset" THEN ResetRef /\ mismatch' = ""
  ELSE IF o.ev = "op" THEN
     LET s == Apply(o, Cur) IN
     /\ ev' = s.ev /\ recv' = s.recv /\ gone' = s.gone /\ notices' = s.notices /\ alive' = s.alive
     /\ mismatch' = Compare(o, s)
  ELSE UNCHANGED refvars /\ mismatch' = ""

Next ==
  IF mismatch # ""
    THEN /\ TLCSet(2, Append(TLCGet(2), <<mismatch, l - 1>>))
         /\ skipping' = TRUE /\ mismatch' = "" /\ UNCHANGED <<refvars, l>>
    ELSE /\ l <= Len(TraceLog)
         /\ IF skipping /\ TraceLog[l].ev # "reset"
              THEN l' = l + 1 /\ UNCHANGED <<refvars, mismatch, skipping>>
              ELSE Line /\ l' = l + 1 /\ skipping' = FALSE
Spec == Init /\ [][Next]_<<refvars, l, mismatch, skipping>>

HWM == TLCSet(1, IF l > TLCGet(1) THEN l ELSE TLCGet(1))
TraceAccepted ==
  /\ \A k \in 1..Len(TLCGet(2)) : PrintT(<<"CLAUSE_VIOLATED", TLCGet(2)[k][1], "LINE", TLCGet(2)[k][2]>>)
  /\ IF TLCGet(1) = Len(TraceLog) + 1 THEN TLCGet(2) = <<>>
     ELSE PrintT(<<"TRACE_REJECTED_AT_LINE", TLCGet(1), "OF", Len(TraceLog)>>) /\ FALSE
=============================================================================
