-------------------------------- MODULE Access --------------------------------
(***************************************************************************)
(* C15: oracle for access-control cases on real nodes.                      *)
(*  cookie: dialer A (node cookie, optional route cookie) and acceptor B     *)
(*    (node cookie, optional acceptor cookie).  The effective cookie of an   *)
(*    end is its own specific one when set, else the node cookie; the nodes  *)
(*    become connected iff the effective cookies are equal, and then both    *)
(*    ends hold the other's true name, incarnation, flags and size limit.    *)
(*  replay: a peer without the cookie replays recorded handshake bytes of an *)
(*    honest node (its whole Start side after the honest node left; its Join *)
(*    while the honest connection is alive), or sends garbage / a truncated  *)
(*    message.  It must never get past the step that needs the cookie        *)
(*    (spec/Handshake.tla is the symbolic model of the message exchange),    *)
(*    nothing it sends may reach a process, and honest nodes still connect.  *)
(*  perm: history of EnableSpawn / DisableSpawn / EnableApplicationStart /   *)
(*    DisableApplicationStart on B and attempts by peers P1, P2.  The model  *)
(*    keeps, per name, who is explicitly enabled by the history: Enable with *)
(*    a list enables those peers, Enable without a list everyone; Disable    *)
(*    with a list takes those peers out (also out of "everyone"), Disable    *)
(*    without a list removes the name.  An attempt may succeed only if the   *)
(*    model has the peer enabled and both ends' flags allow it; the          *)
(*    requester's environment may be seen only with exposure switched on.    *)
(***************************************************************************)
EXTENDS Naturals, Sequences, FiniteSets, TLC, Json
CONSTANTS TraceFile, Checks
TraceLog == ndJsonDeserialize(TraceFile)
VARIABLES l, mismatch
vars == <<l, mismatch>>
Peers == {"P1", "P2"}

\* ---- cookie -----------------------------------------------------------------
Eff(own, nodecookie) == IF own # "" THEN own ELSE nodecookie
ShouldConnect(c) == Eff(c.route, c.nodea) = Eff(c.acc, c.nodeb)
Same(v, t) == v.peer = t.peer /\ v.creation = t.creation /\ v.spawn = t.spawn /\ v.app = t.app /\ v.max = t.max
JudgeCookie(e) ==
  IF ShouldConnect(e.c) /\ (e.dial # "ok" \/ ~e.seenb) THEN "CookieAccepts"
  ELSE IF ~ShouldConnect(e.c) /\ (e.dial = "ok" \/ e.seenb) THEN "CookieRefuses"
  ELSE IF e.dial = "ok" /\ (~Same(e.aofb, e.trueb) \/ ~Same(e.bofa, e.truea)) THEN "Agreement"
  ELSE ""

\* ---- replay ------------------------------------------------------------------
JudgeReplay(e) ==
  IF e.accepted \/ e.listed THEN "NoCookieNoEntry"
  ELSE IF e.forged # 0 THEN "NoForgedDelivery"
  ELSE IF e.honest # "ok" THEN "HonestStillServed"
  ELSE ""

\* ---- permissions ---------------------------------------------------------------
\* table: name -> [all |-> BOOLEAN, yes |-> set of peers, no |-> set of peers]; absent names are not in the domain
Absent == [all |-> FALSE, yes |-> {}, no |-> {}, known |-> FALSE]
Get(t, n) == IF n \in DOMAIN t THEN t[n] ELSE Absent
Put(t, n, v) == [x \in DOMAIN t \cup {n} |-> IF x = n THEN v ELSE t[x]]
ToSet(s) == {s[i] : i \in 1..Len(s)}
Enable(t, n, nodes) ==
  LET o == Get(t, n) IN
  IF nodes = {} THEN Put(t, n, [all |-> TRUE, yes |-> {}, no |-> {}, known |-> TRUE])
  ELSE Put(t, n, [o EXCEPT !.yes = @ \cup nodes, !.no = @ \ nodes, !.known = TRUE])
Disable(t, n, nodes) ==
  LET o == Get(t, n) IN
  IF ~o.known THEN t
  ELSE IF nodes = {} THEN Put(t, n, Absent)
  ELSE Put(t, n, [o EXCEPT !.yes = @ \ nodes, !.no = @ \cup nodes])
Enabled(t, n, p) == LET o == Get(t, n) IN o.known /\ p \notin o.no /\ (o.all \/ p \in o.yes)

\* state while walking the ops of one perm case: [sp, ap, bad]
RECURSIVE Walk(_, _, _, _, _)
Walk(c, k, sp, ap, bad) ==
  IF bad # "" \/ k > Len(c.ops) THEN bad
  ELSE LET o == c.ops[k]
           ns == ToSet(o.nodes)
       IN IF o.op = "enspawn" THEN Walk(c, k + 1, Enable(sp, o.name, ns), ap, "")
          ELSE IF o.op = "disspawn" THEN Walk(c, k + 1, Disable(sp, o.name, ns), ap, "")
          ELSE IF o.op = "enapp" THEN Walk(c, k + 1, sp, Enable(ap, o.name, ns), "")
          ELSE IF o.op = "disapp" THEN Walk(c, k + 1, sp, Disable(ap, o.name, ns), "")
          ELSE IF o.op = "spawn" THEN
               Walk(c, k + 1, sp, ap,
                    IF o.res = "ok" /\ ~Enabled(sp, o.name, o.peer) THEN "OnlyEnabled"
                    ELSE IF o.res = "ok" /\ ~c.spawnb THEN "FlagsRespected"
                    ELSE IF o.res = "ok" /\ ~c.exposespawn /\ o.env # "" THEN "EnvOnlyIfExposed"
                    ELSE IF o.res = "ok" /\ o.env \notin {"", "from" \o o.peer} THEN "EnvOnlyIfExposed"
                    ELSE "")
          \* a request arriving from o.peer whose parent pid names the other peer: who is connected counts, not what the request claims
          ELSE IF o.op = "fspawn" THEN
               Walk(c, k + 1, sp, ap,
                    IF o.res = "ok" /\ ~Enabled(sp, o.name, o.peer) THEN "OnlyEnabled"
                    ELSE IF o.res = "ok" /\ ~c.spawnb THEN "FlagsRespected"
                    ELSE "")
          ELSE IF o.op = "app" THEN
               Walk(c, k + 1, sp, ap,
                    IF o.res = "ok" /\ ~Enabled(ap, o.name, o.peer) THEN "OnlyEnabled"
                    ELSE IF o.res = "ok" /\ ~c.appb THEN "FlagsRespected"
                    ELSE IF o.res = "ok" /\ ~c.exposeapp /\ o.env # "" THEN "EnvOnlyIfExposed"
                    ELSE IF o.res = "ok" /\ o.env \notin {"", "from" \o o.peer} THEN "EnvOnlyIfExposed"
                    ELSE "")
          ELSE Walk(c, k + 1, sp, ap, "")
Empty == [x \in {} |-> Absent]
JudgePerm(e) == Walk(e.c, 1, Empty, Empty, "")

Init == l = 1 /\ mismatch = "" /\ TLCSet(1, 1) /\ TLCSet(2, <<>>)
Next ==
  IF mismatch # ""
    THEN TLCSet(2, Append(TLCGet(2), <<mismatch, l - 1>>)) /\ mismatch' = "" /\ UNCHANGED l
    ELSE /\ l <= Len(TraceLog)
         /\ LET e == TraceLog[l] IN
            mismatch' = IF Checks = {} THEN "" ELSE IF e.ev = "cookie" THEN JudgeCookie(e) ELSE IF e.ev = "replay" THEN JudgeReplay(e) ELSE IF e.ev = "perm" THEN JudgePerm(e) ELSE ""
         /\ l' = l + 1
Spec == Init /\ [][Next]_vars
HWM == TLCSet(1, IF l > TLCGet(1) THEN l ELSE TLCGet(1))
TraceAccepted ==
  /\ \A k \in 1..Len(TLCGet(2)) : PrintT(<<"CLAUSE_VIOLATED", TLCGet(2)[k][1], "LINE", TLCGet(2)[k][2]>>)
  /\ IF TLCGet(1) = Len(TraceLog) + 1 THEN TLCGet(2) = <<>>
     ELSE PrintT(<<"TRACE_REJECTED_AT_LINE", TLCGet(1), "OF", Len(TraceLog)>>) /\ FALSE
=============================================================================
