---------------------------- MODULE App ----------------------------
(***************************************************************************)
(* C17: node/application.go start / stop / terminate at atomic-step          *)
(* granularity, including the RW lock of lib.Map (group.Range holds the read  *)
(* lock while its body runs).  Threads: the starter (ApplicationStart), a     *)
(* stopper (ApplicationStop / StopForce), the members (which die on their     *)
(* own, are told to exit, or are killed).                                     *)
(* Switches for the two defects this model showed in the pinned tree:         *)
(*  FixRangeKill = FALSE  Kill is called inside group.Range: the inline       *)
(*     termination of a sleeping member waits for the write lock while its    *)
(*     own thread holds the read lock (finding P8a; NoSelfDeadlock)           *)
(*  FixEarly = FALSE  a member that terminates between its spawn and its      *)
(*     entry into the group is ignored and then stored: a dead pid stays in   *)
(*     the group for ever (finding P38; NoGhost, BackToLoaded)                *)
(*  FixStartStop = FALSE  a stop request gets in while the members are still  *)
(*     being started: those started so far are stopped, the application falls *)
(*     back to "loaded", the start goes on and leaves live members behind      *)
(*     (finding P39; StopTruthful, BackToLoaded)                               *)
(* With the three switches TRUE all invariants hold for the bounded constants. *)
(***************************************************************************)
EXTENDS Naturals, Sequences, FiniteSets, TLC

CONSTANTS N,            \* members 1..N, spawned in order
          FailAt,       \* index of the member whose spawn fails (0 = none)
          Mode,         \* "temp" | "trans" | "perm"
          Force,        \* stopper uses ApplicationStopForce
          WithStopper,  \* a stop call races with everything else
          MaxFaults,    \* spontaneous member deaths
          FixRangeKill, \* TRUE = repaired design: pids are collected under the lock, Kill runs outside it
          FixStartStop, \* TRUE = repaired design: a stop request is refused while the start is in progress
          FixEarly      \* TRUE = repaired design: a termination that arrives for a pid not yet in the group while the start is in
                        \* progress is kept and handled when the start is through

M == 1..N
Starter == <<"starter", 0>>
Stopper == <<"stopper", 0>>
Threads == {Starter, Stopper} \cup {<<"m", i>> : i \in M}

VARIABLES ast,        \* application state word: "loaded" | "running" | "stopping"
          mode, group, readers, stopped, reason,
          mst,        \* member: "none" | "sleep" | "busy" | "zombee" | "dead"
          pendExit,   \* members that were sent an exit (reason)
          pc,         \* [Threads -> pc]
          iter,       \* [Threads -> set of members still to visit in a Range]
          tf,         \* [Threads -> terminate frame: <<>> or [m, r, pc]]
          startCb, termCb, panicked, faults, result,
          kidx,       \* member index the starter is working on
          early       \* terminations kept while the start is in progress: set of [m, r]

vars == <<ast, mode, group, readers, stopped, reason, mst, pendExit, pc, iter, tf, startCb, termCb, panicked, faults, result, kidx, early>>

NoFrame == <<>>
Init ==
  /\ ast = "loaded" /\ mode = Mode /\ group = {} /\ readers = {} /\ stopped = "nil" /\ reason = "none"
  /\ mst = [m \in M |-> "none"] /\ pendExit = {}
  /\ pc = [t \in Threads |-> IF t = Starter THEN "cas" ELSE IF t = Stopper THEN (IF WithStopper THEN "cas" ELSE "done") ELSE "idle"]
  /\ iter = [t \in Threads |-> {}]
  /\ tf = [t \in Threads |-> NoFrame]
  /\ startCb = 0 /\ termCb = 0 /\ panicked = FALSE /\ faults = 0
  /\ result = [t \in {Starter, Stopper} |-> "none"] /\ kidx = 1 /\ early = {}

Live == {m \in M : mst[m] \in {"sleep", "busy"}}
CanWrite(t) == readers = {}            \* lib.Map.Lock(): no reader at all -- including t itself
Abnormal(r) == r \notin {"normal", "shutdown"}

---------------------------------------------------------------------------
(* terminate(pid, reason), run by thread t as frame tf[t] *)
TLad(t) ==
  /\ tf[t] # NoFrame /\ tf[t].pc = "lad" /\ CanWrite(t)
  /\ IF tf[t].m \in group
       THEN group' = group \ {tf[t].m} /\ tf' = [tf EXCEPT ![t].pc = "mode"]
       ELSE UNCHANGED group /\ tf' = [tf EXCEPT ![t] = NoFrame]       \* "started somewhere deep in the tree": ignore
  \* ... unless the start is still in progress: it may be a member that has not been stored yet
  /\ early' = IF FixEarly /\ tf[t].m \notin group /\ pc[Starter] \in {"spawn", "store", "post"} THEN early \cup {[m |-> tf[t].m, r |-> tf[t].r]} ELSE early
  /\ UNCHANGED <<ast, mode, readers, stopped, reason, mst, pendExit, pc, iter, startCb, termCb, panicked, faults, result, kidx>>

TMode(t) ==
  /\ tf[t] # NoFrame /\ tf[t].pc = "mode"
  /\ LET r == tf[t].r
         trigger == (mode = "perm") \/ (mode = "trans" /\ Abnormal(r))
     IN IF trigger /\ ast # "stopping"
          THEN /\ ast' = "stopping" /\ reason' = r
               /\ pendExit' = pendExit \cup {m \in group : mst[m] \in {"sleep", "busy"}}
          ELSE UNCHANGED <<ast, reason, pendExit>>
  /\ tf' = [tf EXCEPT ![t].pc = "last"]
  /\ UNCHANGED <<mode, group, readers, stopped, mst, pc, iter, startCb, termCb, panicked, faults, result, kidx>>

TLast(t) ==
  /\ tf[t] # NoFrame /\ tf[t].pc = "last"
  /\ IF group # {} THEN tf' = [tf EXCEPT ![t] = NoFrame] /\ UNCHANGED <<ast, reason>>
     ELSE /\ reason' = IF reason = "none" THEN "normal" ELSE reason
          /\ ast' = "loaded"
          /\ tf' = [tf EXCEPT ![t] = IF ast = "loaded" THEN NoFrame ELSE [@ EXCEPT !.pc = "close"]]
  /\ UNCHANGED <<mode, group, readers, stopped, mst, pendExit, pc, iter, startCb, termCb, panicked, faults, result, kidx>>

TClose(t) ==
  /\ tf[t] # NoFrame /\ tf[t].pc = "close"
  /\ IF stopped = "closed" THEN panicked' = TRUE /\ UNCHANGED <<stopped, termCb>> /\ tf' = [tf EXCEPT ![t] = NoFrame]
     ELSE /\ stopped' = IF stopped = "open" THEN "closed" ELSE stopped
          /\ termCb' = termCb + 1 /\ UNCHANGED panicked
          /\ tf' = [tf EXCEPT ![t] = NoFrame]
  /\ UNCHANGED <<ast, mode, group, readers, reason, mst, pendExit, pc, iter, startCb, faults, result, kidx>>

\* Node.Kill(m) called by t: inline terminate when the member sleeps, deferred when it is busy
KillBy(t, m) ==
  IF mst[m] = "sleep" THEN mst' = [mst EXCEPT ![m] = "dead"] /\ tf' = [tf EXCEPT ![t] = [m |-> m, r |-> "kill", pc |-> "lad"]]
  ELSE IF mst[m] = "busy" THEN mst' = [mst EXCEPT ![m] = "zombee"] /\ UNCHANGED tf
  ELSE UNCHANGED <<mst, tf>>

---------------------------------------------------------------------------
(* ApplicationStart *)
SCas ==
  /\ pc[Starter] = "cas"
  /\ IF ast = "loaded" THEN ast' = "running" /\ pc' = [pc EXCEPT ![Starter] = "spawn"] /\ UNCHANGED result
     ELSE UNCHANGED ast /\ pc' = [pc EXCEPT ![Starter] = "done"] /\ result' = [result EXCEPT ![Starter] = "err_state"]
  /\ UNCHANGED <<mode, group, readers, stopped, reason, mst, pendExit, iter, tf, startCb, termCb, panicked, faults, kidx>>

SSpawn ==
  /\ pc[Starter] = "spawn"
  /\ LET k == kidx IN
       IF k = FailAt THEN pc' = [pc EXCEPT ![Starter] = "rb_lock"] /\ UNCHANGED mst
       ELSE mst' = [mst EXCEPT ![k] = "sleep"] /\ pc' = [pc EXCEPT ![Starter] = "store"]
  /\ UNCHANGED <<ast, mode, group, readers, stopped, reason, pendExit, iter, tf, startCb, termCb, panicked, faults, result, kidx>>

SStore ==
  /\ pc[Starter] = "store" /\ CanWrite(Starter)
  /\ LET k == kidx IN
       /\ group' = group \cup {k}
       /\ pc' = [pc EXCEPT ![Starter] = IF k = N THEN "post" ELSE "spawn"]
       /\ kidx' = IF k = N THEN k ELSE k + 1
  /\ UNCHANGED <<ast, mode, readers, stopped, reason, mst, pendExit, iter, tf, startCb, termCb, panicked, faults, result>>

SPost ==
  /\ pc[Starter] = "post"
  /\ stopped' = "open" /\ mode' = Mode /\ startCb' = startCb + 1
  /\ pc' = [pc EXCEPT ![Starter] = IF FixEarly THEN "early" ELSE "done"] /\ result' = [result EXCEPT ![Starter] = "ok"]
  /\ UNCHANGED <<ast, group, readers, reason, mst, pendExit, iter, tf, termCb, panicked, faults, kidx, early>>

\* the start is through: the terminations kept meanwhile are handled now, one after the other (those of pids that are members)
SEarly ==
  /\ pc[Starter] = "early" /\ tf[Starter] = NoFrame
  /\ LET mine == {e \in early : e.m \in group} IN
     IF mine = {} THEN early' = {} /\ pc' = [pc EXCEPT ![Starter] = "done"] /\ UNCHANGED tf
     ELSE \E e \in mine : early' = early \ {e} /\ tf' = [tf EXCEPT ![Starter] = [m |-> e.m, r |-> e.r, pc |-> "lad"]] /\ UNCHANGED pc
  /\ UNCHANGED <<ast, mode, group, readers, stopped, reason, mst, pendExit, iter, startCb, termCb, panicked, faults, result, kidx>>

\* rollback / stop: a.group.Range(func(pid){ Kill(pid) })
RangeLock(t) ==
  /\ pc[t] = "rb_lock"
  /\ iter' = [iter EXCEPT ![t] = group]
  /\ readers' = IF FixRangeKill THEN readers ELSE readers \cup {t}
  /\ pc' = [pc EXCEPT ![t] = "rb_kill"]
  /\ UNCHANGED <<ast, mode, group, stopped, reason, mst, pendExit, tf, startCb, termCb, panicked, faults, result, kidx>>

RangeKill(t) ==
  /\ pc[t] = "rb_kill" /\ tf[t] = NoFrame
  /\ IF iter[t] = {} THEN pc' = [pc EXCEPT ![t] = "rb_unlock"] /\ UNCHANGED <<iter, mst, tf, pendExit>>
     ELSE \E m \in iter[t] :
            /\ iter' = [iter EXCEPT ![t] = @ \ {m}]
            /\ IF t = Stopper /\ ~Force
                 THEN pendExit' = (IF mst[m] \in {"sleep", "busy"} THEN pendExit \cup {m} ELSE pendExit)
                      /\ UNCHANGED <<mst, tf>>
                 ELSE KillBy(t, m) /\ UNCHANGED pendExit
            /\ UNCHANGED pc
  /\ UNCHANGED <<ast, mode, group, readers, stopped, reason, startCb, termCb, panicked, faults, result, kidx>>

RangeUnlock(t) ==
  /\ pc[t] = "rb_unlock"
  /\ readers' = readers \ {t}
  /\ IF t = Starter
       THEN ast' = "loaded" /\ pc' = [pc EXCEPT ![t] = "done"] /\ result' = [result EXCEPT ![t] = "err_spawn"] /\ UNCHANGED reason /\ early' = {}
            /\ group' = IF FixEarly THEN group \ {e.m : e \in early} ELSE group      \* members that were gone before they entered the group
       ELSE UNCHANGED ast /\ pc' = [pc EXCEPT ![t] = "wait"] /\ reason' = (IF Force THEN "kill" ELSE "shutdown") /\ UNCHANGED <<result, early, group>>
  /\ UNCHANGED <<mode, stopped, mst, pendExit, iter, tf, startCb, termCb, panicked, faults, kidx>>

(* ApplicationStop / ApplicationStopForce *)
PCas ==
  /\ pc[Stopper] = "cas"
  /\ IF FixStartStop /\ pc[Starter] \in {"spawn", "store", "post", "rb_lock", "rb_kill", "rb_unlock"}
       THEN UNCHANGED <<ast, mode>> /\ pc' = [pc EXCEPT ![Stopper] = "done"] /\ result' = [result EXCEPT ![Stopper] = "err_state"]    \* refused: the start is in progress
     ELSE IF ast = "running" THEN ast' = "stopping" /\ mode' = "temp" /\ pc' = [pc EXCEPT ![Stopper] = "rb_lock"] /\ UNCHANGED result
     ELSE IF ast = "loaded" THEN UNCHANGED <<ast, mode>> /\ pc' = [pc EXCEPT ![Stopper] = "done"] /\ result' = [result EXCEPT ![Stopper] = "ok"]
     ELSE IF Force THEN UNCHANGED ast /\ mode' = "temp" /\ pc' = [pc EXCEPT ![Stopper] = "rb_lock"] /\ UNCHANGED result
     ELSE UNCHANGED <<ast, mode>> /\ pc' = [pc EXCEPT ![Stopper] = "done"] /\ result' = [result EXCEPT ![Stopper] = "err_stopping"]
  /\ UNCHANGED <<group, readers, stopped, reason, mst, pendExit, iter, tf, startCb, termCb, panicked, faults, kidx>>

PWait ==
  /\ pc[Stopper] = "wait"
  /\ \/ stopped = "closed" /\ result' = [result EXCEPT ![Stopper] = IF Live = {} THEN "ok" ELSE "ok_but_members_alive"]
     \/ result' = [result EXCEPT ![Stopper] = "timeout"]      \* time.After(timeout)
  /\ pc' = [pc EXCEPT ![Stopper] = "done"]
  /\ UNCHANGED <<ast, mode, group, readers, stopped, reason, mst, pendExit, iter, tf, startCb, termCb, panicked, faults, kidx>>

(* members *)
MBusy(m) == mst[m] = "sleep" /\ mst' = [mst EXCEPT ![m] = "busy"] /\ UNCHANGED <<ast, mode, group, readers, stopped, reason, pendExit, pc, iter, tf, startCb, termCb, panicked, faults, result, kidx>>
MIdle(m) == mst[m] = "busy" /\ mst' = [mst EXCEPT ![m] = "sleep"] /\ UNCHANGED <<ast, mode, group, readers, stopped, reason, pendExit, pc, iter, tf, startCb, termCb, panicked, faults, result, kidx>>

MDie(m) ==
  /\ tf[<<"m", m>>] = NoFrame
  /\ \/ /\ mst[m] \in {"sleep", "busy"} /\ faults < MaxFaults
        /\ \E r \in {"normal", "abnormal"} : tf' = [tf EXCEPT ![<<"m", m>>] = [m |-> m, r |-> r, pc |-> "lad"]]
        /\ faults' = faults + 1 /\ UNCHANGED pendExit
     \/ /\ mst[m] \in {"sleep", "busy"} /\ m \in pendExit
        /\ tf' = [tf EXCEPT ![<<"m", m>>] = [m |-> m, r |-> "shutdown", pc |-> "lad"]]
        /\ pendExit' = pendExit \ {m} /\ UNCHANGED faults
     \/ /\ mst[m] = "zombee"
        /\ tf' = [tf EXCEPT ![<<"m", m>>] = [m |-> m, r |-> "kill", pc |-> "lad"]]
        /\ UNCHANGED <<faults, pendExit>>
  /\ mst' = [mst EXCEPT ![m] = "dead"]
  /\ UNCHANGED <<ast, mode, group, readers, stopped, reason, pc, iter, startCb, termCb, panicked, result, kidx>>

Next ==
  \/ (SCas \/ SSpawn \/ SStore \/ PCas \/ PWait) /\ UNCHANGED early
  \/ SPost \/ SEarly
  \/ \E t \in {Starter, Stopper} : ((RangeLock(t) \/ RangeKill(t)) /\ UNCHANGED early) \/ RangeUnlock(t)
  \/ \E t \in Threads : TLad(t) \/ ((TMode(t) \/ TLast(t) \/ TClose(t)) /\ UNCHANGED early)
  \/ \E m \in M : (MBusy(m) \/ MIdle(m) \/ MDie(m)) /\ UNCHANGED early
Spec == Init /\ [][Next]_vars

---------------------------------------------------------------------------
\* a thread that waits for the write lock while it holds the read lock itself never proceeds
SelfDeadlock == \E t \in Threads : tf[t] # NoFrame /\ tf[t].pc = "lad" /\ t \in readers
NoSelfDeadlock == ~SelfDeadlock
NoPanic == ~panicked
Settled == (\A t \in Threads : tf[t] = NoFrame) /\ pc[Starter] = "done" /\ pc[Stopper] = "done"
           /\ pendExit \cap {m \in M : mst[m] \in {"sleep","busy"}} = {} /\ \A m \in M : mst[m] # "zombee"
FailedStartClean == (Settled /\ result[Starter] = "err_spawn") => (Live = {} /\ ast = "loaded")
NoGhost == Settled => group \subseteq Live
BackToLoaded == (Settled /\ Live = {}) => ast = "loaded"
TermOncePerRun == termCb <= startCb      \* informational: stricter than C17 (Terminate after a failed start)
StopTruthful == result[Stopper] # "ok_but_members_alive"      \* evaluated at the moment stop() returns nil
=============================================================================
