--------------------------- MODULE CronSched_Trace ---------------------------
(***************************************************************************)
(* Trace specification for the scheduler part of C20: histories of          *)
(* AddJob / RemoveJob / EnableJob / DisableJob executed on the real cron of  *)
(* a node between two ticks (and, in the thorough tier, across a real minute *)
(* boundary); after each call the harness logs gen.Cron.Info(): whether Next *)
(* is the upcoming minute and the names in the spool.  Each line is replayed *)
(* on CronSched (repaired constants) and the spool the real scheduler shows  *)
(* must equal the model's spool of enabled entries; "fired" lines of the     *)
(* timed run must equal what the model's Tick fires.                        *)
(***************************************************************************)
EXTENDS CronSched, Json
CONSTANTS TraceFile, Checks
TraceLog == ndJsonDeserialize(TraceFile)
VARIABLES l, bad
tvars == <<vars, l, bad>>

Visible == SelectSeq(spool, LAMBDA j : j \in enabled)
SeqToBag(s) == [x \in {s[i] : i \in 1..Len(s)} |-> Cardinality({i \in 1..Len(s) : s[i] = x})]

ResetModel ==
  /\ clk' = 0 /\ next' = 1 /\ present' = {} /\ enabled' = {}
  /\ match' = [j \in Jobs |-> {}] /\ zeromatch' = [j \in Jobs |-> FALSE]
  /\ spool' = <<>> /\ spooledFor' = [j \in Jobs |-> 0] /\ fired' = <<>> /\ ops' = 0 /\ wasOn' = {}

\* the model step for a logged operation; an operation the model does not allow (unknown job ...) must have failed
Apply(e) ==
  LET j == e.job IN
  IF e.op = "add" THEN
     IF j \notin present THEN Add(j, IF e.due THEN 1..50 ELSE {}, FALSE) ELSE UNCHANGED vars
  ELSE IF e.op = "remove" THEN IF j \in present THEN Remove(j) ELSE UNCHANGED vars
  ELSE IF e.op = "disable" THEN IF j \in enabled THEN Disable(j) ELSE UNCHANGED vars
  ELSE IF e.op = "enable" THEN IF j \in present /\ j \notin enabled THEN Enable(j) ELSE UNCHANGED vars
  ELSE IF e.op = "tick" THEN Tick
  ELSE UNCHANGED vars

Expected(e) ==
  IF e.op = "add" THEN IF e.job \notin present THEN "ok" ELSE "err"
  ELSE IF e.op \in {"remove", "disable", "enable"} THEN IF e.job \in present THEN "ok" ELSE "err"
  ELSE "ok"

FiredNow == {fired'[i] : i \in (Len(fired) + 1)..Len(fired')}

Line ==
  LET e == TraceLog[l] IN
  IF e.ev = "reset" THEN ResetModel /\ bad' = ""
  ELSE /\ Apply(e)
       /\ bad' = IF "Result" \in Checks /\ e.res # Expected(e) THEN "Result"
                 ELSE IF "NextSet" \in Checks /\ ~e.nextok THEN "NextSet"
                 ELSE IF "SpoolMatches" \in Checks /\ SeqToBag(e.spool) # SeqToBag(SelectSeq(spool', LAMBDA j : j \in enabled')) THEN "SpoolMatches"
                 ELSE IF "FiredMatches" \in Checks /\ e.op = "tick" /\ SeqToBag(e.fired) # SeqToBag([i \in 1..(Len(fired') - Len(fired)) |-> fired'[Len(fired) + i][1]]) THEN "FiredMatches"
                 ELSE ""

TInit == Init /\ l = 1 /\ bad = "" /\ TLCSet(1, 1) /\ TLCSet(2, <<>>)
TNext == /\ l <= Len(TraceLog)
         /\ Line
         /\ (bad' # "" => TLCSet(2, Append(TLCGet(2), <<bad', l>>)))
         /\ l' = l + 1
TraceSpec == TInit /\ [][TNext]_tvars
HWM == TLCSet(1, IF l > TLCGet(1) THEN l ELSE TLCGet(1))
TraceAccepted ==
  /\ \A k \in 1..Len(TLCGet(2)) : PrintT(<<"CLAUSE_VIOLATED", TLCGet(2)[k][1], "LINE", TLCGet(2)[k][2]>>)
  /\ IF TLCGet(1) = Len(TraceLog) + 1 THEN TLCGet(2) = <<>>
     ELSE PrintT(<<"TRACE_REJECTED_AT_LINE", TLCGet(1), "OF", Len(TraceLog)>>) /\ FALSE
=============================================================================
