------------------------------ MODULE MetaCore ------------------------------
(***************************************************************************)
(* C01 / C05 for meta-processes (node/meta.go).                              *)
(* A meta-process has a state word (init, sleep, running, terminated), two   *)
(* mailboxes (here: a counter of pending messages and a pending exit), one   *)
(* goroutine that runs the behaviour's Start() for as long as the meta lives *)
(* (thread T) and handler goroutines started by whoever finds it asleep      *)
(* (senders S, T itself once after start-up).                                *)
(*  T: state := sleep; handle(); Start() ... returns; old := Swap(terminated)*)
(*     if old # terminated: Terminate callback                               *)
(*  send: push; handle(): CAS sleep -> running, on success spawn a handler   *)
(*  handler: loop { state # running -> leave; pop exit -> terminate path;    *)
(*     pop message -> HandleMessage (may return an error -> terminate path)} *)
(*     CAS running -> sleep (else return); re-check mailboxes; CAS sleep ->  *)
(*     running (else return); loop                                           *)
(*  terminate path: old := Swap(terminated); if old # terminated: Terminate  *)
(* Properties: SerialHandlers (never two HandleMessage at once), SerialTerm  *)
(* (Terminate never overlaps a handler callback - the pinned code violates   *)
(* this when Start() returns while a handler is inside a callback: P15),     *)
(* TermOnce, Final (no callback starts after Terminate began).               *)
(* Mut_SleepStore = TRUE replaces the CAS running -> sleep by a plain store  *)
(* (the seeded change C05-m2): a terminated meta comes back to life.         *)
(* Mut_InitSleep = TRUE registers the meta in state sleep (seeded change      *)
(* C01-r3): two handler goroutines at once.                                   *)
(***************************************************************************)
EXTENDS Naturals, FiniteSets
CONSTANTS Senders, Handlers, MayFail, Mut_SleepStore, Mut_InitSleep
VARIABLES st, q, exitq, spc, tpc, hpc, inCb, termCount, termBegun, lateCb
vars == <<st, q, exitq, spc, tpc, hpc, inCb, termCount, termBegun, lateCb>>

\* (Mut_InitSleep: the meta is registered asleep instead of "init" - a sender that arrives before the Start goroutine has stored
\* "sleep" then wins the wake-up CAS, and the unconditional store of the Start goroutine hands the meta out a second time)
Init == /\ st = (IF Mut_InitSleep THEN "sleep" ELSE "init") /\ q = 0 /\ exitq = 0
        /\ spc = [s \in Senders |-> "push"]
        /\ tpc = "sleep"
        /\ hpc = [h \in Handlers |-> "free"]
        /\ inCb = {} /\ termCount = 0 /\ termBegun = FALSE /\ lateCb = FALSE

Free == {h \in Handlers : hpc[h] = "free"}
\* handle(): CAS sleep -> running and spawn a handler goroutine
Wake == IF st = "sleep" /\ Free # {}
          THEN LET h == CHOOSE x \in Free : TRUE IN st' = "running" /\ hpc' = [hpc EXCEPT ![h] = "pick"]
          ELSE UNCHANGED <<st, hpc>>
WakePossible == st # "sleep" \/ Free # {}

\* ---- the Start thread
TSleep == tpc = "sleep" /\ st' = "sleep" /\ tpc' = "spawn" /\ UNCHANGED <<q, exitq, spc, hpc, inCb, termCount, termBegun, lateCb>>
TSpawn == tpc = "spawn" /\ WakePossible /\ Wake /\ tpc' = "instart" /\ UNCHANGED <<q, exitq, spc, inCb, termCount, termBegun, lateCb>>
TRet == tpc = "instart" /\ tpc' = "ret" /\ UNCHANGED <<st, q, exitq, spc, hpc, inCb, termCount, termBegun, lateCb>>
TSwap == /\ tpc = "ret" /\ st' = "terminated"
         /\ tpc' = IF st # "terminated" THEN "term" ELSE "done"
         /\ UNCHANGED <<q, exitq, spc, hpc, inCb, termCount, termBegun, lateCb>>
TTermBegin == /\ tpc = "term" /\ tpc' = "interm" /\ inCb' = inCb \cup {"T"} /\ termCount' = termCount + 1 /\ termBegun' = TRUE
              /\ UNCHANGED <<st, q, exitq, spc, hpc, lateCb>>
TTermEnd == tpc = "interm" /\ tpc' = "done" /\ inCb' = inCb \ {"T"} /\ UNCHANGED <<st, q, exitq, spc, hpc, termCount, termBegun, lateCb>>

\* ---- senders (the last one sends an exit signal instead of a message when MayFail)
SPush(s) == /\ spc[s] = "push" /\ spc' = [spc EXCEPT ![s] = "wake"]
            /\ q' = q + 1 /\ UNCHANGED <<st, exitq, tpc, hpc, inCb, termCount, termBegun, lateCb>>
SWake(s) == /\ spc[s] = "wake" /\ WakePossible /\ Wake /\ spc' = [spc EXCEPT ![s] = "done"]
            /\ UNCHANGED <<q, exitq, tpc, inCb, termCount, termBegun, lateCb>>

\* ---- handler goroutines
HPick(h) ==
  /\ hpc[h] = "pick"
  /\ IF st # "running" THEN hpc' = [hpc EXCEPT ![h] = "sleep"] /\ UNCHANGED <<q, inCb, lateCb>>
     ELSE IF q > 0 THEN /\ q' = q - 1 /\ hpc' = [hpc EXCEPT ![h] = "handling"] /\ inCb' = inCb \cup {h}
                        /\ lateCb' = (lateCb \/ termBegun)
     ELSE hpc' = [hpc EXCEPT ![h] = "sleep"] /\ UNCHANGED <<q, inCb, lateCb>>
  /\ UNCHANGED <<st, exitq, spc, tpc, termCount, termBegun>>
HEnd(h) ==
  /\ hpc[h] = "handling" /\ inCb' = inCb \ {h}
  /\ \/ hpc' = [hpc EXCEPT ![h] = "pick"]
     \/ MayFail /\ hpc' = [hpc EXCEPT ![h] = "term"]       \* the callback returned an error
  /\ UNCHANGED <<st, q, exitq, spc, tpc, termCount, termBegun, lateCb>>
HSwap(h) ==
  /\ hpc[h] = "term" /\ st' = "terminated"
  /\ hpc' = [hpc EXCEPT ![h] = IF st # "terminated" THEN "termcb" ELSE "free"]
  /\ UNCHANGED <<q, exitq, spc, tpc, inCb, termCount, termBegun, lateCb>>
HTermBegin(h) == /\ hpc[h] = "termcb" /\ hpc' = [hpc EXCEPT ![h] = "interm"] /\ inCb' = inCb \cup {"X"} /\ termCount' = termCount + 1 /\ termBegun' = TRUE
                 /\ UNCHANGED <<st, q, exitq, spc, tpc, lateCb>>
HTermEnd(h) == /\ hpc[h] = "interm" /\ hpc' = [hpc EXCEPT ![h] = "free"] /\ inCb' = inCb \ {"X"}
               /\ UNCHANGED <<st, q, exitq, spc, tpc, termCount, termBegun, lateCb>>
HSleep(h) ==
  /\ hpc[h] = "sleep"
  /\ IF Mut_SleepStore \/ st = "running"
       THEN st' = "sleep" /\ hpc' = [hpc EXCEPT ![h] = "recheck"]
       ELSE hpc' = [hpc EXCEPT ![h] = "free"] /\ UNCHANGED st
  /\ UNCHANGED <<q, exitq, spc, tpc, inCb, termCount, termBegun, lateCb>>
HRecheck(h) ==
  /\ hpc[h] = "recheck"
  /\ hpc' = [hpc EXCEPT ![h] = IF q = 0 THEN "free" ELSE "reacquire"]
  /\ UNCHANGED <<st, q, exitq, spc, tpc, inCb, termCount, termBegun, lateCb>>
HReacquire(h) ==
  /\ hpc[h] = "reacquire"
  /\ IF st = "sleep" THEN st' = "running" /\ hpc' = [hpc EXCEPT ![h] = "pick"]
     ELSE hpc' = [hpc EXCEPT ![h] = "free"] /\ UNCHANGED st
  /\ UNCHANGED <<q, exitq, spc, tpc, inCb, termCount, termBegun, lateCb>>

Next == \/ TSleep \/ TSpawn \/ TRet \/ TSwap \/ TTermBegin \/ TTermEnd
        \/ \E s \in Senders : SPush(s) \/ SWake(s)
        \/ \E h \in Handlers : HPick(h) \/ HEnd(h) \/ HSwap(h) \/ HTermBegin(h) \/ HTermEnd(h) \/ HSleep(h) \/ HRecheck(h) \/ HReacquire(h)
Spec == Init /\ [][Next]_vars

SlotsSuffice == \A s \in Senders : (spc[s] = "wake" /\ st = "sleep") => Free # {}
SerialHandlers == Cardinality(inCb \cap Handlers) <= 1
SerialTerm == (inCb \cap {"T", "X"}) # {} => inCb \cap Handlers = {}
TermOnce == termCount <= 1
Final == ~lateCb
\* nothing is left unhandled while the meta is asleep and nobody is on the way to wake it
NoLostWakeup == (st = "sleep" /\ q > 0) => (\E h \in Handlers : hpc[h] \in {"recheck", "reacquire"}) \/ (\E s \in Senders : spc[s] = "wake") \/ tpc = "spawn"
=============================================================================
