----------------------------- MODULE MailboxOrder -----------------------------
(***************************************************************************)
(* C03 (and the conservation clause of C02) for sender PROCESSES using the  *)
(* process API: while the receiver is parked inside a callback, sender       *)
(* processes issue Send / SendWithPriority / SetSendPriority operations by   *)
(* pid and by name - some of them failing - and the node logs to the         *)
(* receiver (registered as a logger), one operation after the other.  Each   *)
(* operation has a class it must be handled in: Max priority -> urgent,      *)
(* High -> system, Normal -> main, log messages -> log; a plain send uses the*)
(* sender's current send priority, which only SetSendPriority changes        *)
(* (SendWithPriority is temporary, also when it fails).                      *)
(* In every third history the receiver is parked a second time, inside the   *)
(* handler of its first log message, while a second phase of operations      *)
(* arrives: log messages are the lowest class and are handled one at a time. *)
(* After the release the receiver must handle exactly the operations that    *)
(* reported success, class by class (urgent, system, main, log), in issue    *)
(* order within a class.                                                     *)
(***************************************************************************)
EXTENDS Naturals, Sequences, FiniteSets, TLC, Json
CONSTANTS TraceFile, Checks
TraceLog == ndJsonDeserialize(TraceFile)
VARIABLES l, bad

Classes == <<"urgent", "system", "main", "log">>
OfClass(ops, c) == SelectSeq(ops, LAMBDA o : o.cls = c /\ o.ok)
Ids(ops) == [i \in 1..Len(ops) |-> ops[i].id]
NonLog(ops) == Ids(OfClass(ops, "urgent")) \o Ids(OfClass(ops, "system")) \o Ids(OfClass(ops, "main"))
Phase(ops, p) == SelectSeq(ops, LAMBDA o : o.ph = p)
\* without the second hold everything is queued before the release: class by class
Plain(ops) == NonLog(ops) \o Ids(OfClass(ops, "log"))
\* with the second hold the receiver is parked inside the handler of its FIRST log message while phase 2 arrives:
\* a log message is handled one at a time, and after each one the higher classes are looked at again
Held(ops) ==
  LET logs == Ids(OfClass(Phase(ops, 1), "log")) \o Ids(OfClass(Phase(ops, 2), "log")) IN
  IF logs = <<>> THEN Plain(ops)
  ELSE NonLog(Phase(ops, 1)) \o <<Head(logs)>> \o NonLog(Phase(ops, 2)) \o Tail(logs)
Expected(e) == IF e.holdlog THEN Held(e.ops) ELSE Plain(e.ops)
SeqSet(s) == {s[i] : i \in 1..Len(s)}

LineBad(e) ==
  LET exp == Expected(e) IN
  IF "ExactlyOnce" \in Checks /\ (SeqSet(e.handled) # SeqSet(exp) \/ Len(e.handled) # Len(exp)) THEN "ExactlyOnce"
  ELSE IF "NoLostWakeup" \in Checks /\ (e.st # "sleep" \/ e.qlen # 0) THEN "NoLostWakeup"
  ELSE IF "Order" \in Checks /\ e.handled # exp THEN "Order"
  ELSE ""

Init == l = 1 /\ bad = "" /\ TLCSet(1, 1) /\ TLCSet(2, <<>>)
Next == /\ l <= Len(TraceLog)
        /\ LET b == LineBad(TraceLog[l]) IN
             /\ bad' = b
             /\ (b # "" => TLCSet(2, Append(TLCGet(2), <<b, l>>)))
        /\ l' = l + 1
Spec == Init /\ [][Next]_<<l, bad>>
HWM == TLCSet(1, IF l > TLCGet(1) THEN l ELSE TLCGet(1))
TraceAccepted ==
  /\ \A k \in 1..Len(TLCGet(2)) : PrintT(<<"CLAUSE_VIOLATED", TLCGet(2)[k][1], "LINE", TLCGet(2)[k][2]>>)
  /\ IF TLCGet(1) = Len(TraceLog) + 1 THEN TLCGet(2) = <<>>
     ELSE PrintT(<<"TRACE_REJECTED_AT_LINE", TLCGet(1), "OF", Len(TraceLog)>>) /\ FALSE
=============================================================================
