--------------------------------- MODULE EDF ---------------------------------
(***************************************************************************)
(* C11: the EDF wire format as a model codec, the round-trip law on it, and  *)
(* the bounded universe of cases that is replayed into the real codec.       *)
(*                                                                           *)
(* Values are (type term, value term) pairs:                                 *)
(*   type  [k |-> leaf] | [k |-> "slice", e |-> T] | [k |-> "array", n, e]   *)
(*         | [k |-> "map", key |-> T, e |-> T] | [k |-> "reg", name |-> N]   *)
(*   value boundary classes for leaves ([c |-> "min"], [len |-> 65535, fill  *)
(*         |-> "pct"], [nil |-> TRUE] ...), [items |-> <<..>>], [pairs |->   *)
(*         <<[k, v]..>>], [fields |-> <<..>>], [t |-> T, v |-> V] inside any *)
(* The registered types (name, length of the wire name, cache id, shape) are *)
(* read from a table the harness derives by reflection from its Go types.    *)
(*                                                                           *)
(* Enc* produce token sequences (tag / u16 / u32 / fixed-width / raw tokens  *)
(* with their byte widths), Dec* parse them type-directed exactly like       *)
(* net/edf: folded type descriptors for unnamed composites, 3-byte cache ids *)
(* or names for registered types, ids sharing a field with lengths (atom id  *)
(* > 255, type id > 4095, error id > 32767, 65535 = nil error), nil markers. *)
(* Fix_StrLen = FALSE is the former string decoder (2 + l computed in 16     *)
(* bits), Fix_ErrText = FALSE the former error decoder (text used as a       *)
(* format string): TLC must find both counterexamples.                       *)
(***************************************************************************)
EXTENDS Integers, Sequences, FiniteSets, TLC, Json, SequencesExt
CONSTANTS TableFile, Fix_StrLen, Fix_ErrText, Depth, CasesOut

Tab == JsonDeserialize(TableFile)
Reg == Tab.types
Meta == Tab.meta
RegNames == DOMAIN Reg

Configs == {"none", "cache", "neg", "negcache", "part"}
\* ("wire", "wiretop": the value travelled between two real nodes, in an envelope or as the message itself; the caches are the
\* ones the real handshake negotiated)
Negotiated == {"neg", "negcache", "wire", "wiretop"}
UsesAtoms(cfg) == cfg \in Negotiated
UsesErrs(cfg) == cfg \in Negotiated
RegCached(cfg, name) == cfg \in Negotiated \/ (cfg = "part" /\ Reg[name].part)
DecHasCaches(cfg) == cfg \in Negotiated \cup {"part"}

LeafTag == [bool |-> 145, i8 |-> 146, i16 |-> 147, i32 |-> 148, i64 |-> 149, int |-> 150, u8 |-> 151, u16 |-> 152, u32 |-> 153, u64 |-> 154,
            uint |-> 155, f32 |-> 143, f64 |-> 144, str |-> 141, bin |-> 142, atom |-> 140, pid |-> 170, procid |-> 171, alias |-> 172,
            event |-> 173, ref |-> 174, time |-> 175, err |-> 156, any |-> 132]
LeafW == [bool |-> 1, i8 |-> 1, i16 |-> 2, i32 |-> 4, i64 |-> 8, int |-> 8, u8 |-> 1, u16 |-> 2, u32 |-> 4, u64 |-> 8, uint |-> 8, f32 |-> 4, f64 |-> 8]
NumKinds == DOMAIN LeafW
LeafKinds == DOMAIN LeafTag
KindOfTag(x) == CHOOSE k \in LeafKinds : LeafTag[k] = x
IsLeafTag(x) == \E k \in LeafKinds : LeafTag[k] = x

\* ---- tokens
Tag(n) == [w |-> 1, a |-> "tag", x |-> n]
U16(n) == [w |-> 2, a |-> "u16", x |-> n]
U32(n) == [w |-> 4, a |-> "u32", x |-> n]
Fixd(w, c) == [w |-> w, a |-> "fix", x |-> c]
Raw(n, c) == [w |-> n, a |-> "raw", x |-> c]
RECURSIVE SumW(_, _, _)
SumW(s, i, j) == IF i > j THEN 0 ELSE s[i].w + SumW(s, i + 1, j)
Bytes(s) == SumW(s, 1, Len(s))

Ok(s) == [ok |-> TRUE, t |-> s]
Fail == [ok |-> FALSE, t |-> <<>>]
Cat(a, b) == IF a.ok /\ b.ok THEN [ok |-> TRUE, t |-> a.t \o b.t] ELSE Fail
Has(V, f) == f \in DOMAIN V

\* ---- encoder
EncAtom(av, cfg) ==
  IF Has(av, "c")
    THEN IF UsesAtoms(cfg) THEN Ok(<<U16(Meta.atoms[av.c].id)>>)
         ELSE LET n == Meta.atoms[av.c].len IN Ok(<<U16(n), Raw(n, av)>>)
    ELSE IF av.len > 255 THEN Fail ELSE Ok(<<U16(av.len), Raw(av.len, av)>>)

EncErr(V, cfg) ==
  IF Has(V, "nil") THEN Ok(<<U16(65535)>>)
  ELSE IF Has(V, "sentinel")
    THEN IF UsesErrs(cfg) THEN Ok(<<U16(Meta.errs[V.sentinel].id)>>)
         ELSE LET n == Meta.errs[V.sentinel].len IN Ok(<<U16(n), Raw(n, [senttext |-> V.sentinel])>>)
  ELSE IF Has(V, "wrapped")
    THEN LET n == Meta.errs[V.wrapped].len + 9 IN Ok(<<U16(n), Raw(n, [wraptext |-> V.wrapped])>>)
  ELSE IF V.text.len > 32767 THEN Fail ELSE Ok(<<U16(V.text.len), Raw(V.text.len, V.text)>>)

FoldReg(name, cfg) ==
  IF RegCached(cfg, name) THEN <<Tag(131), U16(Reg[name].id)>>
  ELSE <<Tag(131), U16(Reg[name].fulllen), Raw(Reg[name].fulllen, [name |-> name])>>
RECURSIVE Fold(_, _)
Fold(T, cfg) ==
  CASE T.k = "slice" -> <<Tag(157)>> \o Fold(T.e, cfg)
    [] T.k = "array" -> <<Tag(158), U32(T.n)>> \o Fold(T.e, cfg)
    [] T.k = "map" -> <<Tag(159)>> \o Fold(T.key, cfg) \o Fold(T.e, cfg)
    [] T.k = "reg" -> FoldReg(T.name, cfg)
    [] OTHER -> <<Tag(LeafTag[T.k])>>
IsComposite(T) == T.k \in {"slice", "array", "map"}
TypeDesc(T, cfg) == IF IsComposite(T) THEN LET f == Fold(T, cfg) IN <<Tag(130), U16(Bytes(f))>> \o f ELSE Fold(T, cfg)

RECURSIVE EncVal(_, _, _), EncTyped(_, _, _), EncItems(_, _, _, _), EncPairs(_, _, _, _, _), EncFields(_, _, _, _)
EncItems(T, items, cfg, i) == IF i > Len(items) THEN Ok(<<>>) ELSE Cat(EncVal(T, items[i], cfg), EncItems(T, items, cfg, i + 1))
EncPairs(K, T, pairs, cfg, i) ==
  IF i > Len(pairs) THEN Ok(<<>>) ELSE Cat(Cat(EncVal(K, pairs[i].k, cfg), EncVal(T, pairs[i].v, cfg)), EncPairs(K, T, pairs, cfg, i + 1))
EncFields(Ts, Vs, cfg, i) == IF i > Len(Ts) THEN Ok(<<>>) ELSE Cat(EncVal(Ts[i], Vs[i], cfg), EncFields(Ts, Vs, cfg, i + 1))
EncReg(name, V, cfg) ==
  LET u == Reg[name].u IN
  CASE u.k = "struct" -> EncFields(u.fields, V.fields, cfg, 1)
    [] u.k = "named" -> EncVal([k |-> u.of], V, cfg)
    [] u.k = "marsh" -> Ok(<<U32(V.len), Raw(V.len, [len |-> V.len])>>)
    [] u.k = "slice" -> IF Has(V, "nil") THEN Ok(<<Tag(255)>>) ELSE Cat(Ok(<<Tag(131), U32(Len(V.items))>>), EncItems(u.e, V.items, cfg, 1))
    [] u.k = "array" -> EncItems(u.e, V.items, cfg, 1)
    [] u.k = "map" -> IF Has(V, "nil") THEN Ok(<<Tag(255)>>) ELSE Cat(Ok(<<Tag(131), U32(Len(V.pairs))>>), EncPairs(u.key, u.e, V.pairs, cfg, 1))
EncVal(T, V, cfg) ==
  CASE T.k \in NumKinds -> Ok(<<Fixd(LeafW[T.k], V)>>)
    [] T.k = "str" -> IF V.len > 65535 THEN Fail ELSE Ok(<<U16(V.len), Raw(V.len, V)>>)
    [] T.k = "bin" -> LET n == IF Has(V, "nil") THEN 0 ELSE V.len IN Ok(<<U32(n), Raw(n, [len |-> n])>>)
    [] T.k = "atom" -> EncAtom(V, cfg)
    [] T.k = "pid" -> Cat(EncAtom(V.node, cfg), Ok(<<Fixd(16, [id |-> V.id, cr |-> V.cr])>>))
    [] T.k \in {"procid", "event"} -> Cat(EncAtom(V.node, cfg), EncAtom(V.name, cfg))
    [] T.k \in {"alias", "ref"} -> Cat(EncAtom(V.node, cfg), Ok(<<Fixd(32, [id |-> V.id, cr |-> V.cr])>>))
    [] T.k = "time" -> Ok(<<Fixd(1, 15), Raw(15, V)>>)
    [] T.k = "err" -> EncErr(V, cfg)
    [] T.k = "any" -> IF Has(V, "nil") THEN Ok(<<Tag(255)>>) ELSE EncTyped(V.t, V.v, cfg)
    [] T.k = "slice" -> IF Has(V, "nil") THEN Ok(<<Tag(255)>>) ELSE Cat(Ok(<<Tag(157), U32(Len(V.items))>>), EncItems(T.e, V.items, cfg, 1))
    [] T.k = "array" -> EncItems(T.e, V.items, cfg, 1)
    [] T.k = "map" -> IF Has(V, "nil") THEN Ok(<<Tag(255)>>) ELSE Cat(Ok(<<Tag(159), U32(Len(V.pairs))>>), EncPairs(T.key, T.e, V.pairs, cfg, 1))
    [] T.k = "reg" -> EncReg(T.name, V, cfg)
\* what Encode(x) writes for a non-nil x, and what an element of interface type looks like: type information, then the value
\* (an error of a type of its own travels only in a slot of type error: as a dynamic value the encoder has no codec for its type)
CustomErr(T, V) == T.k = "err" /\ Has(V, "sentinel") /\ Meta.errs[V.sentinel].custom
EncTyped(T, V, cfg) == IF CustomErr(T, V) THEN Fail ELSE Cat(Ok(TypeDesc(T, cfg)), EncVal(T, V, cfg))

\* ---- decoder
Good(v, p) == [ok |-> TRUE, v |-> v, p |-> p]
Bad == [ok |-> FALSE, v |-> <<>>, p |-> 0]
Tok(s, p, a) == p <= Len(s) /\ s[p].a = a

DecAtom(s, p, cfg) ==
  IF ~Tok(s, p, "u16") THEN Bad
  ELSE LET x == s[p].x IN
    IF x > 255
      THEN IF DecHasCaches(cfg) /\ \E c \in DOMAIN Meta.atoms : Meta.atoms[c].id = x
             THEN Good([c |-> CHOOSE c \in DOMAIN Meta.atoms : Meta.atoms[c].id = x], p + 1) ELSE Bad
      ELSE IF Tok(s, p + 1, "raw") /\ s[p + 1].w = x THEN Good(s[p + 1].x, p + 2) ELSE Bad

DecErr(s, p, cfg) ==
  IF ~Tok(s, p, "u16") THEN Bad
  ELSE LET x == s[p].x IN
    IF x = 65535 THEN Good([nil |-> TRUE], p + 1)
    ELSE IF x > 32767
      THEN IF DecHasCaches(cfg) /\ \E e \in DOMAIN Meta.errs : Meta.errs[e].id = x
             THEN Good([sentinel |-> CHOOSE e \in DOMAIN Meta.errs : Meta.errs[e].id = x], p + 1) ELSE Bad
    ELSE IF Tok(s, p + 1, "raw") /\ s[p + 1].w = x
      THEN LET c == s[p + 1].x IN
           IF ~Fix_ErrText /\ Has(c, "fill") /\ c.fill = "pct" /\ c.len > 0
             THEN Good([text |-> [len |-> c.len, fill |-> "mangled"]], p + 2)
             ELSE Good([text |-> c], p + 2)
      ELSE Bad

UnfoldReg(s, p, cfg) ==
  IF ~(Tok(s, p, "tag") /\ s[p].x = 131 /\ Tok(s, p + 1, "u16")) THEN Bad
  ELSE LET y == s[p + 1].x IN
    IF y > 4095
      THEN IF DecHasCaches(cfg) /\ \E n \in RegNames : Reg[n].id = y
             THEN Good([k |-> "reg", name |-> CHOOSE n \in RegNames : Reg[n].id = y], p + 2) ELSE Bad
      ELSE IF Tok(s, p + 2, "raw") /\ s[p + 2].w = y /\ Has(s[p + 2].x, "name") THEN Good([k |-> "reg", name |-> s[p + 2].x.name], p + 3) ELSE Bad
RECURSIVE Unfold(_, _, _)
Unfold(s, p, cfg) ==
  IF ~Tok(s, p, "tag") THEN Bad
  ELSE LET x == s[p].x IN
    IF x = 157 THEN LET e == Unfold(s, p + 1, cfg) IN IF e.ok THEN Good([k |-> "slice", e |-> e.v], e.p) ELSE Bad
    ELSE IF x = 158 THEN
      IF ~Tok(s, p + 1, "u32") THEN Bad
      ELSE LET e == Unfold(s, p + 2, cfg) IN IF e.ok THEN Good([k |-> "array", n |-> s[p + 1].x, e |-> e.v], e.p) ELSE Bad
    ELSE IF x = 159 THEN
      LET kk == Unfold(s, p + 1, cfg) IN
      IF ~kk.ok THEN Bad ELSE LET e == Unfold(s, kk.p, cfg) IN IF e.ok THEN Good([k |-> "map", key |-> kk.v, e |-> e.v], e.p) ELSE Bad
    ELSE IF x = 131 THEN UnfoldReg(s, p, cfg)
    ELSE IF IsLeafTag(x) THEN Good([k |-> KindOfTag(x)], p + 1)
    ELSE Bad

RECURSIVE DecVal(_, _, _, _), DecTyped(_, _, _), DecItems(_, _, _, _, _, _), DecPairs(_, _, _, _, _, _, _), DecFields(_, _, _, _, _, _)
DecItems(T, s, p, cfg, n, acc) ==
  IF n = 0 THEN Good(acc, p)
  ELSE LET r == DecVal(T, s, p, cfg) IN IF r.ok THEN DecItems(T, s, r.p, cfg, n - 1, Append(acc, r.v)) ELSE Bad
DecPairs(K, T, s, p, cfg, n, acc) ==
  IF n = 0 THEN Good(acc, p)
  ELSE LET a == DecVal(K, s, p, cfg) IN
    IF ~a.ok THEN Bad
    ELSE LET b == DecVal(T, s, a.p, cfg) IN IF b.ok THEN DecPairs(K, T, s, b.p, cfg, n - 1, Append(acc, [k |-> a.v, v |-> b.v])) ELSE Bad
DecFields(Ts, s, p, cfg, i, acc) ==
  IF i > Len(Ts) THEN Good(acc, p)
  ELSE LET r == DecVal(Ts[i], s, p, cfg) IN IF r.ok THEN DecFields(Ts, s, r.p, cfg, i + 1, Append(acc, r.v)) ELSE Bad
\* collections: marker is the nil byte or mark (the slice / map tag for unnamed ones, 131 for registered ones), then a 32-bit count
DecSlice(T, s, p, cfg, mark) ==
  IF ~Tok(s, p, "tag") THEN Bad
  ELSE IF s[p].x = 255 THEN Good([nil |-> TRUE], p + 1)
  ELSE IF s[p].x = mark /\ Tok(s, p + 1, "u32")
    THEN LET r == DecItems(T, s, p + 2, cfg, s[p + 1].x, <<>>) IN IF r.ok THEN Good([items |-> r.v], r.p) ELSE Bad
  ELSE Bad
DecMap(K, T, s, p, cfg, mark) ==
  IF ~Tok(s, p, "tag") THEN Bad
  ELSE IF s[p].x = 255 THEN Good([nil |-> TRUE], p + 1)
  ELSE IF s[p].x = mark /\ Tok(s, p + 1, "u32")
    THEN LET r == DecPairs(K, T, s, p + 2, cfg, s[p + 1].x, <<>>) IN IF r.ok THEN Good([pairs |-> r.v], r.p) ELSE Bad
  ELSE Bad
DecArray(T, s, p, cfg, n) == LET r == DecItems(T, s, p, cfg, n, <<>>) IN IF r.ok THEN Good([items |-> r.v], r.p) ELSE Bad
DecReg(name, s, p, cfg) ==
  LET u == Reg[name].u IN
  CASE u.k = "struct" -> LET r == DecFields(u.fields, s, p, cfg, 1, <<>>) IN IF r.ok THEN Good([fields |-> r.v], r.p) ELSE Bad
    [] u.k = "named" -> DecVal([k |-> u.of], s, p, cfg)
    [] u.k = "marsh" -> IF Tok(s, p, "u32") /\ Tok(s, p + 1, "raw") /\ s[p + 1].w = s[p].x THEN Good(s[p + 1].x, p + 2) ELSE Bad
    [] u.k = "slice" -> DecSlice(u.e, s, p, cfg, 131)
    [] u.k = "array" -> DecArray(u.e, s, p, cfg, u.n)
    [] u.k = "map" -> DecMap(u.key, u.e, s, p, cfg, 131)
AtomThenFix(s, p, cfg, w) ==
  LET a == DecAtom(s, p, cfg) IN
  IF a.ok /\ Tok(s, a.p, "fix") /\ s[a.p].w = w THEN Good([node |-> a.v, id |-> s[a.p].x.id, cr |-> s[a.p].x.cr], a.p + 1) ELSE Bad
DecVal(T, s, p, cfg) ==
  CASE T.k \in NumKinds -> IF Tok(s, p, "fix") /\ s[p].w = LeafW[T.k] THEN Good(s[p].x, p + 1) ELSE Bad
    [] T.k = "str" ->
         IF ~Tok(s, p, "u16") THEN Bad
         ELSE LET n == s[p].x IN
           IF ~Fix_StrLen /\ n + 2 > 65535 THEN Bad    \* 2 + l wraps in 16 bits: the slice bounds are wrong, the decoder gives up
           ELSE IF Tok(s, p + 1, "raw") /\ s[p + 1].w = n THEN Good(s[p + 1].x, p + 2) ELSE Bad
    [] T.k = "bin" -> IF Tok(s, p, "u32") /\ Tok(s, p + 1, "raw") /\ s[p + 1].w = s[p].x THEN Good(s[p + 1].x, p + 2) ELSE Bad
    [] T.k = "atom" -> DecAtom(s, p, cfg)
    [] T.k = "pid" -> AtomThenFix(s, p, cfg, 16)
    [] T.k \in {"alias", "ref"} -> AtomThenFix(s, p, cfg, 32)
    [] T.k \in {"procid", "event"} ->
         LET a == DecAtom(s, p, cfg) IN
         IF ~a.ok THEN Bad ELSE LET b == DecAtom(s, a.p, cfg) IN IF b.ok THEN Good([node |-> a.v, name |-> b.v], b.p) ELSE Bad
    [] T.k = "time" -> IF Tok(s, p, "fix") /\ s[p].w = 1 /\ Tok(s, p + 1, "raw") /\ s[p + 1].w = s[p].x THEN Good(s[p + 1].x, p + 2) ELSE Bad
    [] T.k = "err" -> DecErr(s, p, cfg)
    [] T.k = "any" -> IF Tok(s, p, "tag") /\ s[p].x = 255 THEN Good([nil |-> TRUE], p + 1) ELSE DecTyped(s, p, cfg)
    [] T.k = "slice" -> DecSlice(T.e, s, p, cfg, 157)
    [] T.k = "array" -> DecArray(T.e, s, p, cfg, T.n)
    [] T.k = "map" -> DecMap(T.key, T.e, s, p, cfg, 159)
    [] T.k = "reg" -> DecReg(T.name, s, p, cfg)
DecTyped(s, p, cfg) ==
  IF ~Tok(s, p, "tag") THEN Bad
  ELSE LET x == s[p].x IN
    IF x = 130 THEN
      IF ~Tok(s, p + 1, "u16") THEN Bad
      ELSE LET u == Unfold(s, p + 2, cfg) IN
        IF ~u.ok \/ SumW(s, p + 2, u.p - 1) # s[p + 1].x THEN Bad
        ELSE LET r == DecVal(u.v, s, u.p, cfg) IN IF r.ok THEN Good([t |-> u.v, v |-> r.v], r.p) ELSE Bad
    ELSE IF x = 131 THEN
      LET u == UnfoldReg(s, p, cfg) IN
      IF ~u.ok THEN Bad ELSE LET r == DecVal(u.v, s, u.p, cfg) IN IF r.ok THEN Good([t |-> u.v, v |-> r.v], r.p) ELSE Bad
    ELSE IF IsLeafTag(x) /\ x # 132 THEN
      LET T == [k |-> KindOfTag(x)] r == DecVal(T, s, p + 1, cfg) IN IF r.ok THEN Good([t |-> T, v |-> r.v], r.p) ELSE Bad
    ELSE Bad

\* ---- what the decoder has to produce: the value itself, except that a nil byte slice is an empty one and an error that
\* travels as text is an error with that text
RECURSIVE Norm(_, _, _)
NormSeq(T, items, cfg) == [i \in 1..Len(items) |-> Norm(T, items[i], cfg)]
NormColl(u, V, cfg) ==
  CASE u.k = "slice" -> IF Has(V, "nil") THEN V ELSE [items |-> NormSeq(u.e, V.items, cfg)]
    [] u.k = "array" -> [items |-> NormSeq(u.e, V.items, cfg)]
    [] u.k = "map" -> IF Has(V, "nil") THEN V ELSE [pairs |-> [i \in 1..Len(V.pairs) |-> [k |-> Norm(u.key, V.pairs[i].k, cfg), v |-> Norm(u.e, V.pairs[i].v, cfg)]]]
Norm(T, V, cfg) ==
  CASE T.k = "bin" -> [len |-> IF Has(V, "nil") THEN 0 ELSE V.len]
    [] T.k = "err" -> IF Has(V, "sentinel") /\ ~UsesErrs(cfg) THEN [text |-> [senttext |-> V.sentinel]]
                      ELSE IF Has(V, "wrapped") THEN [text |-> [wraptext |-> V.wrapped]] ELSE V
    [] T.k = "any" -> IF Has(V, "nil") THEN V ELSE [t |-> V.t, v |-> Norm(V.t, V.v, cfg)]
    [] T.k \in {"slice", "array", "map"} -> NormColl(T, V, cfg)
    [] T.k = "reg" ->
         LET u == Reg[T.name].u IN
         CASE u.k = "struct" -> [fields |-> [i \in 1..Len(u.fields) |-> Norm(u.fields[i], V.fields[i], cfg)]]
           [] u.k = "named" -> Norm([k |-> u.of], V, cfg)
           [] u.k = "marsh" -> [len |-> V.len]
           [] OTHER -> NormColl(u, V, cfg)
    [] OTHER -> V

\* ---- which values have an encoding at all (written independently of Enc*)
AtomFits(av) == Has(av, "c") \/ av.len <= 255
RECURSIVE Repr(_, _)
ReprAll(T, items) == \A i \in 1..Len(items) : Repr(T, items[i])
ReprColl(u, V) ==
  CASE u.k \in {"slice", "array"} -> Has(V, "nil") \/ ReprAll(u.e, V.items)
    [] u.k = "map" -> Has(V, "nil") \/ \A i \in 1..Len(V.pairs) : Repr(u.key, V.pairs[i].k) /\ Repr(u.e, V.pairs[i].v)
Repr(T, V) ==
  CASE T.k = "str" -> V.len <= 65535
    [] T.k = "atom" -> AtomFits(V)
    [] T.k \in {"pid", "alias", "ref"} -> AtomFits(V.node)
    [] T.k \in {"procid", "event"} -> AtomFits(V.node) /\ AtomFits(V.name)
    [] T.k = "err" -> Has(V, "nil") \/ Has(V, "sentinel") \/ Has(V, "wrapped") \/ V.text.len <= 32767
    [] T.k = "any" -> Has(V, "nil") \/ (Repr(V.t, V.v) /\ ~(V.t.k = "err" /\ Has(V.v, "sentinel") /\ Meta.errs[V.v.sentinel].custom))
    [] T.k \in {"slice", "array", "map"} -> ReprColl(T, V)
    [] T.k = "reg" ->
         LET u == Reg[T.name].u IN
         CASE u.k = "struct" -> \A i \in 1..Len(u.fields) : Repr(u.fields[i], V.fields[i])
           [] u.k = "named" -> Repr([k |-> u.of], V)
           [] u.k = "marsh" -> TRUE
           [] OTHER -> ReprColl(u, V)
    [] OTHER -> TRUE

\* ---- the law on the model
RoundTrip(c, cfg) ==
  LET e == EncTyped(c.t, c.v, cfg) IN
  e.ok => LET d == DecTyped(e.t, 1, cfg) IN d.ok /\ d.p = Len(e.t) + 1 /\ d.v = [t |-> c.t, v |-> Norm(c.t, c.v, cfg)]
ReprTop(T, V) == Repr(T, V) /\ ~(T.k = "err" /\ Has(V, "sentinel") /\ Meta.errs[V.sentinel].custom)
RejectsExactly(c, cfg) == EncTyped(c.t, c.v, cfg).ok <=> ReprTop(c.t, c.v)

\* ---- the bounded universe ----------------------------------------------------------------
IntC == {[c |-> "min"], [c |-> "m1"], [c |-> "max"], [c |-> "pat"]}
UintC == {[c |-> "zero"], [c |-> "max"], [c |-> "pat"], [c |-> "high"]}
FloatC == {[c |-> x] : x \in {"zero", "negzero", "nan", "inf", "ninf", "pi", "max", "tiny", "neg"}}
AtomV == {[len |-> 0], [len |-> 1], [len |-> 255], [len |-> 256], [c |-> "c1"], [c |-> "c2"]}
IdV == {[node |-> a, id |-> "pat", cr |-> "max"] : a \in AtomV} \cup {[node |-> [len |-> 1], id |-> i, cr |-> c] : i \in {"zero", "max"}, c \in {"zero", "min"}}
LeafV(k) ==
  CASE k = "bool" -> {[c |-> "t"], [c |-> "f"]}
    [] k \in {"i8", "i16", "i32", "i64", "int"} -> IntC
    [] k \in {"u8", "u16", "u32", "u64", "uint"} -> UintC
    [] k \in {"f32", "f64"} -> FloatC
    [] k = "str" -> {[len |-> n, fill |-> f] : n \in {0, 1, 255, 256, 65533, 65534, 65535, 65536}, f \in {"a", "pct", "utf"}}
    [] k = "bin" -> {[nil |-> TRUE]} \cup {[len |-> n] : n \in {0, 1, 4096, 65536, 70000}}
    [] k = "atom" -> AtomV
    [] k \in {"pid", "alias", "ref"} -> IdV
    [] k \in {"procid", "event"} -> {[node |-> a, name |-> b] : a \in AtomV, b \in AtomV}
    [] k = "time" -> {[c |-> x] : x \in {"zero", "utc", "zone", "wzone", "far", "old", "now"}}
    [] k = "err" -> {[nil |-> TRUE], [wrapped |-> "A"]} \cup {[sentinel |-> s] : s \in DOMAIN Meta.errs}
                    \cup {[text |-> [len |-> n, fill |-> f]] : n \in {0, 1, 32767, 32768}, f \in {"a", "pct"}}
    [] k = "any" -> {[nil |-> TRUE]}
\* one unremarkable value per type
RECURSIVE Default(_)
Default(T) ==
  CASE T.k = "bool" -> [c |-> "t"]
    [] T.k \in NumKinds -> [c |-> "pat"]
    [] T.k = "str" -> [len |-> 3, fill |-> "a"]
    [] T.k = "bin" -> [len |-> 2]
    [] T.k = "atom" -> [len |-> 4]
    [] T.k \in {"pid", "alias", "ref"} -> [node |-> [len |-> 5], id |-> "pat", cr |-> "pat"]
    [] T.k \in {"procid", "event"} -> [node |-> [len |-> 5], name |-> [len |-> 3]]
    [] T.k = "time" -> [c |-> "utc"]
    [] T.k = "err" -> [text |-> [len |-> 4, fill |-> "a"]]
    [] T.k = "any" -> [t |-> [k |-> "i16"], v |-> [c |-> "m1"]]
    [] T.k = "slice" -> [items |-> <<Default(T.e)>>]
    [] T.k = "array" -> [items |-> [i \in 1..T.n |-> Default(T.e)]]
    [] T.k = "map" -> [pairs |-> <<>>]
    [] T.k = "reg" ->
         LET u == Reg[T.name].u IN
         CASE u.k = "struct" -> [fields |-> [i \in 1..Len(u.fields) |-> Default(u.fields[i])]]
           [] u.k = "named" -> Default([k |-> u.of])
           [] u.k = "marsh" -> [len |-> 3]
           [] u.k = "slice" -> [items |-> <<Default(u.e)>>]
           [] u.k = "array" -> [items |-> [i \in 1..u.n |-> Default(u.e)]]
           [] u.k = "map" -> [pairs |-> <<>>]
\* two distinct keys per key type
Key1(T) == IF T.k = "array" THEN [items |-> <<[c |-> "pat"], [c |-> "max"]>>] ELSE IF T.k = "any" THEN [t |-> [k |-> "str"], v |-> [len |-> 2, fill |-> "a"]] ELSE IF T.k = "bool" THEN [c |-> "t"] ELSE Default(T)
Key2(T) ==
  CASE T.k = "bool" -> [c |-> "f"]
    [] T.k \in NumKinds -> [c |-> "max"]
    [] T.k = "str" -> [len |-> 255, fill |-> "utf"]
    [] T.k = "atom" -> [c |-> "c1"]
    [] T.k = "any" -> [t |-> [k |-> "u8"], v |-> [c |-> "max"]]
    [] T.k = "array" -> [items |-> <<[c |-> "max"], [c |-> "pat"]>>]
    [] T.k = "reg" -> (LET u == Reg[T.name].u IN IF u.of = "str" THEN [len |-> 255, fill |-> "utf"] ELSE [c |-> "max"])

LeafT == {[k |-> x] : x \in LeafKinds}
RegT == {[k |-> "reg", name |-> n] : n \in RegNames}
\* (an array is the only unnamed composite that can be a key)
KeyT == {[k |-> x] : x \in {"str", "i16", "u64", "atom", "bool", "any"}} \cup {[k |-> "reg", name |-> n] : n \in {"NStr", "NI16", "Env"} \cap RegNames}
        \cup {[k |-> "array", n |-> 2, e |-> [k |-> "i16"]]}
T0 == LeafT \cup RegT
\* ([]uint8 is the byte slice: the leaf "bin")
Comp(S) == {[k |-> "slice", e |-> e] : e \in S \ {[k |-> "u8"]}} \cup {[k |-> "array", n |-> n, e |-> e] : n \in {0, 2}, e \in S}
           \cup {[k |-> "map", key |-> kk, e |-> e] : kk \in KeyT, e \in S}
Comp2(S) == {[k |-> "slice", e |-> e] : e \in S} \cup {[k |-> "array", n |-> 2, e |-> e] : e \in S}
            \cup {[k |-> "map", key |-> [k |-> "str"], e |-> e] : e \in S}
T1 == Comp(T0)
T2 == Comp2(T1)

RECURSIVE Vals(_, _), AnyV1
CollVals(u, d) ==
  LET ev == Vals(u.e, d) dv == Default(u.e) IN
  CASE u.k = "slice" -> {[nil |-> TRUE], [items |-> <<>>]} \cup {[items |-> <<v>>] : v \in ev} \cup {[items |-> <<v, dv>>] : v \in ev} \cup {[items |-> <<dv, v, dv>>] : v \in ev}
    [] u.k = "array" -> IF u.n = 0 THEN {[items |-> <<>>]}
                        ELSE UNION {{[items |-> [i \in 1..u.n |-> IF i = j THEN v ELSE dv]] : v \in ev} : j \in 1..u.n}
    [] u.k = "map" -> {[nil |-> TRUE], [pairs |-> <<>>]} \cup {[pairs |-> <<[k |-> Key1(u.key), v |-> v]>>] : v \in ev}
                      \cup {[pairs |-> <<[k |-> Key2(u.key), v |-> dv], [k |-> Key1(u.key), v |-> v]>>] : v \in ev}
                      \cup {[pairs |-> <<[k |-> kv, v |-> dv]>>] : kv \in Vals(u.key, 0)}
\* d: how many more levels of interface values may be opened (0 or 1)
Vals(T, d) ==
  CASE T.k = "any" -> IF d = 0 THEN {[nil |-> TRUE]} ELSE AnyV1
    [] T.k \in {"slice", "array", "map"} -> CollVals(T, d)
    [] T.k = "reg" ->
         LET u == Reg[T.name].u IN
         CASE u.k = "struct" ->
                LET n == Len(u.fields) base == [i \in 1..n |-> Default(u.fields[i])] IN
                {[fields |-> base]} \cup UNION {{[fields |-> [base EXCEPT ![j] = v]] : v \in Vals(u.fields[j], d)} : j \in 1..n}
           [] u.k = "named" -> LeafV(u.of)
           [] u.k = "marsh" -> {[len |-> n] : n \in {0, 1, 5000}}
           [] OTHER -> CollVals(u, d)
    [] OTHER -> LeafV(T.k)
\* what an interface value may hold: every leaf and registered value, every error, and a few composites
AnyV1 == {[nil |-> TRUE]} \cup UNION {{[t |-> X, v |-> v] : v \in Vals(X, 0)} : X \in (T0 \ {[k |-> "any"], [k |-> "err"]})}
         \cup {[t |-> [k |-> "err"], v |-> v] : v \in LeafV("err") \ {[nil |-> TRUE]}}
         \cup {[t |-> X, v |-> Default(X)] : X \in Comp({[k |-> "i16"], [k |-> "any"], [k |-> "reg", name |-> "Inner"]})}

\* Encode(nil) is no value at all
TopOK(T, v) == T.k # "any" /\ ~(T.k = "err" /\ Has(v, "nil"))
CasesOfType(T, d) == {[t |-> T, v |-> v] : v \in {x \in Vals(T, d) : TopOK(T, x)}}
\* the types of the universe with the budget of interface levels each gets
TypePlan ==
  IF Depth = 0 THEN {<<T, 1>> : T \in T0}
  ELSE IF Depth = 1 THEN {<<T, 1>> : T \in T0} \cup {<<T, 0>> : T \in T1}
  ELSE {<<T, 1>> : T \in T0 \cup T1} \cup {<<T, 0>> : T \in T2}
PlanSeq == SetToSeq(TypePlan)
\* writes the universe, one file per type (one big set or sequence of all cases would cost TLC minutes of sorting and its stack)
WriteUniverse(prefix) ==
  \A i \in 1..Len(PlanSeq) : ndJsonSerialize(prefix \o "_" \o ToString(i) \o ".ndjson", SetToSeq(CasesOfType(PlanSeq[i][1], PlanSeq[i][2])))
=============================================================================
