--------------------------------- MODULE Cron ---------------------------------
(***************************************************************************)
(* C20, semantics part: which minutes a crontab specification denotes,      *)
(* written from the documented crontab rules (not from the bit masks of     *)
(* node/cron_parse.go), used by TLC as the ORACLE over what the real        *)
(* scheduler computes (gen.Cron.JobSchedule / cronSpecMask.IsRunAt).        *)
(*                                                                         *)
(* A specification has five fields: minute (0-59), hour (0-23), day of      *)
(* month (1-31), month (1-12), day of week (1 = Monday .. 7 = Sunday).      *)
(* A field is "*" or a list of items:                                       *)
(*   num a | range a-b | range a-b/s | every * /s (from the field minimum) | *)
(*   L (day of month: last day) | dL (day of week: last such weekday of the *)
(*   month) | d#n (day of week: n-th such weekday of the month).            *)
(* Minute, hour and month must all match; if both day fields are restricted *)
(* either may match (OR), if one is "*" the other decides.                  *)
(* Everything is evaluated on the LOCAL calendar date and wall-clock time   *)
(* of the job's location: a job fires at a UTC minute iff the local time of *)
(* that minute matches - so a local minute that does not exist (spring      *)
(* forward) fires nothing and one that occurs twice (fall back) fires twice.*)
(***************************************************************************)
EXTENDS Integers, Sequences, FiniteSets, TLC, Json

CONSTANTS TraceFile, Checks
TraceLog == ndJsonDeserialize(TraceFile)

IsLeap(y) == (y % 4 = 0 /\ y % 100 # 0) \/ y % 400 = 0
DaysInMonth(y, m) == IF m \in {1, 3, 5, 7, 8, 10, 12} THEN 31 ELSE IF m \in {4, 6, 9, 11} THEN 30 ELSE IF IsLeap(y) THEN 29 ELSE 28
RECURSIVE DaysBeforeMonth(_, _)
DaysBeforeMonth(y, m) == IF m = 1 THEN 0 ELSE DaysBeforeMonth(y, m - 1) + DaysInMonth(y, m - 1)
DayNumber(y, m, d) == 365 * (y - 1) + (y - 1) \div 4 - (y - 1) \div 100 + (y - 1) \div 400 + DaysBeforeMonth(y, m) + d
Dow(y, m, d) == ((DayNumber(y, m, d) - 1) % 7) + 1     \* 1 = Monday .. 7 = Sunday (0001-01-01 is a Monday)

\* item = [k, a, b, s, x]  (x: the range was written with an explicit "/step")
Vals(it, lo, hi) ==
  IF it.k = "num" THEN {it.a}
  ELSE IF it.k = "range" THEN {x \in it.a..it.b : (x - it.a) % it.s = 0}
  ELSE IF it.k = "every" THEN {x \in lo..hi : (x - lo) % it.s = 0}
  ELSE {}
FieldSet(f, lo, hi) == IF f.star THEN lo..hi ELSE UNION {Vals(f.items[i], lo, hi) : i \in 1..Len(f.items)}

DomMatch(f, y, m, d) == \E i \in 1..Len(f.items) :
    LET it == f.items[i] IN (d \in Vals(it, 1, 31)) \/ (it.k = "L" /\ d = DaysInMonth(y, m))
DowMatch(f, y, m, d) == \E i \in 1..Len(f.items) :
    LET it == f.items[i]
        w == Dow(y, m, d)
    IN \/ w \in Vals(it, 1, 7)
       \/ (it.k = "dL" /\ w = it.a /\ d + 7 > DaysInMonth(y, m))
       \/ (it.k = "nth" /\ w = it.a /\ ((d - 1) \div 7) + 1 = it.b)
DayMatch(sp, y, m, d) ==
  IF sp.dom.star /\ sp.dow.star THEN TRUE
  ELSE IF sp.dom.star THEN DowMatch(sp.dow, y, m, d)
  ELSE IF sp.dow.star THEN DomMatch(sp.dom, y, m, d)
  ELSE DomMatch(sp.dom, y, m, d) \/ DowMatch(sp.dow, y, m, d)

\* the local minutes of the day (hour * 60 + minute) the specification denotes on a matching day
MinutesOfDay(sp) == {h * 60 + mi : h \in FieldSet(sp.hour, 0, 23), mi \in FieldSet(sp.min, 0, 59)}
DayFires(sp, y, m, d) == m \in FieldSet(sp.mon, 1, 12) /\ DayMatch(sp, y, m, d)

\* ---- validity (what AddJob must accept) ----------------------------------
ItemOk(it, lo, hi, field) ==
  IF it.k = "num" THEN it.a \in lo..hi
  ELSE IF it.k = "range" THEN /\ it.a \in lo..hi /\ it.b \in lo..hi /\ it.a <= it.b /\ it.s \in 1..hi
                               \* the month and day-of-week fields take plain ranges only (no "/step" suffix: it.x)
                               /\ (field \in {"mon", "dow"} => ~it.x)
  ELSE IF it.k = "every" THEN it.s \in 1..hi /\ field # "dow"
  ELSE IF it.k = "L" THEN field = "dom"
  ELSE IF it.k = "dL" THEN field = "dow" /\ it.a \in 1..7
  ELSE IF it.k = "nth" THEN field = "dow" /\ it.a \in 1..7 /\ it.b \in 1..5
  ELSE FALSE
FieldOk(f, lo, hi, field) == f.star \/ (Len(f.items) > 0 /\ \A i \in 1..Len(f.items) : ItemOk(f.items[i], lo, hi, field))
Valid(sp) == /\ FieldOk(sp.min, 0, 59, "min") /\ FieldOk(sp.hour, 0, 23, "hour") /\ FieldOk(sp.dom, 1, 31, "dom")
             /\ FieldOk(sp.mon, 1, 12, "mon") /\ FieldOk(sp.dow, 1, 7, "dow")

\* ---- trace validation ------------------------------------------------------
(* line kinds:
   "add":  [spec, str, accepted]            AddJob(str) accepted?  (spec.wellformed = FALSE: syntactically broken string)
   "day":  [spec, str, zone, y, m, d, regular, exist, reported]
           reported = local minutes of that local day at which the real JobSchedule lists a run, in UTC order;
           exist    = local minute of every UTC minute of that local day, in UTC order (only given when the day is
                      not a regular 24 h day) *)
VARIABLES l, bad
Regular == 0..1439

SeqToSet(s) == {s[i] : i \in 1..Len(s)}
ExpectedDay(e) ==
  IF DayFires(e.spec, e.y, e.m, e.d)
    THEN IF e.regular THEN MinutesOfDay(e.spec) ELSE {x \in MinutesOfDay(e.spec) : x \in SeqToSet(e.exist)}
    ELSE {}
\* how many times local minute x occurs in the day
Count(s, x) == Cardinality({i \in 1..Len(s) : s[i] = x})
DayOk(e) ==
  LET exp == ExpectedDay(e) IN
  /\ SeqToSet(e.reported) = exp
  /\ IF e.regular THEN Len(e.reported) = Cardinality(exp)
     ELSE \A x \in exp : Count(e.reported, x) = Count(e.exist, x)

LineBad(e) ==
  IF e.ev = "day" THEN IF "FiresIffMatches" \in Checks /\ ~DayOk(e) THEN "FiresIffMatches" ELSE ""
  ELSE IF e.ev = "add" THEN
     IF "RejectsInvalid" \in Checks /\ e.accepted # (e.spec.wellformed /\ Valid(e.spec)) THEN "RejectsInvalid" ELSE ""
  ELSE ""

Init == l = 1 /\ bad = "" /\ TLCSet(1, 1) /\ TLCSet(2, <<>>)
\* every failing line is recorded (register 2) and the run goes on, so one run judges the whole trace
Next == /\ l <= Len(TraceLog)
        /\ LET b == LineBad(TraceLog[l]) IN
             /\ bad' = b
             /\ (b # "" => TLCSet(2, Append(TLCGet(2), <<b, l>>)))
        /\ l' = l + 1
Spec == Init /\ [][Next]_<<l, bad>>
HWM == TLCSet(1, IF l > TLCGet(1) THEN l ELSE TLCGet(1))
TraceAccepted ==
  /\ \A k \in 1..Len(TLCGet(2)) : PrintT(<<"CLAUSE_VIOLATED", TLCGet(2)[k][1], "LINE", TLCGet(2)[k][2]>>)
  /\ IF TLCGet(1) = Len(TraceLog) + 1 THEN TLCGet(2) = <<>>
     ELSE PrintT(<<"TRACE_REJECTED_AT_LINE", TLCGet(1), "OF", Len(TraceLog)>>) /\ FALSE
=============================================================================
