------------------------------ MODULE EDF_Model ------------------------------
(***************************************************************************)
(* C11: the round-trip law checked by TLC on the model codec of spec/EDF.tla *)
(* for every case of the bounded universe and every cache configuration.     *)
(***************************************************************************)
EXTENDS EDF
\* ---- the model-checking problem: pick a case and a configuration; the law is an invariant
VARIABLES cur, cfg
vars == <<cur, cfg>>
None == [none |-> TRUE]
Init == cur = None /\ cfg = "none"
\* first a type, then a value of it and a configuration (two levels, so that TLC's workers share the second one)
Next == \/ cur = None /\ \E tp \in TypePlan : cur' = [plan |-> tp] /\ cfg' = cfg
        \/ Has(cur, "plan") /\ cur' \in CasesOfType(cur.plan[1], cur.plan[2]) /\ cfg' \in Configs
Spec == Init /\ [][Next]_vars
IsCase(c) == Has(c, "t")
LawRoundTrip == IsCase(cur) => RoundTrip(cur, cfg)
LawRejects == IsCase(cur) => RejectsExactly(cur, cfg)
\* writes the universe for the replay into the real codec (evaluated once, when the check is over)
DumpCases == TLCGet("stats").generated > 0 /\ (CasesOut = "" \/ WriteUniverse(CasesOut))
=============================================================================
