------------------------------ MODULE CronSched ------------------------------
(***************************************************************************)
(* C20, scheduler part (node/cron.go): jobs, the spool of jobs due at the   *)
(* next tick, `next` (the minute the spool is for), the minute timer, and    *)
(* AddJob / RemoveJob / EnableJob / DisableJob, each of which schedules the  *)
(* job against `next`.  A job's specification is abstracted to the set of    *)
(* minutes it matches (the semantics is spec/Cron.tla).                      *)
(*   Fix_NextInit: `next` is the first upcoming minute from the start        *)
(*                 (as pinned it was the zero time until the first tick).    *)
(*   Fix_Respool:  a job is never put into the spool twice for one minute    *)
(*                 (as pinned Disable + Enable within a minute did).         *)
(***************************************************************************)
EXTENDS Naturals, Sequences, FiniteSets, TLC
CONSTANTS Jobs, MaxTick, MaxOps, Fix_NextInit, Fix_Respool

\* what a job's specification matches is chosen freely at AddJob time (all combinations are explored)
VARIABLES clk, next, present, enabled, match, zeromatch, spool, spooledFor, fired, ops, wasOn
vars == <<clk, next, present, enabled, match, zeromatch, spool, spooledFor, fired, ops, wasOn>>
Minutes == 1..(MaxTick + 1)

Init == /\ clk = 0 /\ next = (IF Fix_NextInit THEN 1 ELSE 0) /\ present = {} /\ enabled = {}
        /\ match = [j \in Jobs |-> {}] /\ zeromatch = [j \in Jobs |-> FALSE]
        /\ spool = <<>> /\ spooledFor = [j \in Jobs |-> 0 - 0] /\ fired = <<>> /\ ops = 0 /\ wasOn = {}

Matches(j, m, mt, zm) == IF m = 0 THEN zm[j] ELSE m \in mt[j]
\* scheduleJob: skip if disabled or not due; (repaired) skip if already spooled for this minute
Schedule(sp, sf, j, en, mt, zm) ==
  IF j \in en /\ Matches(j, next, mt, zm) /\ ~(Fix_Respool /\ sf[j] = next /\ next # 0)
    THEN [sp |-> Append(sp, j), sf |-> [sf EXCEPT ![j] = next]]
    ELSE [sp |-> sp, sf |-> sf]

Add(j, ms, zm) ==
  /\ j \notin present /\ ops < MaxOps
  /\ present' = present \cup {j} /\ enabled' = enabled \cup {j}
  /\ match' = [match EXCEPT ![j] = ms] /\ zeromatch' = [zeromatch EXCEPT ![j] = zm]
  /\ LET r == Schedule(spool, [spooledFor EXCEPT ![j] = 0], j, enabled', match', zeromatch') IN spool' = r.sp /\ spooledFor' = r.sf
  /\ ops' = ops + 1 /\ UNCHANGED <<clk, next, fired, wasOn>>
Remove(j) ==
  /\ j \in present /\ ops < MaxOps
  /\ present' = present \ {j} /\ enabled' = enabled \ {j}
  \* the spool entry stays but is dead (its job is marked disabled for ever): drop it from the model's spool
  /\ spool' = SelectSeq(spool, LAMBDA x : x # j)
  /\ ops' = ops + 1 /\ UNCHANGED <<clk, next, match, zeromatch, spooledFor, fired, wasOn>>
Disable(j) ==
  /\ j \in enabled /\ ops < MaxOps /\ enabled' = enabled \ {j} /\ ops' = ops + 1
  /\ UNCHANGED <<clk, next, present, match, zeromatch, spool, spooledFor, fired, wasOn>>
Enable(j) ==
  /\ j \in present /\ j \notin enabled /\ ops < MaxOps /\ enabled' = enabled \cup {j}
  /\ LET r == Schedule(spool, spooledFor, j, enabled', match, zeromatch) IN spool' = r.sp /\ spooledFor' = r.sf
  /\ ops' = ops + 1 /\ UNCHANGED <<clk, next, present, match, zeromatch, fired, wasOn>>

RECURSIVE FireAll(_, _)
FireAll(sp, m) == IF sp = <<>> THEN <<>>
                  ELSE (IF Head(sp) \in enabled THEN <<<<Head(sp), m, m \in match[Head(sp)]>>>> ELSE <<>>) \o FireAll(Tail(sp), m)
RECURSIVE Respool(_, _, _, _)
Respool(S, sp, sf, nx) ==
  IF S = {} THEN [sp |-> sp, sf |-> sf]
  ELSE LET j == CHOOSE x \in S : TRUE IN
       IF j \in enabled /\ nx \in match[j] THEN Respool(S \ {j}, Append(sp, j), [sf EXCEPT ![j] = nx], nx)
       ELSE Respool(S \ {j}, sp, sf, nx)

\* the minute timer: run what was spooled for this minute, then spool for the next one
Tick ==
  /\ clk < MaxTick
  /\ clk' = clk + 1
  /\ fired' = fired \o FireAll(spool, clk + 1)
  /\ wasOn' = wasOn \cup {<<j, clk + 1>> : j \in enabled}
  /\ next' = clk + 2
  /\ LET r == Respool(present, <<>>, spooledFor, clk + 2) IN spool' = r.sp /\ spooledFor' = r.sf
  /\ UNCHANGED <<present, enabled, match, zeromatch, ops>>

Next == \/ Tick
        \/ \E j \in Jobs : Remove(j) \/ Disable(j) \/ Enable(j)
        \/ \E j \in Jobs, ms \in SUBSET Minutes, zm \in BOOLEAN : Add(j, ms, zm)
Spec == Init /\ [][Next]_vars

Count(j, m) == Cardinality({i \in 1..Len(fired) : fired[i][1] = j /\ fired[i][2] = m})
\* never at a minute the specification does not denote, never twice, never while disabled or removed
OnlyMatching == \A i \in 1..Len(fired) : fired[i][3]
AtMostOnce == \A j \in Jobs : \A m \in 1..MaxTick : Count(j, m) <= 1
OnlyEnabled == \A i \in 1..Len(fired) : <<fired[i][1], fired[i][2]>> \in wasOn
\* a job that is present, enabled and due at the upcoming minute is in the spool (when it was added/enabled after the last tick
\* or respooled by it)
DueIsSpooled == \A j \in enabled : (next # 0 /\ next \in match[j]) => \E i \in 1..Len(spool) : spool[i] = j
=============================================================================
