------------------------------- MODULE EDF_Trace -------------------------------
(***************************************************************************)
(* C11: judges what the real codec did with every case of the universe       *)
(* (harness/edffam: the case built as a Go value, edf.Encode, edf.Decode,    *)
(* under five cache configurations built like net/handshake builds them;     *)
(* and the case sent from one real node to a process of another one, inside   *)
(* an envelope and as the message itself: configurations wire, wiretop).      *)
(*  RoundTrip        what the encoder accepted decodes, to an equal value of  *)
(*                   the same type, leaving no byte                           *)
(*  ExactConsumption with foreign bytes behind the encoding the decoder       *)
(*                   returns the same value and exactly those bytes           *)
(*  WarmCaches       a second encoding (type and codec caches filled by the   *)
(*                   first) has the same length and decodes equal             *)
(*  RejectsUnrepresentable  a value without an encoding (spec/EDF.tla, Repr)  *)
(*                   is refused by the encoder                                *)
(* Not violations but recorded: the encoder refusing a representable value,   *)
(* and an encoding whose length differs from the model's (drift of the model  *)
(* from the wire format).  ModelBroken: the law fails on the model itself     *)
(* for a replayed case - an error of this specification, not of the code.     *)
(***************************************************************************)
EXTENDS EDF
CONSTANTS CasesFile, ObsFile
CaseLog == ndJsonDeserialize(CasesFile)
ObsLog == ndJsonDeserialize(ObsFile)
VARIABLES l, mismatch
tvars == <<l, mismatch>>

\* (cases of the TLC-enumerated universe were checked on the model by EDF_Model; cases from elsewhere - marked x - are checked here)
JudgeRes(c, r, repr) ==
  IF Has(c, "x") /\ ~(RoundTrip(c, r.cfg) /\ RejectsExactly(c, r.cfg)) THEN "ModelBroken"
  ELSE IF r.enc = "ok" /\ ~(r.dec = "ok" /\ r.equal /\ r.rest = 0) THEN "RoundTrip"
  ELSE IF r.enc = "ok" /\ ~r.prefixed THEN "ExactConsumption"
  ELSE IF r.enc = "ok" /\ ~r.again THEN "WarmCaches"
  ELSE IF ~repr /\ r.enc # "rejected" THEN "RejectsUnrepresentable"
  ELSE ""
RECURSIVE FirstBad(_, _, _, _)
FirstBad(c, rs, i, repr) == IF i > Len(rs) THEN "" ELSE LET j == JudgeRes(c, rs[i], repr) IN IF j # "" THEN j ELSE FirstBad(c, rs, i + 1, repr)
Drift(c, rs, repr) ==
  [over |-> IF repr THEN Cardinality({i \in 1..Len(rs) : rs[i].enc # "ok"}) ELSE 0,
   len |-> Cardinality({i \in 1..Len(rs) : rs[i].enc = "ok" /\ rs[i].len > 0 /\ rs[i].len # Bytes(EncTyped(c.t, c.v, rs[i].cfg).t)})]

TInit == l = 1 /\ mismatch = "" /\ TLCSet(1, 1) /\ TLCSet(2, <<>>) /\ TLCSet(3, [over |-> 0, len |-> 0, lenline |-> 0])
TNext ==
  IF mismatch # ""
    THEN TLCSet(2, Append(TLCGet(2), <<mismatch, l - 1>>)) /\ mismatch' = "" /\ UNCHANGED l
    ELSE /\ l <= Len(ObsLog)
         /\ LET e == ObsLog[l] c == CaseLog[e.id] repr == ReprTop(c.t, c.v) d == Drift(c, e.res, repr) g == TLCGet(3) IN
            /\ mismatch' = FirstBad(c, e.res, 1, repr)
            /\ TLCSet(3, [over |-> g.over + d.over, len |-> g.len + d.len, lenline |-> IF d.len > 0 /\ g.lenline = 0 THEN l ELSE g.lenline])
         /\ l' = l + 1
TSpec == TInit /\ [][TNext]_tvars
HWM == TLCSet(1, IF l > TLCGet(1) THEN l ELSE TLCGet(1))
TraceAccepted ==
  /\ \A k \in 1..Len(TLCGet(2)) : PrintT(<<"CLAUSE_VIOLATED", TLCGet(2)[k][1], "LINE", TLCGet(2)[k][2]>>)
  /\ PrintT(<<"DRIFT", "over", TLCGet(3).over, "len", TLCGet(3).len, "lenline", TLCGet(3).lenline>>)
  /\ IF TLCGet(1) = Len(ObsLog) + 1 THEN TLCGet(2) = <<>>
     ELSE PrintT(<<"TRACE_REJECTED_AT_LINE", TLCGet(1), "OF", Len(ObsLog)>>) /\ FALSE
=============================================================================
