------------------------------- MODULE NetDown --------------------------------
(***************************************************************************)
(* C14: oracle for recorded fault cases between two real nodes.             *)
(* "down" line: observers on node A hold (or are just acquiring) a link or   *)
(* monitor on a target of node B - process id, registered name, alias,       *)
(* event or the node - when the fault happens: connection cut, node B        *)
(* stopped, target terminated (normal / kill / custom reason) or the name /  *)
(* alias / event unregistered.  when = after: the relation was established;  *)
(* midreq / midreply: the request / its reply was inside the relay at the    *)
(* moment of the fault (spec/RemoteRel.tla is the transition model of that   *)
(* exchange).  A request of another process may be in flight.                *)
(* "incarn" line: identifiers of an earlier incarnation used after a restart.*)
(***************************************************************************)
EXTENDS Naturals, Sequences, FiniteSets, TLC, Json
CONSTANTS TraceFile, Checks, RequestTimeoutMs
TraceLog == ndJsonDeserialize(TraceFile)
VARIABLES l, mismatch
vars == <<l, mismatch>>

NoteType(c) == (IF c.rel = "link" THEN "exit" ELSE "down") \o c.kind
ConnFault(c) == c.fault \in {"cut", "stop", "stopgrace"}
Reasons(c) ==
  IF c.kind = "node" THEN {"noconnection"}
  ELSE IF c.fault = "cut" THEN {"noconnection"}
  ELSE IF c.fault \in {"stop", "stopgrace"} THEN {"noconnection", "kill", "shutdown", "normal"}   \* a stopping node terminates its processes first
  ELSE IF c.fault = "termnormal" THEN {"normal"}
  ELSE IF c.fault = "termkill" THEN {"kill"}
  ELSE IF c.fault = "termcustom" THEN {"err:boom"}
  ELSE {"unregistered", "err:unregistered"}

Prefix(c) == IF c.rel = "link" THEN "exit" ELSE "down"
CountType(notes, t) == Cardinality({i \in 1..Len(notes) : notes[i].type = t})
\* one consumer holding relations on several targets of the lost node: one notice per relation
JudgeMany(c, res, ms, notes) ==
  LET kinds == {c.kind} \cup {c.more[i] : i \in 1..Len(c.more)} IN
  IF res = "hang" \/ ms > RequestTimeoutMs + 1500 THEN "NoHang"
  ELSE IF res # "ok" THEN "Established"
  ELSE IF \E k \in kinds : CountType(notes, Prefix(c) \o k) # 1 THEN "NoticeOnce"
  ELSE IF Len(notes) # Cardinality(kinds) THEN "NoticeOnce"
  ELSE IF \E i \in 1..Len(notes) : notes[i].reason \notin {"noconnection", "kill", "shutdown", "normal"} THEN "NoticeReason"
  ELSE ""
JudgeObserver(c, res, ms, notes) ==
  IF c.more # <<>> THEN JudgeMany(c, res, ms, notes)
  ELSE IF res = "hang" \/ ms > RequestTimeoutMs + 1500 THEN "NoHang"
  ELSE IF c.when = "after" /\ res # "ok" THEN "Established"
  ELSE IF Len(notes) > 1 THEN "NoticeOnce"
  ELSE IF res = "ok" /\ Len(notes) # 1 THEN "NoticeOnce"
  ELSE IF Len(notes) = 1 /\ notes[1].type # NoteType(c) THEN "NoticeType"
  ELSE IF Len(notes) = 1 /\ notes[1].reason \notin (Reasons(c) \cup (IF c.when = "after" THEN {} ELSE {"noconnection"})) THEN "NoticeReason"
  ELSE ""

\* continuation of a cut: the nodes reconnect, a new observer relates to the same target(s), the target is killed.  The first
\* observers have had their notice: they hear nothing more; the new observer is owed one notice per relation.
JudgeAgain(e) ==
  IF e.newres = "" THEN ""
  ELSE IF \E i \in 1..Len(e.extra) : e.extra[i] # 0 THEN "NothingAfterTheNotice"
  ELSE IF e.newres = "hang" THEN "NoHang"
  ELSE IF e.newres = "ok" /\ e.c.kind # "node" /\ Len(e.newnotes) # 1 + Len(e.c.more) THEN "NoticeOnce"
  ELSE ""
JudgeDown(e) ==
  LET bad == {i \in 1..Len(e.relres) : JudgeObserver(e.c, e.relres[i], e.relms[i], e.notes[i]) # ""} IN
  IF bad # {} THEN LET i == CHOOSE x \in bad : \A y \in bad : x <= y IN JudgeObserver(e.c, e.relres[i], e.relms[i], e.notes[i])
  ELSE IF JudgeAgain(e) # "" THEN JudgeAgain(e)
  ELSE IF e.c.call /\ ConnFault(e.c) /\ (e.callres \in {"ok", "hang"} \/ e.callms > 3000 + 1500) THEN "CallFails"
  ELSE ""

Refused(r) == \E k \in 1..Len(r) : SubSeq(r, k, Len(r)) = "=incarnation"
JudgeInc(e) ==
  IF \E i \in 1..Len(e.res) : e.res[i] # "before=ok" /\ ~Refused(e.res[i]) THEN "Incarnation"
  ELSE IF e.stray # 0 THEN "NoStray"
  ELSE ""

Init == l = 1 /\ mismatch = "" /\ TLCSet(1, 1) /\ TLCSet(2, <<>>)
Next ==
  IF mismatch # ""
    THEN TLCSet(2, Append(TLCGet(2), <<mismatch, l - 1>>)) /\ mismatch' = "" /\ UNCHANGED l
    ELSE /\ l <= Len(TraceLog)
         /\ LET e == TraceLog[l] IN
            mismatch' = IF Checks = {} THEN "" ELSE IF e.ev = "down" THEN JudgeDown(e) ELSE IF e.ev = "incarn" THEN JudgeInc(e) ELSE ""
         /\ l' = l + 1
Spec == Init /\ [][Next]_vars
HWM == TLCSet(1, IF l > TLCGet(1) THEN l ELSE TLCGet(1))
TraceAccepted ==
  /\ \A k \in 1..Len(TLCGet(2)) : PrintT(<<"CLAUSE_VIOLATED", TLCGet(2)[k][1], "LINE", TLCGet(2)[k][2]>>)
  /\ IF TLCGet(1) = Len(TraceLog) + 1 THEN TLCGet(2) = <<>>
     ELSE PrintT(<<"TRACE_REJECTED_AT_LINE", TLCGet(1), "OF", Len(TraceLog)>>) /\ FALSE
=============================================================================
