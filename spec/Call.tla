--------------------------------- MODULE Call ---------------------------------
(***************************************************************************)
(* Request/response correlation (C07).                                      *)
(* Callers make sequential synchronous calls; a call = fresh reference,      *)
(* request pushed to the callee (presented once), waitResponse on the        *)
(* caller's buffered response channel: a reply whose reference differs from  *)
(* the current one is dropped and the wait goes on; the wait ends with the   *)
(* matching reply or with a timeout.  Whoever holds (from, ref) of a request *)
(* may answer it (the callee synchronously or later, a third process, more   *)
(* than once, after the caller gave up); a reply can also be sent to the     *)
(* wrong caller.  RouteSendResponse is a non-blocking channel send.          *)
(* Code anchors: node/process.go CallPID.. / waitResponse, node/core.go      *)
(* RouteCall* / RouteSendResponse, act/actor.go request handling.            *)
(***************************************************************************)
EXTENDS Naturals, Sequences, FiniteSets, TLC

CONSTANTS
  Callers,    \* e.g. {"A","B"}
  K,          \* calls per caller
  Cap,        \* capacity of the response channel (10 in the code; scaled)
  MaxRep,     \* replies that may be produced per request
  RefWrap     \* 0 = references never repeat; W > 0 = they repeat with period W (P3, scaled)

Req == Callers \X (1..K)            \* request <<caller, k>>
VARIABLES
  cpc,        \* [Callers -> "idle" | "wait"]
  cur,        \* [Callers -> index of the current / last call]
  chan,       \* [Callers -> Seq([ref, val])]   response channel
  presented,  \* Seq of requests in the order the callee saw them
  answered,   \* [Req -> number of replies produced]
  returned    \* [Req -> <<kind, val>>]  <<"none">>, <<"timeout">>, <<"val", request>>

vars == <<cpc, cur, chan, presented, answered, returned>>

\* references: unique per node (one counter), or wrapping
Num(c, k) == LET cs == CHOOSE s \in [1..Cardinality(Callers) -> Callers] : \A i, j \in 1..Cardinality(Callers) : i # j => s[i] # s[j]
                 idx == CHOOSE i \in 1..Cardinality(Callers) : cs[i] = c
             IN (k - 1) * Cardinality(Callers) + idx
Ref(c, k) == IF RefWrap = 0 THEN Num(c, k) ELSE Num(c, k) % RefWrap

Init ==
  /\ cpc = [c \in Callers |-> "idle"] /\ cur = [c \in Callers |-> 0]
  /\ chan = [c \in Callers |-> <<>>] /\ presented = <<>>
  /\ answered = [r \in Req |-> 0] /\ returned = [r \in Req |-> <<"none">>]

CallSend(c) ==
  /\ cpc[c] = "idle" /\ cur[c] < K
  /\ cur' = [cur EXCEPT ![c] = @ + 1]
  /\ presented' = Append(presented, <<c, cur[c] + 1>>)
  /\ cpc' = [cpc EXCEPT ![c] = "wait"]
  /\ UNCHANGED <<chan, answered, returned>>

Recv(c) ==
  /\ cpc[c] = "wait" /\ chan[c] # <<>>
  /\ LET r == Head(chan[c]) IN
       IF r.ref = Ref(c, cur[c])
         THEN returned' = [returned EXCEPT ![<<c, cur[c]>>] = <<"val", r.val>>] /\ cpc' = [cpc EXCEPT ![c] = "idle"]
         ELSE UNCHANGED <<returned, cpc>>
  /\ chan' = [chan EXCEPT ![c] = Tail(@)]
  /\ UNCHANGED <<cur, presented, answered>>

Timeout(c) ==
  /\ cpc[c] = "wait"
  /\ returned' = [returned EXCEPT ![<<c, cur[c]>>] = <<"timeout">>]
  /\ cpc' = [cpc EXCEPT ![c] = "idle"]
  /\ UNCHANGED <<cur, chan, presented, answered>>

Presented(r) == \E i \in 1..Len(presented) : presented[i] = r

\* a reply for request r, delivered to caller `to` (to = r[1] unless misdirected)
Reply(r, to) ==
  /\ Presented(r) /\ answered[r] < MaxRep
  /\ answered' = [answered EXCEPT ![r] = @ + 1]
  /\ chan' = IF Len(chan[to]) < Cap THEN [chan EXCEPT ![to] = Append(@, [ref |-> Ref(r[1], r[2]), val |-> r])] ELSE chan
  /\ UNCHANGED <<cpc, cur, presented, returned>>

Next == \/ \E c \in Callers : CallSend(c) \/ Recv(c) \/ Timeout(c)
        \/ \E r \in Req, to \in Callers : Reply(r, to)
Spec == Init /\ [][Next]_vars

-----------------------------------------------------------------------------
\* the value returned for a call was produced for that very request
Correlated == \A r \in Req : returned[r][1] = "val" => returned[r][2] = r
PresentedOnce == \A i, j \in 1..Len(presented) : i # j => presented[i] # presented[j]
\* a reply is consumed by at most one call (a corollary of Correlated here: values name their request)
ConsumedOnce == \A r, s \in Req : (r # s /\ returned[r][1] = "val" /\ returned[s][1] = "val") => returned[r][2] # returned[s][2]
=============================================================================
