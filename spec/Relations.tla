------------------------------ MODULE Relations ------------------------------
(***************************************************************************)
(* Links and monitors racing with the disappearance of their target (C04,   *)
(* and the "no relation mentions a terminated process" part of C06).        *)
(*                                                                         *)
(* One target (a process id, a registered name, an alias or an event - the  *)
(* kind only decides which table the code reads and which yield points the  *)
(* terminator passes), consumers that link or monitor it (and may remove    *)
(* the relation again), one terminator that makes the target go away        *)
(* (Kill of the owner, or UnregisterName).                                  *)
(*                                                                         *)
(* One action per yield point:                                              *)
(*   consumer  RouteLinkX / RouteMonitorX:  link.check  (table read)          *)
(*                                        link.add    (targetManager.Add..) *)
(*             [repaired design]          link.recheck                      *)
(*             RouteUnlinkX / DemonitorX:  unlink.check, unlink.remove       *)
(*   terminator unregisterProcess / UnregisterName:                         *)
(*             TDel  (table delete)   TDrain (CleanupTarget)   TNote (one    *)
(*             exit/down message per drained consumer, delivered atomically)*)
(* Code anchors: node/core.go RouteLinkX RouteMonitorX RouteTerminateX,     *)
(* node/node.go unregisterProcess UnregisterName, gen/default_target_manager*)
(***************************************************************************)
EXTENDS Naturals, FiniteSets, Sequences, TLC

CONSTANTS
  Consumers,     \* set of consumer thread labels, e.g. {"L1","L2"}
  Kind,          \* [Consumers -> {"link","monitor"}]
  Undo,          \* [Consumers -> BOOLEAN] removes its relation after a successful request
  TDel, TDrain,  \* names of the terminator's two yield points for this target kind
  TNote,         \* yield point between the drain (CleanupTarget returned) and the delivery of the notifications
  StateChecked,  \* TRUE: the terminator marks the owner terminated before the table delete (Kill) and
                 \*       monitor requests by process id or name refuse a terminated process (RouteMonitorPID, RouteMonitorProcessID)
  Fix_LinkRace   \* TRUE = the request re-checks the table after adding the relation

VARIABLES
  present,   \* target present in its table
  dying,     \* the owner's state word is already "terminated" (Kill swapped it) but it is still in the table
  rel,       \* set of consumers that have their relation on the target in the target manager
  lpc, lres, \* consumer pc, result of the request ("" while running)
  ures,      \* result of the removal ("" if none)
  tpc,       \* terminator pc
  got,       \* [Consumers -> number of exit/down notifications delivered]
  pend       \* consumers drained by the terminator whose notification has not been sent yet

vars == <<present, dying, rel, lpc, lres, ures, tpc, got, pend>>

Init ==
  /\ present = TRUE /\ dying = FALSE /\ rel = {}
  /\ lpc = [c \in Consumers |-> "link.check"]
  /\ lres = [c \in Consumers |-> ""] /\ ures = [c \in Consumers |-> ""]
  /\ tpc = "start" /\ got = [c \in Consumers |-> 0] /\ pend = {}

AfterLink(c) == IF Undo[c] THEN "unlink.check" ELSE "done"

LCheck(c) ==
  /\ lpc[c] = "link.check"
  /\ IF ~present THEN lpc' = [lpc EXCEPT ![c] = "done"] /\ lres' = [lres EXCEPT ![c] = "unknown"]
     ELSE IF StateChecked /\ Kind[c] = "monitor" /\ dying
       THEN lpc' = [lpc EXCEPT ![c] = "done"] /\ lres' = [lres EXCEPT ![c] = "terminated"]
     ELSE lpc' = [lpc EXCEPT ![c] = "link.add"] /\ UNCHANGED lres
  /\ UNCHANGED <<present, dying, rel, ures, tpc, got>>

LAdd(c) ==
  /\ lpc[c] = "link.add"
  /\ rel' = rel \cup {c}
  /\ IF Fix_LinkRace THEN lpc' = [lpc EXCEPT ![c] = "link.recheck"] /\ UNCHANGED lres
     ELSE lpc' = [lpc EXCEPT ![c] = AfterLink(c)] /\ lres' = [lres EXCEPT ![c] = "ok"]
  /\ UNCHANGED <<present, dying, ures, tpc, got>>

\* repaired design: look again; target gone and the relation still ours => take it back and fail;
\* already drained => the notification is on its way: succeed
LRecheck(c) ==
  /\ lpc[c] = "link.recheck"
  /\ IF present \/ c \notin rel
       THEN /\ lres' = [lres EXCEPT ![c] = "ok"] /\ UNCHANGED rel
            \* process.Unlink* asks HasLink first (no yield point in between): a drained relation ends the removal at once
            /\ IF Undo[c] /\ c \notin rel
                 THEN lpc' = [lpc EXCEPT ![c] = "done"] /\ ures' = [ures EXCEPT ![c] = "norel"]
                 ELSE lpc' = [lpc EXCEPT ![c] = AfterLink(c)] /\ UNCHANGED ures
       ELSE /\ lres' = [lres EXCEPT ![c] = "unknown"] /\ rel' = rel \ {c} /\ lpc' = [lpc EXCEPT ![c] = "done"]
            /\ UNCHANGED ures
  /\ UNCHANGED <<present, dying, tpc, got>>

UCheck(c) ==
  /\ lpc[c] = "unlink.check"
  /\ IF present THEN lpc' = [lpc EXCEPT ![c] = "unlink.remove"] /\ UNCHANGED ures
     ELSE lpc' = [lpc EXCEPT ![c] = "done"] /\ ures' = [ures EXCEPT ![c] = "unknown"]
  /\ UNCHANGED <<present, dying, rel, lres, tpc, got>>

URemove(c) ==
  /\ lpc[c] = "unlink.remove"
  /\ ures' = [ures EXCEPT ![c] = IF c \in rel THEN "ok" ELSE "norel"]
  /\ rel' = rel \ {c}
  /\ lpc' = [lpc EXCEPT ![c] = "done"]
  /\ UNCHANGED <<present, dying, lres, tpc, got>>

TStart == tpc = "start" /\ tpc' = TDel /\ dying' = StateChecked /\ UNCHANGED <<present, rel, lpc, lres, ures, got>>
TSkip == tpc = "start" /\ tpc' = "skipped" /\ UNCHANGED <<present, dying, rel, lpc, lres, ures, got>>
TDelete == tpc = TDel /\ present' = FALSE /\ tpc' = TDrain /\ UNCHANGED <<dying, rel, lpc, lres, ures, got>>
TDrainAll ==
  /\ tpc = TDrain
  /\ pend' = rel /\ rel' = {}
  /\ tpc' = TNote
  /\ UNCHANGED <<present, dying, lpc, lres, ures, got>>
\* one exit/down message per drained consumer (delivery is atomic with this step)
TNotify ==
  /\ tpc = TNote
  /\ got' = [c \in Consumers |-> IF c \in pend THEN got[c] + 1 ELSE got[c]]
  /\ pend' = {} /\ tpc' = "done"
  /\ UNCHANGED <<present, dying, rel, lpc, lres, ures>>

LStep(c) == (LCheck(c) \/ LAdd(c) \/ LRecheck(c) \/ UCheck(c) \/ URemove(c)) /\ UNCHANGED pend
TStep == ((TStart \/ TSkip \/ TDelete) /\ UNCHANGED pend) \/ TDrainAll \/ TNotify
Next == (\E c \in Consumers : LStep(c)) \/ TStep
Spec == Init /\ [][Next]_vars

-----------------------------------------------------------------------------
Quiescent == (\A c \in Consumers : lpc[c] = "done") /\ tpc \in {"done", "skipped"}

\* the relation was established and not removed by its owner
Holds(c) == lres[c] = "ok" /\ ures[c] # "ok"
\* C04
ExactlyOneNotice == Quiescent => \A c \in Consumers :
     /\ (Holds(c) /\ ~present) => got[c] = 1
     /\ (Holds(c) /\ present) => got[c] = 0
     /\ (lres[c] # "ok") => got[c] = 0
NeverTwice == \A c \in Consumers : got[c] <= 1
\* removed beforehand => nothing: a consumer whose removal succeeded before the drain gets nothing
RemovedSilent == Quiescent => \A c \in Consumers : (ures[c] = "ok") => got[c] = 0
\* C06: nothing mentions a target that is gone
NoStaleRelation == (Quiescent /\ ~present) => rel = {}
=============================================================================
