--------------------------------- MODULE Pool ---------------------------------
(***************************************************************************)
(* C19: dispatch of act.Pool (act/pool.go forward()).                       *)
(* State: the ring of workers (a queue of worker ids), per worker its        *)
(* mailbox (bounded by Cap, 0 = unbounded), the message whose handler is     *)
(* in progress, liveness.  Workers are numbered in spawn order.              *)
(*   forward(m): up to |ring| times: pop the worker at the front;            *)
(*     dead  -> spawn a replacement, hand m to it, push it, done;            *)
(*     accepts (mailbox not full) -> hand m to it, push it back, done;       *)
(*     full  -> push it back, try the next one;                              *)
(*   if every worker was full the message is dropped.                        *)
(* The harness can hold a worker inside its handler (so that its mailbox     *)
(* fills deterministically), release it, kill it, and call AddWorkers /      *)
(* RemoveWorkers; every operation is followed by quiescence, so a history is *)
(* sequential and this module is its oracle: each recorded line is replayed  *)
(* and what every real worker handled / holds / has queued, who is alive and *)
(* which replies reached the callers is compared with the model.             *)
(***************************************************************************)
EXTENDS Naturals, Sequences, FiniteSets, TLC, Json
CONSTANTS TraceFile, Checks
TraceLog == ndJsonDeserialize(TraceFile)

VARIABLES l, cap, ring, ws, calls, mismatch, skipping
\* ws: sequence (by worker index) of [alive, hold, cur, q, handled, exiting]
\* calls: set of request ids issued with Call

W0 == [alive |-> TRUE, hold |-> FALSE, cur |-> "", q |-> <<>>, handled |-> <<>>, exiting |-> FALSE, mute |-> {}]
\* mute: requests whose handler completed in a worker that had been killed meanwhile - a killed process cannot send the response

Accepts(w) == w.alive /\ (cap = 0 \/ Len(w.q) < cap)
\* a message reaches worker w
Deliver(w, m) ==
  IF ~w.hold THEN [w EXCEPT !.handled = Append(@, m)]
  ELSE IF w.cur = "" THEN [w EXCEPT !.cur = m]
  ELSE [w EXCEPT !.q = Append(@, m)]

\* state record s = [ring, ws]
RECURSIVE Forward(_, _, _)
Forward(s, m, tries) ==
  IF tries = 0 \/ s.ring = <<>> THEN s          \* dropped
  ELSE LET i == Head(s.ring)
           w == s.ws[i]
       IN IF ~w.alive
            THEN LET j == Len(s.ws) + 1 IN
                 [ring |-> Append(Tail(s.ring), j), ws |-> Append(s.ws, Deliver(W0, m))]
          ELSE IF Accepts(w)
            THEN [ring |-> Append(Tail(s.ring), i), ws |-> [s.ws EXCEPT ![i] = Deliver(w, m)]]
          ELSE Forward([s EXCEPT !.ring = Append(Tail(s.ring), i)], m, tries - 1)

Release(w) ==
  IF ~w.hold THEN w
  \* a worker killed inside its handler (zombie): the handler finishes now, nobody hears of it
  ELSE IF ~w.alive THEN [w EXCEPT !.hold = FALSE, !.handled = (IF w.cur = "" THEN @ ELSE Append(@, w.cur)), !.mute = (IF w.cur = "" THEN @ ELSE @ \cup {w.cur}), !.cur = "", !.q = <<>>]
  ELSE IF w.exiting /\ w.cur # ""
    \* an exit signal (RemoveWorkers) was waiting in the urgent queue: the handler in progress finishes, then the worker terminates
    THEN [w EXCEPT !.hold = FALSE, !.handled = Append(@, w.cur), !.cur = "", !.q = <<>>, !.alive = FALSE]
  ELSE [w EXCEPT !.hold = FALSE, !.handled = (IF w.cur = "" THEN @ ELSE Append(@, w.cur)) \o w.q, !.cur = "", !.q = <<>>]

\* Kill cannot interrupt a handler: the one in progress completes, what was queued is lost
\* (the harness opens the gate of the worker it kills: a zombie - killed earlier inside its handler - finishes that handler now)
Kill(w) == IF ~w.alive /\ w.hold /\ w.cur # "" THEN Release(w) ELSE
           [w EXCEPT !.alive = FALSE, !.handled = (IF w.cur = "" \/ ~w.alive THEN @ ELSE Append(@, w.cur)),
                      !.mute = (IF w.cur = "" \/ ~w.alive THEN @ ELSE @ \cup {w.cur}), !.cur = "", !.q = <<>>, !.hold = FALSE]

\* killed while kept inside its handler: dead for the pool at once (the next message that meets it gets a new worker), what was queued
\* is lost, the handler in progress finishes when it is released
KillHeld(w) == IF ~w.alive THEN w ELSE IF w.hold /\ w.cur # "" THEN [w EXCEPT !.alive = FALSE, !.q = <<>>] ELSE Kill(w)

RECURSIVE AddN(_, _)
AddN(s, k) == IF k = 0 THEN s ELSE AddN([ring |-> Append(s.ring, Len(s.ws) + 1), ws |-> Append(s.ws, W0)], k - 1)
\* RemoveWorkers pops from the front of the ring and sends a normal exit; a worker parked in a handler sees it after its release
RECURSIVE RemoveN(_, _)
RemoveN(s, k) ==
  IF k = 0 \/ s.ring = <<>> THEN s
  ELSE LET i == Head(s.ring)
           w == s.ws[i]
           w2 == IF ~w.alive THEN w
                 ELSE IF w.hold /\ w.cur # "" THEN [w EXCEPT !.exiting = TRUE]
                 ELSE [w EXCEPT !.alive = FALSE, !.q = <<>>]
       IN RemoveN([ring |-> Tail(s.ring), ws |-> [s.ws EXCEPT ![i] = w2]], k - 1)

Apply(e, s) ==
  IF e.op \in {"send", "call"} THEN Forward(s, e.id, Len(s.ring))
  ELSE IF e.op = "hold" THEN IF e.w \in 1..Len(s.ws) /\ s.ws[e.w].alive THEN [s EXCEPT !.ws[e.w].hold = TRUE] ELSE s
  ELSE IF e.op = "release" THEN IF e.w \in 1..Len(s.ws) THEN [s EXCEPT !.ws[e.w] = Release(@)] ELSE s
  ELSE IF e.op = "kill" THEN IF e.w \in 1..Len(s.ws) THEN [s EXCEPT !.ws[e.w] = Kill(@)] ELSE s
  ELSE IF e.op = "killheld" THEN IF e.w \in 1..Len(s.ws) THEN [s EXCEPT !.ws[e.w] = KillHeld(@)] ELSE s
  ELSE IF e.op = "add" THEN AddN(s, e.n)
  ELSE IF e.op = "remove" THEN RemoveN(s, e.n)
  ELSE s

RECURSIVE ReleaseAll(_, _)
ReleaseAll(wsq, k) == IF k > Len(wsq) THEN wsq ELSE ReleaseAll([wsq EXCEPT ![k] = Release(@)], k + 1)

\* ---- comparison ------------------------------------------------------------
HandledBy(wsq, m) == {i \in 1..Len(wsq) : \E k \in 1..Len(wsq[i].handled) : wsq[i].handled[k] = m}
Compare(e, wsq) ==
  IF "Alive" \in Checks /\ (Len(e.workers) # Len(wsq) \/ \E i \in 1..Len(wsq) : e.workers[i].alive # wsq[i].alive) THEN "Alive"
  ELSE IF "Dispatch" \in Checks /\ \E i \in 1..Len(wsq) :
             \/ e.workers[i].handled # wsq[i].handled
             \/ (wsq[i].alive /\ (e.workers[i].busy # wsq[i].cur \/ e.workers[i].qlen # Len(wsq[i].q))) THEN "Dispatch"
  ELSE ""
ExpectedReply(wsq, m) ==
  IF HandledBy(wsq, m) = {} \/ (\E i \in 1..Len(wsq) : m \in wsq[i].mute) THEN "lost" ELSE LET i == CHOOSE x \in HandledBy(wsq, m) : TRUE IN ToString(i) \o ":" \o m
\* e.replies: "<id>=<worker>:<id seen>" or "<id>=err:..."
ReplyOk(wsq, r) ==
  \E m \in calls :
     \/ (ExpectedReply(wsq, m) # "lost" /\ r = m \o "=" \o ExpectedReply(wsq, m))
     \/ (ExpectedReply(wsq, m) = "lost" /\ \E k \in 1..Len(r) : SubSeq(r, 1, k) = m \o "=err")
CompareEnd(e, wsq) ==
  LET c == Compare(e, wsq) IN
  IF c # "" THEN c
  ELSE IF "Replies" \in Checks /\ (Len(e.replies) # Cardinality(calls) \/ \E k \in 1..Len(e.replies) : ~ReplyOk(wsq, e.replies[k])) THEN "Replies"
  ELSE IF "OneWorker" \in Checks /\ \E i, j \in 1..Len(wsq) : i # j /\ \E a \in 1..Len(wsq[i].handled), b \in 1..Len(wsq[j].handled) : wsq[i].handled[a] = wsq[j].handled[b] THEN "OneWorker"
  ELSE ""

Init == /\ l = 1 /\ cap = 0 /\ ring = <<>> /\ ws = <<>> /\ calls = {} /\ mismatch = "" /\ skipping = FALSE
        /\ TLCSet(1, 1) /\ TLCSet(2, <<>>)

Line ==
  LET e == TraceLog[l] IN
  IF e.ev = "cfg" THEN
     /\ cap' = e.cap /\ ring' = [i \in 1..e.size |-> i] /\ ws' = [i \in 1..e.size |-> W0] /\ calls' = {}
     /\ mismatch' = Compare(e, ws')
  ELSE IF e.ev = "op" THEN
     LET s == Apply(e, [ring |-> ring, ws |-> ws]) IN
     /\ ring' = s.ring /\ ws' = s.ws /\ UNCHANGED cap
     /\ calls' = IF e.op = "call" THEN calls \cup {e.id} ELSE calls
     /\ mismatch' = Compare(e, s.ws)
  ELSE IF e.ev = "end" THEN
     LET wsq == ReleaseAll(ws, 1) IN
     /\ ws' = wsq /\ UNCHANGED <<cap, ring, calls>>
     /\ mismatch' = CompareEnd(e, wsq)
  ELSE UNCHANGED <<cap, ring, ws, calls>> /\ mismatch' = ""

Next ==
  IF mismatch # ""
    THEN /\ TLCSet(2, Append(TLCGet(2), <<mismatch, l - 1>>))
         /\ skipping' = TRUE /\ mismatch' = "" /\ UNCHANGED <<cap, ring, ws, calls, l>>
    ELSE /\ l <= Len(TraceLog)
         /\ IF skipping /\ TraceLog[l].ev # "cfg"
              THEN l' = l + 1 /\ UNCHANGED <<cap, ring, ws, calls, mismatch, skipping>>
              ELSE Line /\ l' = l + 1 /\ skipping' = FALSE
Spec == Init /\ [][Next]_<<l, cap, ring, ws, calls, mismatch, skipping>>

HWM == TLCSet(1, IF l > TLCGet(1) THEN l ELSE TLCGet(1))
TraceAccepted ==
  /\ \A k \in 1..Len(TLCGet(2)) : PrintT(<<"CLAUSE_VIOLATED", TLCGet(2)[k][1], "LINE", TLCGet(2)[k][2]>>)
  /\ IF TLCGet(1) = Len(TraceLog) + 1 THEN TLCGet(2) = <<>>
     ELSE PrintT(<<"TRACE_REJECTED_AT_LINE", TLCGet(1), "OF", Len(TraceLog)>>) /\ FALSE
=============================================================================
