------------------------------ MODULE RegistryH -------------------------------
(***************************************************************************)
(* C06, sequential part: what a process owns in the registry and what it     *)
(* leaves behind when it terminates.  The reference keeps, for one process,  *)
(* the aliases it created and has not deleted, its registered name, its      *)
(* events and the relations it requested; a history (one line of the trace)  *)
(* is replayed op by op with the recorded results, and after the             *)
(* termination everything must be gone:                                      *)
(*   ReleasedAliases   a send to ANY alias it ever created ends "unknown"    *)
(*   AliasesIntact     right before the termination exactly the aliases not  *)
(*                     deleted still delivered                               *)
(*   OwnerKeeps        a rival that is refused the name / the events and     *)
(*                     then terminates takes nothing with it: right before   *)
(*                     the owner's termination its name still resolves and   *)
(*                     its events are still taken                            *)
(*   ClaimableOnNotice at the moment its termination has been announced to   *)
(*                     links and monitors (the terminating goroutine is      *)
(*                     parked right behind the exit / down signals) its name *)
(*                     and its events can already be claimed by someone else *)
(*   ReleasedName      a send to its name ends "unknown"                     *)
(*   ReleasedEvents    its events can be registered again by someone else    *)
(*   NoRelationOfDead  no relation mentions it, as requester or as target    *)
(***************************************************************************)
EXTENDS Naturals, Sequences, FiniteSets, TLC, Json
CONSTANTS TraceFile, Checks
TraceLog == ndJsonDeserialize(TraceFile)
VARIABLES l, mismatch
vars == <<l, mismatch>>

\* aliases (by creation number) still held after replaying the ops with their recorded results
RECURSIVE Held(_, _, _, _, _)
Held(ops, res, k, made, held) ==
  IF k > Len(ops) THEN held
  ELSE IF ops[k].op = "alias" /\ res[k] = "ok" THEN Held(ops, res, k + 1, made + 1, held \cup {made + 1})
  ELSE IF ops[k].op = "delalias" /\ res[k] = "ok" THEN Held(ops, res, k + 1, made, held \ {ops[k].k})
  ELSE Held(ops, res, k + 1, made, held)

Judge(e) ==
  LET held == Held(e.ops, e.res, 1, 0, {}) IN
  IF \E i \in 1..Len(e.mid) : (e.mid[i] = "ok") # (i \in held) THEN "AliasesIntact"
  ELSE IF \E i \in 1..Len(e.rival) : e.rival[i] # "taken" THEN "OwnerKeeps"
  ELSE IF e.midname \notin {"", "ok"} \/ \E i \in 1..Len(e.midev) : e.midev[i] # "taken" THEN "OwnerKeeps"
  ELSE IF \E i \in 1..Len(e.notice) : e.notice[i] \notin {"ok", "nopark"} THEN "ClaimableOnNotice"
  ELSE IF \E i \in 1..Len(e.aliases) : e.aliases[i] # "unknown" THEN "ReleasedAliases"
  ELSE IF e.name \notin {"", "unknown"} THEN "ReleasedName"
  ELSE IF \E i \in 1..Len(e.events) : e.events[i] # "ok" THEN "ReleasedEvents"
  ELSE IF e.rels # 0 \/ e.relst # 0 THEN "NoRelationOfDead"
  ELSE ""

Init == l = 1 /\ mismatch = "" /\ TLCSet(1, 1) /\ TLCSet(2, <<>>)
Next ==
  IF mismatch # ""
    THEN TLCSet(2, Append(TLCGet(2), <<mismatch, l - 1>>)) /\ mismatch' = "" /\ UNCHANGED l
    ELSE /\ l <= Len(TraceLog)
         /\ mismatch' = (IF Checks = {} THEN "" ELSE Judge(TraceLog[l]))
         /\ l' = l + 1
Spec == Init /\ [][Next]_vars
HWM == TLCSet(1, IF l > TLCGet(1) THEN l ELSE TLCGet(1))
TraceAccepted ==
  /\ \A k \in 1..Len(TLCGet(2)) : PrintT(<<"CLAUSE_VIOLATED", TLCGet(2)[k][1], "LINE", TLCGet(2)[k][2]>>)
  /\ IF TLCGet(1) = Len(TraceLog) + 1 THEN TLCGet(2) = <<>>
     ELSE PrintT(<<"TRACE_REJECTED_AT_LINE", TLCGet(1), "OF", Len(TraceLog)>>) /\ FALSE
=============================================================================
