------------------------------- MODULE Hostile --------------------------------
(***************************************************************************)
(* C16: oracle for hostile-input cases.                                     *)
(*  live: after a genuine handshake a mutated protocol frame is injected     *)
(*    into the byte stream of an established connection (length field lying  *)
(*    in either direction or shorter than the header, wrong magic / version, *)
(*    unknown or swapped type byte, truncated per-type body, flipped body    *)
(*    bytes, compressed envelope with a lying size / unknown method, random  *)
(*    bytes).  spec/Frame.tla is the transition model of the frame reader    *)
(*    these cases aim at.  Afterwards the attacked node must still serve a   *)
(*    request between two local processes and one over an unrelated          *)
(*    connection, within bounded time and memory.                            *)
(*  hs: an attacker on the path rewrites a handshake message of an honest    *)
(*    dialer (the digests cover salt and cookie only): a flipped byte at any *)
(*    offset, a cut, an entry of the error cache turned into the nil error.  *)
(*  edf: the decoder is fed with mutated encodings of a value corpus: it     *)
(*    returns a value or an error - no panic, no hang, bounded memory - and  *)
(*    a value that decodes re-encodes to bytes that decode to the same value.*)
(***************************************************************************)
EXTENDS Naturals, Sequences, FiniteSets, TLC, Json
CONSTANTS TraceFile, Checks
TraceLog == ndJsonDeserialize(TraceFile)
VARIABLES l, mismatch
vars == <<l, mismatch>>

AllocLimitKB(bytes) == 64 * (bytes \div 1024 + 1) + 32768
JudgeLive(e) ==
  IF ~e.found THEN ""
  ELSE IF ~e.nodeok \/ e.local # "ok" THEN (IF e.local = "hang" THEN "NoHang" ELSE "LocalUnaffected")
  ELSE IF e.witness # "ok" THEN (IF e.witness = "hang" THEN "NoHang" ELSE "OthersUnaffected")
  ELSE IF e.ms > 6000 THEN "NoHang"
  \* the attacked connection is either closed or still works: its receive queue must not be stuck behind the malformed frame
  \* (a frame whose length field promises more bytes than were sent legitimately keeps the reader waiting and swallows what follows)
  ELSE IF e.complete /\ e.connup /\ e.after = "lost" THEN "QueueNotStuck"
  ELSE IF e.allockb > AllocLimitKB(e.injected) THEN "AllocBounded"
  ELSE ""
\* a handshake message of an honest dialer was altered on the path: whatever becomes of that connection, the node goes on serving
JudgeHs(e) ==
  IF e.after = "hang" THEN "NoHang"        \* the dialing node never came back from the handshake
  ELSE IF ~e.nodeok \/ e.local # "ok" THEN (IF e.local = "hang" THEN "NoHang" ELSE "LocalUnaffected")
  ELSE IF e.witness # "ok" THEN (IF e.witness = "hang" THEN "NoHang" ELSE "OthersUnaffected")
  ELSE ""
JudgeEdf(e) ==
  IF e.outcome = "panic" THEN "DecoderNoPanic"
  ELSE IF e.outcome = "hang" THEN "NoHang"
  ELSE IF e.allockb > AllocLimitKB(e.len) THEN "AllocBounded"
  ELSE IF e.outcome = "value" /\ ~e.stable THEN "ReencodeStable"
  ELSE ""
Init == l = 1 /\ mismatch = "" /\ TLCSet(1, 1) /\ TLCSet(2, <<>>)
Next ==
  IF mismatch # ""
    THEN TLCSet(2, Append(TLCGet(2), <<mismatch, l - 1>>)) /\ mismatch' = "" /\ UNCHANGED l
    ELSE /\ l <= Len(TraceLog)
         /\ LET e == TraceLog[l] IN
            mismatch' = IF Checks = {} THEN "" ELSE IF e.ev = "live" THEN JudgeLive(e) ELSE IF e.ev = "edf" THEN JudgeEdf(e) ELSE IF e.ev = "hs" THEN JudgeHs(e) ELSE ""
         /\ l' = l + 1
Spec == Init /\ [][Next]_vars
HWM == TLCSet(1, IF l > TLCGet(1) THEN l ELSE TLCGet(1))
TraceAccepted ==
  /\ \A k \in 1..Len(TLCGet(2)) : PrintT(<<"CLAUSE_VIOLATED", TLCGet(2)[k][1], "LINE", TLCGet(2)[k][2]>>)
  /\ IF TLCGet(1) = Len(TraceLog) + 1 THEN TLCGet(2) = <<>>
     ELSE PrintT(<<"TRACE_REJECTED_AT_LINE", TLCGet(1), "OF", Len(TraceLog)>>) /\ FALSE
=============================================================================
