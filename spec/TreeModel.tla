------------------------------ MODULE TreeModel ------------------------------
(***************************************************************************)
(* C10: no orphans.                                                          *)
(* Design model (checked by TLC for the small tree MC_Tree builds): every    *)
(* process has an owner (the supervisor / pool / application that started    *)
(* it); a process is starting (inside its Init: not yet in the process       *)
(* table, unreachable for signals), running or dead.                         *)
(*   Fault(p)     - a running process dies (kill, exit, crash, panic)        *)
(*   Begin(o, c)  - a running owner starts (or restarts) child c             *)
(*   Finish(c)    - c's Init returns: it links itself to the owner and       *)
(*                  becomes running (the owner is inside the callback that   *)
(*                  started c, so it cannot have died meanwhile)             *)
(*   FailInit(c)  - c's Init fails: the processes c started during its Init  *)
(*                  are told (NotifyOnFail; the pinned code did not)         *)
(*   Cascade(c)   - the exit of a dead owner reaches running child c         *)
(* NoOrphanQ: when nothing is in flight (no Cascade enabled, nothing         *)
(* starting) no running process has a dead owner.                            *)
(* Oracle part: TLC evaluates the same property on the state recorded at     *)
(* quiescence from real trees after a fault script (spec line "end").        *)
(***************************************************************************)
EXTENDS Naturals, FiniteSets
CONSTANTS Procs, Owner, NotifyOnFail
\* ---------------------------------------------------------------- design model
VARIABLES st, told
mvars == <<st, told>>
Root == "root"
Kids(o) == {c \in Procs : Owner[c] = o /\ c # Root}
MInit == st = [p \in Procs |-> IF p = Root THEN "running" ELSE "none"] /\ told = {}
\* a process that is starting a child is inside a callback: kill / exit take effect only after the callback returned (C01, C05)
Fault(p) == /\ st[p] = "running" /\ (\A k \in Kids(p) : st[k] # "starting")
            /\ st' = [st EXCEPT ![p] = "dead"] /\ UNCHANGED told
Begin(o, c) == /\ c # Root /\ Owner[c] = o /\ st[o] \in {"running", "starting"} /\ st[c] \in {"none", "dead"}
               /\ st' = [st EXCEPT ![c] = "starting"] /\ told' = told \ {c}
Finish(c) == /\ st[c] = "starting"
             /\ \A k \in Kids(c) : st[k] # "starting"
             /\ st' = [st EXCEPT ![c] = "running"]
             /\ UNCHANGED told
FailInit(c) == /\ st[c] = "starting" /\ c # Root
               /\ \A k \in Kids(c) : st[k] # "starting"
               /\ st' = [st EXCEPT ![c] = "dead"]
               /\ told' = IF NotifyOnFail THEN told ELSE told \cup Kids(c)    \* children that will never hear of it
Cascade(c) == /\ c # Root /\ st[c] = "running" /\ st[Owner[c]] = "dead" /\ c \notin told
              /\ st' = [st EXCEPT ![c] = "dead"] /\ UNCHANGED told
MNext == \/ \E p \in Procs : Fault(p) \/ Finish(p) \/ FailInit(p) \/ Cascade(p)
         \/ \E o, c \in Procs : Begin(o, c)
MSpec == MInit /\ [][MNext]_mvars
CascadeEnabled(c) == c # Root /\ st[c] = "running" /\ st[Owner[c]] = "dead" /\ c \notin told
Quiet == (\A c \in Procs : st[c] # "starting") /\ (\A c \in Procs : ~CascadeEnabled(c))
NoOrphanQ == Quiet => \A c \in Procs \ {Root} : st[c] = "running" => st[Owner[c]] = "running"

=============================================================================
