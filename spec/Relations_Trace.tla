--------------------------- MODULE Relations_Trace ---------------------------
(***************************************************************************)
(* Trace specification for Relations.  Each line of the recorded execution  *)
(* (harness/relations) is consumed either as a step of the Core spec        *)
(* (Relations) with the logged fields bound - conformance - or, once a line *)
(* is not a Core step (drift), as a pure observation update.  The property  *)
(* clauses of C04 (and the relation part of C06) are stated over the        *)
(* OBSERVATION variables only, which are updated from what was logged in    *)
(* both modes; so the verdict never depends on the model's internal state.  *)
(***************************************************************************)
EXTENDS Relations, Json

CONSTANTS TraceFile, Checks, ExpReasonOk
TraceLog == ndJsonDeserialize(TraceFile)

VARIABLES
  l, drift,          \* next line; line number at which the trace stopped being a Core behaviour (0 = never)
  oLres, oUres,      \* results logged by the consumers
  oGot, oOther, oBadReason, oRel, oPresent,   \* last projection
  atEnd, viol

ovars == <<oLres, oUres, oGot, oOther, oBadReason, oRel, oPresent, atEnd>>
tvars == <<vars, l, drift, ovars, viol>>

ToSet(sq) == {sq[i] : i \in 1..Len(sq)}

TraceInit ==
  /\ Init /\ l = 1 /\ drift = 0 /\ viol = ""
  /\ oLres = [c \in Consumers |-> ""] /\ oUres = [c \in Consumers |-> ""]
  /\ oGot = [c \in Consumers |-> 0] /\ oOther = 0 /\ oBadReason = 0 /\ oRel = {} /\ oPresent = "T"
  /\ atEnd = FALSE
  /\ TLCSet(1, 1) /\ TLCSet(2, <<"", 0>>) /\ TLCSet(3, 0) /\ TLCSet(4, 0)

Observe(e) ==
  /\ oLres' = IF e.th \in Consumers /\ e.x.lres # "" THEN [oLres EXCEPT ![e.th] = e.x.lres] ELSE oLres
  /\ oUres' = IF e.th \in Consumers /\ e.x.ures # "" THEN [oUres EXCEPT ![e.th] = e.x.ures] ELSE oUres
  /\ oGot' = [c \in Consumers |-> e.s.got[c]]
  /\ oOther' = e.s.other
  /\ oBadReason' = e.s.badreason
  /\ oRel' = ToSet(e.s.rel)
  /\ oPresent' = e.s.present

ResetCore ==
  /\ present' = TRUE /\ dying' = FALSE /\ rel' = {}
  /\ lpc' = [c \in Consumers |-> "link.check"]
  /\ lres' = [c \in Consumers |-> ""] /\ ures' = [c \in Consumers |-> ""]
  /\ tpc' = "start" /\ got' = [c \in Consumers |-> 0] /\ pend' = {}

LineReset(e) ==
  /\ e.ev = "reset"
  /\ ResetCore
  /\ oLres' = [c \in Consumers |-> ""] /\ oUres' = [c \in Consumers |-> ""]
  /\ oGot' = [c \in Consumers |-> e.s.got[c]] /\ oOther' = e.s.other /\ oBadReason' = e.s.badreason
  /\ oRel' = ToSet(e.s.rel) /\ oPresent' = e.s.present
  /\ atEnd' = FALSE

\* a line of a model thread taken as a Core step, logged fields bound
CoreStep(e) ==
  /\ e.ev = "step" /\ e.stall = FALSE
  /\ \/ /\ e.th \in Consumers /\ lpc[e.th] = e.from
        /\ LStep(e.th)
        /\ lpc'[e.th] = e.to
        /\ (e.x.lres # "" => lres'[e.th] = e.x.lres)
        /\ (e.x.ures # "" => ures'[e.th] = e.x.ures)
     \/ /\ e.th = "T" /\ tpc = e.from
        /\ TStep
        /\ tpc' = IF e.to = "done" /\ e.x.tres = "skip" THEN "skipped" ELSE e.to
  /\ rel' = ToSet(e.s.rel)
  /\ present' = (e.s.present = "T")
  \* nothing was delivered that the model has not produced
  /\ \A c \in Consumers : e.s.got[c] <= got'[c]

\* a line of an auxiliary thread (delivery of notifications ...): the Core state does not change
AuxStep(e) ==
  /\ e.ev = "step" /\ e.th \notin Consumers /\ e.th # "T"
  /\ UNCHANGED vars
  /\ \A c \in Consumers : e.s.got[c] <= got[c]

CoreEnd(e) ==
  /\ e.ev = "end" /\ e.stall = FALSE
  /\ UNCHANGED vars
  /\ Quiescent
  /\ \A c \in Consumers : e.s.got[c] = got[c]
  /\ rel = ToSet(e.s.rel)

CoreLine(e) == CoreStep(e) \/ AuxStep(e) \/ CoreEnd(e)

Line ==
  LET e == TraceLog[l] IN
  IF e.ev = "reset" THEN LineReset(e) /\ drift' = 0
  ELSE /\ IF drift = 0 /\ ENABLED CoreLine(e)
            THEN CoreLine(e) /\ UNCHANGED drift
            ELSE /\ UNCHANGED vars /\ drift' = (IF drift = 0 THEN l ELSE drift)
                 /\ (drift = 0 => TLCSet(4, TLCGet(4) + 1))
                 /\ (TLCGet(3) = 0 => TLCSet(3, l))
       /\ Observe(e)
       /\ atEnd' = (e.ev = "end" /\ e.stall = FALSE)

-----------------------------------------------------------------------------
(* Property clauses over the observations *)
OHolds(c) == oLres[c] = "ok" /\ oUres[c] # "ok"
Gone == oPresent = "F"
Done(c) == oLres[c] # ""
ExactlyOneNoticeO == atEnd => \A c \in Consumers : Done(c) =>
     /\ (OHolds(c) /\ Gone) => oGot[c] = 1
     /\ (OHolds(c) /\ ~Gone) => oGot[c] = 0
     /\ (oLres[c] # "ok") => oGot[c] = 0
NeverTwiceO == \A c \in Consumers : oGot[c] <= 1
RemovedSilentO == atEnd => \A c \in Consumers : (oUres[c] = "ok") => oGot[c] = 0
NoStrayO == oOther = 0
ReasonO == ExpReasonOk => oBadReason = 0
NoStaleRelationO == (atEnd /\ Gone) => oRel = {}

Bad ==
  IF "ExactlyOneNotice" \in Checks /\ ~ExactlyOneNoticeO THEN "ExactlyOneNotice"
  ELSE IF "NeverTwice" \in Checks /\ ~NeverTwiceO THEN "NeverTwice"
  ELSE IF "RemovedSilent" \in Checks /\ ~RemovedSilentO THEN "RemovedSilent"
  ELSE IF "NoStray" \in Checks /\ ~NoStrayO THEN "NoStray"
  ELSE IF "Reason" \in Checks /\ ~ReasonO THEN "Reason"
  ELSE IF "NoStaleRelation" \in Checks /\ ~NoStaleRelationO THEN "NoStaleRelation"
  ELSE ""

TraceNext ==
  /\ viol = ""
  /\ IF Bad # ""
       THEN viol' = Bad /\ TLCSet(2, <<Bad, l - 1>>) /\ UNCHANGED <<vars, l, drift, ovars>>
       ELSE l <= Len(TraceLog) /\ Line /\ l' = l + 1 /\ UNCHANGED viol

TraceSpec == TraceInit /\ [][TraceNext]_tvars

HWM == TLCSet(1, IF l > TLCGet(1) THEN l ELSE TLCGet(1))
TraceAccepted ==
  /\ (TLCGet(3) # 0 => PrintT(<<"CORE_DRIFT_AT_LINE", TLCGet(3), "EXECUTIONS", TLCGet(4)>>))
  /\ IF TLCGet(2) # <<"", 0>>
       THEN PrintT(<<"CLAUSE_VIOLATED", TLCGet(2)[1], "LINE", TLCGet(2)[2]>>) /\ FALSE
     ELSE IF TLCGet(1) = Len(TraceLog) + 1 THEN TRUE
     ELSE PrintT(<<"TRACE_REJECTED_AT_LINE", TLCGet(1), "OF", Len(TraceLog)>>) /\ FALSE
=============================================================================
