------------------------------- MODULE ProcSum -------------------------------
(***************************************************************************)
(* Summary-level trace specification for the high-volume free-running mode  *)
(* of the process core (harness/proccore Hammer): several real sender       *)
(* goroutines per actor send numbered messages as fast as they can for a    *)
(* few seconds, nobody kills or stops the actors.  Each line is the summary *)
(* of one actor at quiescence, built from scheduler-independent witnesses   *)
(* kept by the actor itself (atomic in-callback counter, per-sender         *)
(* sequence numbers, counts) and from the node's view of it.                *)
(* Clauses: C01 Serial, C02 ExactlyOnce / NoLostWakeup, C03 SenderFifo,     *)
(* C05 no spontaneous termination.                                          *)
(***************************************************************************)
EXTENDS Naturals, Sequences, TLC, Json
CONSTANTS TraceFile, Checks
TraceLog == ndJsonDeserialize(TraceFile)
VARIABLES l, cur, viol

Init == l = 1 /\ cur = [ev |-> "none"] /\ viol = "" /\ TLCSet(1, 1) /\ TLCSet(2, <<"", 0>>)

IsSum == cur.ev = "summary"
Serial == IsSum => cur.maxcb <= 1
SenderFifo == IsSum => cur.fifo_bad = 0
ExactlyOnce == (IsSum /\ cur.st = "sleep") => cur.handled = cur.sent_ok
NoLostWakeup == (IsSum /\ cur.st = "sleep") => cur.qlen = 0
\* nobody killed these actors and their handlers never fail: they must be asleep, never terminated
NoSpontaneousTermination == IsSum => (cur.terms = 0 /\ cur.st = "sleep")

Bad ==
  IF "Serial" \in Checks /\ ~Serial THEN "Serial"
  ELSE IF "SenderFifo" \in Checks /\ ~SenderFifo THEN "SenderFifo"
  ELSE IF "ExactlyOnce" \in Checks /\ ~ExactlyOnce THEN "ExactlyOnce"
  ELSE IF "NoLostWakeup" \in Checks /\ ~NoLostWakeup THEN "NoLostWakeup"
  ELSE IF "NoSpontaneousTermination" \in Checks /\ ~NoSpontaneousTermination THEN "NoSpontaneousTermination"
  ELSE ""

Next ==
  /\ viol = ""
  /\ IF Bad # ""
       THEN viol' = Bad /\ TLCSet(2, <<Bad, l - 1>>) /\ UNCHANGED <<l, cur>>
       ELSE l <= Len(TraceLog) /\ cur' = TraceLog[l] /\ l' = l + 1 /\ UNCHANGED viol
Spec == Init /\ [][Next]_<<l, cur, viol>>
HWM == TLCSet(1, IF l > TLCGet(1) THEN l ELSE TLCGet(1))
TraceAccepted ==
  IF TLCGet(2) # <<"", 0>>
    THEN PrintT(<<"CLAUSE_VIOLATED", TLCGet(2)[1], "LINE", TLCGet(2)[2]>>) /\ FALSE
  ELSE IF TLCGet(1) = Len(TraceLog) + 1 THEN TRUE
  ELSE PrintT(<<"TRACE_REJECTED_AT_LINE", TLCGet(1), "OF", Len(TraceLog)>>) /\ FALSE
=============================================================================
