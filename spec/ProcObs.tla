------------------------------- MODULE ProcObs -------------------------------
(***************************************************************************)
(* Observation-level trace specification for the process core.             *)
(*                                                                         *)
(* It consumes the same ndjson trace as ProcCore_Trace but is ALWAYS        *)
(* enabled: each line only updates observation variables from what was      *)
(* logged (callback entries, results of operations, terminate reasons, the  *)
(* projection of the real process).  The invariants are the formal          *)
(* statements of C01 / C02 / C03 / C05 over these observations, so they     *)
(* still decide the properties when the implementation no longer follows    *)
(* the Core actions step for step (drift), and for free-running executions  *)
(* (mode = "free": no controller, lines ordered by a global atomic counter).*)
(***************************************************************************)
EXTENDS Naturals, Sequences, FiniteSets, TLC, Json

CONSTANTS
  Senders, Ops, Killers, Trap, TraceFile,
  Controlled,    \* TRUE: every line is a step of the controller (snapshots are consistent)
  Checks         \* set of clause names to be decided on this trace

TraceLog == ndJsonDeserialize(TraceFile)
QSeq == <<"urgent", "system", "main", "log">>

VARIABLES
  l,
  handled,      \* Seq of message ids whose handler was entered
  dup,          \* a handler was entered twice for the same message id
  lastIdx,      \* [<<sender, class>> -> index of the last handled message of that sender in that class]
  fifoBad,      \* a message was handled after a later message of the same sender and class
  terms,        \* Seq of reasons the terminate callback was entered with
  res,          \* set of <<id, result>> of completed send operations
  begun,        \* set of senders that have taken at least one step
  killStarted,  \* a killer thread called Kill
  killOk,       \* a Kill call returned nil
  maxcb,        \* maximum of the in-callback counter of the behaviour
  cbAfterTerm,
  badPick,      \* a handler was entered for a message that was not the oldest of the highest class
  st, tab, ql, vis,   \* last projection
  atEnd,        \* the line just consumed is the end of an execution (quiescence)
  viol          \* "" or the name of the first violated clause (consumption stops there)

ovars == <<handled, dup, lastIdx, fifoBad, terms, res, begun, killStarted, killOk, maxcb, cbAfterTerm, badPick, st, tab, ql, vis, atEnd>>

MsgId(s, n) == s \o ":" \o ToString(n)
AllIds == UNION {{MsgId(s, n) : n \in 1..Len(Ops[s])} : s \in Senders}
\* constant-level table (evaluated once): id -> sender, index, op
IdInfo == [m \in AllIds |->
   LET s == CHOOSE x \in Senders : \E n \in 1..Len(Ops[x]) : MsgId(x, n) = m
       n == CHOOSE k \in 1..Len(Ops[s]) : MsgId(s, k) = m
   IN [s |-> s, n |-> n, op |-> Ops[s][n]]]
SenderOf(m) == IdInfo[m].s
IndexOf(m) == IdInfo[m].n
OpOf(m) == IdInfo[m].op
ClassOf(m) == IF OpOf(m).kind \in {"exit", "exitp"} THEN "urgent" ELSE OpOf(m).q
Classes == {"urgent", "system", "main"}
SeqSet(sq) == {sq[i] : i \in 1..Len(sq)}

Init ==
  /\ l = 1 /\ TLCSet(1, 1) /\ TLCSet(2, <<"", 0>>)
  /\ handled = <<>> /\ dup = FALSE /\ fifoBad = FALSE
  /\ lastIdx = [x \in Senders \X Classes |-> 0]
  /\ terms = <<>> /\ res = {} /\ begun = {} /\ killStarted = FALSE /\ killOk = FALSE
  /\ maxcb = 0 /\ cbAfterTerm = FALSE /\ badPick = FALSE
  /\ st = "sleep" /\ tab = "T" /\ ql = <<0, 0, 0, 0>> /\ vis = << <<>>, <<>>, <<>>, <<>> >>
  /\ atEnd = FALSE /\ viol = ""

Project(e) == st' = e.st /\ tab' = e.tab /\ ql' = e.ql /\ vis' = e.vis

Reset ==
  /\ TraceLog[l].ev = "reset"
  /\ handled' = <<>> /\ dup' = FALSE /\ fifoBad' = FALSE
  /\ lastIdx' = [x \in Senders \X Classes |-> 0]
  /\ terms' = <<>> /\ res' = {} /\ begun' = {} /\ killStarted' = FALSE /\ killOk' = FALSE
  /\ maxcb' = 0 /\ cbAfterTerm' = FALSE /\ badPick' = FALSE /\ atEnd' = FALSE
  /\ Project(TraceLog[l])

\* the message a correct dequeue takes, given the visible queue contents before the step
FirstClass(v) == CHOOSE i \in 1..3 : v[i] # <<>> /\ \A k \in 1..(i-1) : v[k] = <<>>
ExpectedPick(v) == v[FirstClass(v)][1]

Step ==
  /\ TraceLog[l].ev = "step"
  /\ LET e == TraceLog[l] IN
     /\ handled' = IF e.cb = "msg" THEN Append(handled, e.id) ELSE handled
     /\ dup' = (dup \/ (e.cb = "msg" /\ e.id \in SeqSet(handled)))
     /\ IF e.cb = "msg" /\ e.id \in AllIds
          THEN LET key == <<SenderOf(e.id), ClassOf(e.id)>> IN
               /\ fifoBad' = (fifoBad \/ lastIdx[key] >= IndexOf(e.id))
               /\ lastIdx' = [lastIdx EXCEPT ![key] = IF IndexOf(e.id) > @ THEN IndexOf(e.id) ELSE @]
          ELSE UNCHANGED <<fifoBad, lastIdx>>
     /\ terms' = IF e.cb = "term" THEN Append(terms, e.reason) ELSE terms
     /\ res' = IF e.op # "" THEN res \cup {<<e.op, e.res>>} ELSE res
     /\ begun' = IF e.k = "S" THEN begun \cup {e.th} ELSE begun
     /\ killStarted' = (killStarted \/ (e.k = "K" /\ e.res # "skip"))
     /\ killOk' = (killOk \/ (e.k = "K" /\ e.res = "ok"))
     /\ maxcb' = IF e.maxcb > maxcb THEN e.maxcb ELSE maxcb
     /\ cbAfterTerm' = (cbAfterTerm \/ (e.cb = "msg" /\ terms # <<>>))
     /\ badPick' = (badPick \/ (Controlled /\ e.cb = "msg" /\ e.id \in AllIds
                                 /\ ((\A i \in 1..3 : vis[i] = <<>>) \/ ExpectedPick(vis) # e.id)))
     /\ atEnd' = FALSE
     /\ Project(e)

End ==
  /\ TraceLog[l].ev = "end"
  /\ atEnd' = (TraceLog[l].stall = FALSE)
  /\ maxcb' = IF TraceLog[l].maxcb > maxcb THEN TraceLog[l].maxcb ELSE maxcb
  /\ Project(TraceLog[l])
  /\ UNCHANGED <<handled, dup, lastIdx, fifoBad, terms, res, begun, killStarted, killOk, cbAfterTerm, badPick>>

-----------------------------------------------------------------------------
(* C01 *)
Serial == maxcb <= 1

(* C02 *)
OkSet == {x[1] : x \in {y \in res : y[2] = "ok"}}
RefusedSet == {x[1] : x \in {y \in res : y[2] # "ok"}}
HandledSet == SeqSet(handled)
NoDupHandle == ~dup
RefusedNever == RefusedSet \cap HandledSet = {}
OnlySent == HandledSet \subseteq AllIds
\* at quiescence with the receiver alive: nothing is left in the mailbox of a sleeping process ...
NoLostWakeup == (atEnd /\ st = "sleep") => ql = <<0, 0, 0, 0>>
\* ... and accepted = handled
ExactlyOnce == (atEnd /\ st = "sleep") => HandledSet = OkSet

(* C03 *)
SenderFifo == ~fifoBad
PriorityPick == ~badPick

(* C05 *)
TermOnce == Len(terms) <= 1
TermFinal == ~cbAfterTerm
ValidReasons ==
  (IF killStarted THEN {"kill"} ELSE {})
  \cup {"err:" \o m : m \in {c \in HandledSet \cap AllIds : OpOf(c).kind = "err"}}
  \cup (IF \E c \in HandledSet \cap AllIds : OpOf(c).kind = "panic" THEN {"panic"} ELSE {})
  \cup {"exit:" \o m : m \in {c \in AllIds : SenderOf(c) \in begun /\ (OpOf(c).kind = "exitp" \/ (OpOf(c).kind = "exit" /\ ~Trap))}}
ReasonRight == \A i \in 1..Len(terms) : terms[i] \in ValidReasons
QuiescentState == atEnd =>
   \/ (st = "sleep" /\ tab = "T" /\ terms = <<>>)
   \/ (st = "terminated" /\ tab = "F" /\ Len(terms) = 1)
KillKills == (atEnd /\ killOk) => st = "terminated"
\* a cause of termination that was handled leaves the process dead at quiescence
CauseTerminates == atEnd =>
   ((\E c \in HandledSet \cap AllIds : OpOf(c).kind \in {"err", "panic"}) => st = "terminated")
\* a trapped exit from a non-parent is delivered as a message and is no cause of termination by itself
TrapDelivers == (atEnd /\ Trap /\ st = "sleep") =>
   \A c \in OkSet \cap AllIds : OpOf(c).kind = "exit" => c \in HandledSet

-----------------------------------------------------------------------------
(* The clauses are evaluated on every state reached by consuming a line.  The first violated clause is
   recorded together with the line that produced the state, and consumption stops (so TLC does not print
   a counterexample as long as the whole trace). *)
Bad ==
  IF "Serial" \in Checks /\ ~Serial THEN "Serial"
  ELSE IF "NoDupHandle" \in Checks /\ ~NoDupHandle THEN "NoDupHandle"
  ELSE IF "RefusedNever" \in Checks /\ ~RefusedNever THEN "RefusedNever"
  ELSE IF "OnlySent" \in Checks /\ ~OnlySent THEN "OnlySent"
  ELSE IF "NoLostWakeup" \in Checks /\ ~NoLostWakeup THEN "NoLostWakeup"
  ELSE IF "ExactlyOnce" \in Checks /\ ~ExactlyOnce THEN "ExactlyOnce"
  ELSE IF "SenderFifo" \in Checks /\ ~SenderFifo THEN "SenderFifo"
  ELSE IF "PriorityPick" \in Checks /\ ~PriorityPick THEN "PriorityPick"
  ELSE IF "TermOnce" \in Checks /\ ~TermOnce THEN "TermOnce"
  ELSE IF "TermFinal" \in Checks /\ ~TermFinal THEN "TermFinal"
  ELSE IF "ReasonRight" \in Checks /\ ~ReasonRight THEN "ReasonRight"
  ELSE IF "QuiescentState" \in Checks /\ ~QuiescentState THEN "QuiescentState"
  ELSE IF "KillKills" \in Checks /\ ~KillKills THEN "KillKills"
  ELSE IF "CauseTerminates" \in Checks /\ ~CauseTerminates THEN "CauseTerminates"
  ELSE IF "TrapDelivers" \in Checks /\ ~TrapDelivers THEN "TrapDelivers"
  ELSE ""

Consume == l <= Len(TraceLog) /\ (Reset \/ Step \/ End) /\ l' = l + 1 /\ UNCHANGED viol
Flag == /\ viol' = Bad /\ TLCSet(2, <<Bad, l - 1>>)
        /\ UNCHANGED <<ovars, l>>
Next == /\ viol = ""
        /\ IF Bad # "" THEN Flag ELSE Consume
Spec == Init /\ [][Next]_<<ovars, l, viol>>

HWM == TLCSet(1, IF l > TLCGet(1) THEN l ELSE TLCGet(1))
\* register 2 holds <<clause, line>> of the first violation
TraceAccepted ==
  IF TLCGet(2) # <<"", 0>>
    THEN PrintT(<<"CLAUSE_VIOLATED", TLCGet(2)[1], "LINE", TLCGet(2)[2]>>) /\ FALSE
  ELSE IF TLCGet(1) = Len(TraceLog) + 1 THEN TRUE
  ELSE PrintT(<<"TRACE_REJECTED_AT_LINE", TLCGet(1), "OF", Len(TraceLog)>>) /\ FALSE
=============================================================================
