----------------------------- MODULE SupContract -----------------------------
(***************************************************************************)
(* The prescription of C08 / C09 / (C10 for supervisors) as a deliberately  *)
(* naive SEQUENTIAL REFERENCE SUPERVISOR, written from the documentation    *)
(* (act/supervisor.go type and strategy comments) and the property text,    *)
(* not from the state machines.  It consumes the same history the real      *)
(* supervisor got - configuration, batches of child failures injected while *)
(* the real supervisor was held inside a callback (so the order of the exit *)
(* signals in its mailbox is the batch order), management calls, a virtual  *)
(* clock - and handles each child exit atomically:                          *)
(*   drop it if that incarnation is no longer current;                      *)
(*   disabled spec: stays down (auto-shutdown if nothing runs);             *)
(*   restart?  Permanent: always; Transient: abnormal reason; Temporary: no *)
(*   no restart: significant child => stop everything, end with its reason; *)
(*               else auto-shutdown if nothing runs and it is enabled;      *)
(*   restart: more than Intensity failures within Period => stop all, end   *)
(*            with the intensity reason;                                    *)
(*            one-for-one: start it; all-for-one: stop the others, start    *)
(*            every enabled spec; rest-for-one: the same from its index on. *)
(* simple-one-for-one (typ = "sofo"): n instances of ONE spec started with   *)
(* StartChild; each is handled like a one-for-one child; DisableChild stops  *)
(* every instance (they stay down and do not count as failures), EnableChild *)
(* only re-opens the spec.  Instances have no identity across a restart, so  *)
(* the comparison is by counts; a fault names the k-th running instance.     *)
(* Each trace line carries what the real supervisor did (which specs run,   *)
(* which kept their process, start and stop order, fate and reason of the   *)
(* supervisor); the clauses compare that with the reference.                *)
(***************************************************************************)
EXTENDS Naturals, Sequences, FiniteSets, TLC, Json

CONSTANTS TraceFile, Checks
TraceLog == ndJsonDeserialize(TraceFile)

VARIABLES
  l,
  \* configuration of the current scenario (from its "cfg" line)
  n, typ, strategy, keeporder, autoshutdown, sig, intensity, period,
  \* reference state
  run, inc, disabled, alive, reason, fails,
  \* what the last line reported and what the reference expected for it
  mismatch,     \* "" or the name of the first clause that failed on the last consumed line
  skipping      \* the current scenario already failed a clause: its remaining lines are skipped

cfgvars == <<n, typ, strategy, keeporder, autoshutdown, sig, intensity, period>>
refvars == <<run, inc, disabled, alive, reason, fails>>

Idx == 1..n
Abnormal(r) == r \notin {"normal", "shutdown"}
Restart(r) == strategy = "perm" \/ (strategy = "trans" /\ Abnormal(r))

Init ==
  /\ l = 1 /\ skipping = FALSE /\ mismatch = ""
  /\ n = 0 /\ typ = "" /\ strategy = "" /\ keeporder = FALSE /\ autoshutdown = FALSE /\ sig = <<>> /\ intensity = 0 /\ period = 0
  /\ run = <<>> /\ inc = <<>> /\ disabled = <<>> /\ alive = FALSE /\ reason = "" /\ fails = <<>>
  /\ TLCSet(1, 1) /\ TLCSet(2, <<>>)

\* ---- the reference: one child exit handled atomically -------------------
\* state record s = [run, inc, disabled, alive, reason, fails]
Others(s, i) == {j \in DOMAIN s.run : j # i /\ s.run[j]}
StopAll(s, why) == [s EXCEPT !.run = [j \in DOMAIN s.run |-> FALSE], !.alive = FALSE, !.reason = why]
Window(fs, now) == {k \in 1..Len(fs) : now - fs[k] <= period * 1000}

HandleExit(s, i, r, now) ==
  LET s1 == [s EXCEPT !.run[i] = FALSE] IN
  IF s.disabled[i]
    THEN IF Others(s, i) = {} /\ autoshutdown THEN StopAll(s1, r) ELSE s1
  ELSE IF ~Restart(r)
    THEN IF sig[i] /\ strategy # "perm" THEN StopAll(s1, r)
         ELSE IF Others(s, i) = {} /\ autoshutdown /\ strategy # "perm" THEN StopAll(s1, r)
         ELSE s1
  ELSE LET fs == Append(s.fails, now)
           s2 == [s1 EXCEPT !.fails = fs]
       IN IF Cardinality(Window(fs, now)) > intensity
            THEN StopAll(s2, "exceeded")
            ELSE LET from == IF typ \in {"ofo", "sofo"} THEN i ELSE IF typ = "afo" THEN 1 ELSE i
                     upto == IF typ \in {"ofo", "sofo"} THEN i ELSE Len(s.run)
                     Aff == {j \in from..upto : ~s.disabled[j]}
                 IN [s2 EXCEPT !.run = [j \in DOMAIN s.run |-> IF j \in Aff THEN TRUE ELSE s2.run[j]],
                               !.inc = [j \in DOMAIN s.inc |-> IF j \in Aff THEN s.inc[j] + 1 ELSE s.inc[j]]]

\* a batch: the exits are handled in order; an exit whose incarnation was replaced or stopped meanwhile is dropped
RECURSIVE HandleBatch(_, _, _, _, _)
HandleBatch(s, faults, k, inc0, now) ==
  IF k > Len(faults) \/ ~s.alive THEN s
  ELSE LET i == faults[k][1]
           r == faults[k][2]
       IN IF s.run[i] /\ s.inc[i] = inc0[i]
            THEN HandleBatch(HandleExit(s, i, r, now), faults, k + 1, inc0, now)
            ELSE HandleBatch(s, faults, k + 1, inc0, now)

Cur == [run |-> run, inc |-> inc, disabled |-> disabled, alive |-> alive, reason |-> reason, fails |-> fails]
SetRef(s) == run' = s.run /\ inc' = s.inc /\ disabled' = s.disabled /\ alive' = s.alive /\ reason' = s.reason /\ fails' = s.fails

\* ---- comparison of one reported line with the reference ------------------
IsIncreasing(sq) == \A a, b \in 1..Len(sq) : a < b => sq[a] < sq[b]
IsDecreasing(sq) == \A a, b \in 1..Len(sq) : a < b => sq[a] > sq[b]

\* simple-one-for-one: the k-th running instance
NthRunning(r, k) == LET R == {j \in 1..Len(r) : r[j]} IN CHOOSE j \in R : Cardinality({x \in R : x <= j}) = k
RECURSIVE StopEach(_, _)
StopEach(s, k) == IF k > Len(s.run) THEN s ELSE StopEach([s EXCEPT !.run[k] = FALSE], k + 1)

\* e: the reported line, s0: reference before the step, s: reference after it
CountTrue(f) == Cardinality({j \in 1..Len(f) : f[j]})
Compare(e, s0, s) ==
  IF "Fate" \in Checks /\ e.alive # s.alive THEN "Fate"
  ELSE IF "Reason" \in Checks /\ ~s.alive /\ e.reason # s.reason THEN "Reason"
  ELSE IF typ = "sofo" THEN
       IF "Running" \in Checks /\ (CountTrue(e.run) # CountTrue(s.run) \/ e.extra # 0) THEN "Running"
       ELSE IF "Kept" \in Checks /\ s.alive /\ CountTrue(e.kept) # Cardinality({j \in 1..Len(s.run) : s.run[j] /\ s0.run[j] /\ s.inc[j] = s0.inc[j]}) THEN "Kept"
       ELSE IF "NoOrphan" \in Checks /\ ~s.alive /\ e.orphans # 0 THEN "NoOrphan"
       ELSE ""
  ELSE IF "Running" \in Checks /\ \E j \in 1..Len(s.run) : e.run[j] # s.run[j] THEN "Running"
  ELSE IF "Kept" \in Checks /\ s.alive /\ \E j \in 1..Len(s.run) : (s.run[j] /\ s0.run[j]) /\ (e.kept[j] # (s.inc[j] = s0.inc[j])) THEN "Kept"
  ELSE IF "StartOrder" \in Checks /\ Len(e.faults) <= 1 /\ ~IsIncreasing(e.startorder) THEN "StartOrder"
  ELSE IF "StopOrder" \in Checks /\ keeporder /\ typ # "ofo" /\ s.alive /\ Len(e.faults) <= 1 /\ ~IsDecreasing(e.stoporder) THEN "StopOrder"
  ELSE IF "NoOrphan" \in Checks /\ ~s.alive /\ e.orphans # 0 THEN "NoOrphan"
  ELSE ""

Line ==
  LET e == TraceLog[l] IN
  IF e.ev = "cfg" THEN
     /\ n' = e.n /\ typ' = e.type /\ strategy' = e.strategy /\ keeporder' = e.keeporder /\ autoshutdown' = e.autoshutdown
     /\ sig' = e.sig /\ intensity' = e.intensity /\ period' = e.period
     /\ run' = [j \in 1..e.n |-> TRUE] /\ inc' = [j \in 1..e.n |-> 1] /\ disabled' = [j \in 1..e.n |-> FALSE]
     /\ alive' = TRUE /\ reason' = "" /\ fails' = <<>>
     /\ mismatch' = ""
  ELSE IF e.ev = "started" THEN
     /\ UNCHANGED <<cfgvars, refvars>>
     /\ mismatch' = Compare(e, Cur, Cur)
  ELSE IF e.ev = "batch" THEN
     LET fs == IF typ = "sofo" THEN [k \in 1..Len(e.faults) |-> <<NthRunning(run, e.faults[k][1]), e.faults[k][2]>>] ELSE e.faults
         s == HandleBatch(Cur, fs, 1, inc, e.now) IN
     /\ SetRef(s) /\ UNCHANGED cfgvars
     /\ mismatch' = Compare(e, Cur, s)
  ELSE IF e.ev = "batchstart" THEN
     \* one child dies while a sibling is busy; StartChild for the dead child arrives before the sibling lets the supervisor go on:
     \* it is refused while a restart is in progress and starts the child if the supervisor had decided to leave it down
     LET s1 == HandleBatch(Cur, e.faults, 1, inc, e.now)
         i == e.faults[1][1]
         s == IF s1.alive /\ ~s1.run[i] /\ ~s1.disabled[i] THEN [s1 EXCEPT !.run[i] = TRUE, !.inc[i] = @ + 1] ELSE s1
     IN /\ SetRef(s) /\ UNCHANGED cfgvars
        /\ mismatch' = Compare(e, Cur, s)
  ELSE IF e.ev = "disablefault" THEN
     \* DisableChild(i) while child i is busy, then a sibling dies before i has gone: the outcome is that of the two events in order
     LET i == e.i
         s1 == IF alive /\ run[i] /\ ~disabled[i] THEN HandleExit([Cur EXCEPT !.disabled[i] = TRUE], i, "shutdown", e.now) ELSE Cur
         s == IF e.res = "ok" THEN HandleBatch(s1, e.faults, 1, s1.inc, e.now) ELSE Cur
     IN /\ SetRef(s) /\ UNCHANGED cfgvars
        /\ mismatch' = Compare(e, Cur, s)
  ELSE IF e.ev = "exitsup" THEN
     \* the supervisor is told to stop (e.why) while a child is busy and then dies of a reason of its own: everything stops, and the
     \* supervisor ends with the reason it was given
     LET s == IF alive THEN StopAll(Cur, e.why) ELSE Cur
     IN /\ SetRef(s) /\ UNCHANGED cfgvars
        /\ mismatch' = Compare(e, Cur, s)
  ELSE IF e.ev = "startchild" THEN
     \* one more instance of the spec (refused while the spec is disabled)
     LET Freeslots == {j \in 1..n : ~run[j]}
         s == IF alive /\ Freeslots # {} /\ ~disabled[1]
                THEN LET j == CHOOSE x \in Freeslots : \A y \in Freeslots : x <= y IN [Cur EXCEPT !.run[j] = TRUE, !.inc[j] = @ + 1]
                ELSE Cur
     IN /\ SetRef(s) /\ UNCHANGED cfgvars
        /\ mismatch' = Compare(e, Cur, s)
  ELSE IF e.ev = "disable" /\ typ = "sofo" THEN
     \* every instance is stopped and stays down; nothing of it counts as a failure
     LET s == IF alive THEN StopEach([Cur EXCEPT !.disabled = [j \in 1..n |-> TRUE]], 1) ELSE Cur
     IN /\ SetRef(s) /\ UNCHANGED cfgvars
        /\ mismatch' = Compare(e, Cur, s)
  ELSE IF e.ev = "enable" /\ typ = "sofo" THEN
     LET s == IF alive THEN [Cur EXCEPT !.disabled = [j \in 1..n |-> FALSE]] ELSE Cur
     IN /\ SetRef(s) /\ UNCHANGED cfgvars
        /\ mismatch' = Compare(e, Cur, s)
  ELSE IF e.ev = "disable" THEN
     \* DisableChild: the child is stopped with reason shutdown and stays down
     LET i == e.i
         s == IF alive /\ run[i] /\ ~disabled[i]
                THEN HandleExit([Cur EXCEPT !.disabled[i] = TRUE], i, "shutdown", e.now)
                ELSE Cur
     IN /\ SetRef(s) /\ UNCHANGED cfgvars
        /\ mismatch' = Compare(e, Cur, s)
  ELSE IF e.ev = "enable" THEN
     LET i == e.i
         s == IF alive /\ disabled[i]
                THEN [Cur EXCEPT !.disabled[i] = FALSE, !.run[i] = TRUE, !.inc[i] = @ + 1]
                ELSE Cur
     IN /\ SetRef(s) /\ UNCHANGED cfgvars
        /\ mismatch' = Compare(e, Cur, s)
  ELSE /\ UNCHANGED <<cfgvars, refvars>> /\ mismatch' = ""

\* A failed clause is recorded (register 2: sequence of <<clause, line>>) and the rest of that scenario is skipped,
\* so one run judges every scenario of the trace.
Next ==
  /\ l <= Len(TraceLog)
  /\ IF mismatch # ""
       THEN /\ TLCSet(2, Append(TLCGet(2), <<mismatch, l - 1>>))
            /\ skipping' = TRUE /\ mismatch' = "" /\ UNCHANGED <<cfgvars, refvars, l>>
       ELSE IF skipping /\ TraceLog[l].ev # "cfg"
            THEN l' = l + 1 /\ UNCHANGED <<cfgvars, refvars, mismatch, skipping>>
            ELSE Line /\ l' = l + 1 /\ skipping' = FALSE
Spec == Init /\ [][Next]_<<cfgvars, refvars, l, mismatch, skipping>>

HWM == TLCSet(1, IF l > TLCGet(1) THEN l ELSE TLCGet(1))
TraceAccepted ==
  /\ \A k \in 1..Len(TLCGet(2)) : PrintT(<<"CLAUSE_VIOLATED", TLCGet(2)[k][1], "LINE", TLCGet(2)[k][2]>>)
  /\ IF TLCGet(1) = Len(TraceLog) + 1 THEN TLCGet(2) = <<>>
     ELSE PrintT(<<"TRACE_REJECTED_AT_LINE", TLCGet(1), "OF", Len(TraceLog)>>) /\ FALSE
=============================================================================
