------------------------------ MODULE Call_Trace ------------------------------
(***************************************************************************)
(* Observation-level trace specification for Call: histories generated from *)
(* the Call model (plans) are executed with real callers and callees; the    *)
(* harness logs every call issued, every request presented to a callee,      *)
(* every reply sent (by whom, to whom, with which result) and what each call *)
(* returned.  The clauses of C07 are evaluated on these observations.        *)
(***************************************************************************)
EXTENDS Naturals, Sequences, FiniteSets, TLC, Json
CONSTANTS TraceFile, Checks
TraceLog == ndJsonDeserialize(TraceFile)

VARIABLES l, issued, presentedO, returnedO, dupPresent, badValue, dupConsume, unknownPresent, viol
ovars == <<issued, presentedO, returnedO, dupPresent, badValue, dupConsume, unknownPresent>>

Init ==
  /\ l = 1 /\ viol = ""
  /\ issued = {} /\ presentedO = {} /\ returnedO = {} /\ dupPresent = FALSE /\ badValue = FALSE /\ dupConsume = FALSE
  /\ unknownPresent = FALSE
  /\ TLCSet(1, 1) /\ TLCSet(2, <<"", 0>>)

Line ==
  LET e == TraceLog[l] IN
  IF e.ev = "reset" THEN
     /\ issued' = {} /\ presentedO' = {} /\ returnedO' = {}
     /\ UNCHANGED <<dupPresent, badValue, dupConsume, unknownPresent>>
  ELSE IF e.ev = "issue" THEN
     /\ issued' = issued \cup {e.req} /\ UNCHANGED <<presentedO, returnedO, dupPresent, badValue, dupConsume, unknownPresent>>
  ELSE IF e.ev = "presented" THEN
     /\ dupPresent' = (dupPresent \/ e.req \in presentedO)
     /\ unknownPresent' = (unknownPresent \/ e.req \notin issued)
     /\ presentedO' = presentedO \cup {e.req}
     /\ UNCHANGED <<issued, returnedO, badValue, dupConsume>>
  ELSE IF e.ev = "returned" THEN
     \* e.kind: val | timeout | error ; e.val: the request id the returned value was produced for
     /\ badValue' = (badValue \/ (e.kind = "val" /\ e.val # e.req))
     /\ dupConsume' = (dupConsume \/ (e.kind = "val" /\ e.val \in returnedO))
     /\ returnedO' = IF e.kind = "val" THEN returnedO \cup {e.val} ELSE returnedO
     /\ UNCHANGED <<issued, presentedO, dupPresent, unknownPresent>>
  ELSE UNCHANGED ovars

CorrelatedO == ~badValue
PresentedOnceO == ~dupPresent /\ ~unknownPresent
ConsumedOnceO == ~dupConsume

Bad ==
  IF "Correlated" \in Checks /\ ~CorrelatedO THEN "Correlated"
  ELSE IF "PresentedOnce" \in Checks /\ ~PresentedOnceO THEN "PresentedOnce"
  ELSE IF "ConsumedOnce" \in Checks /\ ~ConsumedOnceO THEN "ConsumedOnce"
  ELSE ""

Next ==
  /\ viol = ""
  /\ IF Bad # ""
       THEN viol' = Bad /\ TLCSet(2, <<Bad, l - 1>>) /\ UNCHANGED <<ovars, l>>
       ELSE l <= Len(TraceLog) /\ Line /\ l' = l + 1 /\ UNCHANGED viol
Spec == Init /\ [][Next]_<<ovars, l, viol>>

HWM == TLCSet(1, IF l > TLCGet(1) THEN l ELSE TLCGet(1))
TraceAccepted ==
  IF TLCGet(2) # <<"", 0>>
    THEN PrintT(<<"CLAUSE_VIOLATED", TLCGet(2)[1], "LINE", TLCGet(2)[2]>>) /\ FALSE
  ELSE IF TLCGet(1) = Len(TraceLog) + 1 THEN TRUE
  ELSE PrintT(<<"TRACE_REJECTED_AT_LINE", TLCGet(1), "OF", Len(TraceLog)>>) /\ FALSE
=============================================================================
