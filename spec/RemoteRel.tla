------------------------------ MODULE RemoteRel -------------------------------
(***************************************************************************)
(* C14: one link/monitor request of a process on node A for a target on     *)
(* node B (node/core.go RouteLink* / RouteMonitor*, remote branch), racing   *)
(* with the termination of the target and with the loss of the connection.   *)
(*   A: [AddFirst: add the relation to A's table] -> request to B            *)
(*   B: target alive -> remember the remote consumer, reply ok; else unknown *)
(*   B: target terminates -> one notice frame to A if B knows a consumer     *)
(*   A: reply ok -> [~AddFirst: add the relation now, a separate step]       *)
(*   A: notice frame -> notify and drop the relation if A's table has it     *)
(*   connection lost -> frames in flight are lost; A's table is cleaned for  *)
(*      node B: every relation found there is notified 'no connection'       *)
(*   A: no reply -> the request fails with a timeout, relation taken back    *)
(* Frames B->A are an unordered set: reply and notice travel on different    *)
(* pooled links / receive queues and are handled by different goroutines.    *)
(* AddFirst = FALSE is the design of the pinned code (before the repair):    *)
(* TLC finds the behaviour where the requester gets ok, is never notified    *)
(* and the relation stays behind.  AddFirst = TRUE is the repaired design.   *)
(***************************************************************************)
EXTENDS Naturals, FiniteSets
CONSTANTS AddFirst
VARIABLES pc, relA, relB, up, down, conn, alive, result, notices
vars == <<pc, relA, relB, up, down, conn, alive, result, notices>>

Init == /\ pc = "start" /\ relA = FALSE /\ relB = FALSE /\ up = {} /\ down = {} /\ conn = "up"
        /\ alive = TRUE /\ result = "" /\ notices = 0

Start == /\ pc = "start" /\ conn = "up"
         /\ relA' = AddFirst /\ up' = {"req"} /\ pc' = "wait"
         /\ UNCHANGED <<relB, down, conn, alive, result, notices>>
BRecv == /\ "req" \in up /\ conn = "up"
         /\ up' = {} /\ relB' = alive /\ down' = down \cup {IF alive THEN "ok" ELSE "unknown"}
         /\ UNCHANGED <<pc, relA, conn, alive, result, notices>>
Term == /\ alive /\ alive' = FALSE /\ relB' = FALSE
        /\ down' = IF relB /\ conn = "up" THEN down \cup {"notice"} ELSE down
        /\ UNCHANGED <<pc, relA, up, conn, result, notices>>
AReply(r) == /\ pc = "wait" /\ r \in down /\ r \in {"ok", "unknown"} /\ conn = "up"
             /\ down' = down \ {r} /\ result' = r
             /\ IF r = "ok" THEN (IF AddFirst THEN pc' = "done" ELSE pc' = "gotok") /\ UNCHANGED relA
                ELSE pc' = "done" /\ relA' = FALSE
             /\ UNCHANGED <<relB, up, conn, alive, notices>>
AAdd == /\ pc = "gotok" /\ relA' = TRUE /\ pc' = "done"
        /\ UNCHANGED <<relB, up, down, conn, alive, result, notices>>
ANotice == /\ "notice" \in down /\ conn = "up" /\ down' = down \ {"notice"}
           /\ IF relA THEN notices' = notices + 1 /\ relA' = FALSE ELSE UNCHANGED <<notices, relA>>
           /\ UNCHANGED <<pc, relB, up, conn, alive, result>>
Cut == /\ conn = "up" /\ conn' = "down" /\ up' = {} /\ down' = {} /\ relB' = FALSE
       /\ IF relA THEN notices' = notices + 1 /\ relA' = FALSE ELSE UNCHANGED <<notices, relA>>
       /\ UNCHANGED <<pc, alive, result>>
Timeout == /\ pc = "wait" /\ conn = "down" /\ result' = "timeout" /\ relA' = FALSE /\ pc' = "done"
           /\ UNCHANGED <<relB, up, down, conn, alive, notices>>
NoConn == /\ pc = "start" /\ conn = "down" /\ result' = "noconnection" /\ pc' = "done"
          /\ UNCHANGED <<relA, relB, up, down, conn, alive, notices>>

Next == Start \/ BRecv \/ Term \/ (\E r \in {"ok", "unknown"} : AReply(r)) \/ AAdd \/ ANotice \/ Cut \/ Timeout \/ NoConn
Spec == Init /\ [][Next]_vars

Settled == pc = "done" /\ (conn = "down" \/ (~alive /\ down = {} /\ up = {}))
AtMostOne == notices <= 1
\* whoever was told ok and whose target is gone (or unreachable) has been notified, and nothing stays behind
ExactlyOneNotice == Settled => (IF result = "ok" THEN notices = 1 ELSE notices <= 1)
NoStaleRelation == Settled => ~relA
=============================================================================
