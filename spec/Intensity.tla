------------------------------ MODULE Intensity ------------------------------
(***************************************************************************)
(* Restart intensity (C09): transcription of supCheckRestartIntensity       *)
(* (act/supervisor.go) against the sliding-window definition.               *)
(*   Check(now): append now; while more than I entries are kept, drop the   *)
(*   entries older than P from the front; exceeded iff more than I remain.  *)
(*   Definition: exceeded iff more than I failures lie within the last P    *)
(*   time units (inclusive) of the full history.                            *)
(* Time unit = 1000 ms in the code.                                         *)
(***************************************************************************)
EXTENDS Naturals, Sequences, FiniteSets, TLC
CONSTANTS I, P, MaxT, MaxF
VARIABLES now, restarts, history, exceeded, agreed

vars == <<now, restarts, history, exceeded, agreed>>
Init == now = 0 /\ restarts = <<>> /\ history = <<>> /\ exceeded = FALSE /\ agreed = TRUE

RECURSIVE Prune(_, _)
Prune(rs, t) == IF rs # <<>> /\ t - rs[1] > P THEN Prune(Tail(rs), t) ELSE rs

\* the code
Check(rs, t) ==
  LET r1 == Append(rs, t) IN
  IF Len(r1) <= I THEN [rs |-> r1, ex |-> FALSE]
  ELSE LET r2 == Prune(r1, t) IN [rs |-> r2, ex |-> Len(r2) > I]

\* the definition
Within(h, t) == {k \in 1..Len(h) : t - h[k] <= P}
Def(h, t) == Cardinality(Within(h, t)) > I

Tick == now < MaxT /\ now' = now + 1 /\ UNCHANGED <<restarts, history, exceeded, agreed>>
Fail ==
  /\ Len(history) < MaxF /\ ~exceeded
  /\ LET c == Check(restarts, now)
         h == Append(history, now)
     IN /\ restarts' = c.rs /\ history' = h /\ exceeded' = c.ex
        /\ agreed' = (c.ex = Def(h, now))
  /\ UNCHANGED now
Next == Tick \/ Fail
Spec == Init /\ [][Next]_vars

Agree == agreed
\* pruning never drops a failure that is still inside the window
PrunedOnlyOld == \A k \in 1..Len(history) : (now - history[k] <= P /\ ~exceeded) =>
                    (\E j \in 1..Len(restarts) : restarts[j] = history[k]) \/ Len(restarts) <= I
=============================================================================
