//go:build verif

package netfam

import (
	"fmt"
	"os"
	"sync"
	"time"

	"ergo.services/ergo/act"
	"ergo.services/ergo/gen"
	"ergo.services/ergo/net/edf"
)

// Remote event subscribers (C18 "from another node", C12 "event"): a producer on node B publishes numbered messages; processes on
// node A subscribe by link or monitor - some messages are published before they subscribe (the last-N buffer must be handed over), the
// rest afterwards (each must arrive exactly once, in order, with an equal payload).

type EvCase struct {
	ID      int    `json:"id"`
	Buffer  int    `json:"buffer"` // last-N buffer of the event
	Pre     int    `json:"pre"`    // published before the subscription
	Post    int    `json:"post"`   // published afterwards
	Subs    int    `json:"subs"`   // subscribers on node A
	Rel     string `json:"rel"`    // link | monitor | mixed
	Pool    int    `json:"pool"`
	Chunk   int    `json:"chunk"`
	Size    int    `json:"size"` // payload size
	End     string `json:"end"`  // "" | unregister | kill : what happens to the event at the end
	Stagger bool   `json:"stagger"`
}

type evSub struct {
	act.Actor
	w   *evWorld
	idx int
}

type evWorld struct {
	mu    sync.Mutex
	live  map[int][]string // subscriber -> "<seq>:<sum>"
	notes map[int][]string
}

func (s *evSub) Init(args ...any) error {
	s.w = args[0].(*evWorld)
	s.idx = args[1].(int)
	s.SetTrapExit(true)
	return nil
}

type evPayload struct {
	Seq  int
	Data []byte
}

func init() {
	if err := edf.RegisterTypeOf(evPayload{}); err != nil {
		panic(err)
	}
}

func (s *evSub) HandleEvent(message gen.MessageEvent) error {
	if p, ok := message.Message.(evPayload); ok {
		s.w.mu.Lock()
		s.w.live[s.idx] = append(s.w.live[s.idx], fmt.Sprintf("%d:%s", p.Seq, sum(p.Data)))
		s.w.mu.Unlock()
	}
	return nil
}

func (s *evSub) HandleMessage(from gen.PID, message any) error {
	switch m := message.(type) {
	case cmdMsg2:
		m.fn(s)
		close(m.done)
	case gen.MessageExitEvent:
		s.w.mu.Lock()
		s.w.notes[s.idx] = append(s.w.notes[s.idx], "exit:"+errText(m.Reason))
		s.w.mu.Unlock()
	case gen.MessageDownEvent:
		s.w.mu.Lock()
		s.w.notes[s.idx] = append(s.w.notes[s.idx], "down:"+errText(m.Reason))
		s.w.mu.Unlock()
	}
	return nil
}

type cmdMsg2 struct {
	fn   func(s *evSub)
	done chan struct{}
}

type EvLine struct {
	P      int        `json:"p"`
	Ev     string     `json:"ev"` // revent
	C      EvCase     `json:"c"`
	Sums   []string   `json:"sums"`   // "<seq>:<sum>" of everything published, in order
	Buf    [][]string `json:"buf"`    // per subscriber: what the subscription call returned
	Live   [][]string `json:"live"`   // per subscriber: what arrived as event messages
	SubRes []string   `json:"subres"` // per subscriber: result of the subscription
	Kinds  []string   `json:"kinds"`  // per subscriber: link | monitor
	Notes  [][]string `json:"notes"`  // per subscriber: exit/down notifications at the end
}

func (r *DRunner) RunEvents(c *EvCase) error {
	r.seq++
	tag := fmt.Sprintf("%d_%d", os.Getpid()%10000, r.seq)
	pool := c.Pool
	if pool < 1 {
		pool = 2
	}
	gap := time.Duration(0)
	if c.Stagger {
		gap = 1100 * time.Millisecond
	}
	p, err := StartPairStaggered(NodeOpts{Name: "ea" + tag + "@localhost", Cookie: "ck", PoolSize: pool, Flags: netFlags},
		NodeOpts{Name: "eb" + tag + "@localhost", Cookie: "ck", PoolSize: pool, Flags: netFlags}, gap)
	if err != nil {
		return err
	}
	defer p.Stop()
	if _, err := p.Connect("ck"); err != nil {
		return fmt.Errorf("connect: %w", err)
	}
	if !p.WaitLinks(pool, 5*time.Second) {
		return fmt.Errorf("pool not complete")
	}
	p.Relay.SetChunk(c.Chunk)
	wb := &obsWorld{notes: map[gen.PID][]Note{}}
	prod, err := p.B.Spawn(func() gen.ProcessBehavior { return &worker{} }, gen.ProcessOptions{}, wb)
	if err != nil {
		return err
	}
	evname := gen.Atom("ev" + tag)
	var token gen.Ref
	var rerr error
	run(p.B, prod, 2*time.Second, func(pr gen.Process) { token, rerr = pr.RegisterEvent(evname, gen.EventOptions{Buffer: c.Buffer}) })
	if rerr != nil {
		return rerr
	}
	ev := gen.Event{Name: evname, Node: p.B.Name()}
	line := EvLine{P: c.ID, Ev: "revent", C: *c}
	publish := func(from, to int) {
		run(p.B, prod, 20*time.Second, func(pr gen.Process) {
			for k := from; k <= to; k++ {
				data := mkPayload(fmt.Sprintf("e%d", k), c.Size)
				if err := pr.SendEvent(evname, token, evPayload{Seq: k, Data: data}); err == nil {
					line.Sums = append(line.Sums, fmt.Sprintf("%d:%s", k, sum(data)))
				}
			}
		})
	}
	publish(1, c.Pre)
	time.Sleep(5 * time.Millisecond)
	w := &evWorld{live: map[int][]string{}, notes: map[int][]string{}}
	var subs []gen.PID
	for i := 0; i < c.Subs; i++ {
		s, err := spawnViaBoss(p.A, func() gen.ProcessBehavior { return &evSub{} }, w, i)
		if err != nil {
			return err
		}
		subs = append(subs, s)
	}
	line.Buf = make([][]string, c.Subs)
	line.SubRes = make([]string, c.Subs)
	line.Kinds = make([]string, c.Subs)
	for i, s := range subs {
		i := i
		kind := c.Rel
		if kind == "mixed" {
			kind = []string{"link", "monitor"}[i%2]
		}
		line.Kinds[i] = kind
		cm := cmdMsg2{done: make(chan struct{}), fn: func(sb *evSub) {
			var last []gen.MessageEvent
			var e error
			if kind == "link" {
				last, e = sb.LinkEvent(ev)
			} else {
				last, e = sb.MonitorEvent(ev)
			}
			line.SubRes[i] = errText(e)
			for _, m := range last {
				if pl, ok := m.Message.(evPayload); ok {
					line.Buf[i] = append(line.Buf[i], fmt.Sprintf("%d:%s", pl.Seq, sum(pl.Data)))
				}
			}
		}}
		if p.A.Send(s, cm) == nil {
			select {
			case <-cm.done:
			case <-time.After(8 * time.Second):
				line.SubRes[i] = "hang"
			}
		}
	}
	publish(c.Pre+1, c.Pre+c.Post)
	switch c.End {
	case "unregister":
		run(p.B, prod, 2*time.Second, func(pr gen.Process) { pr.UnregisterEvent(evname) })
	case "kill":
		p.B.Kill(prod)
	}
	// quiescence
	last, stable := -1, 0
	deadline := time.Now().Add(6 * time.Second)
	for time.Now().Before(deadline) && stable < 4 {
		w.mu.Lock()
		n := 0
		for _, v := range w.live {
			n += len(v)
		}
		for _, v := range w.notes {
			n += len(v)
		}
		w.mu.Unlock()
		if n == last && p.Relay.Idle() {
			stable++
		} else {
			stable = 0
		}
		if n != last {
			deadline = time.Now().Add(6 * time.Second)
		}
		last = n
		time.Sleep(15 * time.Millisecond)
	}
	w.mu.Lock()
	for i := range subs {
		line.Live = append(line.Live, append([]string{}, w.live[i]...))
		line.Notes = append(line.Notes, append([]string{}, w.notes[i]...))
	}
	w.mu.Unlock()
	for i := range line.Buf {
		if line.Buf[i] == nil {
			line.Buf[i] = []string{}
		}
	}
	if line.Sums == nil {
		line.Sums = []string{}
	}
	r.emitAny(&line)
	r.Cases++
	return nil
}

func spawnViaBoss(n gen.Node, f gen.ProcessFactory, args ...any) (gen.PID, error) {
	wa := &obsWorld{notes: map[gen.PID][]Note{}}
	boss, err := n.Spawn(func() gen.ProcessBehavior { return &worker{} }, gen.ProcessOptions{}, wa)
	if err != nil {
		return gen.PID{}, err
	}
	var pid gen.PID
	var serr error
	if e := run(n, boss, 2*time.Second, func(pr gen.Process) { pid, serr = pr.Spawn(f, gen.ProcessOptions{}, args...) }); e != nil {
		return pid, e
	}
	return pid, serr
}
