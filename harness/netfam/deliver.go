//go:build verif

package netfam

import (
	"bufio"
	"crypto/sha256"
	"encoding/hex"
	"encoding/json"
	"errors"
	"fmt"
	"os"
	"strings"
	"sync"
	"time"

	"ergo.services/ergo/act"
	"ergo.services/ergo/gen"
)

// ---- scripts -------------------------------------------------------------

type Send struct {
	ID        string `json:"id"`
	From      string `json:"from"` // sender label on A: S1 S2
	To        string `json:"to"`   // receiver label on B: R1 R2(bounded, held) | "none"
	Via       string `json:"via"`  // pid name alias
	Size      int    `json:"size"` // payload bytes
	Comp      string `json:"comp"` // "" gzip zlib lzw
	Important bool   `json:"important"`
	Call      bool   `json:"call"`
	Expect    string `json:"expect"` // deliver | unknown | full | toolarge | lost (non-important send to nobody)
}

type Stream struct {
	From  string `json:"from"`
	To    string `json:"to"`
	N     int    `json:"n"`
	Via   string `json:"via"`
	FromR int    `json:"fromr"` // wanted residue (mod 255) of the sender's process id, -1 = any
	ToR   int    `json:"tor"`
	Comp  string `json:"comp"` // compression of the sender ("" = off); the threshold sits between the small and the big messages of the stream
	Big   int    `json:"big"`  // every third message has this size (0 = all small)
}

type Case struct {
	ID       int      `json:"id"`
	Pool     int      `json:"pool"`
	MaxSize  int      `json:"maxsize"` // MaxMessageSize of B's acceptor (0 = unlimited)
	Chunk    int      `json:"chunk"`   // relay re-segmentation
	Sends    []Send   `json:"sends"`
	Streams  []Stream `json:"streams"`
	Delay    string   `json:"delay"` // "" | "link0" (hold link 0 while the stream starts) | "rotate" (hold links in turn)
	GrowPool bool     `json:"growpool"`
	Parallel bool     `json:"parallel"` // senders S1 and S2 work concurrently
	Stagger  bool     `json:"stagger"`  // node B is started more than a second before node A (different incarnation stamps)
}

type Script struct {
	Cases  []Case   `json:"cases"`
	Events []EvCase `json:"events"`
}

type RecvItem struct {
	At   string `json:"at"`
	ID   string `json:"id"`
	From string `json:"from"`
	Len  int    `json:"len"`
	Sum  string `json:"sum"`
	Kind string `json:"kind"` // msg | call
}

type DLine struct {
	P        int        `json:"p"`
	Ev       string     `json:"ev"` // cfg send recv stream end
	Pool     int        `json:"pool"`
	MaxSize  int        `json:"maxsize"`
	Chunk    int        `json:"chunk"`
	S        Send       `json:"s"`
	Res      string     `json:"res"`
	FromPid  string     `json:"frompid"`
	Len      int        `json:"len"`
	Sum      string     `json:"sum"`
	Reply    string     `json:"reply"`
	Items    []RecvItem `json:"items"`
	Pair     string     `json:"pair"`
	Seq      []int      `json:"seq"`
	N        int        `json:"n"`
	FromR    int        `json:"fromr"`
	ToR      int        `json:"tor"`
	Delay    string     `json:"delay"`
	SendErrs int        `json:"senderrs"`
	Lossy    bool       `json:"lossy"`
	After    []int      `json:"after"` // second batch, sent after a cut link had time to be re-dialled
	Grow     bool       `json:"grow"`
}

// ---- receiver ------------------------------------------------------------

type recvWorld struct {
	mu    sync.Mutex
	items []RecvItem
	seqs  map[string][]int // pair -> sequence numbers in arrival order
}

type receiver struct {
	act.Actor
	w     *recvWorld
	label string
	hold  chan struct{}
}

func sum(b []byte) string { h := sha256.Sum256(b); return hex.EncodeToString(h[:8]) }

func payloadID(b []byte) string {
	if i := strings.IndexByte(string(b[:min(len(b), 64)]), ';'); i > 0 {
		return string(b[:i])
	}
	return "?"
}

func min(a, b int) int {
	if a < b {
		return a
	}
	return b
}

func (r *receiver) Init(args ...any) error {
	r.w = args[0].(*recvWorld)
	r.label = args[1].(string)
	if len(args) > 2 {
		r.hold = args[2].(chan struct{})
	}
	return nil
}

func (r *receiver) record(from gen.PID, b []byte, kind string) {
	id := payloadID(b)
	r.w.mu.Lock()
	if strings.HasPrefix(id, "seq:") {
		// "seq:<pair>:<n>"
		parts := strings.Split(id, ":")
		if len(parts) == 3 {
			var n int
			fmt.Sscanf(parts[2], "%d", &n)
			r.w.seqs[parts[1]] = append(r.w.seqs[parts[1]], n)
		}
	} else {
		r.w.items = append(r.w.items, RecvItem{At: r.label, ID: id, From: from.String(), Len: len(b), Sum: sum(b), Kind: kind})
	}
	r.w.mu.Unlock()
}

func (r *receiver) HandleMessage(from gen.PID, message any) error {
	switch m := message.(type) {
	case []byte:
		r.record(from, m, "msg")
	case string:
		if m == "hold" && r.hold != nil {
			<-r.hold
		}
	case chan gen.Alias:
		a, _ := r.CreateAlias()
		m <- a
	}
	return nil
}

func (r *receiver) HandleCall(from gen.PID, ref gen.Ref, request any) (any, error) {
	if b, ok := request.([]byte); ok {
		r.record(from, b, "call")
		return sum(b), nil
	}
	return "?", nil
}

// ---- sender --------------------------------------------------------------

type sender struct {
	act.Actor
}

type sendCmd struct {
	fn   func(s *sender)
	done chan struct{}
}

func (s *sender) HandleMessage(from gen.PID, message any) error {
	if c, ok := message.(sendCmd); ok {
		c.fn(s)
		close(c.done)
	}
	return nil
}

func doOn(n gen.Node, pid gen.PID, fn func(s *sender)) error {
	c := sendCmd{fn: fn, done: make(chan struct{})}
	if err := n.Send(pid, c); err != nil {
		return fmt.Errorf("sender %s not reachable: %w", pid, err)
	}
	select {
	case <-c.done:
		return nil
	case <-time.After(30 * time.Second):
		return fmt.Errorf("sender %s did not finish", pid)
	}
}

func netRes(err error) string {
	switch {
	case err == nil:
		return "ok"
	case errors.Is(err, gen.ErrProcessUnknown):
		return "unknown"
	case errors.Is(err, gen.ErrProcessMailboxFull):
		return "full"
	case errors.Is(err, gen.ErrTooLarge):
		return "toolarge"
	case errors.Is(err, gen.ErrTimeout):
		return "timeout"
	case errors.Is(err, gen.ErrNoConnection):
		return "noconnection"
	case errors.Is(err, gen.ErrProcessTerminated):
		return "terminated"
	}
	return "err:" + err.Error()
}

func mkPayload(id string, size int) []byte {
	head := id + ";"
	if size < len(head) {
		size = len(head)
	}
	b := make([]byte, size)
	copy(b, head)
	x := uint32(len(id))*2654435761 + 12345
	for i := len(head); i < size; i++ {
		x = x*1664525 + 1013904223
		b[i] = byte(x >> 24)
		if i%7 == 0 {
			b[i] = 'a' // keep it somewhat compressible
		}
	}
	return b
}

func spawnWithResidue(n gen.Node, factory gen.ProcessFactory, opts gen.ProcessOptions, residue int, args ...any) (gen.PID, error) {
	for i := 0; i < 600; i++ {
		p, err := n.Spawn(factory, opts, args...)
		if err != nil {
			return p, err
		}
		if residue < 0 || int(p.ID%255) == residue {
			return p, nil
		}
		n.Kill(p)
	}
	return gen.PID{}, fmt.Errorf("no process id with residue %d", residue)
}

type DRunner struct {
	Out   *bufio.Writer
	seq   int
	Cases int
	Sends int
}

func (r *DRunner) emit(l *DLine) {
	if l.Items == nil {
		l.Items = []RecvItem{}
	}
	if l.Seq == nil {
		l.Seq = []int{}
	}
	if l.After == nil {
		l.After = []int{}
	}
	b, _ := json.Marshal(l)
	r.Out.Write(b)
	r.Out.WriteByte('\n')
}

func (r *DRunner) emitAny(l any) {
	b, _ := json.Marshal(l)
	r.Out.Write(b)
	r.Out.WriteByte('\n')
}

func compOf(c string) gen.Compression {
	switch c {
	case "gzip":
		return gen.Compression{Enable: true, Type: gen.CompressionTypeGZIP, Threshold: 64}
	case "zlib":
		return gen.Compression{Enable: true, Type: gen.CompressionTypeZLIB, Threshold: 64}
	case "lzw":
		return gen.Compression{Enable: true, Type: gen.CompressionTypeLZW, Threshold: 64}
	}
	return gen.Compression{}
}

func (r *DRunner) RunCase(c *Case) error {
	r.seq++
	tag := fmt.Sprintf("%d_%d", os.Getpid()%10000, r.seq)
	flags := gen.NetworkFlags{Enable: true, EnableImportantDelivery: true, EnableRemoteSpawn: true}
	gap := time.Duration(0)
	if c.Stagger {
		gap = 1100 * time.Millisecond
	}
	p, err := StartPairStaggered(NodeOpts{Name: "da" + tag + "@localhost", Cookie: "ck", PoolSize: c.Pool, Flags: flags},
		NodeOpts{Name: "db" + tag + "@localhost", Cookie: "ck", PoolSize: c.Pool, Flags: flags, MaxMsgSize: c.MaxSize}, gap)
	if err != nil {
		return err
	}
	defer p.Stop()
	if c.GrowPool {
		// the first stream messages must travel while only the first link exists: later links are held at the relay
		p.Relay.HoldFrom = 1
	}
	if _, err := p.Connect("ck"); err != nil {
		return fmt.Errorf("connect: %w", err)
	}
	want := c.Pool
	if want < 1 {
		want = 3
	}
	if !c.GrowPool {
		if !p.WaitLinks(want, 5*time.Second) {
			return fmt.Errorf("pool of %d links not complete", want)
		}
	} else {
		// the first link must have finished its handshake on BOTH ends before it may be delayed
		ok := false
		for i := 0; i < 1000 && !ok; i++ {
			if _, e := p.B.Network().Node(p.A.Name()); e == nil && len(p.Relay.Live()) >= 1 {
				ok = true
			}
			time.Sleep(time.Millisecond)
		}
		if !ok {
			return fmt.Errorf("first link not established at the acceptor")
		}
	}
	p.Relay.SetChunk(c.Chunk)
	rw := &recvWorld{seqs: map[string][]int{}}
	recvF := func() gen.ProcessBehavior { return &receiver{} }
	sendF := func() gen.ProcessBehavior { return &sender{} }
	recvs := map[string]gen.PID{}
	aliases := map[string]gen.Alias{}
	names := map[string]gen.Atom{}
	holdCh := make(chan struct{})
	mkRecv := func(label string, residue int, bounded bool) error {
		opts := gen.ProcessOptions{}
		args := []any{rw, label}
		if bounded {
			opts.MailboxSize = 1
			args = append(args, holdCh)
		}
		pid, err := spawnWithResidue(p.B, recvF, opts, residue, args...)
		if err != nil {
			return err
		}
		recvs[label] = pid
		names[label] = gen.Atom("n" + label + tag)
		if err := p.B.RegisterName(names[label], pid); err != nil {
			return err
		}
		return nil
	}
	senders := map[string]gen.PID{}
	mkSend := func(label string, residue int) error {
		pid, err := spawnWithResidue(p.A, sendF, gen.ProcessOptions{}, residue)
		if err != nil {
			return err
		}
		senders[label] = pid
		return nil
	}
	cfg := DLine{P: c.ID, Ev: "cfg", Pool: c.Pool, MaxSize: c.MaxSize, Chunk: c.Chunk, Delay: c.Delay}
	r.emit(&cfg)

	if len(c.Sends) > 0 {
		if err := mkRecv("R1", -1, false); err != nil {
			return err
		}
		if err := mkRecv("R2", -1, true); err != nil {
			return err
		}
		{
			ch := make(chan gen.Alias, 1)
			p.B.Send(recvs["R1"], ch)
			select {
			case a := <-ch:
				aliases["R1"] = a
			case <-time.After(2 * time.Second):
				return fmt.Errorf("no alias")
			}
		}
		// R2: one message in the handler (held), one in the mailbox: full
		p.B.Send(recvs["R2"], "hold")
		time.Sleep(2 * time.Millisecond)
		p.B.Send(recvs["R2"], "filler")
		for _, l := range []string{"S1", "S2"} {
			if err := mkSend(l, -1); err != nil {
				return err
			}
		}
		var emu sync.Mutex
		var drvErr error
		one := func(sd Send) {
			payload := mkPayload(sd.ID, sd.Size)
			ln := DLine{P: c.ID, Ev: "send", S: sd, FromPid: senders[sd.From].String(), Len: len(payload), Sum: sum(payload)}
			var to any
			switch {
			case sd.To == "none" && sd.Via == "pid":
				to = gen.PID{Node: p.B.Name(), ID: 999999, Creation: p.B.Creation()}
			case sd.To == "none" && sd.Via == "name":
				to = gen.ProcessID{Name: "nobody" + gen.Atom(tag), Node: p.B.Name()}
			case sd.To == "none":
				to = gen.Alias{Node: p.B.Name(), ID: [3]uint64{1, 2, 3}, Creation: p.B.Creation()}
			case sd.Via == "pid":
				to = recvs[sd.To]
			case sd.Via == "name":
				to = gen.ProcessID{Name: names[sd.To], Node: p.B.Name()}
			default:
				// aliases are created lazily by the receiver: use the name path if none exists
				if a, ok := aliases[sd.To]; ok {
					to = a
				} else {
					to = gen.ProcessID{Name: names[sd.To], Node: p.B.Name()}
				}
			}
			derr := doOn(p.A, senders[sd.From], func(s *sender) {
				s.SetCompression(sd.Comp != "")
				if sd.Comp != "" {
					cp := compOf(sd.Comp)
					s.SetCompressionType(cp.Type)
					s.SetCompressionThreshold(cp.Threshold)
				}
				var err error
				switch {
				case sd.Call && sd.Important:
					var v any
					v, err = s.CallImportant(to, payload)
					ln.Reply = fmt.Sprint(v)
				case sd.Call:
					var v any
					v, err = s.CallWithTimeout(to, payload, 2)
					ln.Reply = fmt.Sprint(v)
				case sd.Important:
					err = s.SendImportant(to, payload)
				default:
					err = s.Send(to, payload)
				}
				ln.Res = netRes(err)
			})
			if derr != nil {
				emu.Lock()
				if drvErr == nil {
					drvErr = derr
				}
				emu.Unlock()
				return
			}
			emu.Lock()
			r.emit(&ln)
			r.Sends++
			emu.Unlock()
		}
		if c.Parallel {
			var wg sync.WaitGroup
			for _, who := range []string{"S1", "S2"} {
				who := who
				wg.Add(1)
				go func() {
					defer wg.Done()
					for _, sd := range c.Sends {
						if sd.From == who {
							one(sd)
						}
					}
				}()
			}
			wg.Wait()
		} else {
			for _, sd := range c.Sends {
				one(sd)
			}
		}
		if drvErr != nil {
			return drvErr
		}
		// quiescence: nothing inside the relay and nothing new at the receivers for a while
		time.Sleep(30 * time.Millisecond)
		deadline := time.Now().Add(8 * time.Second)
		last, stable := -1, 0
		for time.Now().Before(deadline) {
			rw.mu.Lock()
			n := len(rw.items)
			rw.mu.Unlock()
			if n == last && p.Relay.Idle() {
				stable++
				if stable >= 3 {
					break
				}
			} else {
				stable = 0
			}
			last = n
			time.Sleep(15 * time.Millisecond)
		}
		rw.mu.Lock()
		items := append([]RecvItem{}, rw.items...)
		rw.mu.Unlock()
		r.emit(&DLine{P: c.ID, Ev: "recv", Items: items})
		close(holdCh)
	}

	if len(c.Streams) > 0 {
		type pr struct {
			st   Stream
			from gen.PID
			to   any
			key  string
		}
		var prs []pr
		for i, st := range c.Streams {
			sl := fmt.Sprintf("S%d", i+1)
			rl := fmt.Sprintf("R%d", i+1)
			if err := mkSend(sl, st.FromR); err != nil {
				return err
			}
			if err := mkRecv(rl, st.ToR, false); err != nil {
				return err
			}
			var to any = recvs[rl]
			if st.Via == "name" {
				to = gen.ProcessID{Name: names[rl], Node: p.B.Name()}
			}
			prs = append(prs, pr{st, senders[sl], to, fmt.Sprintf("p%d", i+1)})
		}
		links := p.Relay.Live()
		var wg sync.WaitGroup
		errs := make([]int, len(prs))
		sent := make([]int, len(prs))
		drv := make([]error, len(prs))
		started := make(chan struct{})
		for i, x := range prs {
			i, x := i, x
			wg.Add(1)
			go func() {
				defer wg.Done()
				drv[i] = doOn(p.A, x.from, func(s *sender) {
					if x.st.Comp != "" {
						s.SetCompression(true)
						s.SetCompressionType(compOf(x.st.Comp).Type)
						s.SetCompressionThreshold(1024)
					}
					for k := 1; k <= x.st.N; k++ {
						if k == 3 && i == 0 {
							close(started)
						}
						size := 24 + k%200
						if x.st.Big > 0 && k%3 == 0 {
							size = x.st.Big
						}
						if err := s.Send(x.to, mkPayload(fmt.Sprintf("seq:%s:%d", x.key, k), size)); err != nil {
							errs[i]++
						} else {
							sent[i]++
						}
						if c.Delay != "" && k%16 == 0 {
							time.Sleep(200 * time.Microsecond)
						}
					}
				})
			}()
		}
		// impose relative link delays while the streams run
		if c.GrowPool {
			// the stream starts on the first link alone and that link is slow; the other links join meanwhile
			if len(links) > 0 {
				links[0].HoldUp()
			}
			select {
			case <-started:
			case <-time.After(time.Second):
			}
			time.Sleep(300 * time.Microsecond)
			p.Relay.mu.Lock()
			p.Relay.HoldFrom = 0
			ls := append([]*Link{}, p.Relay.links...)
			p.Relay.mu.Unlock()
			for _, l := range ls[1:] {
				l.ReleaseUp()
			}
			p.WaitLinks(want, time.Second)
			time.Sleep(2 * time.Millisecond)
			if len(links) > 0 {
				links[0].ReleaseUp()
			}
		}
		switch c.Delay {
		case "link0":
			if len(links) > 0 && !c.GrowPool {
				links[0].HoldUp()
				select {
				case <-started:
				case <-time.After(time.Second):
				}
				time.Sleep(3 * time.Millisecond)
				links[0].ReleaseUp()
			}
		case "cut":
			if len(links) > 1 {
				select {
				case <-started:
				case <-time.After(time.Second):
				}
				time.Sleep(time.Millisecond)
				links[len(links)-1].Cut()
			}
		case "rotate":
			for round := 0; round < 6; round++ {
				for _, lk := range links {
					lk.HoldUp()
					time.Sleep(800 * time.Microsecond)
					lk.ReleaseUp()
				}
			}
		}
		wg.Wait()
		for _, e := range drv {
			if e != nil {
				return e
			}
		}
		// quiescence: nothing inside the relay and nothing new at the receivers for a while (gives up only after 8 s without any progress).
		// When nothing was cut and every send succeeded, every message is owed: a pause of the receiving side is not taken for the end
		// before all of them have been counted (a loss still shows: the wait then ends at the no-progress deadline)
		expected := 0
		if c.Delay != "cut" {
			for i, x := range prs {
				expected += x.st.N - errs[i]
			}
		}
		deadline := time.Now().Add(8 * time.Second)
		last, stable := -1, 0
		for time.Now().Before(deadline) {
			rw.mu.Lock()
			n := 0
			for _, s := range rw.seqs {
				n += len(s)
			}
			rw.mu.Unlock()
			if n == last && p.Relay.Idle() {
				stable++
				if stable >= 3 && n >= expected {
					break
				}
			} else {
				stable = 0
			}
			if n != last {
				deadline = time.Now().Add(8 * time.Second)
			}
			last = n
			time.Sleep(20 * time.Millisecond)
		}
		// after a link was cut: once the pool has been re-dialled, traffic must flow again on every link - a second batch of numbered
		// messages per pair, all of which must arrive
		after := map[string][]int{}
		if c.Delay == "cut" {
			time.Sleep(300 * time.Millisecond)
			const extra = 40
			for i, x := range prs {
				i, x := i, x
				doOn(p.A, x.from, func(s *sender) {
					for k := x.st.N + 1; k <= x.st.N+extra; k++ {
						if err := s.Send(x.to, mkPayload(fmt.Sprintf("seq:%s:%d", x.key, k), 30)); err != nil {
							errs[i]++
						}
					}
				})
			}
			deadline := time.Now().Add(3 * time.Second)
			for time.Now().Before(deadline) {
				rw.mu.Lock()
				done := true
				for _, x := range prs {
					n := 0
					for _, v := range rw.seqs[x.key] {
						if v > x.st.N {
							n++
						}
					}
					if n < extra {
						done = false
					}
				}
				rw.mu.Unlock()
				if done {
					break
				}
				time.Sleep(10 * time.Millisecond)
			}
			rw.mu.Lock()
			for _, x := range prs {
				for _, v := range rw.seqs[x.key] {
					if v > x.st.N {
						after[x.key] = append(after[x.key], v)
					}
				}
			}
			rw.mu.Unlock()
		}
		for i, x := range prs {
			rw.mu.Lock()
			var seq []int
			for _, v := range rw.seqs[x.key] {
				if v <= x.st.N {
					seq = append(seq, v)
				}
			}
			rw.mu.Unlock()
			a := after[x.key]
			if a == nil {
				a = []int{}
			}
			r.emit(&DLine{P: c.ID, Ev: "stream", Pair: x.key, Seq: seq, After: a, N: x.st.N, FromR: int(x.from.ID % 255), ToR: int(recvsID(x.to, recvs, i) % 255), Delay: c.Delay, SendErrs: errs[i], Pool: c.Pool, Lossy: c.Delay == "cut", Grow: c.GrowPool})
		}
	}
	r.emit(&DLine{P: c.ID, Ev: "end"})
	r.Cases++
	return nil
}

func recvsID(to any, recvs map[string]gen.PID, i int) uint64 {
	if p, ok := to.(gen.PID); ok {
		return p.ID
	}
	return recvs[fmt.Sprintf("R%d", i+1)].ID
}

func LoadScript(path string) (*Script, error) {
	b, err := os.ReadFile(path)
	if err != nil {
		return nil, err
	}
	var s Script
	if err := json.Unmarshal(b, &s); err != nil {
		return nil, err
	}
	return &s, nil
}
