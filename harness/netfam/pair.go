//go:build verif

// Package netfam: two (or three) real ergo nodes in one process, connected over loopback through a harness relay.
package netfam

import (
	"fmt"
	"net"
	"os"
	"sync"
	"sync/atomic"
	"time"

	"ergo.services/ergo/gen"
	"ergo.services/ergo/lib"
	"ergo.services/ergo/net/handshake"
	"ergo.services/ergo/net/registrar"
	"ergo.services/ergo/node"
)

// relayHandshake wraps the real handshake of the dialing node: the pooled links the acceptor announces
// (its own address) are redirected to the relay, so that every TCP link of the connection passes through it.
type relayHandshake struct {
	gen.NetworkHandshake
	dsn atomic.Value // string
}

func (h *relayHandshake) Start(n gen.NodeHandshake, c net.Conn, o gen.HandshakeOptions) (gen.HandshakeResult, error) {
	res, err := h.NetworkHandshake.Start(n, c, o)
	if err != nil {
		return res, err
	}
	if os.Getenv("VERIF_NETDEBUG") != "" {
		fmt.Printf("[relayHandshake] custom %T %+v\n", res.Custom, res.Custom)
	}
	if co, ok := res.Custom.(handshake.ConnectionOptions); ok {
		if d, _ := h.dsn.Load().(string); d != "" {
			for i := range co.PoolDSN {
				co.PoolDSN[i] = d
			}
			res.Custom = co
		}
	}
	return res, nil
}

// Version distinguishes the wrapper from the built-in handshake in the node's table (looked up by version for outgoing connections).
func (h *relayHandshake) Version() gen.Version {
	v := h.NetworkHandshake.Version()
	v.Name = v.Name + "-relay"
	return v
}

type NodeOpts struct {
	Name       string
	Cookie     string
	PoolSize   int
	Flags      gen.NetworkFlags
	MaxMsgSize int
	AccCookie  string // AcceptorOptions.Cookie
	Hidden     bool
	Security   gen.SecurityOptions
	Env        map[gen.Env]any
	Apps       []gen.ApplicationBehavior
	TM         gen.TargetManager
}

var portSeq int32

// ---- yield-point callback of this family: counts the links that joined the pool of a connection (by peer name), then hands on
var (
	joinCount sync.Map // gen.Atom (peer of the connection) -> *int32
	extraHook atomic.Pointer[func(point string, subject any)]
)

func netHook(point string, subject any) {
	if point == "pool.join" {
		if a, ok := subject.(gen.Atom); ok {
			v, _ := joinCount.LoadOrStore(a, new(int32))
			atomic.AddInt32(v.(*int32), 1)
		}
	}
	if f := extraHook.Load(); f != nil {
		(*f)(point, subject)
	}
}

// Joined is the number of links that joined the pool of the connection to the given peer (on whichever node holds it)
func Joined(peer gen.Atom) int {
	if v, ok := joinCount.Load(peer); ok {
		return int(atomic.LoadInt32(v.(*int32)))
	}
	return 0
}

func basePort() uint16 {
	n := atomic.AddInt32(&portSeq, 1)
	// below the ephemeral range, one block of 100 ports per OS process
	return uint16(20000 + (os.Getpid()%100)*100 + int(n)%100)
}

// StartNode starts a node with its own registrar port (no cross-process coupling) and, unless hidden, one acceptor.
func StartNode(o NodeOpts) (gen.Node, *relayHandshake, error) {
	lib.SetVerifHook(netHook)
	var opt gen.NodeOptions
	opt.Log.DefaultLogger.Disable = true
	opt.Log.Level = gen.LogLevelDisabled
	opt.Network.Cookie = o.Cookie
	opt.Network.Registrar = registrar.Create(registrar.Options{Port: basePort() - 10000, DisableServer: false})
	opt.Network.MaxMessageSize = o.MaxMsgSize
	opt.Network.Flags = o.Flags
	opt.Security = o.Security
	opt.Env = o.Env
	opt.Applications = o.Apps
	opt.TargetManager = o.TM
	hs := &relayHandshake{NetworkHandshake: handshake.Create(handshake.Options{PoolSize: o.PoolSize, NetworkFlags: o.Flags})}
	opt.Network.Handshake = hs
	if o.Hidden {
		opt.Network.Mode = gen.NetworkModeHidden
	} else {
		ap := basePort()
		opt.Network.Acceptors = []gen.AcceptorOptions{{Host: "127.0.0.1", Port: ap, PortRange: ap + 400, Cookie: o.AccCookie, MaxMessageSize: o.MaxMsgSize, Flags: o.Flags}}
	}
	n, err := node.Start(gen.Atom(o.Name), opt, gen.Version{})
	if err == nil {
		// outgoing connections look the handshake up by version: replace the built-in one registered under it
		n.Network().RegisterHandshake(hs)
	}
	return n, hs, err
}

func AcceptorPort(n gen.Node) (uint16, error) {
	accs, err := n.Network().Acceptors()
	if err != nil || len(accs) == 0 {
		return 0, fmt.Errorf("no acceptor: %v", err)
	}
	_, ps, err := net.SplitHostPort(accs[0].Info().Interface)
	if err != nil {
		return 0, err
	}
	var port int
	fmt.Sscanf(ps, "%d", &port)
	return uint16(port), nil
}

type Pair struct {
	A, B        gen.Node
	Relay       *Relay
	hsA         *relayHandshake
	RouteCookie string
}

// StartPair starts A (dialer, hidden) and B (acceptor) and a relay in front of B; A reaches B only through the relay.
func StartPair(a, b NodeOpts) (*Pair, error) {
	return StartPairStaggered(a, b, 0)
}

// StartPairStaggered starts B, waits, then starts A: with a gap above one second the two nodes have different incarnation stamps.
func StartPairStaggered(a, b NodeOpts, gap time.Duration) (*Pair, error) {
	a.Hidden = false // (in hidden mode the node ignores NetworkOptions.Handshake)
	nb, _, err := StartNode(b)
	if err != nil {
		return nil, fmt.Errorf("node B: %w", err)
	}
	if gap > 0 {
		time.Sleep(gap)
	}
	port, err := AcceptorPort(nb)
	if err != nil {
		nb.StopForce()
		return nil, err
	}
	rl, err := NewRelay(fmt.Sprintf("127.0.0.1:%d", port))
	if err != nil {
		nb.StopForce()
		return nil, err
	}
	na, hs, err := StartNode(a)
	if err != nil {
		nb.StopForce()
		rl.Close()
		return nil, fmt.Errorf("node A: %w", err)
	}
	hs.dsn.Store(rl.Addr().String())
	p := &Pair{A: na, B: nb, Relay: rl, hsA: hs}
	return p, nil
}

// Route returns the route from A to B through the relay.
func (p *Pair) Route(cookie string) gen.NetworkRoute {
	return gen.NetworkRoute{Route: gen.Route{Host: "127.0.0.1", Port: uint16(p.Relay.Addr().Port), HandshakeVersion: p.hsA.Version()}, Cookie: cookie}
}

func (p *Pair) Connect(cookie string) (gen.RemoteNode, error) {
	p.A.Network().RemoveRoute(string(p.B.Name()))
	p.A.Network().AddRoute(string(p.B.Name()), p.Route(cookie), 100)
	return p.A.Network().GetNode(p.B.Name())
}

// WaitLinks waits until the relay carries n live TCP links.
func (p *Pair) WaitLinks(n int, d time.Duration) bool {
	deadline := time.Now().Add(d)
	for time.Now().Before(deadline) {
		// (the relay sees a link as soon as TCP is up; the pool has it only after its handshake: ask both ends)
		if len(p.Relay.Live()) >= n && Joined(p.B.Name()) >= n && Joined(p.A.Name()) >= n {
			// the dialer joins its links one after the other (handshake, then append to the pool): the pool is complete
			// once the last link's handshake has gone quiet
			quiet := 0
			for time.Now().Before(deadline) && quiet < 4 {
				if p.Relay.Idle() {
					quiet++
				} else {
					quiet = 0
				}
				time.Sleep(3 * time.Millisecond)
			}
			return quiet >= 4
		}
		time.Sleep(time.Millisecond)
	}
	return false
}

func (p *Pair) Stop() {
	p.Relay.Close()
	p.A.StopForce()
	p.B.StopForce()
}
