//go:build verif

package netfam

import (
	"bufio"
	"encoding/binary"
	"encoding/json"
	"errors"
	"fmt"
	"os"
	"reflect"
	"runtime"
	"strings"
	"sync"
	"sync/atomic"
	"time"

	"ergo.services/ergo/gen"
	"ergo.services/ergo/lib"
	"ergo.services/ergo/net/edf"
)

// ---- C16: hostile input ---------------------------------------------------------

// LiveCase: a mutated protocol frame is injected into an established connection (after a genuine handshake).
type LiveCase struct {
	ID    int    `json:"id"`
	Frame string `json:"frame"` // which honest frame is the raw material: pid name alias call callname exit any z
	Mut   string `json:"mut"`   // len magic version type trunc flip zsize zkind raw
	Arg   int    `json:"arg"`   // mutation parameter (length value, truncation point, byte index, ...)
	Max   int    `json:"max"`   // MaxMessageSize of the acceptor
}

type EdfCase struct {
	ID    int    `json:"id"`
	Value string `json:"value"` // name of the corpus value
	Mut   string `json:"mut"`   // trunc setff set00 tag dup
	Arg   int    `json:"arg"`
	Arg2  int    `json:"arg2"`
}

type HostLine struct {
	P  int    `json:"p"`
	Ev string `json:"ev"` // live | edf | hs
	H  HsCase `json:"h"`
	// live
	L         LiveCase `json:"l"`
	Injected  int      `json:"injected"`  // bytes
	Found     bool     `json:"found"`     // the honest frame to mutate was found in the recording
	NodeOK    bool     `json:"nodeok"`    // the attacked node still answers a local request
	Witness   string   `json:"witness"`   // a request over an unrelated connection after the injection
	Local     string   `json:"local"`     // a request between two local processes after the injection
	ConnUp    bool     `json:"connup"`    // the offending connection is still up
	After     string   `json:"after"`     // an honest message over the attacked connection afterwards: delivered | lost | refused
	Complete  bool     `json:"complete"`  // the length field of the injected frame equals the number of bytes injected
	Delivered int      `json:"delivered"` // messages a local process received because of the injected bytes
	IType     int      `json:"itype"`     // type byte of the injected frame
	AllocKB   int      `json:"allockb"`
	Ms        int      `json:"ms"`
	// edf
	E        EdfCase `json:"e"`
	Len      int     `json:"len"`
	Hash     string  `json:"hash"`     // of the bytes that were injected / decoded
	Changed  bool    `json:"changed"`  // the bytes differ from the honest ones
	Outcome  string  `json:"outcome"`  // value | error | panic | hang
	Stable   bool    `json:"stable"`   // a decoded value re-encodes and decodes to an equal value
	ZeroElem bool    `json:"zeroelem"` // the decoded value has a slice / map whose elements are zero-size types (e.g. [][0]uint16)
}

type HostRunner struct {
	Out   *bufio.Writer
	seq   int
	Cases int
}

func (r *HostRunner) emit(l *HostLine) {
	b, _ := json.Marshal(l)
	r.Out.Write(b)
	r.Out.WriteByte('\n')
	r.Out.Flush()
}

// splitFrames cuts a recorded upstream byte stream into handshake messages (skipped) and protocol frames.
func splitFrames(b []byte) [][]byte {
	var out [][]byte
	for len(b) >= 8 {
		switch b[0] {
		case 87: // handshake message: magic, version, 4-byte length of the body
			l := int(binary.BigEndian.Uint32(b[2:6])) + 6
			if l > len(b) {
				return out
			}
			b = b[l:]
		case 78:
			l := int(binary.BigEndian.Uint32(b[2:6]))
			if l < 8 || l > len(b) {
				return out
			}
			out = append(out, b[:l])
			b = b[l:]
		default:
			return out
		}
	}
	return out
}

var frameType = map[string]byte{"pid": 101, "name": 102, "alias": 104, "exit": 107, "call": 121, "callname": 122, "any": 199, "z": 200}

func (r *HostRunner) RunLive(c *LiveCase) error {
	r.seq++
	tag := fmt.Sprintf("%d_%d", os.Getpid()%10000, r.seq)
	p, err := StartPair(NodeOpts{Name: "ha" + tag + "@localhost", Cookie: "ck", PoolSize: 1, Flags: netFlags},
		NodeOpts{Name: "hb" + tag + "@localhost", Cookie: "ck", PoolSize: 1, Flags: netFlags, MaxMsgSize: c.Max})
	if err != nil {
		return err
	}
	zcase := false
	defer func() {
		p.Stop()
		// whatever the injected bytes made the node allocate must be over before the next case measures its own heap
		var a, b runtime.MemStats
		runtime.ReadMemStats(&a)
		need := 2
		if zcase {
			need = 20 // a big allocation grows in few, far apart steps
		}
		calm := 0
		for i := 0; i < 400 && calm < need; i++ {
			time.Sleep(20 * time.Millisecond)
			runtime.ReadMemStats(&b)
			if b.TotalAlloc-a.TotalAlloc < 512*1024 {
				calm++
			} else {
				calm = 0
			}
			a = b
		}
		runtime.GC()
	}()
	p.Relay.Record = true
	if _, err := p.Connect("ck"); err != nil {
		return fmt.Errorf("connect: %w", err)
	}
	if !p.WaitLinks(1, 5*time.Second) {
		return fmt.Errorf("link not ready")
	}
	// the witness: a third node connected to B directly
	wn, whs, err := StartNode(NodeOpts{Name: "hw" + tag + "@localhost", Cookie: "ck", PoolSize: 1, Flags: netFlags})
	if err != nil {
		return err
	}
	defer wn.StopForce()
	port, _ := AcceptorPort(p.B)
	wn.Network().AddRoute(string(p.B.Name()), gen.NetworkRoute{Route: gen.Route{Host: "127.0.0.1", Port: port, HandshakeVersion: whs.Version()}}, 100)
	if _, err := wn.Network().GetNode(p.B.Name()); err != nil {
		return fmt.Errorf("witness connect: %w", err)
	}
	wa := &obsWorld{notes: map[gen.PID][]Note{}}
	wb := &obsWorld{notes: map[gen.PID][]Note{}}
	mk := func() gen.ProcessBehavior { return &worker{} }
	victim, _ := p.B.Spawn(mk, gen.ProcessOptions{}, wb)
	vname := gen.Atom("v" + tag)
	p.B.RegisterName(vname, victim)
	var valias gen.Alias
	run(p.B, victim, 2*time.Second, func(pr gen.Process) { valias, _ = pr.CreateAlias() })
	local2, _ := p.B.Spawn(mk, gen.ProcessOptions{}, wb)
	user, _ := p.A.Spawn(mk, gen.ProcessOptions{}, wa)
	wuser, _ := wn.Spawn(mk, gen.ProcessOptions{}, wa)
	// honest traffic of every kind, recorded by the relay
	big := make([]byte, 3000)
	for i := range big {
		big[i] = byte('a' + i%7)
	}
	run(p.A, user, 10*time.Second, func(pr gen.Process) {
		pr.Send(victim, "m1")
		pr.Send(gen.ProcessID{Name: vname, Node: p.B.Name()}, "m2")
		pr.Send(valias, "m3")
		pr.CallWithTimeout(victim, "c1", 2)
		pr.CallWithTimeout(gen.ProcessID{Name: vname, Node: p.B.Name()}, "c2", 2)
		pr.MonitorPID(victim)
		pr.SetCompression(true)
		pr.SetCompressionThreshold(512)
		pr.Send(victim, big)
		pr.SetCompression(false)
		pr.SendExit(local2, errors.New("bye"))
	})
	time.Sleep(30 * time.Millisecond)
	local2, _ = p.B.Spawn(mk, gen.ProcessOptions{}, wb)
	links := p.Relay.Links()
	frames := splitFrames(links[0].RecordedUp())
	var raw []byte
	for _, f := range frames {
		if f[7] == frameType[c.Frame] {
			raw = append([]byte{}, f...)
			break
		}
	}
	line := HostLine{P: c.ID, Ev: "live", L: *c, Found: raw != nil}
	if raw == nil {
		r.emit(&line)
		r.Cases++
		return nil
	}
	x := uint32(c.ID)*2654435761 + uint32(c.Arg)
	rnd := func() byte { x = x*1664525 + 1013904223; return byte(x >> 24) }
	m := raw
	orig := append([]byte{}, raw...)
	switch c.Mut {
	case "len":
		binary.BigEndian.PutUint32(m[2:6], uint32(c.Arg))
	case "lenrel":
		binary.BigEndian.PutUint32(m[2:6], uint32(len(m)+c.Arg))
	case "magic":
		m[0] = byte(c.Arg)
	case "version":
		m[1] = byte(c.Arg)
	case "type":
		m[7] = byte(c.Arg)
	case "trunc":
		if c.Arg < len(m) {
			m = m[:c.Arg]
		}
		if len(m) >= 6 {
			binary.BigEndian.PutUint32(m[2:6], uint32(len(m)))
		}
	case "flip":
		for k := 0; k < 4; k++ {
			i := 8 + (c.Arg*7+k*13)%(len(m)-8)
			m[i] = rnd()
		}
	case "zsize":
		if len(m) > 13 {
			binary.BigEndian.PutUint32(m[9:13], uint32(c.Arg))
		}
	case "zkind":
		m[8] = byte(c.Arg)
	case "raw":
		m = make([]byte, 8+c.Arg%200)
		for i := range m {
			m[i] = rnd()
		}
		m[0], m[1] = 78, 1
		binary.BigEndian.PutUint32(m[2:6], uint32(len(m)))
		if m[7] == 200 {
			m[7] = 201 // compressed envelopes with a lying size have their own cases (zsize)
		}
	}
	wb.mu.Lock()
	before := wb.stray
	wb.mu.Unlock()
	// memory: the high-water mark of the live heap above its level before the injection, sampled until the requests below are done
	runtime.GC()
	var ms0 runtime.MemStats
	runtime.ReadMemStats(&ms0)
	var peak int64
	stopSampler := make(chan struct{})
	go func() {
		for {
			var ms runtime.MemStats
			runtime.ReadMemStats(&ms)
			if d := int64(ms.HeapInuse) - int64(ms0.HeapInuse); d > atomic.LoadInt64(&peak) {
				atomic.StoreInt64(&peak, d)
			}
			select {
			case <-stopSampler:
				return
			case <-time.After(3 * time.Millisecond):
			}
		}
	}()
	t0 := time.Now()
	links[0].InjectUp(m)
	line.Injected = len(m)
	line.Hash = sum(m)
	line.Complete = len(m) >= 8 && int(binary.BigEndian.Uint32(m[2:6])) == len(m)
	line.Changed = string(m) != string(orig)
	if len(m) > 7 {
		line.IType = int(m[7])
		zcase = m[7] == 200
	}
	time.Sleep(25 * time.Millisecond)
	// is everybody else still served?
	okc := make(chan string, 3)
	go func() {
		res := "hang"
		done := make(chan struct{})
		go func() {
			run(p.B, local2, 3*time.Second, func(pr gen.Process) {
				_, err := pr.CallWithTimeout(victim, "local", 2)
				res = errText(err)
			})
			close(done)
		}()
		select {
		case <-done:
		case <-time.After(4 * time.Second):
		}
		okc <- res
	}()
	line.Local = <-okc
	go func() {
		res := "hang"
		done := make(chan struct{})
		go func() {
			run(wn, wuser, 3*time.Second, func(pr gen.Process) {
				_, err := pr.CallWithTimeout(victim, "witness", 2)
				res = errText(err)
			})
			close(done)
		}()
		select {
		case <-done:
		case <-time.After(4 * time.Second):
		}
		okc <- res
	}()
	line.Witness = <-okc
	// the attacked connection itself: still usable (its receive queue is not stuck) or closed.  A lying length field may swallow the next
	// honest frame and end with the link being closed and re-dialled: several probes, spread over more than a second
	{
		wb.mu.Lock()
		b0 := wb.stray
		wb.mu.Unlock()
		line.After = "refused"
		for k := 0; k < 4 && line.After != "delivered"; k++ {
			var serr error
			if run(p.A, user, 3*time.Second, func(pr gen.Process) { serr = pr.Send(victim, "after") }) != nil {
				serr = errors.New("hang")
			}
			if serr != nil {
				time.Sleep(50 * time.Millisecond)
				continue
			}
			line.After = "lost"
			for i := 0; i < 70; i++ {
				wb.mu.Lock()
				got := wb.stray - b0
				wb.mu.Unlock()
				if got > 0 {
					line.After = "delivered"
					break
				}
				time.Sleep(5 * time.Millisecond)
			}
		}
	}
	_, e := p.B.ProcessInfo(victim)
	line.NodeOK = e == nil
	_, e = p.B.Network().Node(p.A.Name())
	line.ConnUp = e == nil
	line.Ms = int(time.Since(t0) / time.Millisecond)
	line.AllocKB = int(atomic.LoadInt64(&peak) / 1024)
	close(stopSampler)
	wb.mu.Lock()
	line.Delivered = wb.stray - before
	wb.mu.Unlock()
	r.emit(&line)
	r.Cases++
	return nil
}

// ---- EDF decoder fed with mutated encodings ------------------------------------------

type hostStruct struct {
	A int32
	B string
	C []uint16
	D map[string]float64
	E gen.PID
	F any
}

type hostNamed []string
type hostNamedMap map[string]int32
type hostNamedArr [3]uint16

var edfOnce sync.Once

func edfCorpus() map[string]any {
	edfOnce.Do(func() {
		edf.RegisterTypeOf(hostStruct{})
		edf.RegisterTypeOf(hostNamed{})
		edf.RegisterTypeOf(hostNamedMap{})
		edf.RegisterTypeOf(hostNamedArr{})
	})
	return map[string]any{
		"int":      int64(-123456789),
		"string":   "hello, world: " + string(make([]byte, 40)),
		"binary":   []byte{1, 2, 3, 4, 5, 6, 7, 8, 9, 10, 11, 12},
		"atom":     gen.Atom("some_atom"),
		"float":    3.14159,
		"pid":      gen.PID{Node: "n@h", ID: 1234, Creation: 99},
		"ref":      gen.Ref{Node: "n@h", Creation: 7, ID: [3]uint64{1, 2, 3}},
		"alias":    gen.Alias{Node: "n@h", Creation: 7, ID: [3]uint64{4, 5, 6}},
		"slice":    []int32{1, 2, 3, 4, 5},
		"slice2":   [][]string{{"a", "b"}, {}, {"c"}},
		"map":      map[string]int16{"x": 1, "y": 2, "z": 3},
		"mapany":   map[any]any{"k": int8(1), int16(2): []any{"v", nil, 2.5}},
		"anys":     []any{int64(1), "two", []byte{3}, gen.Atom("four"), nil, true},
		"struct":   hostStruct{A: 5, B: "bee", C: []uint16{1, 2}, D: map[string]float64{"pi": 3.14}, E: gen.PID{Node: "n@h", ID: 5}, F: []any{"x", int8(3)}},
		"named":    hostNamed{"p", "q", "r"},
		"zeroarr":  [2][0]uint16{},
		"namedmap": hostNamedMap{"one": 1, "two": 2},
		"namedarr": hostNamedArr{7, 8, 9},
		"anynamed": []any{hostNamedMap{"k": 5}, hostNamed{"s"}, hostNamedArr{1, 2, 3}},
		"error":    errors.New("some failure"),
		"time":     time.Unix(1700000000, 123),
		"array":    [4]uint32{9, 8, 7, 6},
		"array2":   [3][5]uint8{{1, 2, 3, 4, 5}, {6, 7, 8, 9, 10}, {11, 12, 13, 14, 15}},
		"array3":   [][2][2]uint16{{{1, 2}, {3, 4}}, {{5, 6}, {7, 8}}},
		"nested":   map[string][]map[int8]string{"a": {{1: "x"}, {}}, "b": nil},
		"bool":     true,
	}
}

func (r *HostRunner) RunEdf(c *EdfCase) error {
	corpus := edfCorpus()
	v, ok := corpus[c.Value]
	if !ok {
		return fmt.Errorf("unknown corpus value %s", c.Value)
	}
	buf := lib.TakeBuffer()
	if err := edf.Encode(v, buf, edf.Options{}); err != nil {
		return fmt.Errorf("corpus value %s does not encode: %w", c.Value, err)
	}
	enc := append([]byte{}, buf.B...)
	lib.ReleaseBuffer(buf)
	m := append([]byte{}, enc...)
	tags := []byte{0x00, 0x81, 0x82, 0x8f, 0x95, 0x96, 0x97, 0x98, 0x99, 0x9a, 0x9b, 0x9d, 0x9e, 0xa0, 0xaa, 0xab, 0xac, 0xad, 0xae, 0xaf, 0xb0, 0xff}
	at := c.Arg % len(m)
	switch c.Mut {
	case "trunc":
		m = m[:at]
	case "setff":
		m[at] = 0xff
		if c.Arg2 > 0 && at+1 < len(m) {
			m[at+1] = 0xff
		}
	case "setff2":
		// two length fields at once (nested containers): positions at and at+Arg2
		m[at] = 0xff
		if at+c.Arg2 < len(m) {
			m[at+c.Arg2] = 0xff
		}
	case "set00":
		m[at] = 0
	case "ffapp":
		// an inflated length field with something behind the value
		m[at] = 0xff
		m = append(m, byte(c.Arg2))
	case "tag":
		m[at] = tags[c.Arg2%len(tags)]
	case "dup":
		m = append(m[:at:at], append(append([]byte{}, enc[at:]...), enc[at:]...)...)
	case "none":
	}
	line := HostLine{P: c.ID, Ev: "edf", E: *c, Len: len(m), Hash: sum(m), Changed: string(m) != string(enc)}
	var ms0, ms1 runtime.MemStats
	runtime.ReadMemStats(&ms0)
	type res struct {
		v    any
		tail []byte
		err  error
		pan  any
	}
	ch := make(chan res, 1)
	go func() {
		var rr res
		defer func() {
			if p := recover(); p != nil {
				rr.pan = p
			}
			ch <- rr
		}()
		rr.v, rr.tail, rr.err = edf.Decode(m, edf.Options{})
	}()
	var got res
	select {
	case got = <-ch:
	case <-time.After(3 * time.Second):
		line.Outcome = "hang"
	}
	runtime.ReadMemStats(&ms1)
	line.AllocKB = int((ms1.TotalAlloc - ms0.TotalAlloc) / 1024)
	if line.Outcome == "" {
		switch {
		case got.pan != nil:
			line.Outcome = "panic"
		case got.err != nil:
			line.Outcome = "error"
		default:
			line.Outcome = "value"
			line.ZeroElem = hasZeroSizeElems(reflect.TypeOf(got.v), 0)
			// a value that decodes re-encodes to bytes that decode to the same value
			line.Stable = func() (ok bool) {
				defer func() {
					if recover() != nil {
						ok = false
					}
				}()
				b2 := lib.TakeBuffer()
				defer lib.ReleaseBuffer(b2)
				if err := edf.Encode(got.v, b2, edf.Options{}); err != nil {
					// a decoded value of a type that cannot be encoded on its own (e.g. nil interface) is not a counterexample
					return got.v == nil
				}
				v2, _, err := edf.Decode(b2.B, edf.Options{})
				if err != nil {
					return false
				}
				return reflect.DeepEqual(got.v, v2) || fmt.Sprintf("%#v", got.v) == fmt.Sprintf("%#v", v2)
			}()
		}
	}
	r.emit(&line)
	r.Cases++
	return nil
}

type HostScript struct {
	Live []LiveCase `json:"live"`
	Edf  []EdfCase  `json:"edf"`
	Hs   []HsCase   `json:"hs"`
}

func LoadHostScript(path string) (*HostScript, error) {
	b, err := os.ReadFile(path)
	if err != nil {
		return nil, err
	}
	var s HostScript
	if err := json.Unmarshal(b, &s); err != nil {
		return nil, err
	}
	return &s, nil
}

func hasZeroSizeElems(t reflect.Type, depth int) bool {
	if t == nil || depth > 8 {
		return false
	}
	switch t.Kind() {
	case reflect.Slice, reflect.Map:
		if t.Elem().Size() == 0 {
			return true
		}
		return hasZeroSizeElems(t.Elem(), depth+1)
	case reflect.Array, reflect.Pointer:
		return hasZeroSizeElems(t.Elem(), depth+1)
	case reflect.Struct:
		for i := 0; i < t.NumField(); i++ {
			if hasZeroSizeElems(t.Field(i).Type, depth+1) {
				return true
			}
		}
	}
	return false
}

// ---- handshake messages altered on the path -----------------------------------------------

// HsCase: an attacker between two honest nodes rewrites one handshake message of the dialer (nothing but salt and cookie is covered by
// the digests, so the content can be changed without knowing the cookie).
type HsCase struct {
	ID  int    `json:"id"`
	Dir string `json:"dir"` // up (default: messages of the dialer: 1 = Hello, 2 = Introduce) | down (messages of the acceptor: 1 = Hello, 2 = Accept, 3 = Introduce)
	Msg int    `json:"msg"` // which message of the first link in that direction
	Mut string `json:"mut"` // none | flip (byte at offset Arg of the payload) | nilerr (an entry of the error cache becomes the nil error) | cut (payload cut to Arg bytes, length adjusted)
	Arg int    `json:"arg"`
}

// rewriteHs applies the mutation to one complete handshake frame (magic, version, 32-bit length, payload)
func rewriteHs(c *HsCase, m []byte) ([]byte, bool) {
	if len(m) < 7 || int(binary.BigEndian.Uint32(m[2:6]))+6 != len(m) {
		return m, false
	}
	pl := m[6:]
	switch c.Mut {
	case "flip":
		if c.Arg >= len(pl) {
			return m, false
		}
		pl[c.Arg] ^= 0xff
		return m, true
	case "cut":
		if c.Arg >= len(pl) {
			return m, false
		}
		out := append([]byte{}, m[:6+c.Arg]...)
		binary.BigEndian.PutUint32(out[2:6], uint32(c.Arg))
		return out, true
	case "nilerr":
		// an error travels as 16-bit length + text; 0xffff stands for the nil error
		pat := append([]byte{0, byte(len(gen.ErrTimeout.Error()))}, gen.ErrTimeout.Error()...)
		i := strings.Index(string(pl), string(pat))
		if i < 0 {
			return m, false
		}
		np := append(append(append([]byte{}, pl[:i]...), 0xff, 0xff), pl[i+len(pat):]...)
		out := append(append([]byte{}, m[:6]...), np...)
		binary.BigEndian.PutUint32(out[2:6], uint32(len(np)))
		return out, true
	}
	return m, c.Mut == "none"
}

// ErrHsHung: a handshake-tamper case made a node hang; its line has been written, the process should end
var ErrHsHung = errors.New("handshake case hung")

func (r *HostRunner) RunHs(c *HsCase) error {
	r.seq++
	tag := fmt.Sprintf("%d_%d", os.Getpid()%10000, r.seq)
	p, err := StartPair(NodeOpts{Name: "sa" + tag + "@localhost", Cookie: "ck", PoolSize: 1, Flags: netFlags},
		NodeOpts{Name: "sb" + tag + "@localhost", Cookie: "ck", PoolSize: 1, Flags: netFlags})
	if err != nil {
		return err
	}
	defer p.Stop()
	wn, whs, err := StartNode(NodeOpts{Name: "sw" + tag + "@localhost", Cookie: "ck", PoolSize: 1, Flags: netFlags})
	if err != nil {
		return err
	}
	defer wn.StopForce()
	port, _ := AcceptorPort(p.B)
	wn.Network().AddRoute(string(p.B.Name()), gen.NetworkRoute{Route: gen.Route{Host: "127.0.0.1", Port: port, HandshakeVersion: whs.Version()}}, 100)
	if _, err := wn.Network().GetNode(p.B.Name()); err != nil {
		return fmt.Errorf("witness connect: %w", err)
	}
	wa := &obsWorld{notes: map[gen.PID][]Note{}}
	wb := &obsWorld{notes: map[gen.PID][]Note{}}
	mk := func() gen.ProcessBehavior { return &worker{} }
	victim, _ := p.B.Spawn(mk, gen.ProcessOptions{}, wb)
	local2, _ := p.B.Spawn(mk, gen.ProcessOptions{}, wb)
	wuser, _ := wn.Spawn(mk, gen.ProcessOptions{}, wa)
	line := HostLine{P: c.ID, Ev: "hs", H: *c}
	var mu sync.Mutex
	seen := 0
	rewrite := func(link int, chunk []byte) []byte {
		if link != 0 {
			return chunk
		}
		mu.Lock()
		defer mu.Unlock()
		seen++
		if seen != c.Msg {
			return chunk
		}
		orig := string(chunk)
		out, ok := rewriteHs(c, chunk)
		line.Found = ok
		line.Injected = len(out)
		line.Changed = string(out) != orig
		return out
	}
	if c.Dir == "down" {
		p.Relay.RewriteDown = rewrite
	} else {
		p.Relay.RewriteUp = rewrite
	}
	cdone := make(chan error, 1)
	go func() { _, e := p.Connect("ck"); cdone <- e }()
	select {
	case cerr := <-cdone:
		line.ConnUp = cerr == nil
	case <-time.After(15 * time.Second):
		// the dialing node does not come back from the handshake (it is busy for ever, or allocating): that is the verdict of this
		// case; the process is in no state to go on with further cases
		line.After = "hang"
		r.emit(&line)
		r.Cases++
		return ErrHsHung
	}
	time.Sleep(20 * time.Millisecond)
	probe := func(n gen.Node, from gen.PID, what string) string {
		res := "hang"
		done := make(chan struct{})
		go func() {
			run(n, from, 3*time.Second, func(pr gen.Process) {
				_, err := pr.CallWithTimeout(victim, what, 2)
				res = errText(err)
			})
			close(done)
		}()
		select {
		case <-done:
		case <-time.After(4 * time.Second):
		}
		return res
	}
	line.Local = probe(p.B, local2, "local")
	line.Witness = probe(wn, wuser, "witness")
	line.NodeOK = line.Local == "ok"
	r.emit(&line)
	r.Cases++
	return nil
}
