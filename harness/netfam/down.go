//go:build verif

package netfam

import (
	"bufio"
	"encoding/json"
	"errors"
	"fmt"
	"os"
	"sync"
	"sync/atomic"
	"time"

	"ergo.services/ergo/act"
	"ergo.services/ergo/gen"
	"ergo.services/ergo/lib"
)

// ---- C14: remote failure detection ------------------------------------------

type DownCase struct {
	ID    int    `json:"id"`
	Rel   string `json:"rel"`   // link | monitor
	Kind  string `json:"kind"`  // pid name alias event node
	Fault string `json:"fault"` // cut stop stopgrace termnormal termkill termcustom unregister
	When  string `json:"when"`  // after | midreq | midreply
	Obs   int    `json:"obs"`   // observers holding the relation
	Call  bool   `json:"call"`  // a request of another process is in flight when the fault happens
	Pool  int    `json:"pool"`
	// More: further target kinds every observer relates to as well (one consumer holding several relations on the node)
	More []string `json:"more"`
	// Stagger: node B is started more than a second before node A (different incarnation stamps)
	Stagger bool `json:"stagger"`
	// SlowReq: the requesting goroutine is descheduled for a moment between sending a remote request and waiting for its result
	SlowReq bool `json:"slowreq"`
	// Again (fault cut, when after): the links are cut but can be dialled again; after the notices the nodes reconnect, a new
	// observer relates to the same target(s), and the target terminates: the first observers must hear nothing more
	Again bool `json:"again"`
}

var slowReq atomic.Bool

// InstallSlowReq installs the yield-point callback used by SlowReq cases.
func InstallSlowReq() {
	f := func(point string, subject any) {
		if point == "req.wait" && slowReq.Load() {
			time.Sleep(2 * time.Millisecond)
		}
	}
	extraHook.Store(&f)
	lib.SetVerifHook(netHook)
}

type Note struct {
	Type   string `json:"type"`
	Reason string `json:"reason"`
}

type DownLine struct {
	P       int      `json:"p"`
	Ev      string   `json:"ev"` // down | incarn
	C       DownCase `json:"c"`
	RelRes  []string `json:"relres"` // result of Link/Monitor per observer
	RelMs   []int    `json:"relms"`
	Notes   [][]Note `json:"notes"` // per observer, what it received afterwards
	CallRes string   `json:"callres"`
	CallMs  int      `json:"callms"`
	// continuation (Again)
	Extra    []int  `json:"extra"`    // per first observer: notices received after the first phase
	NewRes   string `json:"newres"`   // result of the new observer's relation request ("" = the continuation did not take place)
	NewNotes []Note `json:"newnotes"` // what the new observer received
	// incarnation cases
	Step  string   `json:"step"`
	Res   []string `json:"res"`
	Stray int      `json:"stray"` // messages that reached a process of the new incarnation
}

func errText(err error) string {
	switch {
	case err == nil:
		return "ok"
	case errors.Is(err, gen.ErrNoConnection):
		return "noconnection"
	case errors.Is(err, gen.ErrTimeout):
		return "timeout"
	case errors.Is(err, gen.ErrProcessIncarnation):
		return "incarnation"
	case errors.Is(err, gen.ErrProcessUnknown):
		return "unknown"
	case errors.Is(err, gen.ErrProcessTerminated):
		return "terminated"
	case errors.Is(err, gen.TerminateReasonNormal):
		return "normal"
	case errors.Is(err, gen.TerminateReasonKill):
		return "kill"
	case errors.Is(err, gen.TerminateReasonShutdown):
		return "shutdown"
	case errors.Is(err, gen.ErrUnregistered):
		return "unregistered"
	case errors.Is(err, gen.ErrNameUnknown):
		return "nameunknown"
	case errors.Is(err, gen.ErrAliasUnknown):
		return "aliasunknown"
	case errors.Is(err, gen.ErrEventUnknown):
		return "eventunknown"
	case errors.Is(err, gen.ErrNodeTerminated):
		return "nodeterminated"
	}
	return "err:" + err.Error()
}

type obsWorld struct {
	mu    sync.Mutex
	notes map[gen.PID][]Note
	stray int
	held  chan heldReq
}

type cmdMsg struct {
	fn   func(p gen.Process)
	done chan struct{}
}

// worker: a generic actor that executes closures in its own context and records exit/down messages
type worker struct {
	act.Actor
	w    *obsWorld
	hold chan struct{}
}

func (o *worker) Init(args ...any) error {
	o.w = args[0].(*obsWorld)
	if len(args) > 1 {
		o.hold = args[1].(chan struct{})
	}
	o.SetTrapExit(true)
	return nil
}

func (o *worker) note(t string, reason error) {
	o.w.mu.Lock()
	o.w.notes[o.PID()] = append(o.w.notes[o.PID()], Note{Type: t, Reason: errText(reason)})
	o.w.mu.Unlock()
}

func (o *worker) HandleMessage(from gen.PID, message any) error {
	switch m := message.(type) {
	case cmdMsg:
		m.fn(o)
		close(m.done)
	case gen.MessageExitPID:
		o.note("exitpid", m.Reason)
	case gen.MessageExitProcessID:
		o.note("exitname", m.Reason)
	case gen.MessageExitAlias:
		o.note("exitalias", m.Reason)
	case gen.MessageExitEvent:
		o.note("exitevent", m.Reason)
	case gen.MessageExitNode:
		o.note("exitnode", gen.ErrNoConnection)
	case gen.MessageDownPID:
		o.note("downpid", m.Reason)
	case gen.MessageDownProcessID:
		o.note("downname", m.Reason)
	case gen.MessageDownAlias:
		o.note("downalias", m.Reason)
	case gen.MessageDownEvent:
		o.note("downevent", m.Reason)
	case gen.MessageDownNode:
		o.note("downnode", gen.ErrNoConnection)
	case error:
		return m
	default:
		o.w.mu.Lock()
		o.w.stray++
		o.w.mu.Unlock()
	}
	return nil
}

type heldReq struct {
	from gen.PID
	ref  gen.Ref
}

func (o *worker) HandleCall(from gen.PID, ref gen.Ref, request any) (any, error) {
	switch r := request.(type) {
	case string:
		if r == "hold" && o.hold != nil {
			<-o.hold
			return "late", nil
		}
		if r == "async" && o.w.held != nil {
			// asynchronous handling: hand the request out and answer later (or never)
			o.w.held <- heldReq{from, ref}
			return nil, nil
		}
	}
	return "pong", nil
}

func run(n gen.Node, pid gen.PID, d time.Duration, fn func(p gen.Process)) error {
	c := cmdMsg{fn: fn, done: make(chan struct{})}
	if err := n.Send(pid, c); err != nil {
		return err
	}
	select {
	case <-c.done:
		return nil
	case <-time.After(d):
		return fmt.Errorf("command on %s did not finish in %s", pid, d)
	}
}

type DownRunner struct {
	Out   *bufio.Writer
	seq   int
	Cases int
}

func (r *DownRunner) emit(l *DownLine) {
	if l.RelRes == nil {
		l.RelRes = []string{}
	}
	if l.RelMs == nil {
		l.RelMs = []int{}
	}
	if l.Notes == nil {
		l.Notes = [][]Note{}
	}
	if l.Extra == nil {
		l.Extra = []int{}
	}
	if l.NewNotes == nil {
		l.NewNotes = []Note{}
	}
	for i := range l.Notes {
		if l.Notes[i] == nil {
			l.Notes[i] = []Note{}
		}
	}
	if l.Res == nil {
		l.Res = []string{}
	}
	if l.C.More == nil {
		l.C.More = []string{}
	}
	b, _ := json.Marshal(l)
	r.Out.Write(b)
	r.Out.WriteByte('\n')
	r.Out.Flush()
}

var netFlags = gen.NetworkFlags{Enable: true, EnableImportantDelivery: true, EnableRemoteSpawn: true}

func (r *DownRunner) RunDown(c *DownCase) error {
	slowReq.Store(c.SlowReq)
	defer slowReq.Store(false)
	r.seq++
	tag := fmt.Sprintf("%d_%d", os.Getpid()%10000, r.seq)
	pool := c.Pool
	if pool < 1 {
		pool = 2
	}
	gap := time.Duration(0)
	if c.Stagger {
		gap = 1100 * time.Millisecond
	}
	p, err := StartPairStaggered(NodeOpts{Name: "ua" + tag + "@localhost", Cookie: "ck", PoolSize: pool, Flags: netFlags},
		NodeOpts{Name: "ub" + tag + "@localhost", Cookie: "ck", PoolSize: pool, Flags: netFlags}, gap)
	if err != nil {
		return err
	}
	defer p.Stop()
	if _, err := p.Connect("ck"); err != nil {
		return fmt.Errorf("connect: %w", err)
	}
	if !p.WaitLinks(pool, 5*time.Second) {
		return fmt.Errorf("pool not complete")
	}
	wa := &obsWorld{notes: map[gen.PID][]Note{}}
	wb := &obsWorld{notes: map[gen.PID][]Note{}}
	mk := func() gen.ProcessBehavior { return &worker{} }
	holdCh := make(chan struct{})
	defer close(holdCh)
	// target on B with a name, an alias and an event
	tpid, err := p.B.Spawn(mk, gen.ProcessOptions{}, wb)
	if err != nil {
		return err
	}
	tname := gen.Atom("t" + tag)
	if err := p.B.RegisterName(tname, tpid); err != nil {
		return err
	}
	var talias gen.Alias
	evname := gen.Atom("e" + tag)
	if err := run(p.B, tpid, 2*time.Second, func(pr gen.Process) {
		talias, _ = pr.CreateAlias()
		pr.RegisterEvent(evname, gen.EventOptions{})
	}); err != nil {
		return err
	}
	holder, err := p.B.Spawn(mk, gen.ProcessOptions{}, wb, holdCh)
	if err != nil {
		return err
	}
	// observers are children of an ordinary process: an actor does not trap an exit that comes from its parent, and the
	// node-down exit is sent in the name of the node's core process (the parent of everything spawned by the node itself)
	boss, err := p.A.Spawn(mk, gen.ProcessOptions{}, wa)
	if err != nil {
		return err
	}
	var obs []gen.PID
	for i := 0; i < c.Obs; i++ {
		var o gen.PID
		var oerr error
		if e := run(p.A, boss, 2*time.Second, func(pr gen.Process) { o, oerr = pr.Spawn(mk, gen.ProcessOptions{}, wa) }); e != nil || oerr != nil {
			return fmt.Errorf("observer: %v %v", e, oerr)
		}
		obs = append(obs, o)
	}
	caller, err := p.A.Spawn(mk, gen.ProcessOptions{}, wa)
	if err != nil {
		return err
	}
	line := DownLine{P: c.ID, Ev: "down", C: *c, RelRes: make([]string, c.Obs), RelMs: make([]int, c.Obs)}

	var relateKind func(pr gen.Process, kind string) error
	relate := func(pr gen.Process) error {
		if err := relateKind(pr, c.Kind); err != nil {
			return err
		}
		for _, k := range c.More {
			if err := relateKind(pr, k); err != nil {
				return err
			}
		}
		return nil
	}
	relateKind = func(pr gen.Process, kind string) error {
		link := c.Rel == "link"
		switch kind {
		case "pid":
			if link {
				return pr.LinkPID(tpid)
			}
			return pr.MonitorPID(tpid)
		case "name":
			t := gen.ProcessID{Name: tname, Node: p.B.Name()}
			if link {
				return pr.LinkProcessID(t)
			}
			return pr.MonitorProcessID(t)
		case "alias":
			if link {
				return pr.LinkAlias(talias)
			}
			return pr.MonitorAlias(talias)
		case "event":
			t := gen.Event{Name: evname, Node: p.B.Name()}
			if link {
				_, err := pr.LinkEvent(t)
				return err
			}
			_, err := pr.MonitorEvent(t)
			return err
		default:
			if link {
				return pr.LinkNode(p.B.Name())
			}
			return pr.MonitorNode(p.B.Name())
		}
	}

	fault := func() {
		switch c.Fault {
		case "cut":
			if c.Again {
				p.Relay.Refuse(true)
				p.Relay.CutAll()
			} else {
				p.Relay.Close()
			}
		case "stop":
			p.B.StopForce()
		case "stopgrace":
			p.B.Stop()
		case "termnormal":
			p.B.Send(tpid, gen.TerminateReasonNormal)
		case "termcustom":
			p.B.Send(tpid, errors.New("boom"))
		case "termkill":
			p.B.Kill(tpid)
		case "unregister":
			switch c.Kind {
			case "name":
				p.B.UnregisterName(tname)
			case "alias":
				run(p.B, tpid, 2*time.Second, func(pr gen.Process) { pr.DeleteAlias(talias) })
			case "event":
				run(p.B, tpid, 2*time.Second, func(pr gen.Process) { pr.UnregisterEvent(evname) })
			}
		}
	}

	// a request in flight
	var callWG sync.WaitGroup
	if c.Call {
		callWG.Add(1)
		go func() {
			defer callWG.Done()
			t0 := time.Now()
			e := run(p.A, caller, 12*time.Second, func(pr gen.Process) {
				_, err := pr.CallWithTimeout(holder, "hold", 3)
				line.CallRes = errText(err)
			})
			if e != nil {
				line.CallRes = "hang"
			}
			line.CallMs = int(time.Since(t0) / time.Millisecond)
		}()
		time.Sleep(15 * time.Millisecond)
	}

	switch c.When {
	case "after":
		for i, o := range obs {
			i := i
			t0 := time.Now()
			if e := run(p.A, o, 8*time.Second, func(pr gen.Process) { line.RelRes[i] = errText(relate(pr)) }); e != nil {
				line.RelRes[i] = "hang"
			}
			line.RelMs[i] = int(time.Since(t0) / time.Millisecond)
		}
		time.Sleep(5 * time.Millisecond)
		fault()
	default:
		// the request (or its reply) is kept inside the relay while the fault happens
		for _, lk := range p.Relay.Live() {
			if c.When == "midreq" {
				lk.HoldUp()
			} else {
				lk.HoldDown()
			}
		}
		var wg sync.WaitGroup
		for i, o := range obs {
			i, o := i, o
			wg.Add(1)
			go func() {
				defer wg.Done()
				t0 := time.Now()
				if e := run(p.A, o, 12*time.Second, func(pr gen.Process) { line.RelRes[i] = errText(relate(pr)) }); e != nil {
					line.RelRes[i] = "hang"
				}
				line.RelMs[i] = int(time.Since(t0) / time.Millisecond)
			}()
		}
		// wait until the relay holds something
		deadline := time.Now().Add(time.Second)
		for time.Now().Before(deadline) && p.Relay.Idle() {
			time.Sleep(time.Millisecond)
		}
		time.Sleep(10 * time.Millisecond)
		fault()
		if c.Fault != "cut" && c.Fault != "stop" && c.Fault != "stopgrace" {
			// the connection stays: let the held traffic pass after the remote event
			time.Sleep(10 * time.Millisecond)
			for _, lk := range p.Relay.Live() {
				lk.ReleaseUp()
				lk.ReleaseDown()
			}
		}
		wg.Wait()
	}
	callWG.Wait()
	// quiescence on A: up to 3 s for the notices the holders are entitled to, then a little longer for any that should not come
	want := 0
	for _, res := range line.RelRes {
		if res == "ok" {
			want += 1 + len(c.More)
		}
	}
	count := func() int {
		wa.mu.Lock()
		defer wa.mu.Unlock()
		n := 0
		for _, o := range obs {
			n += len(wa.notes[o])
		}
		return n
	}
	deadline := time.Now().Add(3 * time.Second)
	for time.Now().Before(deadline) && count() < want {
		time.Sleep(5 * time.Millisecond)
	}
	last, stable := -1, 0
	deadline = time.Now().Add(2 * time.Second)
	for time.Now().Before(deadline) && stable < 4 {
		n := count()
		if n == last {
			stable++
		} else {
			stable = 0
		}
		last = n
		time.Sleep(15 * time.Millisecond)
	}
	wa.mu.Lock()
	for _, o := range obs {
		line.Notes = append(line.Notes, append([]Note{}, wa.notes[o]...))
	}
	wa.mu.Unlock()
	line.Extra = []int{}
	line.NewNotes = []Note{}
	if c.Again && c.Fault == "cut" && c.When == "after" {
		// both nodes have to forget the old connection before a new one can be made
		deadline := time.Now().Add(5 * time.Second)
		for time.Now().Before(deadline) {
			_, ea := p.A.Network().Node(p.B.Name())
			_, eb := p.B.Network().Node(p.A.Name())
			if ea != nil && eb != nil {
				break
			}
			time.Sleep(5 * time.Millisecond)
		}
		p.Relay.Refuse(false)
		base := Joined(p.B.Name())
		var cerr error
		for try := 0; try < 20; try++ {
			if _, cerr = p.Connect("ck"); cerr == nil {
				break
			}
			time.Sleep(50 * time.Millisecond)
		}
		if cerr == nil {
			dl := time.Now().Add(3 * time.Second)
			for time.Now().Before(dl) && Joined(p.B.Name()) < base+pool {
				time.Sleep(2 * time.Millisecond)
			}
			var o2 gen.PID
			var oerr error
			if e := run(p.A, boss, 2*time.Second, func(pr gen.Process) { o2, oerr = pr.Spawn(mk, gen.ProcessOptions{}, wa) }); e == nil && oerr == nil {
				if e := run(p.A, o2, 8*time.Second, func(pr gen.Process) { line.NewRes = errText(relate(pr)) }); e != nil {
					line.NewRes = "hang"
				}
				time.Sleep(5 * time.Millisecond)
				p.B.Kill(tpid)
				want2 := 0
				if line.NewRes == "ok" {
					want2 = 1 + len(c.More)
				}
				dl = time.Now().Add(3 * time.Second)
				for time.Now().Before(dl) {
					wa.mu.Lock()
					k := len(wa.notes[o2])
					wa.mu.Unlock()
					if k >= want2 {
						break
					}
					time.Sleep(5 * time.Millisecond)
				}
				time.Sleep(60 * time.Millisecond)
				wa.mu.Lock()
				for i, o := range obs {
					line.Extra = append(line.Extra, len(wa.notes[o])-len(line.Notes[i]))
				}
				line.NewNotes = append(line.NewNotes, wa.notes[o2]...)
				wa.mu.Unlock()
			}
		}
	}
	r.emit(&line)
	r.Cases++
	return nil
}

// ---- incarnations ------------------------------------------------------------

type IncCase struct {
	ID   int    `json:"id"`
	Side string `json:"side"` // "target" (B restarts, A uses old identifiers) | "reply" (A restarts, B answers an old request)
}

func (r *DownRunner) RunInc(c *IncCase) error {
	r.seq++
	tag := fmt.Sprintf("%d_%d", os.Getpid()%10000, r.seq)
	an, bn := "ia"+tag+"@localhost", "ib"+tag+"@localhost"
	p, err := StartPair(NodeOpts{Name: an, Cookie: "ck", PoolSize: 2, Flags: netFlags}, NodeOpts{Name: bn, Cookie: "ck", PoolSize: 2, Flags: netFlags})
	if err != nil {
		return err
	}
	if _, err := p.Connect("ck"); err != nil {
		p.Stop()
		return err
	}
	p.WaitLinks(2, 3*time.Second)
	wa := &obsWorld{notes: map[gen.PID][]Note{}}
	wb := &obsWorld{notes: map[gen.PID][]Note{}}
	mk := func() gen.ProcessBehavior { return &worker{} }
	line := DownLine{P: c.ID, Ev: "incarn", Step: c.Side}
	add := func(what string, err error) { line.Res = append(line.Res, what+"="+errText(err)) }

	if c.Side == "target" {
		tpid, _ := p.B.Spawn(mk, gen.ProcessOptions{}, wb)
		var talias gen.Alias
		run(p.B, tpid, 2*time.Second, func(pr gen.Process) { talias, _ = pr.CreateAlias() })
		user, _ := p.A.Spawn(mk, gen.ProcessOptions{}, wa)
		// make sure the identifiers work before the restart
		run(p.A, user, 5*time.Second, func(pr gen.Process) { add("before", pr.SendImportant(tpid, "x")) })
		p.B.StopForce()
		p.Relay.Close()
		time.Sleep(1200 * time.Millisecond) // the incarnation stamp has a resolution of one second
		nb, _, err := StartNode(NodeOpts{Name: bn, Cookie: "ck", PoolSize: 2, Flags: netFlags})
		if err != nil {
			p.A.StopForce()
			return err
		}
		port, _ := AcceptorPort(nb)
		rl, err := NewRelay(fmt.Sprintf("127.0.0.1:%d", port))
		if err != nil {
			p.A.StopForce()
			nb.StopForce()
			return err
		}
		p.B, p.Relay = nb, rl
		p.hsA.dsn.Store(rl.Addr().String())
		defer p.Stop()
		wb2 := &obsWorld{notes: map[gen.PID][]Note{}}
		// a process of the new incarnation with the same id
		for i := 0; i < 3000; i++ {
			q, err := nb.Spawn(mk, gen.ProcessOptions{}, wb2)
			if err != nil {
				return err
			}
			if q.ID >= tpid.ID {
				break
			}
		}
		if _, err := p.Connect("ck"); err != nil {
			return fmt.Errorf("reconnect: %w", err)
		}
		p.WaitLinks(2, 3*time.Second)
		if e := run(p.A, user, 20*time.Second, func(pr gen.Process) {
			add("send", pr.Send(tpid, "stale"))
			add("sendimportant", pr.SendImportant(tpid, "stale"))
			_, err := pr.CallWithTimeout(tpid, "stale", 2)
			add("call", err)
			add("link", pr.LinkPID(tpid))
			add("monitor", pr.MonitorPID(tpid))
			add("sendalias", pr.Send(talias, "stale"))
			add("linkalias", pr.LinkAlias(talias))
			add("sendexit", pr.SendExit(tpid, errors.New("stale")))
		}); e != nil {
			line.Res = append(line.Res, "hang=hang")
		}
		time.Sleep(60 * time.Millisecond)
		wb2.mu.Lock()
		line.Stray = wb2.stray
		for _, v := range wb2.notes {
			line.Stray += len(v)
		}
		wb2.mu.Unlock()
		r.emit(&line)
		r.Cases++
		return nil
	}

	// "reply": a callee on B holds a request of A's first incarnation and answers after A was restarted
	callee, _ := p.B.Spawn(mk, gen.ProcessOptions{}, wb)
	caller, _ := p.A.Spawn(mk, gen.ProcessOptions{}, wa)
	got := make(chan heldReq, 1)
	wb.held = got
	go run(p.A, caller, 10*time.Second, func(pr gen.Process) { pr.CallWithTimeout(callee, "async", 1) })
	var hr heldReq
	select {
	case hr = <-got:
	case <-time.After(3 * time.Second):
		p.Stop()
		return fmt.Errorf("request did not reach the callee")
	}
	p.A.StopForce()
	time.Sleep(1200 * time.Millisecond)
	na, hs, err := StartNode(NodeOpts{Name: an, Cookie: "ck", PoolSize: 2, Flags: netFlags})
	if err != nil {
		p.B.StopForce()
		p.Relay.Close()
		return err
	}
	hs.dsn.Store(p.Relay.Addr().String())
	p.A, p.hsA = na, hs
	defer p.Stop()
	wa2 := &obsWorld{notes: map[gen.PID][]Note{}}
	for i := 0; i < 3000; i++ {
		q, err := na.Spawn(mk, gen.ProcessOptions{}, wa2)
		if err != nil {
			return err
		}
		if q.ID >= hr.from.ID {
			break
		}
	}
	if _, err := p.Connect("ck"); err != nil {
		return fmt.Errorf("reconnect: %w", err)
	}
	p.WaitLinks(2, 3*time.Second)
	if e := run(p.B, callee, 10*time.Second, func(pr gen.Process) {
		add("response", pr.SendResponse(hr.from, hr.ref, "late"))
		add("responseerror", pr.SendResponseError(hr.from, hr.ref, errors.New("late")))
		add("send", pr.Send(hr.from, "stale"))
	}); e != nil {
		line.Res = append(line.Res, "hang=hang")
	}
	time.Sleep(60 * time.Millisecond)
	wa2.mu.Lock()
	line.Stray = wa2.stray
	wa2.mu.Unlock()
	r.emit(&line)
	r.Cases++
	return nil
}

type DownScript struct {
	Down []DownCase `json:"down"`
	Inc  []IncCase  `json:"inc"`
}

func LoadDownScript(path string) (*DownScript, error) {
	b, err := os.ReadFile(path)
	if err != nil {
		return nil, err
	}
	var s DownScript
	if err := json.Unmarshal(b, &s); err != nil {
		return nil, err
	}
	return &s, nil
}
