//go:build verif

package netfam

import (
	"net"
	"runtime"
	"sync"
	"time"
)

// Relay is a TCP relay between the dialing node and the acceptor of the peer. Every TCP link of a connection
// (the first one and the pooled ones) passes through it, so the harness can hold, release, re-segment and cut
// each link and each direction separately.
type Relay struct {
	l      net.Listener
	target string
	mu     sync.Mutex
	links  []*Link
	chunk  int // re-segmentation: write at most chunk bytes at a time (0 = as received)
	closed bool
	refuse bool
	// RewriteUp: bytes travelling upstream (dialer -> acceptor) pass through this function (link index, chunk) before they go on
	RewriteUp func(link int, chunk []byte) []byte
	// RewriteDown: the same for the other direction (acceptor -> dialer)
	RewriteDown func(link int, chunk []byte) []byte
	// HoldNew: links accepted from now on start with their upstream (dialer -> acceptor) direction held
	HoldNewUp bool
	// Record: keep a copy of every byte that travels upstream (dialer -> acceptor), per link
	Record bool
	// HoldFrom: links with index >= HoldFrom start held (0 = off); lets the first link of a pool through and delays the joins
	HoldFrom int
}

type pipe struct {
	mu     sync.Mutex
	cond   *sync.Cond
	held   bool
	buf    []byte
	closed bool
	bytes  int64
	// inflight: bytes taken by the writer and not yet written
	inflight int
	rec      []byte
}

type Link struct {
	idx      int
	a, b     net.Conn // a: dialer side, b: acceptor side
	up, down *pipe    // up: a -> b, down: b -> a
	r        *Relay
	cut      bool
	Accepted time.Time
}

func NewRelay(target string) (*Relay, error) {
	l, err := net.Listen("tcp", "127.0.0.1:0")
	if err != nil {
		return nil, err
	}
	r := &Relay{l: l, target: target}
	go r.serve()
	return r, nil
}

func (r *Relay) Addr() *net.TCPAddr { return r.l.Addr().(*net.TCPAddr) }

func (r *Relay) serve() {
	for {
		a, err := r.l.Accept()
		if err != nil {
			return
		}
		r.mu.Lock()
		refuse := r.refuse
		r.mu.Unlock()
		if refuse {
			a.Close()
			continue
		}
		b, err := net.Dial("tcp", r.target)
		if err != nil {
			a.Close()
			continue
		}
		lk := &Link{a: a, b: b, r: r, Accepted: time.Now()}
		lk.up = &pipe{}
		lk.up.cond = sync.NewCond(&lk.up.mu)
		lk.down = &pipe{}
		lk.down.cond = sync.NewCond(&lk.down.mu)
		r.mu.Lock()
		lk.idx = len(r.links)
		lk.up.held = r.HoldNewUp || (r.HoldFrom > 0 && lk.idx >= r.HoldFrom)
		r.links = append(r.links, lk)
		r.mu.Unlock()
		go lk.read(a, lk.up)
		go lk.write(b, lk.up)
		go lk.read(b, lk.down)
		go lk.write(a, lk.down)
	}
}

func (lk *Link) read(src net.Conn, p *pipe) {
	buf := make([]byte, 64*1024)
	for {
		n, err := src.Read(buf)
		if n > 0 {
			data := buf[:n]
			if f := lk.r.RewriteUp; f != nil && p == lk.up {
				// an attacker on the path: what the dialer sent is replaced by what the function returns
				data = f(lk.idx, append([]byte{}, data...))
				n = len(data)
			}
			if f := lk.r.RewriteDown; f != nil && p == lk.down {
				data = f(lk.idx, append([]byte{}, data...))
				n = len(data)
			}
			p.mu.Lock()
			p.buf = append(p.buf, data...)
			p.bytes += int64(n)
			if lk.r.Record && p == lk.up {
				p.rec = append(p.rec, data...)
			}
			p.cond.Broadcast()
			p.mu.Unlock()
		}
		if err != nil {
			p.mu.Lock()
			p.closed = true
			p.cond.Broadcast()
			p.mu.Unlock()
			return
		}
	}
}

func (lk *Link) write(dst net.Conn, p *pipe) {
	for {
		p.mu.Lock()
		for (len(p.buf) == 0 || p.held) && !p.closed {
			p.cond.Wait()
		}
		if p.closed && (len(p.buf) == 0 || p.held) {
			p.mu.Unlock()
			dst.Close()
			return
		}
		data := p.buf
		p.buf = nil
		p.inflight = len(data)
		p.mu.Unlock()
		done := func() { p.mu.Lock(); p.inflight = 0; p.mu.Unlock() }
		lk.r.mu.Lock()
		chunk := lk.r.chunk
		lk.r.mu.Unlock()
		if chunk <= 0 {
			_, err := dst.Write(data)
			done()
			if err != nil {
				return
			}
			continue
		}
		for k := 0; len(data) > 0; k++ {
			n := chunk
			if n > len(data) {
				n = len(data)
			}
			if _, err := dst.Write(data[:n]); err != nil {
				done()
				return
			}
			data = data[n:]
			// give the reader the chance to see the segment on its own
			if k < 48 {
				time.Sleep(20 * time.Microsecond)
			} else {
				runtime.Gosched()
			}
		}
		done()
	}
}

func (r *Relay) SetChunk(n int) { r.mu.Lock(); r.chunk = n; r.mu.Unlock() }

func (r *Relay) Links() []*Link {
	r.mu.Lock()
	defer r.mu.Unlock()
	return append([]*Link{}, r.links...)
}

// Live returns the links that were not cut and whose both ends are still open
func (r *Relay) Live() []*Link {
	var out []*Link
	for _, lk := range r.Links() {
		lk.up.mu.Lock()
		c1 := lk.up.closed
		lk.up.mu.Unlock()
		lk.down.mu.Lock()
		c2 := lk.down.closed
		lk.down.mu.Unlock()
		if !lk.cut && !c1 && !c2 {
			out = append(out, lk)
		}
	}
	return out
}

func (lk *Link) Index() int { return lk.idx }

func (lk *Link) hold(p *pipe, h bool) {
	p.mu.Lock()
	p.held = h
	p.cond.Broadcast()
	p.mu.Unlock()
}
func (lk *Link) HoldUp()      { lk.hold(lk.up, true) }
func (lk *Link) ReleaseUp()   { lk.hold(lk.up, false) }
func (lk *Link) HoldDown()    { lk.hold(lk.down, true) }
func (lk *Link) ReleaseDown() { lk.hold(lk.down, false) }
func (lk *Link) PendingUp() int {
	lk.up.mu.Lock()
	defer lk.up.mu.Unlock()
	return len(lk.up.buf)
}
func (lk *Link) BytesUp() int64 {
	lk.up.mu.Lock()
	defer lk.up.mu.Unlock()
	return lk.up.bytes
}

// Cut closes both directions of the link at once.
func (lk *Link) Cut() {
	lk.cut = true
	lk.a.Close()
	lk.b.Close()
}

// Inject writes raw bytes towards the acceptor side of this link (after whatever is pending).
func (lk *Link) InjectUp(data []byte) {
	lk.up.mu.Lock()
	lk.up.buf = append(lk.up.buf, data...)
	lk.up.cond.Broadcast()
	lk.up.mu.Unlock()
}

// Refuse makes the relay turn new links away (true) or carry them again (false): together with CutAll the connection is lost for
// good - a link that is merely cut is dialled again at once - and can be made anew later.
func (r *Relay) Refuse(on bool) { r.mu.Lock(); r.refuse = on; r.mu.Unlock() }

func (r *Relay) CutAll() {
	for _, lk := range r.Links() {
		lk.Cut()
	}
}

func (r *Relay) Close() {
	r.mu.Lock()
	r.closed = true
	r.mu.Unlock()
	r.l.Close()
	r.CutAll()
}

// ReleaseAllUp stops holding new links and releases every held one.
func (r *Relay) ReleaseAllUp() {
	r.mu.Lock()
	r.HoldNewUp = false
	r.HoldFrom = 0
	ls := append([]*Link{}, r.links...)
	r.mu.Unlock()
	for _, l := range ls {
		l.ReleaseUp()
	}
}

// Idle reports whether no byte is waiting inside the relay.
func (r *Relay) Idle() bool {
	for _, lk := range r.Links() {
		for _, p := range []*pipe{lk.up, lk.down} {
			p.mu.Lock()
			n := len(p.buf) + p.inflight
			p.mu.Unlock()
			if n > 0 {
				return false
			}
		}
	}
	return true
}

// RecordedUp returns a copy of the upstream bytes recorded so far on this link.
func (lk *Link) RecordedUp() []byte {
	lk.up.mu.Lock()
	defer lk.up.mu.Unlock()
	return append([]byte{}, lk.up.rec...)
}
