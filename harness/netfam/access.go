//go:build verif

package netfam

import (
	"bufio"
	"encoding/binary"
	"encoding/json"
	"errors"
	"fmt"
	"net"
	"os"
	"sync"
	"time"

	"ergo.services/ergo/act"
	"ergo.services/ergo/gen"
)

// ---- C15: cookie matrix, agreement, replaying peer, permissions ----------------

type PermOp struct {
	Op    string   `json:"op"`    // enspawn disspawn enapp disapp spawn app fspawn (spawn request whose parent pid claims the other peer's node)
	Name  string   `json:"name"`  // s1 s2 | a1 a2
	Nodes []string `json:"nodes"` // peer labels P1 P2 (empty = no list)
	Peer  string   `json:"peer"`  // for attempts
	Res   string   `json:"res"`   // filled by the run
	Env   string   `json:"env"`   // for successful attempts: value of the requester's env variable seen by the started process ("" = none)
}

type AccCase struct {
	ID   int    `json:"id"`
	Kind string `json:"kind"` // cookie | replay | perm
	// cookie + agreement
	NodeA  string `json:"nodea"`
	NodeB  string `json:"nodeb"`
	Acc    string `json:"acc"`
	Route  string `json:"route"`
	SpawnA bool   `json:"spawna"`
	SpawnB bool   `json:"spawnb"`
	AppA   bool   `json:"appa"`
	AppB   bool   `json:"appb"`
	MaxA   int    `json:"maxa"`
	MaxB   int    `json:"maxb"`
	// replay
	Mode string `json:"mode"` // start | join | garbage | truncate
	Cut  int    `json:"cut"`
	// perm
	Ops         []PermOp `json:"ops"`
	ExposeSpawn bool     `json:"exposespawn"`
	ExposeApp   bool     `json:"exposeapp"`
}

type View struct {
	Peer     string `json:"peer"`
	Creation int64  `json:"creation"`
	Spawn    bool   `json:"spawn"`
	App      bool   `json:"app"`
	Max      int    `json:"max"`
}

type AccLine struct {
	P  int     `json:"p"`
	Ev string  `json:"ev"` // cookie | replay | perm
	C  AccCase `json:"c"`
	// cookie
	Dial  string `json:"dial"`  // result of GetNode on A
	SeenB bool   `json:"seenb"` // B lists A as connected
	AofB  View   `json:"aofb"`  // what A holds about B
	BofA  View   `json:"bofa"`  // what B holds about A
	TrueA View   `json:"truea"` // what A really is / announced
	TrueB View   `json:"trueb"`
	// replay
	Accepted bool   `json:"accepted"` // the acceptor answered the replayed / forged bytes with a further handshake message
	Steps    int    `json:"steps"`    // handshake messages the adversary got back
	Listed   bool   `json:"listed"`   // a connection under the honest node's name exists at the acceptor afterwards
	Forged   int    `json:"forged"`   // frames of the adversary that reached a local process
	Honest   string `json:"honest"`   // an honest node can still connect afterwards
}

func flags(spawn, app bool) gen.NetworkFlags {
	return gen.NetworkFlags{Enable: true, EnableRemoteSpawn: spawn, EnableRemoteApplicationStart: app, EnableImportantDelivery: true}
}

type AccRunner struct {
	Out   *bufio.Writer
	seq   int
	Cases int
}

func (r *AccRunner) emit(l *AccLine) {
	if l.C.Ops == nil {
		l.C.Ops = []PermOp{}
	}
	for i := range l.C.Ops {
		if l.C.Ops[i].Nodes == nil {
			l.C.Ops[i].Nodes = []string{}
		}
	}
	b, _ := json.Marshal(l)
	r.Out.Write(b)
	r.Out.WriteByte('\n')
	r.Out.Flush()
}

func (r *AccRunner) tag() string {
	r.seq++
	return fmt.Sprintf("%d_%d", os.Getpid()%10000, r.seq)
}

func viewOf(rn gen.RemoteNode) View {
	i := rn.Info()
	return View{Peer: string(rn.Name()), Creation: rn.Creation(), Spawn: i.NetworkFlags.EnableRemoteSpawn, App: i.NetworkFlags.EnableRemoteApplicationStart, Max: i.MaxMessageSize}
}

func (r *AccRunner) RunCookie(c *AccCase) error {
	tag := r.tag()
	gap := time.Duration(0)
	if c.ID%6 == 1 {
		gap = 1100 * time.Millisecond // different incarnation stamps on the two ends
	}
	p, err := StartPairStaggered(NodeOpts{Name: "ca" + tag + "@localhost", Cookie: c.NodeA, PoolSize: 2, Flags: flags(c.SpawnA, c.AppA), MaxMsgSize: c.MaxA},
		NodeOpts{Name: "cb" + tag + "@localhost", Cookie: c.NodeB, AccCookie: c.Acc, PoolSize: 2, Flags: flags(c.SpawnB, c.AppB), MaxMsgSize: c.MaxB}, gap)
	if err != nil {
		return err
	}
	defer p.Stop()
	line := AccLine{P: c.ID, Ev: "cookie", C: *c}
	rn, err := p.Connect(c.Route)
	line.Dial = errText(err)
	if err != nil && line.Dial[:3] == "err" {
		line.Dial = "refused"
	}
	// the acceptor registers the connection a moment after the dialer's handshake returns
	for i := 0; i < 100; i++ {
		if _, e := p.B.Network().Node(p.A.Name()); e == nil || (err != nil && i >= 10) {
			break
		}
		time.Sleep(5 * time.Millisecond)
	}
	line.TrueA = View{Peer: string(p.A.Name()), Creation: p.A.Creation(), Spawn: c.SpawnA, App: c.AppA, Max: c.MaxA}
	line.TrueB = View{Peer: string(p.B.Name()), Creation: p.B.Creation(), Spawn: c.SpawnB, App: c.AppB, Max: c.MaxB}
	if err == nil {
		line.AofB = viewOf(rn)
	}
	if bn, e := p.B.Network().Node(p.A.Name()); e == nil {
		line.SeenB = true
		line.BofA = viewOf(bn)
	}
	r.emit(&line)
	r.Cases++
	return nil
}

// ---- a peer that replays recorded bytes ------------------------------------------

// splitHandshake cuts a recorded byte stream into handshake messages (magic, version, 4-byte length).
func splitHandshake(b []byte) [][]byte {
	var out [][]byte
	for len(b) >= 6 {
		l := int(binary.BigEndian.Uint32(b[2:6]))
		if l > 1<<16 || len(b) < 6+l {
			break
		}
		out = append(out, b[:6+l])
		b = b[6+l:]
	}
	return out
}

type catcher struct {
	act.Actor
	mu  *sync.Mutex
	got *int
}

func (c *catcher) Init(args ...any) error {
	c.mu = args[0].(*sync.Mutex)
	c.got = args[1].(*int)
	return nil
}
func (c *catcher) HandleMessage(from gen.PID, message any) error {
	c.mu.Lock()
	*c.got++
	c.mu.Unlock()
	return nil
}

func readSome(conn net.Conn, d time.Duration) []byte {
	conn.SetReadDeadline(time.Now().Add(d))
	buf := make([]byte, 8192)
	n, _ := conn.Read(buf)
	return buf[:n]
}

func (r *AccRunner) RunReplay(c *AccCase) error {
	tag := r.tag()
	p, err := StartPair(NodeOpts{Name: "ra" + tag + "@localhost", Cookie: "secret", PoolSize: 2, Flags: netFlags},
		NodeOpts{Name: "rb" + tag + "@localhost", Cookie: "secret", PoolSize: 2, Flags: netFlags})
	if err != nil {
		return err
	}
	defer p.Stop()
	p.Relay.Record = true
	if _, err := p.Connect(""); err != nil {
		return fmt.Errorf("honest connect: %w", err)
	}
	if !p.WaitLinks(2, 5*time.Second) {
		return fmt.Errorf("pool not complete")
	}
	// some honest traffic, so that the recordings also hold ordinary frames
	var mu sync.Mutex
	got := 0
	victim, _ := p.B.Spawn(func() gen.ProcessBehavior { return &catcher{} }, gen.ProcessOptions{}, &mu, &got)
	links := p.Relay.Links()
	rec0 := links[0].RecordedUp()
	rec1 := links[1].RecordedUp()
	port, _ := AcceptorPort(p.B)
	line := AccLine{P: c.ID, Ev: "replay", C: *c}
	target := fmt.Sprintf("127.0.0.1:%d", port)

	switch c.Mode {
	case "start":
		// the honest node goes away; the adversary replays its side of the recorded handshake, message by message
		p.A.StopForce()
		time.Sleep(50 * time.Millisecond)
		msgs := splitHandshake(rec0)
		conn, err := net.Dial("tcp", target)
		if err != nil {
			return err
		}
		for i, m := range msgs {
			if c.Cut > 0 && i >= c.Cut {
				break
			}
			if _, err := conn.Write(m); err != nil {
				break
			}
			if back := readSome(conn, 300*time.Millisecond); len(back) > 0 {
				line.Steps++
			}
		}
		// the acceptor answers the first hello (it cannot know yet); going beyond that means the digest over ITS fresh salt was accepted
		line.Accepted = line.Steps >= 2
		conn.Close()
	case "join":
		// the honest connection is alive; the adversary replays the recorded Join of the second pooled link
		msgs := splitHandshake(rec1)
		if len(msgs) == 0 {
			return fmt.Errorf("no join message recorded")
		}
		conn, err := net.Dial("tcp", target)
		if err != nil {
			return err
		}
		conn.Write(msgs[0])
		if back := readSome(conn, 400*time.Millisecond); len(back) > 0 {
			line.Steps = 1
			line.Accepted = true
			// a frame with a forged sender: replay an honest frame recorded after the handshake of link 0, if any
			p.A.Send(victim, "honest")
			time.Sleep(30 * time.Millisecond)
			mu.Lock()
			before := got
			mu.Unlock()
			all := links[0].RecordedUp()
			frames := all[len(rec0):]
			if len(frames) == 0 {
				frames = links[1].RecordedUp()[len(rec1):]
			}
			if len(frames) > 0 {
				conn.Write(frames)
				time.Sleep(60 * time.Millisecond)
				mu.Lock()
				line.Forged = got - before
				mu.Unlock()
			}
		}
		conn.Close()
	case "garbage", "truncate":
		p.A.StopForce()
		time.Sleep(50 * time.Millisecond)
		conn, err := net.Dial("tcp", target)
		if err != nil {
			return err
		}
		msgs := splitHandshake(rec0)
		var data []byte
		if c.Mode == "truncate" && len(msgs) > 0 {
			data = append([]byte{}, msgs[0]...)
			if c.Cut < len(data) {
				data = data[:c.Cut]
			}
		} else {
			data = make([]byte, 64+c.Cut)
			x := uint32(c.Cut)*2654435761 + 99
			for i := range data {
				x = x*1664525 + 1013904223
				data[i] = byte(x >> 24)
			}
			if c.Cut%2 == 0 && len(msgs) > 0 {
				copy(data, msgs[0][:6]) // valid magic/version/length, garbage body
			}
		}
		conn.Write(data)
		if back := readSome(conn, 300*time.Millisecond); len(back) > 0 {
			line.Steps = 1
		}
		line.Accepted = line.Steps >= 1 && c.Mode == "garbage"
		conn.Close()
	}
	time.Sleep(30 * time.Millisecond)
	if c.Mode != "join" {
		_, e := p.B.Network().Node(gen.Atom("ra" + tag + "@localhost"))
		line.Listed = e == nil
		// an honest node can still get in
		h, hs, err := StartNode(NodeOpts{Name: "rh" + tag + "@localhost", Cookie: "secret", PoolSize: 1, Flags: netFlags})
		if err != nil {
			return err
		}
		h.Network().AddRoute(string(p.B.Name()), gen.NetworkRoute{Route: gen.Route{Host: "127.0.0.1", Port: port, HandshakeVersion: hs.Version()}}, 100)
		_, e = h.Network().GetNode(p.B.Name())
		line.Honest = errText(e)
		h.StopForce()
	} else {
		line.Honest = "ok"
	}
	r.emit(&line)
	r.Cases++
	return nil
}

// ---- permissions -------------------------------------------------------------------

type envWorld struct {
	mu   sync.Mutex
	last map[string]string // started thing -> requester env value seen
}

type spawned struct {
	act.Actor
}

var accWorld = &envWorld{last: map[string]string{}}

func (s *spawned) Init(args ...any) error {
	v, _ := s.Env("VERIF_ORIGIN")
	if v == nil {
		v = ""
	}
	accWorld.mu.Lock()
	accWorld.last[string(s.Node().Name())+"/proc"] = fmt.Sprint(v)
	accWorld.mu.Unlock()
	return nil
}

type permApp struct {
	name gen.Atom
}

func (a *permApp) Load(node gen.Node, args ...any) (gen.ApplicationSpec, error) {
	return gen.ApplicationSpec{
		Name:  a.name,
		Mode:  gen.ApplicationModeTemporary,
		Group: []gen.ApplicationMemberSpec{{Name: a.name + "_m", Factory: func() gen.ProcessBehavior { return &appMember{} }}},
	}, nil
}
func (a *permApp) Start(mode gen.ApplicationMode) {}
func (a *permApp) Terminate(reason error)         {}

type appMember struct {
	act.Actor
}

func (s *appMember) Init(args ...any) error {
	v, _ := s.Env("VERIF_ORIGIN")
	if v == nil {
		v = ""
	}
	accWorld.mu.Lock()
	accWorld.last[string(s.Node().Name())+"/app"] = fmt.Sprint(v)
	accWorld.mu.Unlock()
	return nil
}

func permRes(err error) string {
	switch {
	case err == nil:
		return "ok"
	case errors.Is(err, gen.ErrNotAllowed):
		return "notallowed"
	case errors.Is(err, gen.ErrNameUnknown):
		return "nameunknown"
	}
	t := err.Error()
	if t == gen.ErrNotAllowed.Error() {
		return "notallowed"
	}
	if t == gen.ErrNameUnknown.Error() {
		return "nameunknown"
	}
	return "err:" + t
}

func (r *AccRunner) RunPerm(c *AccCase) error {
	tag := r.tag()
	bname := "pb" + tag + "@localhost"
	b, _, err := StartNode(NodeOpts{Name: bname, Cookie: "ck", PoolSize: 1, Flags: flags(c.SpawnB, c.AppB)})
	if err != nil {
		return err
	}
	defer b.StopForce()
	for _, a := range []gen.Atom{"a1", "a2"} {
		if _, err := b.ApplicationLoad(&permApp{name: a}); err != nil {
			return err
		}
	}
	port, _ := AcceptorPort(b)
	peers := map[string]gen.Node{}
	remote := map[string]gen.RemoteNode{}
	pname := map[string]gen.Atom{}
	for _, l := range []string{"P1", "P2"} {
		nm := "p" + l + tag + "@localhost"
		n, hs, err := StartNode(NodeOpts{Name: nm, Cookie: "ck", PoolSize: 1, Flags: flags(c.SpawnA, c.AppA),
			Security: gen.SecurityOptions{ExposeEnvRemoteSpawn: c.ExposeSpawn, ExposeEnvRemoteApplicationStart: c.ExposeApp},
			Env:      map[gen.Env]any{"VERIF_ORIGIN": "from" + l}})
		if err != nil {
			return err
		}
		defer n.StopForce()
		n.Network().AddRoute(bname, gen.NetworkRoute{Route: gen.Route{Host: "127.0.0.1", Port: port, HandshakeVersion: hs.Version()}}, 100)
		rn, err := n.Network().GetNode(gen.Atom(bname))
		if err != nil {
			return fmt.Errorf("peer %s connect: %w", l, err)
		}
		peers[l], remote[l], pname[l] = n, rn, gen.Atom(nm)
	}
	line := AccLine{P: c.ID, Ev: "perm", C: *c}
	factory := func() gen.ProcessBehavior { return &spawned{} }
	for i := range line.C.Ops {
		op := &line.C.Ops[i]
		var nodes []gen.Atom
		for _, l := range op.Nodes {
			nodes = append(nodes, pname[l])
		}
		switch op.Op {
		case "enspawn":
			op.Res = permRes(b.Network().EnableSpawn(gen.Atom(op.Name), factory, nodes...))
		case "disspawn":
			op.Res = permRes(b.Network().DisableSpawn(gen.Atom(op.Name), nodes...))
		case "enapp":
			op.Res = permRes(b.Network().EnableApplicationStart(gen.Atom(op.Name), nodes...))
		case "disapp":
			op.Res = permRes(b.Network().DisableApplicationStart(gen.Atom(op.Name), nodes...))
		case "spawn":
			accWorld.mu.Lock()
			delete(accWorld.last, bname+"/proc")
			accWorld.mu.Unlock()
			pid, err := remote[op.Peer].Spawn(gen.Atom(op.Name), gen.ProcessOptions{})
			op.Res = permRes(err)
			if err == nil {
				time.Sleep(5 * time.Millisecond)
				accWorld.mu.Lock()
				op.Env = accWorld.last[bname+"/proc"]
				accWorld.mu.Unlock()
				b.Kill(pid)
			}
		case "fspawn":
			// the requester is op.Peer (that is the connection the request arrives on); the parent pid inside the request names the
			// other peer: permissions go by who is connected, not by what the request says about itself
			other := "P1"
			if op.Peer == "P1" {
				other = "P2"
			}
			core, ok := peers[op.Peer].(gen.Core)
			if !ok {
				return fmt.Errorf("node does not implement gen.Core")
			}
			forged := gen.PID{Node: pname[other], ID: 1001, Creation: peers[other].Creation()}
			extra := gen.ProcessOptionsExtra{ParentPID: forged, ParentLeader: forged, ParentLogLevel: gen.LogLevelInfo}
			pid, err := core.RouteSpawn(gen.Atom(bname), gen.Atom(op.Name), extra, pname[op.Peer])
			op.Res = permRes(err)
			if err == nil {
				time.Sleep(5 * time.Millisecond)
				b.Kill(pid)
			}
		case "app":
			accWorld.mu.Lock()
			delete(accWorld.last, bname+"/app")
			accWorld.mu.Unlock()
			err := remote[op.Peer].ApplicationStart(gen.Atom(op.Name), gen.ApplicationOptions{})
			op.Res = permRes(err)
			if err == nil {
				time.Sleep(5 * time.Millisecond)
				accWorld.mu.Lock()
				op.Env = accWorld.last[bname+"/app"]
				accWorld.mu.Unlock()
				b.ApplicationStopForce(gen.Atom(op.Name))
				time.Sleep(10 * time.Millisecond)
			}
		}
	}
	r.emit(&line)
	r.Cases++
	return nil
}

type AccScript struct {
	Cases []AccCase `json:"cases"`
}

func LoadAccScript(path string) (*AccScript, error) {
	b, err := os.ReadFile(path)
	if err != nil {
		return nil, err
	}
	var s AccScript
	if err := json.Unmarshal(b, &s); err != nil {
		return nil, err
	}
	return &s, nil
}
