//go:build verif

// Package treefam builds real supervision trees (application -> supervisors -> pools / workers) from a shape description,
// applies a fault script (kill / exit / crash / panic of any process, also while a child is inside its Init during start-up or a
// restart, or inside its Terminate during a shutdown), and records at quiescence which of the processes ever started are alive
// and who started them (C10).
package treefam

import (
	"bufio"
	"encoding/json"
	"errors"
	"fmt"
	"os"
	"runtime/pprof"
	"sort"
	"sync"
	"time"

	"ergo.services/ergo/act"
	"ergo.services/ergo/gen"
	"ergo.services/ergo/node"
)

type Shape struct {
	Name     string  `json:"name"`
	Kind     string  `json:"kind"`     // app sup pool worker
	Type     string  `json:"type"`     // ofo afo rfo sofo
	Strategy string  `json:"strategy"` // perm trans temp
	Size     int     `json:"size"`     // pool size; sofo: children started at the beginning
	Kids     []Shape `json:"kids"`
}

type Op struct {
	Op     string `json:"op"`     // kill exit crash panic holdinit holdterm release stopapp stopnode settle
	Target string `json:"target"` // path label, e.g. "root/s2/w1" ; pool workers "root/p/#2" ; sofo children "root/d/w#1"
}

type Case struct {
	ID    int   `json:"id"`
	Shape Shape `json:"shape"`
	Ops   []Op  `json:"ops"`
}

type File struct {
	Cases []Case `json:"cases"`
}

type Proc struct {
	Label  string `json:"label"`
	Pid    string `json:"pid"`
	Parent string `json:"parent"` // pid of the process that started it ("" for the root / application members: the application)
	Kind   string `json:"kind"`
	Alive  bool   `json:"alive"`
	PAlive bool   `json:"palive"` // the owner is alive (for application members: the application is running)
	InInit bool   `json:"ininit"` // recorded before its Init returned and never finished it
	Inited bool   `json:"inited"`
	Termed bool   `json:"termed"` // its Terminate callback ran
}

type Line struct {
	P        int      `json:"p"`
	Ev       string   `json:"ev"` // end | stop
	Ops      []Op     `json:"ops"`
	Procs    []Proc   `json:"procs"`
	StopKind string   `json:"stopkind"`
	Stop     string   `json:"stop"`    // result of the stop call
	StopMs   int      `json:"stopms"`  // how long it took
	Left     []string `json:"left"`    // labels alive at the moment the stop call returned
	Skipped  []string `json:"skipped"` // ops that found no live target
}

type rec struct {
	label  string
	pid    gen.PID
	parent gen.PID
	kind   string
	inited bool
	failed bool
	termed bool
	app    gen.Atom
}

type world struct {
	mu       sync.Mutex
	recs     []*rec
	byLabel  map[string]gen.PID // current incarnation per label
	holdInit map[string]chan struct{}
	holdTerm map[string]chan struct{}
	failInit map[string]bool
	counter  map[string]int
}

func (w *world) add(label string, pid, parent gen.PID, kind string) *rec {
	w.mu.Lock()
	defer w.mu.Unlock()
	r := &rec{label: label, pid: pid, parent: parent, kind: kind}
	w.recs = append(w.recs, r)
	w.byLabel[label] = pid
	return r
}

func (w *world) gate(m map[string]chan struct{}, label string) chan struct{} {
	w.mu.Lock()
	defer w.mu.Unlock()
	ch := m[label]
	if ch != nil {
		delete(m, label) // one shot
	}
	return ch
}

// ---- behaviours ------------------------------------------------------------------

type tworker struct {
	act.Actor
	w     *world
	label string
	r     *rec
	free  int // processes it spawns on its own (no link, trapping exits): only a node stop is responsible for them
}

// tfree: spawned by a worker without any link; traps exits (only an exit from its parent - as the node sends it when it stops - ends it)
type tfree struct {
	act.Actor
	w     *world
	label string
	r     *rec
}

func (t *tfree) Init(args ...any) error {
	t.w = args[0].(*world)
	t.label = args[1].(string)
	t.r = t.w.add(t.label, t.PID(), t.Parent(), "free")
	t.r.inited = true
	t.SetTrapExit(true)
	return nil
}
func (t *tfree) HandleMessage(from gen.PID, message any) error { return nil }
func (t *tfree) Terminate(reason error) {
	t.w.mu.Lock()
	t.r.termed = true
	t.w.mu.Unlock()
}

func (t *tworker) Init(args ...any) error {
	t.w = args[0].(*world)
	t.label = args[1].(string)
	if len(args) > 3 {
		t.free = args[3].(int)
	}
	if len(args) > 2 && args[2].(bool) {
		// pool worker / simple-one-for-one child: numbered by start order
		t.w.mu.Lock()
		t.w.counter[t.label]++
		t.label = fmt.Sprintf("%s#%d", t.label, t.w.counter[t.label])
		t.w.mu.Unlock()
	}
	t.r = t.w.add(t.label, t.PID(), t.Parent(), "worker")
	if ch := t.w.gate(t.w.holdInit, t.label); ch != nil {
		<-ch
	}
	for i := 0; i < t.free && len(args) > 3; i++ {
		label := fmt.Sprintf("%s/free%d", t.label, i+1)
		t.Spawn(func() gen.ProcessBehavior { return &tfree{} }, gen.ProcessOptions{}, t.w, label)
	}
	t.w.mu.Lock()
	fail := t.w.failInit[t.label]
	delete(t.w.failInit, t.label)
	t.r.inited = !fail
	t.r.failed = fail
	t.w.mu.Unlock()
	if fail {
		return errors.New("init failed")
	}
	return nil
}

func (t *tworker) HandleMessage(from gen.PID, message any) error {
	switch m := message.(type) {
	case string:
		switch m {
		case "crash":
			return errors.New("crash")
		case "panic":
			panic("treefam")
		}
	}
	return nil
}

func (t *tworker) HandleCall(from gen.PID, ref gen.Ref, request any) (any, error) { return "ok", nil }

func (t *tworker) Terminate(reason error) {
	if ch := t.w.gate(t.w.holdTerm, t.label); ch != nil {
		<-ch
	}
	t.w.mu.Lock()
	t.r.termed = true
	t.w.mu.Unlock()
}

type tsup struct {
	act.Supervisor
	w     *world
	shape Shape
	label string
	r     *rec
}

func stype(t string) act.SupervisorType {
	switch t {
	case "afo":
		return act.SupervisorTypeAllForOne
	case "rfo":
		return act.SupervisorTypeRestForOne
	case "sofo":
		return act.SupervisorTypeSimpleOneForOne
	}
	return act.SupervisorTypeOneForOne
}

func sstrategy(s string) act.SupervisorStrategy {
	switch s {
	case "trans":
		return act.SupervisorStrategyTransient
	case "temp":
		return act.SupervisorStrategyTemporary
	}
	return act.SupervisorStrategyPermanent
}

func factoryFor(w *world, s Shape, label string, numbered bool) (gen.ProcessFactory, []any) {
	switch s.Kind {
	case "sup":
		return func() gen.ProcessBehavior { return &tsup{} }, []any{w, s, label}
	case "pool":
		return func() gen.ProcessBehavior { return &tpool{} }, []any{w, s, label}
	}
	return func() gen.ProcessBehavior { return &tworker{} }, []any{w, label, numbered, s.Size}
}

func (s *tsup) Init(args ...any) (act.SupervisorSpec, error) {
	s.w = args[0].(*world)
	s.shape = args[1].(Shape)
	s.label = args[2].(string)
	s.r = s.w.add(s.label, s.PID(), s.Parent(), "sup")
	s.r.inited = true
	spec := act.SupervisorSpec{Type: stype(s.shape.Type)}
	spec.Restart.Strategy = sstrategy(s.shape.Strategy)
	spec.Restart.Intensity = 50
	spec.Restart.Period = 5
	for _, k := range s.shape.Kids {
		f, a := factoryFor(s.w, k, s.label+"/"+k.Name, s.shape.Type == "sofo")
		spec.Children = append(spec.Children, act.SupervisorChildSpec{Name: gen.Atom(k.Name), Factory: f, Args: a})
	}
	return spec, nil
}

func (s *tsup) HandleMessage(from gen.PID, message any) error {
	switch m := message.(type) {
	case string:
		if m == "crash" {
			return errors.New("crash")
		}
		if m == "panic" {
			panic("treefam")
		}
	case startKid:
		err := s.StartChild(gen.Atom(m.name))
		m.done <- err
	}
	return nil
}

func (s *tsup) Terminate(reason error) {
	s.w.mu.Lock()
	s.r.termed = true
	s.w.mu.Unlock()
	if os.Getenv("VERIF_TREEDEBUG") != "" {
		fmt.Fprintf(os.Stderr, "sup %s terminated: %v\n", s.label, reason)
	}
}

type startKid struct {
	name string
	done chan error
}

type tpool struct {
	act.Pool
	w     *world
	label string
	r     *rec
}

func (p *tpool) Terminate(reason error) {
	p.w.mu.Lock()
	p.r.termed = true
	p.w.mu.Unlock()
}

func (p *tpool) Init(args ...any) (act.PoolOptions, error) {
	p.w = args[0].(*world)
	shape := args[1].(Shape)
	p.label = args[2].(string)
	p.r = p.w.add(p.label, p.PID(), p.Parent(), "pool")
	p.r.inited = true
	return act.PoolOptions{
		PoolSize:      int64(shape.Size),
		WorkerFactory: func() gen.ProcessBehavior { return &tworker{} },
		WorkerArgs:    []any{p.w, p.label + "/", true},
	}, nil
}

type tapp struct {
	w     *world
	shape Shape
	name  gen.Atom
}

func (a *tapp) Load(n gen.Node, args ...any) (gen.ApplicationSpec, error) {
	spec := gen.ApplicationSpec{Name: a.name, Mode: gen.ApplicationModeTemporary}
	for _, k := range a.shape.Kids {
		f, args := factoryFor(a.w, k, a.shape.Name+"/"+k.Name, false)
		spec.Group = append(spec.Group, gen.ApplicationMemberSpec{Factory: f, Args: args})
	}
	return spec, nil
}
func (a *tapp) Start(mode gen.ApplicationMode) {}
func (a *tapp) Terminate(reason error)         {}

// ---- runner ------------------------------------------------------------------------

type Runner struct {
	Out *bufio.Writer
	mu  sync.Mutex
	seq int
}

func (r *Runner) emit(l *Line) {
	if l.Left == nil {
		l.Left = []string{}
	}
	if l.Skipped == nil {
		l.Skipped = []string{}
	}
	if l.Procs == nil {
		l.Procs = []Proc{}
	}
	b, _ := json.Marshal(l)
	r.mu.Lock()
	r.Out.Write(b)
	r.Out.WriteByte('\n')
	r.Out.Flush()
	r.mu.Unlock()
}

func alive(n gen.Node, pid gen.PID) bool {
	_, err := n.ProcessInfo(pid)
	return err == nil
}

func (r *Runner) Run(c *Case) error {
	r.mu.Lock()
	r.seq++
	name := fmt.Sprintf("tr%d_%d@localhost", os.Getpid()%100000, r.seq)
	r.mu.Unlock()
	var opt gen.NodeOptions
	opt.Log.DefaultLogger.Disable = true
	opt.Log.Level = gen.LogLevelDisabled
	if os.Getenv("VERIF_TREEDEBUG") == "3" {
		opt.Log.DefaultLogger.Disable = false
		opt.Log.Level = gen.LogLevelError
	}
	opt.Network.Mode = gen.NetworkModeDisabled
	n, err := node.Start(gen.Atom(name), opt, gen.Version{})
	if err != nil {
		return err
	}
	stopped := false
	defer func() {
		if !stopped {
			n.StopForce()
		}
	}()
	w := &world{byLabel: map[string]gen.PID{}, holdInit: map[string]chan struct{}{}, holdTerm: map[string]chan struct{}{}, failInit: map[string]bool{}, counter: map[string]int{}}
	var gates []chan struct{}
	releaseAll := func() {
		for _, g := range gates {
			select {
			case <-g:
			default:
				close(g)
			}
		}
		gates = nil
	}
	defer releaseAll()

	var appName gen.Atom
	// gates armed before the tree starts (faults during start-up)
	startAsync := false
	startMayFail := false
	// gates listed before an explicit "start" op are armed before the tree starts (faults during start-up)
	pre := 0
	for i, op := range c.Ops {
		if op.Op == "start" {
			pre = i + 1
		}
	}
	for _, op := range c.Ops[:pre] {
		g := make(chan struct{})
		switch op.Op {
		case "holdinit":
			gates = append(gates, g)
			w.holdInit[op.Target] = g
			startAsync = true
		case "holdterm":
			gates = append(gates, g)
			w.holdTerm[op.Target] = g
		case "failinit":
			w.failInit[op.Target] = true
			startMayFail = true
		}
	}
	startDone := make(chan error, 1)
	start := func() {
		switch c.Shape.Kind {
		case "app":
			appName = gen.Atom(fmt.Sprintf("app%d", r.seq))
			a := &tapp{w: w, shape: c.Shape, name: appName}
			if _, err := n.ApplicationLoad(a); err != nil {
				startDone <- err
				return
			}
			startDone <- n.ApplicationStart(appName, gen.ApplicationOptions{})
		default:
			f, args := factoryFor(w, c.Shape, c.Shape.Name, false)
			_, err := n.Spawn(f, gen.ProcessOptions{}, args...)
			startDone <- err
		}
	}
	if startAsync {
		go start()
		time.Sleep(30 * time.Millisecond)
	} else {
		start()
		if err := <-startDone; err != nil && !startMayFail {
			return fmt.Errorf("start: %w", err)
		}
	}
	settle := func() {
		// quiescence: the set of (recorded, alive) does not change for a while
		last := ""
		stable := 0
		deadline := time.Now().Add(4 * time.Second)
		for time.Now().Before(deadline) && stable < 4 {
			w.mu.Lock()
			cur := fmt.Sprint(len(w.recs))
			rs := append([]*rec{}, w.recs...)
			w.mu.Unlock()
			for _, x := range rs {
				if alive(n, x.pid) {
					cur += "1"
				} else {
					cur += "0"
				}
			}
			if cur == last {
				stable++
			} else {
				stable = 0
			}
			last = cur
			time.Sleep(12 * time.Millisecond)
		}
	}
	line := Line{P: c.ID, Ev: "end", Ops: c.Ops}
	if !startAsync {
		// simple-one-for-one supervisors start their children on request
		var walk func(s Shape, label string)
		walk = func(s Shape, label string) {
			if s.Kind == "sup" && s.Type == "sofo" {
				w.mu.Lock()
				sp, ok := w.byLabel[label]
				w.mu.Unlock()
				for _, k := range s.Kids {
					for i := 0; ok && i < s.Size; i++ {
						done := make(chan error, 1)
						if n.Send(sp, startKid{name: k.Name, done: done}) == nil {
							select {
							case <-done:
							case <-time.After(2 * time.Second):
							}
						}
					}
				}
				return
			}
			for _, k := range s.Kids {
				walk(k, label+"/"+k.Name)
			}
		}
		walk(c.Shape, c.Shape.Name)
		settle()
	}
	for _, op := range c.Ops[pre:] {
		w.mu.Lock()
		pid, known := w.byLabel[op.Target]
		w.mu.Unlock()
		needs := op.Op == "kill" || op.Op == "exit" || op.Op == "crash" || op.Op == "panic" || op.Op == "poke"
		if needs && (!known || !alive(n, pid)) {
			if os.Getenv("VERIF_TREEDEBUG") != "" {
				_, e := n.ProcessInfo(pid)
				fmt.Fprintf(os.Stderr, "skip %s %s known=%v pid=%s err=%v\n", op.Op, op.Target, known, pid, e)
			}
			line.Skipped = append(line.Skipped, op.Op+":"+op.Target)
			continue
		}
		switch op.Op {
		case "kill":
			n.Kill(pid)
		case "exit":
			n.SendExit(pid, errors.New("asked"))
		case "poke":
			// a few ordinary messages (a pool forwards them to its workers and replaces dead ones on the way)
			for i := 0; i < 6; i++ {
				n.Send(pid, "hello")
			}
			time.Sleep(5 * time.Millisecond)
		case "crash":
			n.Send(pid, "crash")
		case "panic":
			n.Send(pid, "panic")
		case "holdinit":
			g := make(chan struct{})
			gates = append(gates, g)
			w.mu.Lock()
			w.holdInit[op.Target] = g
			w.mu.Unlock()
		case "holdterm":
			g := make(chan struct{})
			gates = append(gates, g)
			w.mu.Lock()
			w.holdTerm[op.Target] = g
			w.mu.Unlock()
		case "failinit":
			w.mu.Lock()
			w.failInit[op.Target] = true
			w.mu.Unlock()
		case "release":
			releaseAll()
		case "settle":
			settle()
		case "pause":
			time.Sleep(15 * time.Millisecond)
		case "stopapp", "stopnode":
			t0 := time.Now()
			done := make(chan error, 1)
			go func() {
				if op.Op == "stopapp" {
					done <- n.ApplicationStop(appName)
				} else {
					n.Stop()
					done <- nil
				}
			}()
			var serr error
			select {
			case serr = <-done:
			case <-time.After(8 * time.Second):
				serr = errors.New("hang")
				releaseAll()
			}
			if op.Op == "stopnode" {
				stopped = true
				// the process table is gone with the node: liveness is read from the Terminate callbacks, which run a moment after a
				// process has left the table
				deadline := time.Now().Add(2 * time.Second)
				for time.Now().Before(deadline) {
					w.mu.Lock()
					pending := 0
					for _, x := range w.recs {
						if x.inited && !x.termed {
							pending++
						}
					}
					w.mu.Unlock()
					if pending == 0 {
						break
					}
					time.Sleep(5 * time.Millisecond)
				}
				if os.Getenv("VERIF_TREEDEBUG") == "2" && time.Now().After(deadline) {
					pprof.Lookup("goroutine").WriteTo(os.Stderr, 1)
				}
			}
			line.StopKind = op.Op
			line.Stop = "ok"
			if serr != nil {
				line.Stop = serr.Error()
			}
			line.StopMs = int(time.Since(t0) / time.Millisecond)
			// what is alive at the very moment the call returned
			w.mu.Lock()
			rs := append([]*rec{}, w.recs...)
			w.mu.Unlock()
			for _, x := range rs {
				if op.Op == "stopnode" {
					break // the node is gone: ProcessInfo is meaningless; goroutines are checked through inited/terminated records
				}
				if x.kind != "free" && alive(n, x.pid) {
					line.Left = append(line.Left, x.label)
				}
			}
		}
		if startAsync && op.Op == "release" {
			select {
			case <-startDone:
			case <-time.After(3 * time.Second):
			}
		}
	}
	releaseAll()
	if startAsync {
		select {
		case <-startDone:
		case <-time.After(100 * time.Millisecond):
		}
	}
	if !stopped {
		settle()
	}
	w.mu.Lock()
	rs := append([]*rec{}, w.recs...)
	w.mu.Unlock()
	appUp := false
	if appName != "" && !stopped {
		if info, err := n.ApplicationInfo(appName); err == nil && info.State == gen.ApplicationStateRunning {
			appUp = true
		}
	}
	for _, x := range rs {
		p := Proc{Label: x.label, Pid: x.pid.String(), Kind: x.kind, InInit: !x.inited && !x.failed, Inited: x.inited, Termed: x.termed}
		if !stopped {
			p.Alive = alive(n, x.pid)
			if x.parent == n.PID() {
				p.Parent = ""
				p.PAlive = appName == "" || appUp
			} else {
				p.Parent = x.parent.String()
				p.PAlive = alive(n, x.parent)
			}
		}
		line.Procs = append(line.Procs, p)
	}
	sort.SliceStable(line.Procs, func(i, j int) bool { return line.Procs[i].Label < line.Procs[j].Label })
	r.emit(&line)
	return nil
}

func (r *Runner) RunAll(f *File, par int) error {
	sem := make(chan struct{}, par)
	var wg sync.WaitGroup
	var first error
	var emu sync.Mutex
	for i := range f.Cases {
		c := &f.Cases[i]
		wg.Add(1)
		sem <- struct{}{}
		go func() {
			defer wg.Done()
			defer func() { <-sem }()
			if err := r.Run(c); err != nil {
				emu.Lock()
				if first == nil {
					first = fmt.Errorf("case %d: %w", c.ID, err)
				}
				emu.Unlock()
			}
		}()
	}
	wg.Wait()
	return first
}

func Load(path string) (*File, error) {
	b, err := os.ReadFile(path)
	if err != nil {
		return nil, err
	}
	var f File
	if err := json.Unmarshal(b, &f); err != nil {
		return nil, err
	}
	return &f, nil
}
