//go:build verif

// Package gated provides behaviours owned by the harness: a scripted actor that executes closures sent
// to it inside its own callbacks (so drivers can use the process API in the process's context) and records
// every notification it receives.
package gated

import (
	"errors"
	"time"
	"fmt"
	"strings"
	"sync"
	"sync/atomic"

	"ergo.services/ergo/act"
	"ergo.services/ergo/gen"
)

// Note is one observation made by a scripted actor.
type Note struct {
	Seq    int64
	Who    string // label of the observing actor
	Kind   string // exit | down | msg | event | term | init | call
	Target string // what the notification names
	Reason string
	From   gen.PID
	Value  any
}

// World collects the observations of all scripted actors of one execution.
type World struct {
	mu    sync.Mutex
	seq   int64
	Notes []Note
	InCb  int32
	MaxCb int32
	// OnNote, if set, is called (outside the lock) for every note
	OnNote func(n Note)
	actors sync.Map // label -> *Scripted
}

func (w *World) Add(n Note) {
	w.mu.Lock()
	w.seq++
	n.Seq = w.seq
	w.Notes = append(w.Notes, n)
	f := w.OnNote
	w.mu.Unlock()
	if f != nil {
		f(n)
	}
}

func (w *World) Snapshot() []Note {
	w.mu.Lock()
	defer w.mu.Unlock()
	out := make([]Note, len(w.Notes))
	copy(out, w.Notes)
	return out
}

// Count notes matching who/kind ("" = any)
func (w *World) Count(who, kind string) int {
	w.mu.Lock()
	defer w.mu.Unlock()
	n := 0
	for _, x := range w.Notes {
		if (who == "" || x.Who == who) && (kind == "" || x.Kind == kind) {
			n++
		}
	}
	return n
}

func (w *World) Actor(label string) *Scripted {
	if v, ok := w.actors.Load(label); ok {
		return v.(*Scripted)
	}
	return nil
}

func (w *World) enter() {
	n := atomic.AddInt32(&w.InCb, 1)
	for {
		m := atomic.LoadInt32(&w.MaxCb)
		if n <= m || atomic.CompareAndSwapInt32(&w.MaxCb, m, n) {
			return
		}
	}
}
func (w *World) leave() { atomic.AddInt32(&w.InCb, -1) }

// Cmd is executed by the receiving scripted actor inside HandleMessage. A non-nil result terminates it.
type Cmd struct {
	Fn func(s *Scripted) error
}

// Req is executed inside HandleCall; its results are the reply and the termination reason.
type Req struct {
	Fn func(s *Scripted, from gen.PID, ref gen.Ref) (any, error)
}

type Scripted struct {
	act.Actor
	W     *World
	Label string
	Trap  bool
	// InitFn runs inside Init (state init)
	InitFn func(s *Scripted) error
	// TermFn runs inside Terminate
	TermFn func(s *Scripted, reason error)
}

// Factory returns a process factory for a scripted actor.
func Factory(w *World, label string, trap bool, initFn func(s *Scripted) error) gen.ProcessFactory {
	return func() gen.ProcessBehavior {
		return &Scripted{W: w, Label: label, Trap: trap, InitFn: initFn}
	}
}

func (s *Scripted) Init(args ...any) error {
	s.W.actors.Store(s.Label, s)
	s.SetTrapExit(s.Trap)
	if s.InitFn != nil {
		return s.InitFn(s)
	}
	return nil
}

func ReasonText(err error) string {
	if err == nil {
		return "nil"
	}
	switch {
	case errors.Is(err, gen.TerminateReasonKill):
		return "kill"
	case errors.Is(err, gen.TerminateReasonPanic):
		return "panic"
	case errors.Is(err, gen.TerminateReasonNormal):
		return "normal"
	case errors.Is(err, gen.TerminateReasonShutdown):
		return "shutdown"
	case errors.Is(err, gen.ErrUnregistered):
		return "unregistered"
	case errors.Is(err, gen.ErrNoConnection):
		return "noconnection"
	}
	s := err.Error()
	if i := strings.LastIndex(s, "R:"); i >= 0 {
		return s[i:]
	}
	return "other:" + s
}

func (s *Scripted) HandleMessage(from gen.PID, message any) error {
	s.W.enter()
	defer s.W.leave()
	switch m := message.(type) {
	case Cmd:
		return m.Fn(s)
	case gen.MessageExitPID:
		s.W.Add(Note{Who: s.Label, Kind: "exit", Target: m.PID.String(), Reason: ReasonText(m.Reason), From: from})
	case gen.MessageExitProcessID:
		s.W.Add(Note{Who: s.Label, Kind: "exit", Target: m.ProcessID.String(), Reason: ReasonText(m.Reason), From: from})
	case gen.MessageExitAlias:
		s.W.Add(Note{Who: s.Label, Kind: "exit", Target: m.Alias.String(), Reason: ReasonText(m.Reason), From: from})
	case gen.MessageExitEvent:
		s.W.Add(Note{Who: s.Label, Kind: "exit", Target: m.Event.String(), Reason: ReasonText(m.Reason), From: from})
	case gen.MessageExitNode:
		s.W.Add(Note{Who: s.Label, Kind: "exit", Target: string(m.Name), Reason: "noconnection", From: from})
	case gen.MessageDownPID:
		s.W.Add(Note{Who: s.Label, Kind: "down", Target: m.PID.String(), Reason: ReasonText(m.Reason), From: from})
	case gen.MessageDownProcessID:
		s.W.Add(Note{Who: s.Label, Kind: "down", Target: m.ProcessID.String(), Reason: ReasonText(m.Reason), From: from})
	case gen.MessageDownAlias:
		s.W.Add(Note{Who: s.Label, Kind: "down", Target: m.Alias.String(), Reason: ReasonText(m.Reason), From: from})
	case gen.MessageDownEvent:
		s.W.Add(Note{Who: s.Label, Kind: "down", Target: m.Event.String(), Reason: ReasonText(m.Reason), From: from})
	case gen.MessageDownNode:
		s.W.Add(Note{Who: s.Label, Kind: "down", Target: string(m.Name), Reason: "noconnection", From: from})
	default:
		s.W.Add(Note{Who: s.Label, Kind: "msg", From: from, Value: message})
	}
	return nil
}

func (s *Scripted) HandleCall(from gen.PID, ref gen.Ref, request any) (any, error) {
	s.W.enter()
	defer s.W.leave()
	if r, ok := request.(Req); ok {
		return r.Fn(s, from, ref)
	}
	s.W.Add(Note{Who: s.Label, Kind: "call", From: from, Value: request})
	return "ok", nil
}

func (s *Scripted) HandleEvent(message gen.MessageEvent) error {
	s.W.enter()
	defer s.W.leave()
	s.W.Add(Note{Who: s.Label, Kind: "event", Target: message.Event.String(), Value: message.Message})
	return nil
}

func (s *Scripted) Terminate(reason error) {
	s.W.enter()
	defer s.W.leave()
	s.W.Add(Note{Who: s.Label, Kind: "term", Reason: ReasonText(reason)})
	if s.TermFn != nil {
		s.TermFn(s, reason)
	}
}

// Do sends a closure to the actor with the given pid from outside any process and waits until it was executed.
func Do(node gen.Node, pid gen.PID, fn func(s *Scripted) error) error {
	done := make(chan error, 1)
	err := node.Send(pid, Cmd{Fn: func(s *Scripted) error {
		defer func() {
			if r := recover(); r != nil {
				done <- fmt.Errorf("panic: %v", r)
				panic(r)
			}
		}()
		e := fn(s)
		done <- e
		return nil
	}})
	if err != nil {
		return err
	}
	return <-done
}

// WaitAsleep waits until every given process is in the sleep state (its runner goroutine has ended).
func WaitAsleep(node gen.Node, pids []gen.PID, timeout time.Duration) error {
	deadline := time.Now().Add(timeout)
	for {
		ok := true
		for _, p := range pids {
			st, err := node.ProcessState(p)
			if err != nil || st != gen.ProcessStateSleep {
				ok = false
				break
			}
		}
		if ok {
			// the runner may still be between its sleep CAS and its end: give it a moment
			time.Sleep(50 * time.Microsecond)
			return nil
		}
		if time.Now().After(deadline) {
			return fmt.Errorf("processes did not fall asleep")
		}
		time.Sleep(20 * time.Microsecond)
	}
}
