//go:build verif

// Package poolfam runs histories on a real act.Pool with gated workers (C19) and records, after every operation
// (at quiescence), what every worker has handled, what is queued and who is alive; TLC validates the record against spec/Pool.tla.
package poolfam

import (
	"bufio"
	"encoding/json"
	"fmt"
	"os"
	"sort"
	"sync"
	"sync/atomic"
	"time"

	"ergo.services/ergo/act"
	"ergo.services/ergo/gen"
	"ergo.services/ergo/node"
)

type Op struct {
	Op string `json:"op"` // send call hold release kill killheld add remove
	W  int    `json:"w"`  // worker index (spawn order, 1-based)
	N  int    `json:"n"`
}

type History struct {
	ID   int   `json:"id"`
	Size int64 `json:"size"`
	Cap  int64 `json:"cap"`
	Ops  []Op  `json:"ops"`
}

type File struct {
	Histories []History `json:"histories"`
}

type WObs struct {
	Alive   bool     `json:"alive"`
	Handled []string `json:"handled"`
	QLen    int64    `json:"qlen"`
	Busy    string   `json:"busy"` // id of the message whose handler is parked, "" if none
}

type Line struct {
	P       int      `json:"p"`
	Ev      string   `json:"ev"` // cfg | op | end
	Size    int64    `json:"size"`
	Cap     int64    `json:"cap"`
	Op      string   `json:"op"`
	W       int      `json:"w"`
	N       int      `json:"n"`
	ID      string   `json:"id"`
	Res     string   `json:"res"`
	Workers []WObs   `json:"workers"` // by spawn index
	Replies []string `json:"replies"` // "<request id>=<worker index>:<request id seen by the worker>" in arrival order
	PoolUp  bool     `json:"poolup"`
}

type world struct {
	mu      sync.Mutex
	nextIdx int
	workers map[int]*worker
	replies []string
}

type payload struct {
	ID string
}

type reply struct {
	W  int
	ID string
}

type worker struct {
	act.Actor
	w       *world
	idx     int
	hold    int32
	gate    chan struct{}
	mu      sync.Mutex
	handled []string
	busy    string
}

func (wk *worker) Init(args ...any) error {
	wk.w = args[0].(*world)
	wk.w.mu.Lock()
	wk.w.nextIdx++
	wk.idx = wk.w.nextIdx
	wk.w.workers[wk.idx] = wk
	wk.w.mu.Unlock()
	wk.gate = make(chan struct{}, 1)
	return nil
}

func (wk *worker) pass(id string) {
	if atomic.LoadInt32(&wk.hold) == 1 {
		wk.mu.Lock()
		wk.busy = id
		wk.mu.Unlock()
		<-wk.gate
		wk.mu.Lock()
		wk.busy = ""
		wk.mu.Unlock()
	}
	wk.mu.Lock()
	wk.handled = append(wk.handled, id)
	wk.mu.Unlock()
}

func (wk *worker) HandleMessage(from gen.PID, message any) error {
	if p, ok := message.(payload); ok {
		wk.pass(p.ID)
	}
	return nil
}

func (wk *worker) HandleCall(from gen.PID, ref gen.Ref, request any) (any, error) {
	if p, ok := request.(payload); ok {
		wk.pass(p.ID)
		return reply{W: wk.idx, ID: p.ID}, nil
	}
	return nil, nil
}

type poolDo struct {
	fn   func(p *gpool) (int64, error)
	done chan string
}

type gpool struct {
	act.Pool
	w    *world
	size int64
	cap  int64
	dead chan struct{}
}

func (p *gpool) Init(args ...any) (act.PoolOptions, error) {
	return act.PoolOptions{PoolSize: p.size, WorkerMailboxSize: p.cap, WorkerFactory: func() gen.ProcessBehavior { return &worker{} }, WorkerArgs: []any{p.w}}, nil
}

// management calls arrive as high-priority messages (handled by the pool itself, not forwarded: system queue)
func (p *gpool) HandleMessage(from gen.PID, message any) error {
	if d, ok := message.(poolDo); ok {
		n, err := d.fn(p)
		if err != nil {
			d.done <- "err:" + err.Error()
		} else {
			d.done <- fmt.Sprintf("ok:%d", n)
		}
	}
	return nil
}

func (p *gpool) Terminate(reason error) { close(p.dead) }

type caller struct {
	act.Actor
}

type callCmd struct {
	pool gen.PID
	id   string
	w    *world
	done chan struct{}
	// issued is set right before the request goes out (the caller is a process of its own: it may be scheduled late)
	issued *int32
}

func (c *caller) HandleMessage(from gen.PID, message any) error {
	if m, ok := message.(callCmd); ok {
		atomic.StoreInt32(m.issued, 1)
		v, err := c.CallWithTimeout(m.pool, payload{ID: m.id}, 3)
		s := m.id + "="
		if err != nil {
			s += "err:" + err.Error()
		} else if r, ok := v.(reply); ok {
			s += fmt.Sprintf("%d:%s", r.W, r.ID)
		} else {
			s += fmt.Sprintf("?%v", v)
		}
		m.w.mu.Lock()
		m.w.replies = append(m.w.replies, s)
		m.w.mu.Unlock()
		close(m.done)
	}
	return nil
}

type Runner struct {
	Node gen.Node
	Core gen.Core
	mu   sync.Mutex
	Out  *bufio.Writer
	// stats
	Histories, Ops int
}

func StartNode(name string) (gen.Node, error) {
	var opt gen.NodeOptions
	opt.Log.DefaultLogger.Disable = true
	opt.Log.Level = gen.LogLevelDisabled
	opt.Network.Mode = gen.NetworkModeDisabled
	return node.Start(gen.Atom(name), opt, gen.Version{})
}

func (r *Runner) Run(h *History) ([]Line, error) {
	w := &world{workers: map[int]*worker{}}
	gp := &gpool{w: w, size: h.Size, cap: h.Cap, dead: make(chan struct{})}
	ppid, err := r.Node.Spawn(func() gen.ProcessBehavior { return gp }, gen.ProcessOptions{})
	if err != nil {
		return nil, fmt.Errorf("spawn pool: %w", err)
	}
	poolUp := func() bool {
		select {
		case <-gp.dead:
			return false
		default:
			return true
		}
	}
	var callers []gen.PID
	newCaller := func() gen.PID {
		p, _ := r.Node.Spawn(func() gen.ProcessBehavior { return &caller{} }, gen.ProcessOptions{})
		callers = append(callers, p)
		return p
	}
	var pendingCalls []chan struct{}
	snapshot := func() []*worker {
		w.mu.Lock()
		defer w.mu.Unlock()
		idx := make([]int, 0, len(w.workers))
		for i := range w.workers {
			idx = append(idx, i)
		}
		sort.Ints(idx)
		out := make([]*worker, 0, len(idx))
		for _, i := range idx {
			out = append(out, w.workers[i])
		}
		return out
	}
	var issuedFlags []*int32
	quiesce := func() {
		stable := 0
		lastSig := ""
		deadline := time.Now().Add(3 * time.Second)
		for stable < 4 && time.Now().Before(deadline) {
			ok := true
			sig := ""
			for _, f := range issuedFlags {
				if atomic.LoadInt32(f) == 0 {
					ok = false // a caller has not sent its request yet
				}
			}
			if poolUp() {
				if info, err := r.Node.ProcessInfo(ppid); err == nil {
					q := info.MailboxQueues
					if info.State != gen.ProcessStateSleep || q.Main+q.System+q.Urgent > 0 {
						ok = false
					}
				}
			}
			for _, wk := range snapshot() {
				info, err := r.Node.ProcessInfo(wk.PID())
				if err != nil {
					sig += "x"
					continue
				}
				wk.mu.Lock()
				busy := wk.busy
				nh := len(wk.handled)
				wk.mu.Unlock()
				if busy == "" && (info.State != gen.ProcessStateSleep || info.MailboxQueues.Main > 0) {
					ok = false
				}
				sig += fmt.Sprintf("%d/%d/%s;", nh, info.MailboxQueues.Main, busy)
			}
			if ok && sig == lastSig {
				stable++
			} else {
				stable = 0
			}
			lastSig = sig
			time.Sleep(300 * time.Microsecond)
		}
	}
	observe := func(ln *Line) {
		for _, wk := range snapshot() {
			o := WObs{Handled: []string{}}
			// (a process killed inside a callback stays in the table as a zombie until the callback returns: it is not alive)
			if info, err := r.Node.ProcessInfo(wk.PID()); err == nil && info.State != gen.ProcessStateZombee && info.State != gen.ProcessStateTerminated {
				o.Alive = true
				o.QLen = info.MailboxQueues.Main
			}
			wk.mu.Lock()
			o.Handled = append(o.Handled, wk.handled...)
			o.Busy = wk.busy
			wk.mu.Unlock()
			ln.Workers = append(ln.Workers, o)
		}
		w.mu.Lock()
		ln.Replies = append([]string{}, w.replies...)
		w.mu.Unlock()
		ln.PoolUp = poolUp()
	}
	var lines []Line
	quiesce()
	cfg := Line{P: h.ID, Ev: "cfg", Size: h.Size, Cap: h.Cap}
	observe(&cfg)
	lines = append(lines, cfg)
	from := gen.PID{Node: r.Node.Name(), ID: 700001, Creation: r.Node.Creation()}
	seq := 0
	for _, op := range h.Ops {
		ln := Line{P: h.ID, Ev: "op", Op: op.Op, W: op.W, N: op.N}
		ws := snapshot()
		var target *worker
		if op.W >= 1 && op.W <= len(ws) {
			target = ws[op.W-1]
		}
		switch op.Op {
		case "send":
			seq++
			ln.ID = fmt.Sprintf("m%d", seq)
			if err := r.Core.RouteSendPID(from, ppid, gen.MessageOptions{}, payload{ID: ln.ID}); err != nil {
				ln.Res = "err"
			} else {
				ln.Res = "ok"
			}
		case "call":
			seq++
			ln.ID = fmt.Sprintf("m%d", seq)
			done := make(chan struct{})
			pendingCalls = append(pendingCalls, done)
			flag := new(int32)
			issuedFlags = append(issuedFlags, flag)
			r.Node.Send(newCaller(), callCmd{pool: ppid, id: ln.ID, w: w, done: done, issued: flag})
			ln.Res = "ok"
		case "hold":
			if target != nil {
				// forget a release token nobody waited for
				select {
				case <-target.gate:
				default:
				}
				atomic.StoreInt32(&target.hold, 1)
			}
		case "release":
			if target != nil {
				atomic.StoreInt32(&target.hold, 0)
				select {
				case target.gate <- struct{}{}:
				default:
				}
			}
		case "kill":
			if target != nil {
				r.Node.Kill(target.PID())
				// the gate of a killed worker must not keep its goroutine for ever
				atomic.StoreInt32(&target.hold, 0)
				select {
				case target.gate <- struct{}{}:
				default:
				}
			}
		case "killheld":
			// killed while it is kept inside its handler: the process stays a zombie until a later release
			if target != nil {
				r.Node.Kill(target.PID())
			}
		case "add", "remove":
			n := op.N
			d := poolDo{done: make(chan string, 1)}
			if op.Op == "add" {
				d.fn = func(p *gpool) (int64, error) { return p.AddWorkers(n) }
			} else {
				d.fn = func(p *gpool) (int64, error) { return p.RemoveWorkers(n) }
			}
			if err := r.Core.RouteSendPID(from, ppid, gen.MessageOptions{Priority: gen.MessagePriorityHigh}, d); err == nil {
				select {
				case ln.Res = <-d.done:
				case <-time.After(2 * time.Second):
					ln.Res = "hung"
				}
			}
		}
		quiesce()
		observe(&ln)
		lines = append(lines, ln)
		r.Ops++
	}
	// release everything, let the calls finish
	for _, wk := range snapshot() {
		atomic.StoreInt32(&wk.hold, 0)
		select {
		case wk.gate <- struct{}{}:
		default:
		}
	}
	quiesce()
	for _, c := range pendingCalls {
		select {
		case <-c:
		case <-time.After(4 * time.Second):
		}
	}
	end := Line{P: h.ID, Ev: "end"}
	observe(&end)
	lines = append(lines, end)
	r.Node.Kill(ppid)
	for _, wk := range snapshot() {
		r.Node.Kill(wk.PID())
	}
	for _, c := range callers {
		r.Node.Kill(c)
	}
	r.Histories++
	return lines, nil
}

func (r *Runner) RunAll(f *File, par int) error {
	results := make(map[int][]Line)
	var rmu sync.Mutex
	var firstErr error
	sem := make(chan struct{}, par)
	var wg sync.WaitGroup
	for i := range f.Histories {
		h := &f.Histories[i]
		wg.Add(1)
		sem <- struct{}{}
		go func() {
			defer wg.Done()
			defer func() { <-sem }()
			ls, err := r.Run(h)
			rmu.Lock()
			if err != nil && firstErr == nil {
				firstErr = fmt.Errorf("history %d: %w", h.ID, err)
			}
			results[h.ID] = ls
			rmu.Unlock()
		}()
	}
	wg.Wait()
	ids := make([]int, 0, len(results))
	for id := range results {
		ids = append(ids, id)
	}
	sort.Ints(ids)
	for _, id := range ids {
		for i := range results[id] {
			ln := &results[id][i]
			if ln.Workers == nil {
				ln.Workers = []WObs{}
			}
			if ln.Replies == nil {
				ln.Replies = []string{}
			}
			b, _ := json.Marshal(ln)
			r.Out.Write(b)
			r.Out.WriteByte('\n')
		}
	}
	r.Out.Flush()
	return firstErr
}

func Load(path string) (*File, error) {
	b, err := os.ReadFile(path)
	if err != nil {
		return nil, err
	}
	var f File
	if err := json.Unmarshal(b, &f); err != nil {
		return nil, err
	}
	return &f, nil
}
