//go:build verif

// Package replay is the generic plan follower: it drives the threads of a TLC-generated behaviour
// (plan) through the real code under the vsched controller and records one event per granted step.
//
// Model threads are the threads the specification talks about; every other controlled goroutine
// (runners delivering notifications, terminate goroutines ...) is auxiliary and is run to
// quiescence after every model step, so its effects are atomic with the step that caused them -
// which is how the specifications of these families model them.
package replay

import (
	"bufio"
	"encoding/json"
	"math/rand"
	"strings"

	"verif/harness/vsched"
)

type Step struct {
	Th  string
	Act string
	To  string // expected pc after the step ("" = unknown)
}

type Plan struct {
	ID    int        `json:"id"`
	Steps [][]string `json:"steps"` // [thread, action, expected-to]
}

type Event struct {
	P     int               `json:"p"`
	I     int               `json:"i"`
	Ev    string            `json:"ev"` // reset | step | end
	Scn   string            `json:"scn"`
	Th    string            `json:"th"`
	K     string            `json:"k"`
	Act   string            `json:"act"`
	From  string            `json:"from"`
	To    string            `json:"to"`
	Mode  string            `json:"mode"` // plan | div | aux | drain | free
	Stall bool              `json:"stall"`
	New   []string          `json:"new"`
	X     map[string]string `json:"x"` // per-step observations, fixed key set per family
	S     map[string]any    `json:"s"` // projection of the real state after the step, fixed key set per family
}

type Run struct {
	Ctl     *vsched.Ctl
	Scn     string
	Plan    *Plan
	Model   func(label string) bool // is this a model thread?
	From    map[string]string       // action -> "point|point" the thread must be parked at ("" or missing: anywhere)
	Keys    []string                // fixed info keys
	Project func() map[string]any
	// ProjectEnd, if set, computes the projection of the end line (the system is quiescent there)
	ProjectEnd func() map[string]any
	Out        *bufio.Writer
	Seed       int64
	Pre        func(label, action string) // before a planned step is granted
	// results
	Steps, Skipped, Stalls int
	Drifted                bool
	step                   int
}

func (r *Run) emit(e *Event) {
	if e.New == nil {
		e.New = []string{}
	}
	if e.X == nil {
		e.X = map[string]string{}
	}
	for _, k := range r.Keys {
		if _, ok := e.X[k]; !ok {
			e.X[k] = ""
		}
	}
	if e.S == nil {
		e.S = r.Project()
	}
	b, _ := json.Marshal(e)
	r.Out.Write(b)
	r.Out.WriteByte('\n')
}

func (r *Run) matches(action, point string) bool {
	fp, ok := r.From[action]
	if !ok || fp == "" {
		return true
	}
	for _, p := range strings.Split(fp, "|") {
		if p == point {
			return true
		}
	}
	return false
}

func (r *Run) grant(label, action, mode string, expect map[string]string) bool {
	before := map[string]bool{}
	for _, t := range r.Ctl.Threads() {
		before[t.Label] = t.State != vsched.StDone
	}
	sn, _ := r.Ctl.Snap(label)
	from, ok, settled := r.Ctl.Grant(label)
	if !ok {
		return false
	}
	r.step++
	r.Steps++
	after, _ := r.Ctl.Snap(label)
	e := &Event{P: r.Plan.ID, I: r.step, Ev: "step", Th: label, K: sn.Kind, Act: action, From: from, To: after.Point, Mode: mode}
	if !settled {
		e.Stall = true
		r.Stalls++
	}
	for _, t := range r.Ctl.Threads() {
		if t.State != vsched.StDone && !before[t.Label] {
			e.New = append(e.New, t.Label)
			delete(expect, t.Label)
		}
	}
	info := r.Ctl.TakeInfo(label)
	e.X = map[string]string{}
	for k, v := range info {
		if s, ok := v.(string); ok {
			e.X[k] = s
		}
	}
	r.emit(e)
	return true
}

// runAux runs every parked auxiliary thread until none is parked.
func (r *Run) runAux(expect map[string]string) {
	for guard := 0; guard < 2000; guard++ {
		var pick string
		for _, t := range r.Ctl.Threads() {
			if t.State == vsched.StParked && !r.Model(t.Label) {
				pick = t.Label
				break
			}
		}
		if pick == "" {
			return
		}
		r.grant(pick, "", "aux", expect)
	}
}

// Execute follows the plan and then drains everything to quiescence.
func (r *Run) Execute() {
	expect := map[string]string{}
	reset := &Event{P: r.Plan.ID, Ev: "reset", Scn: r.Scn}
	r.emit(reset)
	r.runAux(expect)
	divergent := func() string {
		for _, t := range r.Ctl.Threads() {
			if t.State != vsched.StParked || !r.Model(t.Label) {
				continue
			}
			if want, ok := expect[t.Label]; ok && want != "" && want != t.Point {
				return t.Label
			}
		}
		return ""
	}
	for _, st := range r.Plan.Steps {
		label, action := st[0], st[1]
		if r.Pre != nil {
			r.Pre(label, action)
		}
		sn, ok := r.Ctl.Snap(label)
		if !ok || sn.State != vsched.StParked || !r.matches(action, sn.Point) {
			r.Skipped++
			r.Drifted = true
			continue
		}
		r.grant(label, action, "plan", expect)
		if len(st) > 2 && st[2] != "" {
			expect[label] = st[2]
			if after, _ := r.Ctl.Snap(label); after.Point != st[2] {
				r.Drifted = true
			}
		}
		r.runAux(expect)
		for guard := 0; guard < 200; guard++ {
			d := divergent()
			if d == "" {
				break
			}
			r.Drifted = true
			delete(expect, d)
			r.grant(d, "", "div", expect)
			r.runAux(expect)
		}
	}
	rng := rand.New(rand.NewSource(r.Seed + int64(r.Plan.ID)*7919))
	for guard := 0; guard < 5000; guard++ {
		p := r.Ctl.Parked()
		if len(p) == 0 {
			break
		}
		l := p[rng.Intn(len(p))]
		if r.Pre != nil {
			r.Pre(l, "")
		}
		r.grant(l, "", "drain", expect)
		r.runAux(expect)
	}
	end := &Event{P: r.Plan.ID, I: r.step + 1, Ev: "end"}
	if !r.Ctl.AllDone() {
		end.Stall = true
		r.Stalls++
	}
	if r.Drifted {
		end.Mode = "drift"
	}
	if r.ProjectEnd != nil {
		end.S = r.ProjectEnd()
	}
	r.emit(end)
}
