//go:build verif

// Package cronfam asks the real cron scheduler of a node which minutes it would run a job at
// (gen.Cron.JobSchedule) for enumerated crontab specifications, zones and calendar windows, and
// records the answer per local day for validation by TLC against spec/Cron.tla.
package cronfam

import (
	"bufio"
	"encoding/json"
	"fmt"
	"os"
	"time"
	_ "time/tzdata"

	"ergo.services/ergo/gen"
	"ergo.services/ergo/node"
)

type Item struct {
	K string `json:"k"`
	A int    `json:"a"`
	B int    `json:"b"`
	S int    `json:"s"`
	X bool   `json:"x"` // range written with an explicit "/step"
}

type Field struct {
	Star  bool   `json:"star"`
	Items []Item `json:"items"`
}

type Spec struct {
	Min        Field `json:"min"`
	Hour       Field `json:"hour"`
	Dom        Field `json:"dom"`
	Mon        Field `json:"mon"`
	Dow        Field `json:"dow"`
	Wellformed bool  `json:"wellformed"`
}

type Case struct {
	Str  string `json:"str"`
	Spec Spec   `json:"spec"`
}

type Window struct {
	Zone string `json:"zone"`
	From string `json:"from"` // local date 2006-01-02
	Days int    `json:"days"`
}

type Input struct {
	Cases   []Case   `json:"cases"`
	Windows []Window `json:"windows"`
}

type Line struct {
	Ev       string `json:"ev"`
	Str      string `json:"str"`
	Spec     Spec   `json:"spec"`
	Accepted bool   `json:"accepted"`
	Zone     string `json:"zone"`
	Y        int    `json:"y"`
	M        int    `json:"m"`
	D        int    `json:"d"`
	Regular  bool   `json:"regular"`
	Exist    []int  `json:"exist"`
	Reported []int  `json:"reported"`
}

func fix(f *Field) {
	if f.Items == nil {
		f.Items = []Item{}
	}
}

func StartNode(name string) (gen.Node, error) {
	var opt gen.NodeOptions
	opt.Log.DefaultLogger.Disable = true
	opt.Log.Level = gen.LogLevelDisabled
	opt.Network.Mode = gen.NetworkModeDisabled
	return node.Start(gen.Atom(name), opt, gen.Version{})
}

type dayInfo struct {
	y, m, d int
	exist   []int
	regular bool
	start   time.Time // first UTC minute of the local day
}

func days(loc *time.Location, from string, n int) ([]dayInfo, time.Time, time.Duration, error) {
	t0, err := time.ParseInLocation("2006-01-02", from, loc)
	if err != nil {
		return nil, time.Time{}, 0, err
	}
	// walk UTC minutes from the first minute whose local date is `from`
	start := t0.UTC().Truncate(time.Minute)
	for start.In(loc).Format("2006-01-02") != from {
		start = start.Add(time.Minute)
	}
	var out []dayInfo
	cur := start
	for i := 0; i < n; i++ {
		l := cur.In(loc)
		di := dayInfo{y: l.Year(), m: int(l.Month()), d: l.Day(), start: cur}
		for {
			lt := cur.In(loc)
			if lt.Year() != di.y || int(lt.Month()) != di.m || lt.Day() != di.d {
				break
			}
			di.exist = append(di.exist, lt.Hour()*60+lt.Minute())
			cur = cur.Add(time.Minute)
		}
		di.regular = len(di.exist) == 1440
		if di.regular {
			for k, v := range di.exist {
				if v != k {
					di.regular = false
					break
				}
			}
		}
		out = append(out, di)
	}
	return out, start, cur.Sub(start), nil
}

func Run(n gen.Node, in *Input, out *bufio.Writer) (map[string]int, error) {
	st := map[string]int{"cases": 0, "accepted": 0, "days": 0, "fired": 0, "minutes": 0}
	cron := n.Cron()
	type win struct {
		w     Window
		loc   *time.Location
		days  []dayInfo
		start time.Time
		dur   time.Duration
	}
	var wins []win
	for _, w := range in.Windows {
		loc, err := time.LoadLocation(w.Zone)
		if err != nil {
			return nil, fmt.Errorf("zone %s: %w", w.Zone, err)
		}
		ds, start, dur, err := days(loc, w.From, w.Days)
		if err != nil {
			return nil, err
		}
		wins = append(wins, win{w, loc, ds, start, dur})
	}
	emit := func(l *Line) {
		fix(&l.Spec.Min)
		fix(&l.Spec.Hour)
		fix(&l.Spec.Dom)
		fix(&l.Spec.Mon)
		fix(&l.Spec.Dow)
		if l.Exist == nil {
			l.Exist = []int{}
		}
		if l.Reported == nil {
			l.Reported = []int{}
		}
		b, _ := json.Marshal(l)
		out.Write(b)
		out.WriteByte('\n')
	}
	for ci, c := range in.Cases {
		st["cases"]++
		accepted := false
		for wi, w := range wins {
			name := gen.Atom(fmt.Sprintf("j%d_%d", ci, wi))
			job := gen.CronJob{Name: name, Spec: c.Str, Location: w.loc, Action: gen.CreateCronActionMessage(gen.Atom("nobody"), gen.MessagePriorityNormal)}
			err := cron.AddJob(job)
			if wi == 0 {
				accepted = err == nil
				emit(&Line{Ev: "add", Str: c.Str, Spec: c.Spec, Accepted: accepted})
				if accepted {
					st["accepted"]++
				}
			}
			if err != nil {
				continue
			}
			times, err := cron.JobSchedule(name, w.start, w.dur)
			cron.RemoveJob(name)
			if err != nil {
				return nil, err
			}
			k := 0
			for _, di := range w.days {
				end := di.start.Add(time.Duration(len(di.exist)) * time.Minute)
				l := &Line{Ev: "day", Str: c.Str, Spec: c.Spec, Zone: w.w.Zone, Y: di.y, M: di.m, D: di.d, Regular: di.regular}
				if !di.regular {
					l.Exist = di.exist
				}
				for k < len(times) && times[k].Before(end) {
					lt := times[k].In(w.loc)
					l.Reported = append(l.Reported, lt.Hour()*60+lt.Minute())
					k++
				}
				st["days"]++
				st["fired"] += len(l.Reported)
				st["minutes"] += len(di.exist)
				emit(l)
			}
		}
	}
	out.Flush()
	return st, nil
}

func Load(path string) (*Input, error) {
	b, err := os.ReadFile(path)
	if err != nil {
		return nil, err
	}
	var in Input
	if err := json.Unmarshal(b, &in); err != nil {
		return nil, err
	}
	return &in, nil
}

// ---- scheduler histories -------------------------------------------------

type SOp struct {
	Op  string `json:"op"` // add remove enable disable tick
	Job string `json:"job"`
	Due bool   `json:"due"`
}

type SHist struct {
	ID  int   `json:"id"`
	Ops []SOp `json:"ops"`
}

type SInput struct {
	Hists []SHist `json:"hists"`
}

type SLine struct {
	P      int      `json:"p"`
	Ev     string   `json:"ev"`
	Op     string   `json:"op"`
	Job    string   `json:"job"`
	Due    bool     `json:"due"`
	Res    string   `json:"res"`
	NextOk bool     `json:"nextok"`
	Spool  []string `json:"spool"`
	Fired  []string `json:"fired"`
}

type cronSink struct {
	mu    chan struct{}
	fired []string
}

// RunSched executes scheduler histories. A history that contains a "tick" waits for the real minute boundary.
func RunSched(n gen.Node, in *SInput, out *bufio.Writer, onFire func() []string) (map[string]int, error) {
	st := map[string]int{"hists": 0, "ops": 0, "ticks": 0, "retries": 0}
	cron := n.Cron()
	emit := func(l *SLine) {
		if l.Spool == nil {
			l.Spool = []string{}
		}
		if l.Fired == nil {
			l.Fired = []string{}
		}
		b, _ := json.Marshal(l)
		out.Write(b)
		out.WriteByte('\n')
	}
	for _, h := range in.Hists {
		hasTick := false
		for _, op := range h.Ops {
			if op.Op == "tick" {
				hasTick = true
			}
		}
	retry:
		upcoming := time.Now().Add(time.Minute).Truncate(time.Minute)
		if !hasTick && time.Until(upcoming) < 300*time.Millisecond {
			time.Sleep(time.Until(upcoming) + 50*time.Millisecond) // do not straddle a tick
			goto retry
		}
		var lines []SLine
		lines = append(lines, SLine{P: h.ID, Ev: "reset"})
		names := map[string]gen.Atom{}
		never := fmt.Sprintf("%d * * * *", (upcoming.Minute()+30)%60)
		for _, op := range h.Ops {
			nm, ok := names[op.Job]
			if !ok {
				nm = gen.Atom(fmt.Sprintf("%s_%d", op.Job, h.ID))
				names[op.Job] = nm
			}
			l := SLine{P: h.ID, Ev: "op", Op: op.Op, Job: op.Job, Due: op.Due}
			var err error
			switch op.Op {
			case "add":
				spec := never
				if op.Due {
					spec = "* * * * *"
				}
				err = cron.AddJob(gen.CronJob{Name: nm, Spec: spec, Location: time.UTC, Action: gen.CreateCronActionMessage(gen.Atom("vcronsink"), gen.MessagePriorityNormal)})
			case "remove":
				err = cron.RemoveJob(nm)
			case "enable":
				err = cron.EnableJob(nm)
			case "disable":
				err = cron.DisableJob(nm)
			case "tick":
				onFire() // forget earlier arrivals
				time.Sleep(time.Until(upcoming) + 1500*time.Millisecond)
				for _, f := range onFire() {
					for k, v := range names {
						if string(v) == f {
							l.Fired = append(l.Fired, k)
						}
					}
				}
				upcoming = upcoming.Add(time.Minute)
				st["ticks"]++
			}
			l.Res = "ok"
			if err != nil {
				l.Res = "err"
			}
			info := cron.Info()
			l.NextOk = info.Next.Equal(upcoming)
			for _, s := range info.Spool {
				for k, v := range names {
					if v == s {
						l.Spool = append(l.Spool, k)
					}
				}
			}
			lines = append(lines, l)
			st["ops"]++
		}
		for _, nm := range names {
			cron.RemoveJob(nm)
		}
		if !hasTick && !time.Now().Before(upcoming) {
			st["retries"]++
			goto retry // a tick happened meanwhile: the observation is void
		}
		for i := range lines {
			emit(&lines[i])
		}
		st["hists"]++
	}
	out.Flush()
	return st, nil
}
