//go:build verif

package registry

import (
	"fmt"

	"ergo.services/ergo/gen"

	"verif/harness/gated"
)

// IDs exercises the identifier generators of a real node: n references, processes, aliases.
func IDs(node gen.Node, core gen.Core, nrefs, nprocs int) map[string]any {
	out := map[string]any{}
	seen := make(map[gen.Ref]int, nrefs)
	dupAt := -1
	var wraps, changes []int // call numbers at which ID[0] wrapped / ID[1] changed
	var prev gen.Ref
	for i := 1; i <= nrefs; i++ {
		r := core.MakeRef()
		if i > 1 {
			if r.ID[0] < prev.ID[0] && len(wraps) < 2 {
				wraps = append(wraps, i)
			}
			if r.ID[1] != prev.ID[1] && len(changes) < 2 {
				changes = append(changes, i)
			}
		}
		if j, ok := seen[r]; ok && dupAt < 0 {
			dupAt = i
			out["dup_of"] = j
			out["dup_ref"] = r.String()
		}
		seen[r] = i
		prev = r
	}
	out["refs"] = nrefs
	out["dup_at"] = dupAt
	// measured slicing of the real generator: period of word 0 (2^Low) and of word 1 (2^Shift); 0 = not observed
	lowPeriod, shiftPeriod := 0, 0
	if len(wraps) == 2 {
		lowPeriod = wraps[1] - wraps[0]
	}
	if len(changes) == 2 {
		shiftPeriod = changes[1] - changes[0]
	}
	out["low_period"] = lowPeriod
	out["shift_period"] = shiftPeriod
	// pids
	w := &gated.World{}
	pids := map[gen.PID]bool{}
	var last uint64
	mono := true
	var all []gen.PID
	for i := 0; i < nprocs; i++ {
		p, err := node.Spawn(gated.Factory(w, fmt.Sprintf("I%d", i), false, nil), gen.ProcessOptions{})
		if err != nil {
			out["spawn_error"] = err.Error()
			break
		}
		if pids[p] {
			out["pid_dup"] = p.String()
		}
		pids[p] = true
		if p.ID <= last {
			mono = false
		}
		last = p.ID
		all = append(all, p)
	}
	out["pids"] = len(pids)
	out["pid_monotone"] = mono
	// aliases: minted from references
	aliases := map[gen.Alias]bool{}
	adup := ""
	if len(all) > 0 {
		gated.Do(node, all[0], func(s *gated.Scripted) error {
			for i := 0; i < 2000; i++ {
				a, err := s.CreateAlias()
				if err != nil {
					adup = "error:" + err.Error()
					break
				}
				if aliases[a] {
					adup = a.String()
				}
				aliases[a] = true
			}
			return nil
		})
	}
	out["aliases"] = len(aliases)
	out["alias_dup"] = adup
	for _, p := range all {
		node.Kill(p)
	}
	return out
}
