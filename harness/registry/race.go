//go:build verif

// Package registry: name registration races (spec/Registry.tla) and sequential registry histories (spec/RegistryH.tla).
package registry

import (
	"bufio"
	"encoding/json"
	"errors"
	"fmt"
	"os"
	"sort"
	"sync/atomic"
	"time"

	"ergo.services/ergo/gen"
	"ergo.services/ergo/node"

	"verif/harness/gated"
	"verif/harness/replay"
	"verif/harness/vsched"
)

type Registrar struct {
	Tgt  string `json:"tgt"`
	Want string `json:"want"`
	Via  string `json:"via"` // node | self
}

type RaceScenario struct {
	Name       string               `json:"name"`
	Procs      []string             `json:"procs"`
	Names      []string             `json:"names"`
	Registrars map[string]Registrar `json:"registrars"`
	Victim     string               `json:"victim"`
}

type RacePlanFile struct {
	Scenario RaceScenario  `json:"scenario"`
	Plans    []replay.Plan `json:"plans"`
}

type Runner struct {
	Node gen.Node
	Core gen.Core
	TM   gen.TargetManager
	Ctl  *vsched.Ctl
	Out  *bufio.Writer
	Seed int64
	// stats
	Plans, Steps, Drift, Stalls, Skipped int
	seq                                  int
}

func StartNode(name string) (gen.Node, gen.TargetManager, error) {
	var opt gen.NodeOptions
	opt.Log.DefaultLogger.Disable = true
	opt.Log.Level = gen.LogLevelDisabled
	opt.Network.Mode = gen.NetworkModeDisabled
	tm := gen.CreateDefaultTargetManager()
	opt.TargetManager = tm
	n, err := node.Start(gen.Atom(name), opt, gen.Version{})
	return n, tm, err
}

func ResName(err error) string {
	switch {
	case err == nil:
		return "ok"
	case errors.Is(err, gen.ErrTaken):
		return "taken"
	case errors.Is(err, gen.ErrProcessUnknown), errors.Is(err, gen.ErrAliasUnknown), errors.Is(err, gen.ErrEventUnknown), errors.Is(err, gen.ErrNameUnknown):
		return "unknown"
	case errors.Is(err, gen.ErrProcessTerminated):
		return "terminated"
	case errors.Is(err, gen.ErrTargetUnknown):
		return "norel"
	case errors.Is(err, gen.ErrTargetExist):
		return "exist"
	case errors.Is(err, gen.ErrNotAllowed):
		return "notallowed"
	case errors.Is(err, gen.ErrAliasOwner), errors.Is(err, gen.ErrEventOwner):
		return "notowner"
	}
	return "other:" + err.Error()
}

// resolves reports which of the given processes (label -> pid) a name resolves to ("" = none):
// a probe request by name is answered by the process that receives it.
func resolves(core gen.Core, w *gated.World, nodeName gen.Atom, creation int64, name gen.Atom, wait bool) string {
	probe := gen.PID{Node: nodeName, ID: 999998, Creation: creation}
	token := fmt.Sprintf("probe-%s-%d", name, time.Now().UnixNano())
	err := core.RouteSendProcessID(probe, gen.ProcessID{Name: name, Node: nodeName}, gen.MessageOptions{}, token)
	if err != nil {
		if ResName(err) == "terminated" {
			return "!dead" // the name is in the table and points to a terminated process
		}
		return ""
	}
	if !wait {
		return "?live"
	}
	deadline := time.Now().Add(500 * time.Millisecond)
	for time.Now().Before(deadline) {
		for _, n := range w.Snapshot() {
			if n.Kind == "msg" && n.Value == any(token) {
				return n.Who
			}
		}
		time.Sleep(50 * time.Microsecond)
	}
	return "!lost"
}

func (r *Runner) RunRacePlan(scn *RaceScenario, plan *replay.Plan) error {
	r.seq++
	w := &gated.World{}
	procs := map[string]gen.PID{}
	var all []gen.PID
	for _, p := range scn.Procs {
		pid, err := r.Node.Spawn(gated.Factory(w, p, false, nil), gen.ProcessOptions{})
		if err != nil {
			return err
		}
		procs[p] = pid
		all = append(all, pid)
	}
	if err := gated.WaitAsleep(r.Node, all, 2*time.Second); err != nil {
		return err
	}
	names := map[string]gen.Atom{}
	for _, n := range scn.Names {
		names[n] = gen.Atom(fmt.Sprintf("%s_%d", n, r.seq))
	}
	glabels := []string{}
	for g := range scn.Registrars {
		glabels = append(glabels, g)
	}
	sort.Strings(glabels)
	victim := procs[scn.Victim]
	watched := func(subject any) bool {
		switch s := subject.(type) {
		case gen.Process:
			for _, p := range scn.Procs {
				if a := w.Actor(p); a != nil && s == a.Process {
					return true
				}
			}
		case gen.PID:
			for _, pid := range procs {
				if s == pid {
					return true
				}
			}
		}
		return false
	}
	active := map[string]bool{"name.lookup": true, "name.flag": true, "name.store": true, "name.set": true, "name.recheck": true,
		"kill.zombie": true, "unreg.delete": true, "unreg.release": true}
	cfg := vsched.Config{
		Active:      active,
		Watched:     watched,
		SpawnPoints: map[string]string{"run.spawn": "run.begin", "kill.spawn": "kill.tbegin"},
		BeginPoints: map[string]func(c *vsched.Ctl, subject any, spawner string) (string, string){
			"run.begin": func(c *vsched.Ctl, subject any, sp string) (string, string) {
				// the runner woken by the registrar's command executes the registration "via self"
				if len(sp) > 1 && sp[0] == 'D' {
					g := "G" + sp[1:]
					if !c.LiveLocked(g) {
						return g, "G"
					}
				}
				return c.FreeSlot("X"), "X"
			},
			"kill.tbegin": func(c *vsched.Ctl, _ any, _ string) (string, string) { return c.FreeSlot("X"), "X" },
		},
		EndPoints:    map[string]bool{"run.end": true, "kill.tend": true},
		StallTimeout: 2 * time.Second,
	}
	r.Ctl.Reset(cfg)
	r.Ctl.Install()
	for _, g := range glabels {
		g := g
		reg := scn.Registrars[g]
		name := names[reg.Want]
		pid := procs[reg.Tgt]
		if reg.Via == "self" {
			// a driver sends the command; the process registers its own name inside its callback
			r.Ctl.Go("D"+g[1:], "D", func() {
				r.Node.Send(pid, gated.Cmd{Fn: func(s *gated.Scripted) error {
					err := s.RegisterName(name)
					r.Ctl.SetInfo("gres", ResName(err))
					return nil
				}})
			})
		} else {
			r.Ctl.Go(g, "G", func() {
				err := r.Node.RegisterName(name, pid)
				r.Ctl.SetInfo("gres", ResName(err))
			})
		}
	}
	var skipT int32
	r.Ctl.Go("T", "T", func() {
		if atomic.LoadInt32(&skipT) == 1 {
			r.Ctl.SetInfo("tres", "skip")
			return
		}
		err := r.Node.Kill(victim)
		r.Ctl.SetInfo("tres", ResName(err))
	})
	// auto-advance node-side registrars from the virtual start to name.lookup
	for _, g := range glabels {
		if scn.Registrars[g].Via != "self" {
			r.Ctl.Grant(g)
		}
	}
	projectw := func(wait bool) map[string]any {
		owner := map[string]any{}
		for _, n := range scn.Names {
			if wait {
				owner[n] = resolves(r.Core, w, r.Node.Name(), r.Node.Creation(), names[n], true)
			} else {
				owner[n] = "?" // not probed while threads are parked: a probe would wake the process
			}
		}
		intab := map[string]any{}
		pname := map[string]any{}
		for _, p := range scn.Procs {
			if _, err := r.Node.ProcessState(procs[p]); err == nil {
				intab[p] = "T"
			} else {
				intab[p] = "F"
			}
			pn := ""
			if a := w.Actor(p); a != nil {
				for _, n := range scn.Names {
					if a.Name() == names[n] {
						pn = n
					}
				}
			}
			pname[p] = pn
		}
		return map[string]any{"owner": owner, "intab": intab, "pname": pname}
	}
	project := func() map[string]any { return projectw(false) }
	run := &replay.Run{
		Ctl: r.Ctl, Scn: scn.Name, Plan: plan,
		Model: func(l string) bool {
			if l == "T" {
				return true
			}
			_, ok := scn.Registrars[l]
			return ok
		},
		From: map[string]string{"GLookup": "name.lookup", "GFlag": "name.flag", "GStore": "name.store", "GSet": "name.set", "GRecheck": "name.recheck",
			"TStart": "start", "TSkip": "start", "TSwap": "kill.zombie", "TDelete": "unreg.delete", "TName": "unreg.release"},
		Keys:       []string{"gres", "tres"},
		Project:    project,
		ProjectEnd: func() map[string]any { return projectw(true) },
		Out:        r.Out,
		Seed:       r.Seed,
		Pre: func(label, action string) {
			if label == "T" && action == "TSkip" {
				atomic.StoreInt32(&skipT, 1)
			}
			if label == "T" && action == "" {
				if sn, ok := r.Ctl.Snap("T"); ok && sn.Point == "start" {
					atomic.StoreInt32(&skipT, 1)
				}
			}
		},
	}
	run.Execute()
	r.Plans++
	r.Steps += run.Steps
	r.Skipped += run.Skipped
	r.Stalls += run.Stalls
	if run.Drifted {
		r.Drift++
	}
	r.Ctl.Disable()
	r.Ctl.Release(time.Second)
	for _, pid := range procs {
		r.Node.Kill(pid)
	}
	// names leaked by a defective tree must not poison later plans: they are unique per plan (suffix seq)
	return nil
}

func LoadRacePlans(path string) (*RacePlanFile, error) {
	b, err := os.ReadFile(path)
	if err != nil {
		return nil, err
	}
	var pf RacePlanFile
	if err := json.Unmarshal(b, &pf); err != nil {
		return nil, err
	}
	return &pf, nil
}
