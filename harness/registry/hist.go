//go:build verif

package registry

import (
	"sync"

	"ergo.services/ergo/lib"

	"bufio"
	"encoding/json"
	"errors"
	"fmt"
	"os"
	"time"

	"ergo.services/ergo/gen"
	"ergo.services/ergo/node"

	"verif/harness/gated"
)

// Sequential registry histories (C06: complete release on termination): one process creates and deletes aliases, registers and
// unregisters a name and events, links / monitors other processes and unlinks again, and finally terminates; afterwards nothing it
// owned may still resolve and no relation may mention it.

type HOp struct {
	Op string `json:"op"` // alias delalias name unname event unevent link unlink monitor demonitor
	K  int    `json:"k"`  // index (delalias: k-th alias ever created; event/unevent: event number; link..: peer number)
}

type History struct {
	ID   int    `json:"id"`
	Ops  []HOp  `json:"ops"`
	Exit string `json:"exit"` // kill normal abn
}

type HFile struct {
	Histories []History `json:"histories"`
}

type HLine struct {
	P       int      `json:"p"`
	Ops     []HOp    `json:"ops"`
	Res     []string `json:"res"` // result per op
	Exit    string   `json:"exit"`
	Aliases []string `json:"aliases"` // per alias ever created: how a send to it ends after the termination (unknown | terminated | ok ...)
	Mid     []string `json:"mid"`     // per alias ever created: how a send to it ended right before the termination
	MidName string   `json:"midname"` // send to the name right before the termination ("" = none held)
	MidEv   []string `json:"midev"`   // per event held right before the termination: registering it from another process ("taken" expected)
	Rival   []string `json:"rival"`   // results of a rival's attempts to register what the process holds
	Name    string   `json:"name"`    // send to the name after the termination ("" = never registered)
	Events  []string `json:"events"`  // per event ever registered: result of registering it again from another process afterwards
	Notice  []string `json:"notice"`  // claims made at the moment the termination has been announced (the terminating goroutine is parked right after the exit / down signals went out): name first, then every event held
	Rels    int      `json:"rels"`    // relations in the target manager that still mention the terminated process as requester
	RelsT   int      `json:"relst"`   // ... or as target
}

func hres(err error) string {
	switch {
	case err == nil:
		return "ok"
	case errors.Is(err, gen.ErrAliasUnknown):
		return "unknown"
	case errors.Is(err, gen.ErrProcessUnknown), errors.Is(err, gen.ErrNameUnknown):
		return "unknown"
	case errors.Is(err, gen.ErrProcessTerminated):
		return "terminated"
	case errors.Is(err, gen.ErrTaken):
		return "taken"
	case errors.Is(err, gen.ErrEventUnknown):
		return "unknown"
	}
	return "err:" + err.Error()
}

// noticeGate parks the goroutine that terminates the watched process right after its exit / down signals have gone out
// (yield point unreg.name), so that claims can be made at exactly the moment an observer learns of the termination.
type noticeGate struct {
	mu      sync.Mutex
	pid     gen.PID
	parked  chan struct{}
	release chan struct{}
}

var ngate noticeGate

func noticeHook(point string, subject any) {
	if point != "unreg.name" {
		return
	}
	p, ok := subject.(interface{ PID() gen.PID })
	if !ok {
		return
	}
	ngate.mu.Lock()
	if ngate.parked == nil || p.PID() != ngate.pid {
		ngate.mu.Unlock()
		return
	}
	pk, rl := ngate.parked, ngate.release
	ngate.parked = nil
	ngate.mu.Unlock()
	close(pk)
	select {
	case <-rl:
	case <-time.After(2 * time.Second):
	}
}

func RunHistories(nodeName string, f *HFile, out *bufio.Writer) error {
	lib.SetVerifHook(noticeHook)
	defer lib.SetVerifHook(nil)
	var opt gen.NodeOptions
	opt.Log.DefaultLogger.Disable = true
	opt.Log.Level = gen.LogLevelDisabled
	opt.Network.Mode = gen.NetworkModeDisabled
	tm := gen.CreateDefaultTargetManager()
	opt.TargetManager = tm
	n, err := node.Start(gen.Atom(nodeName), opt, gen.Version{})
	if err != nil {
		return err
	}
	defer n.StopForce()
	for hi := range f.Histories {
		h := &f.Histories[hi]
		w := &gated.World{}
		pid, err := n.Spawn(gated.Factory(w, "P", false, nil), gen.ProcessOptions{})
		if err != nil {
			return err
		}
		peers := []gen.PID{}
		for i := 0; i < 3; i++ {
			q, err := n.Spawn(gated.Factory(w, fmt.Sprintf("Q%d", i), true, nil), gen.ProcessOptions{})
			if err != nil {
				return err
			}
			peers = append(peers, q)
		}
		line := HLine{P: h.ID, Ops: h.Ops, Exit: h.Exit}
		var aliases []gen.Alias
		name := gen.Atom("")
		hadName := false
		_ = hadName
		events := map[int]gen.Atom{}
		held := map[int]bool{}
		var evOrder []int
		for _, op := range h.Ops {
			op := op
			var res error
			derr := gated.Do(n, pid, func(s *gated.Scripted) error {
				switch op.Op {
				case "alias":
					a, e := s.CreateAlias()
					if e == nil {
						aliases = append(aliases, a)
					}
					res = e
				case "delalias":
					if op.K >= 1 && op.K <= len(aliases) {
						res = s.DeleteAlias(aliases[op.K-1])
					} else {
						res = errors.New("skip")
					}
				case "name":
					nm := gen.Atom(fmt.Sprintf("hn_%d_%d", h.ID, op.K))
					res = s.RegisterName(nm)
					if res == nil {
						name = nm
					}
				case "unname":
					res = s.UnregisterName()
					if res == nil {
						name = ""
						hadName = true
					}
				case "event":
					ev := gen.Atom(fmt.Sprintf("he_%d_%d", h.ID, op.K))
					_, res = s.RegisterEvent(ev, gen.EventOptions{})
					if res == nil {
						if _, ok := events[op.K]; !ok {
							evOrder = append(evOrder, op.K)
						}
						events[op.K] = ev
						held[op.K] = true
					}
				case "unevent":
					if ev, ok := events[op.K]; ok {
						res = s.UnregisterEvent(ev)
						if res == nil {
							held[op.K] = false
						}
					} else {
						res = errors.New("skip")
					}
				case "rival":
					// handled outside the process (below)
				case "link":
					res = s.LinkPID(peers[op.K%len(peers)])
				case "unlink":
					res = s.UnlinkPID(peers[op.K%len(peers)])
				case "monitor":
					res = s.MonitorPID(peers[op.K%len(peers)])
				case "demonitor":
					res = s.DemonitorPID(peers[op.K%len(peers)])
				}
				return nil
			})
			if derr != nil {
				res = derr
			}
			if op.Op == "rival" {
				// another process tries to take the name and the events the process holds, is refused, and terminates
				rv, _ := n.Spawn(gated.Factory(w, "R", false, nil), gen.ProcessOptions{})
				gated.Do(n, rv, func(s *gated.Scripted) error {
					if name != "" {
						line.Rival = append(line.Rival, hres(s.RegisterName(name)))
					}
					for _, k := range evOrder {
						if held[k] {
							_, e := s.RegisterEvent(events[k], gen.EventOptions{})
							line.Rival = append(line.Rival, hres(e))
						}
					}
					return nil
				})
				if op.K%2 == 0 {
					n.Kill(rv)
				} else {
					n.Send(rv, gated.Cmd{Fn: func(*gated.Scripted) error { return gen.TerminateReasonNormal }})
				}
				for i := 0; i < 2000; i++ {
					if _, err := n.ProcessInfo(rv); err != nil {
						break
					}
					time.Sleep(100 * time.Microsecond)
				}
			}
			line.Res = append(line.Res, hres(res))
		}
		// peers that link / monitor the process (it is the target of these)
		gated.Do(n, peers[2], func(s *gated.Scripted) error { s.MonitorPID(pid); return nil })
		for _, a := range aliases {
			line.Mid = append(line.Mid, hres(n.Send(a, "probe")))
		}
		if name != "" {
			line.MidName = hres(n.Send(gen.ProcessID{Name: name, Node: n.Name()}, "probe"))
		}
		for _, k := range evOrder {
			if held[k] {
				ev := events[k]
				var e error
				gated.Do(n, peers[0], func(s *gated.Scripted) error { _, e = s.RegisterEvent(ev, gen.EventOptions{}); return nil })
				line.MidEv = append(line.MidEv, hres(e))
				if e == nil {
					gated.Do(n, peers[0], func(s *gated.Scripted) error { s.UnregisterEvent(ev); return nil })
				}
			}
		}
		parkedCh, releaseCh := make(chan struct{}), make(chan struct{})
		ngate.mu.Lock()
		ngate.pid, ngate.parked, ngate.release = pid, parkedCh, releaseCh
		ngate.mu.Unlock()
		switch h.Exit {
		case "kill":
			n.Kill(pid)
		case "normal":
			n.Send(pid, gated.Cmd{Fn: func(*gated.Scripted) error { return gen.TerminateReasonNormal }})
		default:
			n.Send(pid, gated.Cmd{Fn: func(*gated.Scripted) error { return errors.New("R:abn") }})
		}
		// the termination has just been announced to links and monitors: what the process owned can be claimed by whoever reacts
		select {
		case <-parkedCh:
			if name != "" {
				e := n.RegisterName(name, peers[0])
				line.Notice = append(line.Notice, hres(e))
				if e == nil {
					n.UnregisterName(name)
				}
			}
			for _, k := range evOrder {
				if held[k] {
					ev := events[k]
					var e error
					gated.Do(n, peers[0], func(s *gated.Scripted) error { _, e = s.RegisterEvent(ev, gen.EventOptions{}); return nil })
					line.Notice = append(line.Notice, hres(e))
					if e == nil {
						gated.Do(n, peers[0], func(s *gated.Scripted) error { s.UnregisterEvent(ev); return nil })
					}
				}
			}
		case <-time.After(time.Second):
			line.Notice = append(line.Notice, "nopark")
		}
		close(releaseCh)
		deadline := time.Now().Add(2 * time.Second)
		for time.Now().Before(deadline) {
			if _, err := n.ProcessInfo(pid); err != nil {
				break
			}
			time.Sleep(100 * time.Microsecond)
		}
		time.Sleep(500 * time.Microsecond)
		for _, a := range aliases {
			line.Aliases = append(line.Aliases, hres(n.Send(a, "probe")))
		}
		if name != "" {
			line.Name = hres(n.Send(gen.ProcessID{Name: name, Node: n.Name()}, "probe"))
		}
		for _, k := range evOrder {
			ev := events[k]
			var e error
			gated.Do(n, peers[0], func(s *gated.Scripted) error { _, e = s.RegisterEvent(ev, gen.EventOptions{}); return nil })
			line.Events = append(line.Events, hres(e))
			if e == nil {
				gated.Do(n, peers[0], func(s *gated.Scripted) error { s.UnregisterEvent(ev); return nil })
			}
		}
		l, m := tm.GetTargetsForConsumer(pid)
		line.Rels = len(l) + len(m)
		line.RelsT = len(tm.GetConsumersForTarget(pid))
		for _, q := range peers {
			n.Kill(q)
		}
		if line.Res == nil {
			line.Res = []string{}
		}
		if line.Aliases == nil {
			line.Aliases = []string{}
		}
		if line.Mid == nil {
			line.Mid = []string{}
		}
		if line.Events == nil {
			line.Events = []string{}
		}
		if line.MidEv == nil {
			line.MidEv = []string{}
		}
		if line.Rival == nil {
			line.Rival = []string{}
		}
		if line.Notice == nil {
			line.Notice = []string{}
		}
		b, _ := json.Marshal(&line)
		out.Write(b)
		out.WriteByte('\n')
	}
	return nil
}

func LoadHistories(path string) (*HFile, error) {
	b, err := os.ReadFile(path)
	if err != nil {
		return nil, err
	}
	var f HFile
	if err := json.Unmarshal(b, &f); err != nil {
		return nil, err
	}
	return &f, nil
}
