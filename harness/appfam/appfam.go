//go:build verif

// Package appfam runs application lifecycle histories on a real node (C17, application part of C10) and records,
// after every operation at quiescence, the state of the application, which members live, the callbacks of an
// instrumented ApplicationBehavior and the return value of the call; TLC validates against spec/AppContract.tla.
package appfam

import (
	"bufio"
	"encoding/json"
	"errors"
	"fmt"
	"os"
	"sort"
	"sync"
	"time"

	"ergo.services/ergo/gen"
	"ergo.services/ergo/lib"
	"ergo.services/ergo/node"

	"verif/harness/gated"
)

type Op struct {
	Op     string `json:"op"` // load start stop stopforce unload fault fault2
	Mode   string `json:"mode"`
	I      int    `json:"i"`
	Reason string `json:"reason"`
	// fault2: member J sits in a handler while member I dies with Reason; J then returns Reason2 from that handler
	J       int     `json:"j"`
	Reason2 string  `json:"reason2"`
	Faults  [][]any `json:"faults"`
}

type History struct {
	ID     int    `json:"id"`
	N      int    `json:"n"`
	Mode   string `json:"mode"`   // default mode of the spec
	FailAt int    `json:"failat"` // member whose Init fails on the FIRST start (0 = none)
	Dep    bool   `json:"dep"`    // depends on a second application (one member)
	Ops    []Op   `json:"ops"`
}

type File struct {
	Histories []History `json:"histories"`
}

type Line struct {
	P        int     `json:"p"`
	Ev       string  `json:"ev"`
	N        int     `json:"n"`
	Mode     string  `json:"mode"`
	FailAt   int     `json:"failat"`
	Dep      bool    `json:"dep"`
	Op       string  `json:"op"`
	OpMode   string  `json:"opmode"`
	I        int     `json:"i"`
	Reason   string  `json:"reason"`
	J        int     `json:"j"`
	Reason2  string  `json:"reason2"`
	Faults   [][]any `json:"faults"`
	Res      string  `json:"res"`
	Held     bool    `json:"held"` // stopunload: a member kept the stop in progress while the unload was tried
	Res2     string  `json:"res2"` // stopunload: result of the ApplicationUnload tried while the stop was in progress
	Hung     bool    `json:"hung"`
	State    string  `json:"state"` // loaded running stopping unloaded
	Alive    []bool  `json:"alive"`
	Group    int     `json:"group"`
	StartCb  int     `json:"startcb"`
	TermCb   int     `json:"termcb"`
	TermWhy  string  `json:"termwhy"`
	StartMd  string  `json:"startmode"`
	InitOrd  []int   `json:"initorder"`
	DepState string  `json:"depstate"`
	DepFirst bool    `json:"depfirst"`
	Orphans  int     `json:"orphans"`
}

type app struct {
	mu       sync.Mutex
	spec     gen.ApplicationSpec
	startCb  int
	termCb   int
	termWhy  string
	startMd  string
	seqStart int64
	w        *gated.World
}

func (a *app) Load(node gen.Node, args ...any) (gen.ApplicationSpec, error) { return a.spec, nil }
func (a *app) Start(mode gen.ApplicationMode) {
	a.mu.Lock()
	a.startCb++
	a.startMd = modeName(mode)
	a.mu.Unlock()
	a.w.Add(gated.Note{Who: string(a.spec.Name), Kind: "appstart"})
}
func (a *app) Terminate(reason error) {
	a.mu.Lock()
	a.termCb++
	a.termWhy = gated.ReasonText(reason)
	a.mu.Unlock()
}

func modeName(m gen.ApplicationMode) string {
	switch m {
	case gen.ApplicationModePermanent:
		return "perm"
	case gen.ApplicationModeTransient:
		return "trans"
	}
	return "temp"
}

func modeOf(s string) gen.ApplicationMode {
	switch s {
	case "perm":
		return gen.ApplicationModePermanent
	case "trans":
		return gen.ApplicationModeTransient
	}
	return gen.ApplicationModeTemporary
}

type Runner struct {
	Node gen.Node
	Out  *bufio.Writer
	// stats
	Histories, Ops int
}

func StartNode(name string) (gen.Node, error) {
	var opt gen.NodeOptions
	opt.Log.DefaultLogger.Disable = true
	opt.Log.Level = gen.LogLevelDisabled
	opt.Network.Mode = gen.NetworkModeDisabled
	return node.Start(gen.Atom(name), opt, gen.Version{})
}

func resName(err error) string {
	switch {
	case err == nil:
		return "ok"
	case errors.Is(err, gen.ErrApplicationRunning):
		return "running"
	case errors.Is(err, gen.ErrApplicationState):
		return "state"
	case errors.Is(err, gen.ErrApplicationStopping):
		return "stopping"
	case errors.Is(err, gen.ErrApplicationUnknown):
		return "unknown"
	case errors.Is(err, gen.ErrApplicationDepends):
		return "depends"
	case errors.Is(err, gen.ErrTaken):
		return "taken"
	}
	return "err:" + err.Error()
}

// withTimeout runs f; reports hung = true if it does not return in time
func withTimeout(d time.Duration, f func() error) (error, bool) {
	ch := make(chan error, 1)
	go func() { ch <- f() }()
	select {
	case e := <-ch:
		return e, false
	case <-time.After(d):
		return nil, true
	}
}

// pgate parks the count-th goroutine that arrives at a yield point of node/application.go for the given application
// (app.store: between the spawn of a member and its entry into the group; app.term.*: inside application.terminate)
type pgate struct {
	point   string
	app     gen.Atom
	count   int
	parked  chan struct{}
	release chan struct{}
}

var (
	pgMu  sync.Mutex
	pgAll []*pgate
)

func arm(point string, app gen.Atom, count int) *pgate {
	g := &pgate{point: point, app: app, count: count, parked: make(chan struct{}), release: make(chan struct{})}
	pgMu.Lock()
	pgAll = append(pgAll, g)
	pgMu.Unlock()
	return g
}

func (g *pgate) disarm() {
	pgMu.Lock()
	for i, x := range pgAll {
		if x == g {
			pgAll = append(pgAll[:i], pgAll[i+1:]...)
			break
		}
	}
	pgMu.Unlock()
}

func storeHook(point string, subject any) {
	name, ok := subject.(gen.Atom)
	if !ok {
		return
	}
	pgMu.Lock()
	var hit *pgate
	for i, g := range pgAll {
		if g.point == point && g.app == name {
			g.count--
			if g.count == 0 {
				hit = g
				pgAll = append(pgAll[:i], pgAll[i+1:]...)
			}
			break
		}
	}
	pgMu.Unlock()
	if hit == nil {
		return
	}
	close(hit.parked)
	select {
	case <-hit.release:
	case <-time.After(3 * time.Second):
	}
}

func (r *Runner) Run(h *History) ([]Line, bool, error) {
	lib.SetVerifHook(storeHook)
	w := &gated.World{}
	suffix := fmt.Sprintf("_%d_%d", os.Getpid()%1000, h.ID)
	var pmu sync.Mutex
	pids := map[int]gen.PID{}
	var depPid gen.PID // the member of the dependency
	firstStart := true
	mk := func(name string, n int, failAt int) *app {
		a := &app{w: w}
		a.spec = gen.ApplicationSpec{Name: gen.Atom(name + suffix), Mode: modeOf(h.Mode)}
		for i := 1; i <= n; i++ {
			i := i
			label := fmt.Sprintf("%s%d", name, i)
			initFn := func(s *gated.Scripted) error {
				w.Add(gated.Note{Who: label, Kind: "init"})
				if name == "m" {
					pmu.Lock()
					fail := firstStart && failAt == i
					if !fail {
						pids[i] = s.PID()
					}
					pmu.Unlock()
					if fail {
						return errors.New("R:initfail")
					}
				} else {
					pmu.Lock()
					depPid = s.PID()
					pmu.Unlock()
				}
				return nil
			}
			a.spec.Group = append(a.spec.Group, gen.ApplicationMemberSpec{Factory: gated.Factory(w, label, false, initFn)})
		}
		return a
	}
	main := mk("m", h.N, h.FailAt)
	var dep *app
	if h.Dep {
		dep = mk("d", 1, 0)
		main.spec.Depends.Applications = []gen.Atom{dep.spec.Name}
	}
	appName := main.spec.Name
	snapshot := func() map[int]gen.PID {
		pmu.Lock()
		defer pmu.Unlock()
		m := map[int]gen.PID{}
		for k, v := range pids {
			m[k] = v
		}
		return m
	}
	quiesce := func() {
		stable := 0
		last := ""
		deadline := time.Now().Add(3 * time.Second)
		for stable < 4 && time.Now().Before(deadline) {
			sig := ""
			ok := true
			if info, err := r.Node.ApplicationInfo(appName); err == nil {
				sig += info.State.String() + fmt.Sprint(len(info.Group))
				if info.State == gen.ApplicationStateStopping {
					ok = false
				}
			}
			for i, p := range snapshot() {
				st, err := r.Node.ProcessState(p)
				if err == nil && st != gen.ProcessStateSleep {
					ok = false
				}
				sig += fmt.Sprintf("%d:%v;", i, err == nil)
			}
			main.mu.Lock()
			sig += fmt.Sprintf("cb%d/%d", main.startCb, main.termCb)
			main.mu.Unlock()
			sig += fmt.Sprint(len(w.Snapshot()))
			if ok && sig == last {
				stable++
			} else {
				stable = 0
			}
			last = sig
			time.Sleep(300 * time.Microsecond)
		}
	}
	observe := func(ln *Line, notesFrom int) {
		if info, err := r.Node.ApplicationInfo(appName); err == nil {
			ln.State = info.State.String()
			ln.Group = len(info.Group)
		} else {
			ln.State = "unloaded"
		}
		cur := snapshot()
		for i := 1; i <= h.N; i++ {
			alive := false
			if p, ok := cur[i]; ok {
				if _, err := r.Node.ProcessState(p); err == nil {
					alive = true
				}
			}
			ln.Alive = append(ln.Alive, alive)
			if alive && ln.State != "running" && ln.State != "stopping" {
				ln.Orphans++
			}
		}
		main.mu.Lock()
		ln.StartCb, ln.TermCb, ln.TermWhy, ln.StartMd = main.startCb, main.termCb, main.termWhy, main.startMd
		main.mu.Unlock()
		if dep != nil {
			if info, err := r.Node.ApplicationInfo(dep.spec.Name); err == nil {
				ln.DepState = info.State.String()
			} else {
				ln.DepState = "unloaded"
			}
		}
		// init order of this step: member indices, and whether the dependency's member was initialised before them
		notes := w.Snapshot()
		ln.DepFirst = true
		seenMember := false
		for _, x := range notes[notesFrom:] {
			if x.Kind != "init" {
				continue
			}
			var idx int
			if n, _ := fmt.Sscanf(x.Who, "m%d", &idx); n == 1 {
				ln.InitOrd = append(ln.InitOrd, idx)
				seenMember = true
			} else if seenMember {
				ln.DepFirst = false
			}
		}
	}
	var lines []Line
	cfg := Line{P: h.ID, Ev: "cfg", N: h.N, Mode: h.Mode, FailAt: h.FailAt, Dep: h.Dep}
	lines = append(lines, cfg)
	hung := false
	for _, op := range h.Ops {
		ln := Line{P: h.ID, Ev: "op", Op: op.Op, OpMode: op.Mode, I: op.I, Reason: op.Reason, Faults: op.Faults, J: op.J, Reason2: op.Reason2}
		notesFrom := len(w.Snapshot())
		var err error
		var hg bool
		switch op.Op {
		case "load":
			_, err = r.Node.ApplicationLoad(main)
			if dep != nil && err == nil {
				r.Node.ApplicationLoad(dep)
			}
		case "unload":
			err = r.Node.ApplicationUnload(appName)
		case "start":
			err, hg = withTimeout(3*time.Second, func() error {
				switch op.Mode {
				case "perm":
					return r.Node.ApplicationStartPermanent(appName, gen.ApplicationOptions{})
				case "trans":
					return r.Node.ApplicationStartTransient(appName, gen.ApplicationOptions{})
				case "temp":
					return r.Node.ApplicationStartTemporary(appName, gen.ApplicationOptions{})
				}
				return r.Node.ApplicationStart(appName, gen.ApplicationOptions{})
			})
			pmu.Lock()
			firstStart = false
			pmu.Unlock()
		case "startdie":
			// member I dies in the window between its spawn and its entry into the application's group; the outcome is that of a
			// start followed by that death
			sg := arm("app.store", appName, op.I)
			pk, rl := sg.parked, sg.release
			done := make(chan error, 1)
			go func() { done <- r.Node.ApplicationStart(appName, gen.ApplicationOptions{}) }()
			select {
			case <-pk:
				ln.Held = true
				if p, ok := snapshot()[op.I]; ok {
					r.Node.Kill(p)
					for i := 0; i < 2000; i++ {
						if _, e := r.Node.ProcessInfo(p); e != nil {
							break
						}
						time.Sleep(100 * time.Microsecond)
					}
				}
			case <-time.After(500 * time.Millisecond):
			}
			sg.disarm()
			close(rl)
			select {
			case err = <-done:
			case <-time.After(3 * time.Second):
				hg = true
			}
			pmu.Lock()
			firstStart = false
			pmu.Unlock()
		case "termrace":
			// member I ends (Reason) and its termination is kept right before it looks whether it was the last one; member J is told to
			// exit meanwhile (by the application in Permanent / Transient mode, else by us) and is kept right after it has left the
			// group; then the first goes on, then the second: two terminations of one run, each finding the group empty
			{
				cur := snapshot()
				pi, oki := cur[op.I]
				pj, okj := cur[op.J]
				if oki && okj && op.I != op.J {
					ga := arm("app.term.last", appName, 1)
					gb := arm("app.term.mode", appName, 2)
					inject(r.Node, pi, op.Reason)
					select {
					case <-ga.parked:
						ln.Held = true
						r.Node.SendExit(pj, gen.TerminateReasonShutdown)
						select {
						case <-gb.parked:
						case <-time.After(300 * time.Millisecond):
						}
					case <-time.After(300 * time.Millisecond):
					}
					ga.disarm()
					close(ga.release)
					time.Sleep(5 * time.Millisecond)
					gb.disarm()
					close(gb.release)
				}
			}
		case "startstop":
			// ApplicationStopForce (Reason = "force") or ApplicationStop arrives while the start is between the spawn of member I and
			// its entry into the group
			{
				sg := arm("app.store", appName, op.I)
				pk, rl := sg.parked, sg.release
				done := make(chan error, 1)
				go func() { done <- r.Node.ApplicationStart(appName, gen.ApplicationOptions{}) }()
				stopDone := make(chan error, 1)
				select {
				case <-pk:
					ln.Held = true
					go func() {
						if op.Reason == "force" {
							stopDone <- r.Node.ApplicationStopForce(appName)
						} else {
							stopDone <- r.Node.ApplicationStopWithTimeout(appName, 2*time.Second)
						}
					}()
					time.Sleep(5 * time.Millisecond)
				case <-time.After(500 * time.Millisecond):
					stopDone <- errors.New("not tried")
				}
				sg.disarm()
				close(rl)
				select {
				case err = <-done:
				case <-time.After(3 * time.Second):
					hg = true
				}
				select {
				case e2 := <-stopDone:
					ln.Res2 = resName(e2)
				case <-time.After(4 * time.Second):
					ln.Res2 = "hung"
				}
				pmu.Lock()
				firstStart = false
				pmu.Unlock()
			}
		case "stop":
			err, hg = withTimeout(8*time.Second, func() error { return r.Node.ApplicationStop(appName) })
		case "stopforce":
			err, hg = withTimeout(3*time.Second, func() error { return r.Node.ApplicationStopForce(appName) })
		case "fault":
			cur := snapshot()
			if p, ok := cur[op.I]; ok {
				inject(r.Node, p, op.Reason)
			}
		case "stopunload":
			// member J is busy in a handler, so ApplicationStop stays in progress; ApplicationUnload is tried in that window
			// (it must be refused); then the member goes on and the stop completes
			cur := snapshot()
			pj, okj := cur[op.J]
			var release chan struct{}
			if okj {
				entered := make(chan struct{})
				release = make(chan struct{})
				parked := false
				if r.Node.Send(pj, gated.Cmd{Fn: func(*gated.Scripted) error { close(entered); <-release; return nil }}) == nil {
					select {
					case <-entered:
						parked = true
					case <-time.After(300 * time.Millisecond):
					}
				}
				if !parked {
					close(release) // (a member that is gone cannot keep anything in progress)
					release = nil
				}
			}
			stopDone := make(chan error, 1)
			go func() { stopDone <- r.Node.ApplicationStop(appName) }()
			ln.Held = release != nil
			if ln.Held {
				time.Sleep(3 * time.Millisecond)
				ln.Res2 = resName(r.Node.ApplicationUnload(appName))
				close(release)
			}
			select {
			case err = <-stopDone:
			case <-time.After(8 * time.Second):
				hg = true
			}
			if !ln.Held {
				// nobody kept the stop in progress: the unload simply follows it
				ln.Res2 = resName(r.Node.ApplicationUnload(appName))
			}
		case "depstopstart":
			// the member of the dependency is busy in a handler, so the stop of the dependency stays in progress; the application
			// itself is started in that window: a dependency that is on its way down is not a running dependency
			if dep != nil {
				if info, e := r.Node.ApplicationInfo(dep.spec.Name); e == nil && info.State == gen.ApplicationStateRunning {
					pmu.Lock()
					dp := depPid
					pmu.Unlock()
					entered, release := make(chan struct{}), make(chan struct{})
					parked := false
					if r.Node.Send(dp, gated.Cmd{Fn: func(*gated.Scripted) error { close(entered); <-release; return nil }}) == nil {
						select {
						case <-entered:
							parked = true
						case <-time.After(300 * time.Millisecond):
						}
					}
					stopDone := make(chan error, 1)
					go func() { stopDone <- r.Node.ApplicationStop(dep.spec.Name) }()
					ln.Held = parked
					if parked {
						time.Sleep(3 * time.Millisecond)
						e2, h2 := withTimeout(3*time.Second, func() error { return r.Node.ApplicationStart(appName, gen.ApplicationOptions{}) })
						ln.Res2 = resName(e2)
						if h2 {
							ln.Res2 = "hung"
						}
					}
					close(release)
					select {
					case <-stopDone:
					case <-time.After(8 * time.Second):
						hg = true
					}
				}
			}
		case "fault2":
			cur := snapshot()
			pi, oki := cur[op.I]
			pj, okj := cur[op.J]
			if oki && okj && op.I != op.J {
				entered, release := make(chan struct{}), make(chan struct{})
				r2 := op.Reason2
				r.Node.Send(pj, gated.Cmd{Fn: func(*gated.Scripted) error {
					close(entered)
					<-release
					switch r2 {
					case "normal":
						return gen.TerminateReasonNormal
					case "shutdown":
						return gen.TerminateReasonShutdown
					}
					return errors.New("R:" + r2)
				}})
				select {
				case <-entered:
				case <-time.After(time.Second):
				}
				inject(r.Node, pi, op.Reason)
				time.Sleep(3 * time.Millisecond)
				close(release)
			} else {
				if oki {
					inject(r.Node, pi, op.Reason)
					quiesce()
				}
				if p, ok := snapshot()[op.J]; ok {
					inject(r.Node, p, op.Reason2)
				}
			}
		}
		if hg {
			ln.Hung = true
			hung = true
		}
		ln.Res = resName(err)
		if !hg {
			quiesce()
		}
		observe(&ln, notesFrom)
		lines = append(lines, ln)
		r.Ops++
		if hg {
			break // the node may be dead-locked: this history ends here (and the process must be replaced)
		}
	}
	lines = append(lines, Line{P: h.ID, Ev: "end"})
	if !hung {
		withTimeout(2*time.Second, func() error { return r.Node.ApplicationStopForce(appName) })
		r.Node.ApplicationUnload(appName)
		if dep != nil {
			withTimeout(2*time.Second, func() error { return r.Node.ApplicationStopForce(dep.spec.Name) })
			r.Node.ApplicationUnload(dep.spec.Name)
		}
		for _, p := range snapshot() {
			r.Node.Kill(p)
		}
	}
	r.Histories++
	return lines, hung, nil
}

func inject(n gen.Node, pid gen.PID, reason string) {
	switch reason {
	case "kill":
		n.Kill(pid)
	case "normal":
		n.Send(pid, gated.Cmd{Fn: func(*gated.Scripted) error { return gen.TerminateReasonNormal }})
	case "shutdown":
		n.Send(pid, gated.Cmd{Fn: func(*gated.Scripted) error { return gen.TerminateReasonShutdown }})
	default:
		rr := reason
		n.Send(pid, gated.Cmd{Fn: func(*gated.Scripted) error { return errors.New("R:" + rr) }})
	}
}

func (r *Runner) RunAll(f *File, from int) (int, error) {
	for i := from; i < len(f.Histories); i++ {
		lines, hung, err := r.Run(&f.Histories[i])
		if err != nil {
			return i, err
		}
		for k := range lines {
			ln := &lines[k]
			if ln.Alive == nil {
				ln.Alive = []bool{}
			}
			if ln.InitOrd == nil {
				ln.InitOrd = []int{}
			}
			if ln.Faults == nil {
				ln.Faults = [][]any{}
			}
			b, _ := json.Marshal(ln)
			r.Out.Write(b)
			r.Out.WriteByte('\n')
		}
		r.Out.Flush()
		if hung {
			return i + 1, errHung
		}
	}
	return len(f.Histories), nil
}

var errHung = errors.New("hung")

func IsHung(err error) bool { return err == errHung }

func Load(path string) (*File, error) {
	b, err := os.ReadFile(path)
	if err != nil {
		return nil, err
	}
	var f File
	if err := json.Unmarshal(b, &f); err != nil {
		return nil, err
	}
	return &f, nil
}

var _ = sort.Ints
