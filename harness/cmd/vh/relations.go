//go:build verif

package main

import (
	"bufio"
	"encoding/json"
	"flag"
	"fmt"
	"os"

	"ergo.services/ergo/gen"

	"verif/harness/relations"
	"verif/harness/vsched"
)

func init() { commands["relations"] = cmdRelations }

func cmdRelations(args []string) int {
	fs := flag.NewFlagSet("relations", flag.ExitOnError)
	plans := fs.String("plans", "", "plan file (json)")
	out := fs.String("out", "", "trace output (ndjson)")
	seed := fs.Int64("seed", 1, "seed")
	name := fs.String("node", "vhrel@localhost", "node name")
	debug := fs.Bool("debug", false, "debug")
	fs.Parse(args)
	pf, err := relations.LoadPlans(*plans)
	if err != nil {
		fmt.Fprintln(os.Stderr, "load:", err)
		return 2
	}
	n, tm, err := relations.StartNode(*name)
	if err != nil {
		fmt.Fprintln(os.Stderr, "node:", err)
		return 2
	}
	defer n.StopForce()
	f, err := os.Create(*out)
	if err != nil {
		fmt.Fprintln(os.Stderr, err)
		return 2
	}
	defer f.Close()
	bw := bufio.NewWriterSize(f, 1<<20)
	defer bw.Flush()
	ctl := vsched.New(vsched.Config{})
	ctl.Debug = *debug
	r := &relations.Runner{Node: n, Core: n.(gen.Core), TM: tm, Ctl: ctl, Out: bw, Seed: *seed}
	for i := range pf.Plans {
		if err := r.RunPlan(&pf.Scenario, &pf.Plans[i]); err != nil {
			fmt.Fprintln(os.Stderr, "plan", pf.Plans[i].ID, ":", err)
			return 2
		}
	}
	ctl.Uninstall()
	st := map[string]any{"plans": r.Plans, "steps": r.Steps, "drift": r.Drift, "stalls": r.Stalls, "skipped": r.Skipped}
	b, _ := json.Marshal(st)
	fmt.Println(string(b))
	return 0
}
