//go:build verif

package main

import (
	"bufio"
	"encoding/json"
	"flag"
	"fmt"
	"os"

	"ergo.services/ergo/gen"

	"verif/harness/cronfam"
	"verif/harness/gated"
)

func init() { commands["cron"] = cmdCron; commands["cronsched"] = cmdCronSched }

func cmdCronSched(args []string) int {
	fs := flag.NewFlagSet("cronsched", flag.ExitOnError)
	in := fs.String("in", "", "histories (json)")
	out := fs.String("out", "", "trace output (ndjson)")
	name := fs.String("node", "vhcrons@localhost", "node name")
	fs.Parse(args)
	b, err := os.ReadFile(*in)
	if err != nil {
		fmt.Fprintln(os.Stderr, err)
		return 2
	}
	var input cronfam.SInput
	if err := json.Unmarshal(b, &input); err != nil {
		fmt.Fprintln(os.Stderr, err)
		return 2
	}
	n, err := cronfam.StartNode(*name)
	if err != nil {
		fmt.Fprintln(os.Stderr, "node:", err)
		return 2
	}
	defer n.StopForce()
	w := &gated.World{}
	if _, err := n.SpawnRegister("vcronsink", gated.Factory(w, "sink", false, nil), gen.ProcessOptions{}); err != nil {
		fmt.Fprintln(os.Stderr, "sink:", err)
		return 2
	}
	seen := 0
	onFire := func() []string {
		notes := w.Snapshot()
		var out []string
		for _, x := range notes[seen:] {
			if mc, ok := x.Value.(gen.MessageCron); ok {
				out = append(out, string(mc.Job))
			}
		}
		seen = len(notes)
		return out
	}
	o, err := os.Create(*out)
	if err != nil {
		fmt.Fprintln(os.Stderr, err)
		return 2
	}
	defer o.Close()
	bw := bufio.NewWriterSize(o, 1<<20)
	st, err := cronfam.RunSched(n, &input, bw, onFire)
	if err != nil {
		fmt.Fprintln(os.Stderr, "run:", err)
		return 2
	}
	sb, _ := json.Marshal(st)
	fmt.Println(string(sb))
	return 0
}

func cmdCron(args []string) int {
	fs := flag.NewFlagSet("cron", flag.ExitOnError)
	in := fs.String("in", "", "cases (json)")
	out := fs.String("out", "", "trace output (ndjson)")
	name := fs.String("node", "vhcron@localhost", "node name")
	fs.Parse(args)
	input, err := cronfam.Load(*in)
	if err != nil {
		fmt.Fprintln(os.Stderr, "load:", err)
		return 2
	}
	n, err := cronfam.StartNode(*name)
	if err != nil {
		fmt.Fprintln(os.Stderr, "node:", err)
		return 2
	}
	defer n.StopForce()
	o, err := os.Create(*out)
	if err != nil {
		fmt.Fprintln(os.Stderr, err)
		return 2
	}
	defer o.Close()
	bw := bufio.NewWriterSize(o, 1<<20)
	st, err := cronfam.Run(n, input, bw)
	if err != nil {
		fmt.Fprintln(os.Stderr, "run:", err)
		return 2
	}
	b, _ := json.Marshal(st)
	fmt.Println(string(b))
	return 0
}
