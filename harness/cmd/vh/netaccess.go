//go:build verif

package main

import (
	"bufio"
	"flag"
	"fmt"
	"os"

	"verif/harness/netfam"
)

func init() { commands["netaccess"] = cmdNetAccess }

func cmdNetAccess(args []string) int {
	fs := flag.NewFlagSet("netaccess", flag.ExitOnError)
	in := fs.String("in", "", "script (json)")
	out := fs.String("out", "", "trace output (ndjson)")
	fs.Parse(args)
	sc, err := netfam.LoadAccScript(*in)
	if err != nil {
		fmt.Fprintln(os.Stderr, "load:", err)
		return 2
	}
	o, err := os.Create(*out)
	if err != nil {
		fmt.Fprintln(os.Stderr, err)
		return 2
	}
	defer o.Close()
	bw := bufio.NewWriterSize(o, 1<<20)
	defer bw.Flush()
	r := &netfam.AccRunner{Out: bw}
	for i := range sc.Cases {
		c := &sc.Cases[i]
		var err error
		switch c.Kind {
		case "cookie":
			err = r.RunCookie(c)
		case "replay":
			err = r.RunReplay(c)
		case "perm":
			err = r.RunPerm(c)
		}
		if err != nil {
			fmt.Fprintln(os.Stderr, "case", c.ID, c.Kind, ":", err)
			return 2
		}
	}
	fmt.Printf("{\"cases\":%d}\n", r.Cases)
	return 0
}
