//go:build verif

package main

import (
	"bufio"
	"encoding/json"
	"flag"
	"fmt"
	"os"

	"verif/harness/supfam"
)

func init() { commands["sup"] = cmdSup }

func cmdSup(args []string) int {
	fs := flag.NewFlagSet("sup", flag.ExitOnError)
	in := fs.String("scenarios", "", "scenario file (json)")
	out := fs.String("out", "", "trace output (ndjson)")
	name := fs.String("node", "vhsup@localhost", "node name")
	par := fs.Int("par", 8, "parallel scenarios")
	fs.Parse(args)
	f, err := supfam.Load(*in)
	if err != nil {
		fmt.Fprintln(os.Stderr, "load:", err)
		return 2
	}
	n, err := supfam.StartNode(*name)
	if err != nil {
		fmt.Fprintln(os.Stderr, "node:", err)
		return 2
	}
	defer n.StopForce()
	o, err := os.Create(*out)
	if err != nil {
		fmt.Fprintln(os.Stderr, err)
		return 2
	}
	defer o.Close()
	bw := bufio.NewWriterSize(o, 1<<20)
	defer bw.Flush()
	r := &supfam.Runner{Node: n, Out: bw}
	if err := r.RunAll(f, *par); err != nil {
		fmt.Fprintln(os.Stderr, "run:", err)
		return 2
	}
	b, _ := json.Marshal(map[string]any{"scenarios": r.Scenarios, "steps": r.Steps})
	fmt.Println(string(b))
	return 0
}
