//go:build verif

package main

import (
	"bufio"
	"flag"
	"fmt"
	"os"

	"verif/harness/netfam"
)

func init() { commands["netdown"] = cmdNetDown }

func cmdNetDown(args []string) int {
	fs := flag.NewFlagSet("netdown", flag.ExitOnError)
	in := fs.String("in", "", "script (json)")
	out := fs.String("out", "", "trace output (ndjson)")
	fs.Parse(args)
	sc, err := netfam.LoadDownScript(*in)
	if err != nil {
		fmt.Fprintln(os.Stderr, "load:", err)
		return 2
	}
	o, err := os.Create(*out)
	if err != nil {
		fmt.Fprintln(os.Stderr, err)
		return 2
	}
	defer o.Close()
	bw := bufio.NewWriterSize(o, 1<<20)
	defer bw.Flush()
	netfam.InstallSlowReq()
	r := &netfam.DownRunner{Out: bw}
	for i := range sc.Down {
		if err := r.RunDown(&sc.Down[i]); err != nil {
			fmt.Fprintln(os.Stderr, "case", sc.Down[i].ID, ":", err)
			return 2
		}
	}
	for i := range sc.Inc {
		if err := r.RunInc(&sc.Inc[i]); err != nil {
			fmt.Fprintln(os.Stderr, "inc case", sc.Inc[i].ID, ":", err)
			return 2
		}
	}
	fmt.Printf("{\"cases\":%d}\n", r.Cases)
	return 0
}
