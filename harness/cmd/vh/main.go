//go:build verif

// vh is the conformance harness binary: one subcommand per specification family.
package main

import (
	"fmt"
	"os"
)

type cmdFn func(args []string) int

var commands = map[string]cmdFn{}

func main() {
	if len(os.Args) < 2 {
		fmt.Fprintln(os.Stderr, "usage: vh <family> [flags]")
		os.Exit(2)
	}
	f, ok := commands[os.Args[1]]
	if !ok {
		fmt.Fprintln(os.Stderr, "unknown family", os.Args[1])
		os.Exit(2)
	}
	os.Exit(f(os.Args[2:]))
}
