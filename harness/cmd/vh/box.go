//go:build verif

package main

import (
	"bufio"
	"flag"
	"fmt"
	"os"

	"verif/harness/boxfam"
)

func init() { commands["box"] = cmdBox }

func cmdBox(args []string) int {
	fs := flag.NewFlagSet("box", flag.ExitOnError)
	in := fs.String("in", "", "cases (json)")
	out := fs.String("out", "", "trace output (ndjson)")
	fs.Parse(args)
	f, err := boxfam.Load(*in)
	if err != nil {
		fmt.Fprintln(os.Stderr, "load:", err)
		return 2
	}
	o, err := os.Create(*out)
	if err != nil {
		fmt.Fprintln(os.Stderr, err)
		return 2
	}
	defer o.Close()
	bw := bufio.NewWriterSize(o, 1<<20)
	defer bw.Flush()
	n, err := boxfam.Start(fmt.Sprintf("box%d@localhost", os.Getpid()))
	if err != nil {
		fmt.Fprintln(os.Stderr, err)
		return 2
	}
	defer n.StopForce()
	r := &boxfam.Runner{Node: n, Out: bw}
	for i := range f.Fallback {
		if err := r.RunFallback(&f.Fallback[i]); err != nil {
			fmt.Fprintln(os.Stderr, "fallback case", f.Fallback[i].ID, ":", err)
			return 2
		}
	}
	for i := range f.Delayed {
		if err := r.RunDelayed(&f.Delayed[i]); err != nil {
			fmt.Fprintln(os.Stderr, "delayed case", f.Delayed[i].ID, ":", err)
			return 2
		}
	}
	fmt.Printf("{\"cases\":%d}\n", len(f.Fallback)+len(f.Delayed))
	return 0
}
