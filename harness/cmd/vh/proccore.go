//go:build verif

package main

import (
	"bufio"
	"encoding/json"
	"flag"
	"fmt"
	"math/rand"
	"os"
	"time"

	"ergo.services/ergo/gen"

	"verif/harness/proccore"
	"verif/harness/vsched"
)

func init() { commands["proccore"] = cmdProcCore }

func cmdProcCore(args []string) int {
	fs := flag.NewFlagSet("proccore", flag.ExitOnError)
	plans := fs.String("plans", "", "plan file (json)")
	out := fs.String("out", "", "trace output (ndjson)")
	seed := fs.Int64("seed", 1, "seed")
	name := fs.String("node", "vhpc@localhost", "node name")
	debug := fs.Bool("debug", false, "debug")
	free := fs.Int("free", 0, "free-running mode: number of executions of the scenario (no controller)")
	hammer := fs.Int("hammer_ms", 0, "high-volume free-running mode: duration in ms")
	order := fs.Int("order", 0, "order histories (process-API senders, parked receiver): number of histories")
	hactors := fs.Int("actors", 8, "hammer: actors")
	hsenders := fs.Int("senders", 3, "hammer: sender goroutines per actor")
	hlimit := fs.Int64("limit", 0, "hammer: mailbox size")
	fs.Parse(args)
	var pf *proccore.PlanFile
	var err error
	if *hammer == 0 && *order == 0 {
		pf, err = proccore.LoadPlans(*plans)
		if err != nil {
			fmt.Fprintln(os.Stderr, "load:", err)
			return 2
		}
	}
	start := proccore.StartNode
	if *order > 0 {
		start = proccore.StartNodeLogging
	}
	n, err := start(*name)
	if err != nil {
		fmt.Fprintln(os.Stderr, "node:", err)
		return 2
	}
	defer n.StopForce()
	f, err := os.Create(*out)
	if err != nil {
		fmt.Fprintln(os.Stderr, err)
		return 2
	}
	defer f.Close()
	bw := bufio.NewWriterSize(f, 1<<20)
	defer bw.Flush()
	ctl := vsched.New(vsched.Config{})
	ctl.Debug = *debug
	r := &proccore.Runner{Node: n, Core: n.(gen.Core), Ctl: ctl, Out: bw, Seed: *seed}
	if *order > 0 {
		if err := r.RunOrder(*order, *seed); err != nil {
			fmt.Fprintln(os.Stderr, "order:", err)
			return 2
		}
		b, _ := json.Marshal(map[string]any{"plans": r.Plans, "steps": r.Steps, "stalls": 0})
		fmt.Println(string(b))
		return 0
	}
	if *hammer > 0 {
		if err := r.Hammer(*hactors, *hsenders, time.Duration(*hammer)*time.Millisecond, *hlimit); err != nil {
			fmt.Fprintln(os.Stderr, "hammer:", err)
			return 2
		}
		b, _ := json.Marshal(map[string]any{"plans": r.Plans, "steps": r.Steps, "stalls": 0})
		fmt.Println(string(b))
		return 0
	}
	if *free > 0 {
		rng := rand.New(rand.NewSource(*seed))
		for i := 0; i < *free; i++ {
			kill := time.Duration(rng.Intn(3000)) * time.Microsecond
			hold := time.Duration(0)
			if rng.Intn(3) == 0 {
				hold = time.Duration(rng.Intn(200)) * time.Microsecond
			}
			if err := r.RunFree(&pf.Scenario, i+1, kill, hold); err != nil {
				fmt.Fprintln(os.Stderr, "free", i, ":", err)
				return 2
			}
		}
		st := map[string]any{"plans": r.Plans, "steps": r.Steps, "stalls": r.Stalls, "max_overlap": r.MaxOverlap}
		b, _ := json.Marshal(st)
		fmt.Println(string(b))
		return 0
	}
	for i := range pf.Plans {
		if err := r.RunPlan(&pf.Scenario, &pf.Plans[i]); err != nil {
			fmt.Fprintln(os.Stderr, "plan", pf.Plans[i].ID, ":", err)
			return 2
		}
	}
	ctl.Uninstall()
	st := map[string]any{"plans": r.Plans, "steps": r.Steps, "drift": r.Drift, "stalls": r.Stalls, "skipped": r.Skipped, "max_overlap": r.MaxOverlap}
	b, _ := json.Marshal(st)
	fmt.Println(string(b))
	return 0
}
