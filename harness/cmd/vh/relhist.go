//go:build verif

package main

import (
	"bufio"
	"flag"
	"fmt"
	"os"

	"verif/harness/relations"
)

func init() { commands["relhist"] = cmdRelHist }

func cmdRelHist(args []string) int {
	fs := flag.NewFlagSet("relhist", flag.ExitOnError)
	in := fs.String("in", "", "histories (json)")
	out := fs.String("out", "", "trace output (ndjson)")
	fs.Parse(args)
	f, err := relations.LoadRelHistories(*in)
	if err != nil {
		fmt.Fprintln(os.Stderr, "load:", err)
		return 2
	}
	o, err := os.Create(*out)
	if err != nil {
		fmt.Fprintln(os.Stderr, err)
		return 2
	}
	defer o.Close()
	bw := bufio.NewWriterSize(o, 1<<20)
	defer bw.Flush()
	if err := relations.RunRelHistories(fmt.Sprintf("relhist%d@localhost", os.Getpid()), f, bw); err != nil {
		fmt.Fprintln(os.Stderr, err)
		return 2
	}
	fmt.Printf("{\"histories\":%d}\n", len(f.Histories))
	return 0
}
