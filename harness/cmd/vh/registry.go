//go:build verif

package main

import (
	"bufio"
	"encoding/json"
	"flag"
	"fmt"
	"os"

	"ergo.services/ergo/gen"

	"verif/harness/registry"
	"verif/harness/vsched"
)

func init() { commands["regrace"] = cmdRegRace; commands["ids"] = cmdIDs }

func cmdIDs(args []string) int {
	fs := flag.NewFlagSet("ids", flag.ExitOnError)
	nrefs := fs.Int("refs", 600000, "references to mint")
	nprocs := fs.Int("procs", 3000, "processes to spawn")
	name := fs.String("node", "vhids@localhost", "node name")
	fs.Parse(args)
	n, _, err := registry.StartNode(*name)
	if err != nil {
		fmt.Fprintln(os.Stderr, "node:", err)
		return 2
	}
	defer n.StopForce()
	out := registry.IDs(n, n.(gen.Core), *nrefs, *nprocs)
	b, _ := json.Marshal(out)
	fmt.Println(string(b))
	return 0
}

func cmdRegRace(args []string) int {
	fs := flag.NewFlagSet("regrace", flag.ExitOnError)
	plans := fs.String("plans", "", "plan file (json)")
	out := fs.String("out", "", "trace output (ndjson)")
	seed := fs.Int64("seed", 1, "seed")
	name := fs.String("node", "vhreg@localhost", "node name")
	debug := fs.Bool("debug", false, "debug")
	fs.Parse(args)
	pf, err := registry.LoadRacePlans(*plans)
	if err != nil {
		fmt.Fprintln(os.Stderr, "load:", err)
		return 2
	}
	n, tm, err := registry.StartNode(*name)
	if err != nil {
		fmt.Fprintln(os.Stderr, "node:", err)
		return 2
	}
	defer n.StopForce()
	f, err := os.Create(*out)
	if err != nil {
		fmt.Fprintln(os.Stderr, err)
		return 2
	}
	defer f.Close()
	bw := bufio.NewWriterSize(f, 1<<20)
	defer bw.Flush()
	ctl := vsched.New(vsched.Config{})
	ctl.Debug = *debug
	r := &registry.Runner{Node: n, Core: n.(gen.Core), TM: tm, Ctl: ctl, Out: bw, Seed: *seed}
	for i := range pf.Plans {
		if err := r.RunRacePlan(&pf.Scenario, &pf.Plans[i]); err != nil {
			fmt.Fprintln(os.Stderr, "plan", pf.Plans[i].ID, ":", err)
			return 2
		}
	}
	ctl.Uninstall()
	st := map[string]any{"plans": r.Plans, "steps": r.Steps, "drift": r.Drift, "stalls": r.Stalls, "skipped": r.Skipped}
	b, _ := json.Marshal(st)
	fmt.Println(string(b))
	return 0
}
