//go:build verif

package main

import (
	"fmt"
	"time"

	"ergo.services/ergo/gen"

	"verif/harness/gated"
	"verif/harness/netfam"
)

func init() { commands["netsmoke"] = cmdNetSmoke }

func cmdNetSmoke(args []string) int {
	p, err := netfam.StartPair(netfam.NodeOpts{Name: "smokea@localhost", Cookie: "c1"}, netfam.NodeOpts{Name: "smokeb@localhost", Cookie: "c1"})
	if err != nil {
		fmt.Println("pair:", err)
		return 2
	}
	defer p.Stop()
	rn, err := p.Connect("c1")
	fmt.Println("connect:", rn != nil, err)
	p.WaitLinks(3, time.Second)
	fmt.Println("links:", len(p.Relay.Live()))
	w := &gated.World{}
	rp, _ := p.B.SpawnRegister("recv", gated.Factory(w, "R", false, nil), gen.ProcessOptions{})
	sp, _ := p.A.Spawn(gated.Factory(w, "S", false, nil), gen.ProcessOptions{})
	var res error
	gated.Do(p.A, sp, func(s *gated.Scripted) error { res = s.Send(rp, "hello"); return nil })
	fmt.Println("send:", res)
	time.Sleep(50 * time.Millisecond)
	for _, n := range w.Snapshot() {
		fmt.Println("note:", n.Who, n.Kind, n.Value, n.From)
	}
	return 0
}
