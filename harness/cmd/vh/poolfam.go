//go:build verif

package main

import (
	"bufio"
	"encoding/json"
	"flag"
	"fmt"
	"os"

	"ergo.services/ergo/gen"

	"verif/harness/poolfam"
)

func init() { commands["pool"] = cmdPool }

func cmdPool(args []string) int {
	fs := flag.NewFlagSet("pool", flag.ExitOnError)
	in := fs.String("in", "", "histories (json)")
	out := fs.String("out", "", "trace output (ndjson)")
	name := fs.String("node", "vhpool@localhost", "node name")
	par := fs.Int("par", 8, "parallel histories")
	fs.Parse(args)
	f, err := poolfam.Load(*in)
	if err != nil {
		fmt.Fprintln(os.Stderr, "load:", err)
		return 2
	}
	n, err := poolfam.StartNode(*name)
	if err != nil {
		fmt.Fprintln(os.Stderr, "node:", err)
		return 2
	}
	defer n.StopForce()
	o, err := os.Create(*out)
	if err != nil {
		fmt.Fprintln(os.Stderr, err)
		return 2
	}
	defer o.Close()
	bw := bufio.NewWriterSize(o, 1<<20)
	defer bw.Flush()
	r := &poolfam.Runner{Node: n, Core: n.(gen.Core), Out: bw}
	if err := r.RunAll(f, *par); err != nil {
		fmt.Fprintln(os.Stderr, "run:", err)
		return 2
	}
	b, _ := json.Marshal(map[string]any{"histories": r.Histories, "ops": r.Ops})
	fmt.Println(string(b))
	return 0
}
