//go:build verif

package main

import (
	"bufio"
	"encoding/json"
	"flag"
	"fmt"
	"os"

	"verif/harness/appfam"
)

func init() { commands["app"] = cmdApp }

// exit code 3: a call hung; the histories from index "next" on must be run by a fresh process
func cmdApp(args []string) int {
	fs := flag.NewFlagSet("app", flag.ExitOnError)
	in := fs.String("in", "", "histories (json)")
	out := fs.String("out", "", "trace output (ndjson, appended)")
	name := fs.String("node", "vhapp@localhost", "node name")
	from := fs.Int("from", 0, "first history index")
	fs.Parse(args)
	f, err := appfam.Load(*in)
	if err != nil {
		fmt.Fprintln(os.Stderr, "load:", err)
		return 2
	}
	n, err := appfam.StartNode(*name)
	if err != nil {
		fmt.Fprintln(os.Stderr, "node:", err)
		return 2
	}
	o, err := os.OpenFile(*out, os.O_APPEND|os.O_CREATE|os.O_WRONLY, 0644)
	if err != nil {
		fmt.Fprintln(os.Stderr, err)
		return 2
	}
	defer o.Close()
	bw := bufio.NewWriterSize(o, 1<<20)
	defer bw.Flush()
	r := &appfam.Runner{Node: n, Out: bw}
	next, err := r.RunAll(f, *from)
	b, _ := json.Marshal(map[string]any{"histories": r.Histories, "ops": r.Ops, "next": next})
	fmt.Println(string(b))
	if err != nil {
		if appfam.IsHung(err) {
			return 3
		}
		fmt.Fprintln(os.Stderr, "run:", err)
		return 2
	}
	n.StopForce()
	return 0
}
