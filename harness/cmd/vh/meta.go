//go:build verif

package main

import (
	"bufio"
	"flag"
	"fmt"
	"os"

	"verif/harness/metafam"
)

func init() { commands["meta"] = cmdMeta }

func cmdMeta(args []string) int {
	fs := flag.NewFlagSet("meta", flag.ExitOnError)
	in := fs.String("in", "", "scenarios (json)")
	out := fs.String("out", "", "trace output (ndjson)")
	fs.Parse(args)
	f, err := metafam.Load(*in)
	if err != nil {
		fmt.Fprintln(os.Stderr, "load:", err)
		return 2
	}
	o, err := os.Create(*out)
	if err != nil {
		fmt.Fprintln(os.Stderr, err)
		return 2
	}
	defer o.Close()
	bw := bufio.NewWriterSize(o, 1<<20)
	defer bw.Flush()
	r, err := metafam.NewRunner(bw)
	if err != nil {
		fmt.Fprintln(os.Stderr, err)
		return 2
	}
	defer r.Close()
	parked := 0
	for i := range f.Scenarios {
		if err := r.Run(&f.Scenarios[i]); err != nil {
			fmt.Fprintln(os.Stderr, "scenario", f.Scenarios[i].ID, ":", err)
			return 2
		}
		bw.Flush()
	}
	_ = parked
	fmt.Printf("{\"scenarios\":%d}\n", len(f.Scenarios))
	return 0
}
