//go:build verif

package main

import (
	"bufio"
	"flag"
	"fmt"
	"os"

	"verif/harness/treefam"
)

func init() { commands["tree"] = cmdTree }

func cmdTree(args []string) int {
	fs := flag.NewFlagSet("tree", flag.ExitOnError)
	in := fs.String("in", "", "cases (json)")
	out := fs.String("out", "", "trace output (ndjson)")
	par := fs.Int("par", 8, "cases in parallel")
	fs.Parse(args)
	f, err := treefam.Load(*in)
	if err != nil {
		fmt.Fprintln(os.Stderr, "load:", err)
		return 2
	}
	o, err := os.Create(*out)
	if err != nil {
		fmt.Fprintln(os.Stderr, err)
		return 2
	}
	defer o.Close()
	bw := bufio.NewWriterSize(o, 1<<20)
	defer bw.Flush()
	r := &treefam.Runner{Out: bw}
	if err := r.RunAll(f, *par); err != nil {
		fmt.Fprintln(os.Stderr, err)
		return 2
	}
	fmt.Printf("{\"cases\":%d}\n", len(f.Cases))
	return 0
}
