//go:build verif

package main

import (
	"encoding/json"
	"flag"
	"fmt"
	"os"

	"verif/harness/edffam"
)

func init() { commands["edf"] = cmdEdf }

func cmdEdf(args []string) int {
	fs := flag.NewFlagSet("edf", flag.ExitOnError)
	table := fs.String("table", "", "write the table of registered types, atoms and errors (json)")
	in := fs.String("in", "", "cases (ndjson)")
	out := fs.String("out", "", "observations (ndjson)")
	wire := fs.Bool("wire", false, "send the cases between two real nodes instead of calling the codec")
	fs.Parse(args)
	if err := edffam.Register(); err != nil {
		fmt.Fprintln(os.Stderr, err)
		return 2
	}
	if *table != "" {
		t, err := edffam.Table()
		if err != nil {
			fmt.Fprintln(os.Stderr, err)
			return 2
		}
		b, _ := json.Marshal(map[string]any{"types": t, "meta": edffam.Meta()})
		if err := os.WriteFile(*table, b, 0o644); err != nil {
			fmt.Fprintln(os.Stderr, err)
			return 2
		}
	}
	if *in == "" {
		return 0
	}
	run := edffam.Run
	if *wire {
		run = edffam.RunWire
	}
	n, err := run(*in, *out)
	if err != nil {
		fmt.Fprintln(os.Stderr, err)
		return 2
	}
	fmt.Printf("{\"cases\":%d}\n", n)
	return 0
}
