//go:build verif

package main

import (
	"bufio"
	"encoding/json"
	"flag"
	"fmt"
	"os"
	"time"

	"verif/harness/callfam"
)

func init() { commands["call"] = cmdCall }

func cmdCall(args []string) int {
	fs := flag.NewFlagSet("call", flag.ExitOnError)
	plans := fs.String("plans", "", "plan file (json)")
	out := fs.String("out", "", "trace output (ndjson)")
	name := fs.String("node", "vhcall@localhost", "node name")
	tmo := fs.Int("timeout_ms", 15, "scaled request timeout")
	from := fs.Int("from", 0, "first plan index")
	to := fs.Int("to", -1, "last plan index (exclusive)")
	fs.Parse(args)
	pf, err := callfam.LoadPlans(*plans)
	if err != nil {
		fmt.Fprintln(os.Stderr, "load:", err)
		return 2
	}
	n, err := callfam.StartNode(*name)
	if err != nil {
		fmt.Fprintln(os.Stderr, "node:", err)
		return 2
	}
	defer n.StopForce()
	f, err := os.Create(*out)
	if err != nil {
		fmt.Fprintln(os.Stderr, err)
		return 2
	}
	defer f.Close()
	bw := bufio.NewWriterSize(f, 1<<20)
	defer bw.Flush()
	r := &callfam.Runner{Node: n, Out: bw, Timeout: time.Duration(*tmo) * time.Millisecond}
	end := len(pf.Plans)
	if *to >= 0 && *to < end {
		end = *to
	}
	for i := *from; i < end; i++ {
		if err := r.RunPlan(&pf.Scenario, &pf.Plans[i]); err != nil {
			fmt.Fprintln(os.Stderr, "plan", pf.Plans[i].ID, ":", err)
			return 2
		}
	}
	st := map[string]any{"plans": r.Plans, "calls": r.Calls, "replies": r.Replies, "timeouts": r.Timeouts}
	b, _ := json.Marshal(st)
	fmt.Println(string(b))
	return 0
}
