//go:build verif

package main

import (
	"bufio"
	"flag"
	"fmt"
	"os"

	"verif/harness/registry"
)

func init() { commands["reghist"] = cmdRegHist }

func cmdRegHist(args []string) int {
	fs := flag.NewFlagSet("reghist", flag.ExitOnError)
	in := fs.String("in", "", "histories (json)")
	out := fs.String("out", "", "trace output (ndjson)")
	fs.Parse(args)
	f, err := registry.LoadHistories(*in)
	if err != nil {
		fmt.Fprintln(os.Stderr, "load:", err)
		return 2
	}
	o, err := os.Create(*out)
	if err != nil {
		fmt.Fprintln(os.Stderr, err)
		return 2
	}
	defer o.Close()
	bw := bufio.NewWriterSize(o, 1<<20)
	defer bw.Flush()
	if err := registry.RunHistories(fmt.Sprintf("reghist%d@localhost", os.Getpid()), f, bw); err != nil {
		fmt.Fprintln(os.Stderr, err)
		return 2
	}
	fmt.Printf("{\"histories\":%d}\n", len(f.Histories))
	return 0
}
