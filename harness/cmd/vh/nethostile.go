//go:build verif

package main

import (
	"bufio"
	"flag"
	"fmt"
	"os"

	"verif/harness/netfam"
)

func init() { commands["nethostile"] = cmdNetHostile }

func cmdNetHostile(args []string) int {
	fs := flag.NewFlagSet("nethostile", flag.ExitOnError)
	in := fs.String("in", "", "script (json)")
	out := fs.String("out", "", "trace output (ndjson)")
	fs.Parse(args)
	sc, err := netfam.LoadHostScript(*in)
	if err != nil {
		fmt.Fprintln(os.Stderr, "load:", err)
		return 2
	}
	o, err := os.Create(*out)
	if err != nil {
		fmt.Fprintln(os.Stderr, err)
		return 2
	}
	defer o.Close()
	bw := bufio.NewWriterSize(o, 1<<20)
	defer bw.Flush()
	r := &netfam.HostRunner{Out: bw}
	for i := range sc.Edf {
		if err := r.RunEdf(&sc.Edf[i]); err != nil {
			fmt.Fprintln(os.Stderr, "edf case", sc.Edf[i].ID, ":", err)
			return 2
		}
	}
	for i := range sc.Live {
		// the case about to run is on disk before it runs: a crash of the process names it
		fmt.Fprintf(os.Stderr, "LIVE %d %s %s %d\n", sc.Live[i].ID, sc.Live[i].Frame, sc.Live[i].Mut, sc.Live[i].Arg)
		if err := r.RunLive(&sc.Live[i]); err != nil {
			fmt.Fprintln(os.Stderr, "live case", sc.Live[i].ID, ":", err)
			return 2
		}
	}
	for i := range sc.Hs {
		fmt.Fprintf(os.Stderr, "LIVE %d handshake message %s %d %s %d\n", sc.Hs[i].ID, sc.Hs[i].Dir, sc.Hs[i].Msg, sc.Hs[i].Mut, sc.Hs[i].Arg)
		bw.Flush()
		if err := r.RunHs(&sc.Hs[i]); err != nil {
			if err == netfam.ErrHsHung {
				bw.Flush()
				fmt.Printf("{\"cases\":%d}\n", r.Cases)
				os.Exit(0) // (a goroutine of the hung node may be spinning: leave at once)
			}
			fmt.Fprintln(os.Stderr, "handshake case", sc.Hs[i].ID, ":", err)
			return 2
		}
	}
	fmt.Printf("{\"cases\":%d}\n", r.Cases)
	return 0
}
