//go:build verif

package main

import (
	"bufio"
	"encoding/json"
	"flag"
	"fmt"
	"os"

	"verif/harness/netfam"
)

func init() { commands["netdeliver"] = cmdNetDeliver }

func cmdNetDeliver(args []string) int {
	fs := flag.NewFlagSet("netdeliver", flag.ExitOnError)
	in := fs.String("in", "", "script (json)")
	out := fs.String("out", "", "trace output (ndjson)")
	fs.Parse(args)
	sc, err := netfam.LoadScript(*in)
	if err != nil {
		fmt.Fprintln(os.Stderr, "load:", err)
		return 2
	}
	o, err := os.Create(*out)
	if err != nil {
		fmt.Fprintln(os.Stderr, err)
		return 2
	}
	defer o.Close()
	bw := bufio.NewWriterSize(o, 1<<20)
	defer bw.Flush()
	r := &netfam.DRunner{Out: bw}
	for i := range sc.Cases {
		if err := r.RunCase(&sc.Cases[i]); err != nil {
			fmt.Fprintln(os.Stderr, "case", sc.Cases[i].ID, ":", err)
			return 2
		}
		bw.Flush()
	}
	for i := range sc.Events {
		if err := r.RunEvents(&sc.Events[i]); err != nil {
			fmt.Fprintln(os.Stderr, "event case", sc.Events[i].ID, ":", err)
			return 2
		}
		bw.Flush()
	}
	b, _ := json.Marshal(map[string]any{"cases": r.Cases, "sends": r.Sends})
	fmt.Println(string(b))
	return 0
}
