//go:build verif

package main

import (
	"bufio"
	"encoding/json"
	"flag"
	"fmt"
	"os"

	"verif/harness/eventfam"
)

func init() { commands["events"] = cmdEvents }

func cmdEvents(args []string) int {
	fs := flag.NewFlagSet("events", flag.ExitOnError)
	in := fs.String("in", "", "histories (json)")
	out := fs.String("out", "", "trace output (ndjson)")
	name := fs.String("node", "vhev@localhost", "node name")
	par := fs.Int("par", 8, "parallel histories")
	fs.Parse(args)
	f, err := eventfam.Load(*in)
	if err != nil {
		fmt.Fprintln(os.Stderr, "load:", err)
		return 2
	}
	n, err := eventfam.StartNode(*name)
	if err != nil {
		fmt.Fprintln(os.Stderr, "node:", err)
		return 2
	}
	defer n.StopForce()
	o, err := os.Create(*out)
	if err != nil {
		fmt.Fprintln(os.Stderr, err)
		return 2
	}
	defer o.Close()
	bw := bufio.NewWriterSize(o, 1<<20)
	defer bw.Flush()
	r := &eventfam.Runner{Node: n, Out: bw}
	if err := r.RunAll(f, *par); err != nil {
		fmt.Fprintln(os.Stderr, "run:", err)
		return 2
	}
	b, _ := json.Marshal(map[string]any{"histories": r.Histories, "ops": r.Ops})
	fmt.Println(string(b))
	return 0
}
