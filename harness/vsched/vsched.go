//go:build verif

// Package vsched is a cooperative scheduler over real goroutines of ergo.
//
// lib.VerifPoint (build tag "verif") calls Ctl.Hook. A goroutine that is
// *controlled* parks at every active yield point until the controller grants
// it one step (run to the next active yield point, or until it ends/blocks).
// Exactly one controlled goroutine runs at a time, so a controlled execution
// is a sequentially consistent interleaving at yield-point granularity and
// its events are totally ordered by the controller's step counter.
package vsched

import (
	"bytes"
	"fmt"
	"runtime"
	"sort"
	"strconv"
	"sync"
	"time"

	"ergo.services/ergo/lib"
)

// Thread states
const (
	StRunning = iota
	StParked
	StBlocked
	StDone
)

type Thread struct {
	Label   string
	Kind    string // S K R T ...
	gid     uint64
	resume  chan struct{}
	State   int
	Point   string
	Subject any
	Stalled bool
	Spawner string // label of the thread that announced the spawn
	Info    map[string]any
}

// Config of one controlled run.
type Config struct {
	// Active yield points: a controlled goroutine parks only at these.
	Active map[string]bool
	// Watched decides whether a subject belongs to the scenario.
	Watched func(subject any) bool
	// SpawnPoints: point announcing that a goroutine is about to be started ->
	// the begin point the new goroutine will report first.
	SpawnPoints map[string]string
	// BeginPoints: begin point -> function producing the label for the adopted goroutine.
	BeginPoints map[string]func(c *Ctl, subject any, spawner string) (label, kind string)
	// EndPoints: deferred hooks reporting that an adopted goroutine is finished.
	EndPoints map[string]bool
	// BlockPoints: the goroutine is about to block in a select/chan op (counts as parked-blocked);
	// UnblockPoints: it is running again.
	BlockPoints   map[string]bool
	UnblockPoints map[string]bool
	// StallTimeout: how long Settle waits for a granted thread.
	StallTimeout time.Duration
}

type Ctl struct {
	mu      sync.Mutex
	notify  chan struct{}
	cfg     Config
	byGid   map[uint64]*Thread
	threads map[string]*Thread
	order   []string // labels in creation order
	running int
	pending map[string][]string // begin point -> queue of spawner labels
	npend   int
	Stalls  int
	enabled bool
	// Trace of arrivals for debugging
	Debug bool
}

func New(cfg Config) *Ctl {
	if cfg.StallTimeout == 0 {
		cfg.StallTimeout = 2 * time.Second
	}
	c := &Ctl{cfg: cfg, notify: make(chan struct{}, 1)}
	c.reset()
	return c
}

func (c *Ctl) reset() {
	c.byGid = map[uint64]*Thread{}
	c.threads = map[string]*Thread{}
	c.order = nil
	c.running = 0
	c.pending = map[string][]string{}
	c.npend = 0
}

// Install makes the controller the receiver of lib.VerifPoint.
func (c *Ctl) Install() {
	c.mu.Lock()
	c.enabled = true
	c.mu.Unlock()
	lib.SetVerifHook(c.Hook)
}

// Disable switches to release mode: yield points no longer park (the hook stays installed
// so that adopted goroutines can still report their end).
func (c *Ctl) Disable() {
	c.mu.Lock()
	c.enabled = false
	c.mu.Unlock()
}

func (c *Ctl) Uninstall() {
	c.Disable()
	lib.SetVerifHook(nil)
}

// Reset forgets all threads (they must be done) and installs a new config.
func (c *Ctl) Reset(cfg Config) {
	c.mu.Lock()
	defer c.mu.Unlock()
	if cfg.StallTimeout == 0 {
		cfg.StallTimeout = 2 * time.Second
	}
	c.cfg = cfg
	c.reset()
}

var goroutinePrefix = []byte("goroutine ")

func goid() uint64 {
	var buf [64]byte
	n := runtime.Stack(buf[:], false)
	b := buf[:n]
	b = bytes.TrimPrefix(b, goroutinePrefix)
	i := bytes.IndexByte(b, ' ')
	if i < 0 {
		return 0
	}
	id, _ := strconv.ParseUint(string(b[:i]), 10, 64)
	return id
}

// FreeSlot returns the lowest n >= 1 such that prefix+n is not a live thread label.
func (c *Ctl) FreeSlot(prefix string) string {
	for n := 1; ; n++ {
		l := prefix + strconv.Itoa(n)
		if t, ok := c.threads[l]; !ok || t.State == StDone {
			return l
		}
	}
}

// LiveLocked reports whether a thread with this label exists and is not done.
// Only for use inside BeginPoints callbacks (the controller's lock is held there).
func (c *Ctl) LiveLocked(label string) bool {
	t, ok := c.threads[label]
	return ok && t.State != StDone
}

// Hook is the lib.VerifPoint receiver.
func (c *Ctl) Hook(point string, subject any) {
	gid := goid()
	c.mu.Lock()
	t := c.byGid[gid]
	if !c.enabled {
		// release mode: nobody parks, but adopted goroutines still report their end
		if t != nil && c.cfg.EndPoints[point] {
			c.finish(t)
		}
		c.mu.Unlock()
		return
	}

	// spawn announcements (by anyone) for watched subjects
	if begin, ok := c.cfg.SpawnPoints[point]; ok {
		if c.cfg.Watched == nil || c.cfg.Watched(subject) {
			sp := ""
			if t != nil {
				sp = t.Label
			}
			c.pending[begin] = append(c.pending[begin], sp)
			c.npend++
		}
		c.mu.Unlock()
		return
	}

	if t == nil {
		mk, ok := c.cfg.BeginPoints[point]
		if !ok || (c.cfg.Watched != nil && !c.cfg.Watched(subject)) {
			c.mu.Unlock()
			return
		}
		spawner := ""
		if q := c.pending[point]; len(q) > 0 {
			spawner = q[0]
			c.pending[point] = q[1:]
			c.npend--
		}
		label, kind := mk(c, subject, spawner)
		t = &Thread{Label: label, Kind: kind, gid: gid, resume: make(chan struct{}, 1), Spawner: spawner}
		c.byGid[gid] = t
		if _, seen := c.threads[label]; !seen {
			c.order = append(c.order, label)
		}
		c.threads[label] = t
		// a fresh thread was never counted as running
		t.State = StParked
		t.Point = point
		t.Subject = subject
		if c.Debug {
			fmt.Printf("[vsched] adopt %s at %s (spawner %q)\n", label, point, spawner)
		}
		c.signal()
		if !c.cfg.Active[point] {
			// adopted but does not park here: it runs on as a running thread
			t.State = StRunning
			c.running++
			c.mu.Unlock()
			return
		}
		c.mu.Unlock()
		<-t.resume
		return
	}

	if c.cfg.EndPoints[point] {
		c.finish(t)
		c.mu.Unlock()
		return
	}
	if c.cfg.BlockPoints[point] {
		if t.State == StRunning {
			c.running--
		}
		t.State = StBlocked
		t.Point = point
		c.signal()
		c.mu.Unlock()
		return
	}
	if c.cfg.UnblockPoints[point] {
		if t.State == StBlocked {
			t.State = StRunning
			c.running++
		}
		// falls through to parking if the point is active
	}
	if !c.cfg.Active[point] || (subject != nil && c.cfg.Watched != nil && !c.cfg.Watched(subject)) {
		// not a yield point of this scenario, or about an object the scenario does not watch
		c.mu.Unlock()
		return
	}
	if t.State == StRunning {
		c.running--
	}
	t.State = StParked
	t.Point = point
	t.Subject = subject
	if c.Debug {
		fmt.Printf("[vsched] park %s at %s\n", t.Label, point)
	}
	c.signal()
	c.mu.Unlock()
	<-t.resume
}

// must hold mu
func (c *Ctl) finish(t *Thread) {
	if t.State == StRunning {
		c.running--
	}
	t.State = StDone
	t.Point = "done"
	delete(c.byGid, t.gid)
	if c.Debug {
		fmt.Printf("[vsched] done %s\n", t.Label)
	}
	c.signal()
}

// Yield is an explicit yield point for harness code (gated callbacks).
func (c *Ctl) Yield(point string, subject any) { c.Hook(point, subject) }

// SetInfo attaches a key/value to the calling controlled thread (e.g. result of an op).
func (c *Ctl) SetInfo(key string, val any) {
	gid := goid()
	c.mu.Lock()
	if t := c.byGid[gid]; t != nil {
		if t.Info == nil {
			t.Info = map[string]any{}
		}
		t.Info[key] = val
	}
	c.mu.Unlock()
}

// Go starts a driver thread. It parks at the virtual point "start" before fn runs.
func (c *Ctl) Go(label, kind string, fn func()) {
	t := &Thread{Label: label, Kind: kind, resume: make(chan struct{}, 1), State: StParked, Point: "start"}
	ready := make(chan struct{})
	go func() {
		t.gid = goid()
		c.mu.Lock()
		c.byGid[t.gid] = t
		c.threads[label] = t
		c.order = append(c.order, label)
		c.mu.Unlock()
		close(ready)
		<-t.resume
		defer func() {
			c.mu.Lock()
			c.finish(t)
			c.mu.Unlock()
		}()
		fn()
	}()
	<-ready
}

// Settle waits until no controlled thread is running and no announced spawn is pending.
// Returns false if the stall timeout expired (the running threads are marked stalled).
func (c *Ctl) Settle() bool {
	deadline := time.Now().Add(c.cfg.StallTimeout)
	for {
		c.mu.Lock()
		if c.running <= 0 && c.npend <= 0 {
			c.mu.Unlock()
			return true
		}
		rem := time.Until(deadline)
		if rem <= 0 {
			for _, t := range c.threads {
				if t.State == StRunning {
					t.Stalled = true
					t.State = StBlocked
					t.Point = "stalled"
					c.running--
				}
			}
			for k := range c.pending {
				c.pending[k] = nil
			}
			c.npend = 0
			c.Stalls++
			c.mu.Unlock()
			return false
		}
		c.mu.Unlock()
		select {
		case <-c.notify:
		case <-time.After(rem):
		}
	}
}

func (c *Ctl) signal() {
	select {
	case c.notify <- struct{}{}:
	default:
	}
}

// Snapshot of a thread for the recorder.
type Snap struct {
	Label, Kind, Point string
	State              int
	Stalled            bool
}

func (c *Ctl) Snap(label string) (Snap, bool) {
	c.mu.Lock()
	defer c.mu.Unlock()
	t, ok := c.threads[label]
	if !ok {
		return Snap{}, false
	}
	return Snap{t.Label, t.Kind, t.Point, t.State, t.Stalled}, true
}

// TakeInfo returns and clears the info map of a thread.
func (c *Ctl) TakeInfo(label string) map[string]any {
	c.mu.Lock()
	defer c.mu.Unlock()
	t, ok := c.threads[label]
	if !ok {
		return nil
	}
	m := t.Info
	t.Info = nil
	return m
}

// Threads lists all threads in creation order.
func (c *Ctl) Threads() []Snap {
	c.mu.Lock()
	defer c.mu.Unlock()
	var out []Snap
	for _, l := range c.order {
		t := c.threads[l]
		out = append(out, Snap{t.Label, t.Kind, t.Point, t.State, t.Stalled})
	}
	return out
}

// Parked lists labels of parked threads, sorted.
func (c *Ctl) Parked() []string {
	c.mu.Lock()
	defer c.mu.Unlock()
	var out []string
	for l, t := range c.threads {
		if t.State == StParked {
			out = append(out, l)
		}
	}
	sort.Strings(out)
	return out
}

// Grant lets the parked thread run one step and waits for the system to settle.
// Returns the point it left, and whether the system settled.
func (c *Ctl) Grant(label string) (from string, ok bool, settled bool) {
	c.mu.Lock()
	t, exists := c.threads[label]
	if !exists || t.State != StParked {
		c.mu.Unlock()
		return "", false, true
	}
	from = t.Point
	t.State = StRunning
	c.running++
	c.mu.Unlock()
	t.resume <- struct{}{}
	settled = c.Settle()
	return from, true, settled
}

// AllDone reports whether every thread is done (blocked/stalled threads count as not done).
func (c *Ctl) AllDone() bool {
	c.mu.Lock()
	defer c.mu.Unlock()
	for _, t := range c.threads {
		if t.State != StDone {
			return false
		}
	}
	return true
}

// Release resumes every parked thread without control until everything is done or the timeout expires
// (used for cleanup when a run is abandoned).
func (c *Ctl) Release(timeout time.Duration) bool {
	deadline := time.Now().Add(timeout)
	for time.Now().Before(deadline) {
		p := c.Parked()
		if len(p) == 0 {
			if c.AllDone() {
				return true
			}
			c.mu.Lock()
			nrun, nblk := c.running, 0
			for _, t := range c.threads {
				if t.State == StBlocked {
					nblk++
				}
			}
			c.mu.Unlock()
			if nrun == 0 && nblk > 0 {
				// only blocked threads remain: give them time
				time.Sleep(10 * time.Millisecond)
				continue
			}
			time.Sleep(time.Millisecond)
			continue
		}
		for _, l := range p {
			c.Grant(l)
		}
	}
	return c.AllDone()
}
