//go:build verif

package proccore

import (
	"encoding/json"
	"sync"
	"sync/atomic"
	"time"

	"ergo.services/ergo/act"
	"ergo.services/ergo/gen"
)

// Hammer: free-running high-volume mode. Real parallelism, no controller, no per-message log: each actor
// keeps scheduler-independent witnesses (atomic in-callback counter, per-sender sequence numbers, counts)
// and one summary line per actor is validated by TLC (spec/ProcSum.tla).

type hmsg struct {
	S   int
	Seq uint64
}

type hactor struct {
	act.Actor
	incb     int32
	maxcb    int32
	handled  uint64
	fifoBad  uint64
	last     []uint64
	terms    int32
	reason   atomic.Value
	spin     int
	sink     uint64
	nsenders int
}

func (h *hactor) Init(args ...any) error {
	h.nsenders = args[0].(int)
	h.spin = args[1].(int)
	h.last = make([]uint64, h.nsenders)
	return nil
}

func (h *hactor) HandleMessage(from gen.PID, message any) error {
	n := atomic.AddInt32(&h.incb, 1)
	if n > atomic.LoadInt32(&h.maxcb) {
		atomic.StoreInt32(&h.maxcb, n)
	}
	m := message.(hmsg)
	if m.Seq != h.last[m.S]+1 {
		h.fifoBad++
	}
	h.last[m.S] = m.Seq
	h.handled++
	for i := 0; i < h.spin; i++ {
		h.sink += uint64(i)
	}
	atomic.AddInt32(&h.incb, -1)
	return nil
}

func (h *hactor) Terminate(reason error) {
	n := atomic.AddInt32(&h.incb, 1)
	if n > atomic.LoadInt32(&h.maxcb) {
		atomic.StoreInt32(&h.maxcb, n)
	}
	atomic.AddInt32(&h.terms, 1)
	h.reason.Store(classify(reason))
	atomic.AddInt32(&h.incb, -1)
}

type Summary struct {
	P       int    `json:"p"`
	Ev      string `json:"ev"`
	Senders int    `json:"senders"`
	SentOk  uint64 `json:"sent_ok"`
	SentErr uint64 `json:"sent_err"`
	Handled uint64 `json:"handled"`
	MaxCb   int    `json:"maxcb"`
	FifoBad uint64 `json:"fifo_bad"`
	Terms   int    `json:"terms"`
	Reason  string `json:"reason"`
	State   string `json:"st"`
	QLen    int64  `json:"qlen"`
	Limit   int64  `json:"limit"`
}

func (r *Runner) Hammer(actors, senders int, d time.Duration, limit int64) error {
	type rec struct {
		h   *hactor
		pid gen.PID
		ok  []uint64
		er  []uint64
	}
	var recs []*rec
	for a := 0; a < actors; a++ {
		h := &hactor{}
		spin := 0
		if a%3 == 1 {
			spin = 200
		}
		pid, err := r.Node.Spawn(func() gen.ProcessBehavior { return h }, gen.ProcessOptions{MailboxSize: limit}, senders, spin)
		if err != nil {
			return err
		}
		recs = append(recs, &rec{h: h, pid: pid, ok: make([]uint64, senders), er: make([]uint64, senders)})
	}
	var wg sync.WaitGroup
	stop := time.Now().Add(d)
	for _, rc := range recs {
		for s := 0; s < senders; s++ {
			rc, s := rc, s
			from := gen.PID{Node: r.Node.Name(), ID: 800000 + uint64(s), Creation: r.Node.Creation()}
			wg.Add(1)
			go func() {
				defer wg.Done()
				var seq uint64
				burst := 1 + s*3
				for time.Now().Before(stop) {
					for b := 0; b < burst; b++ {
						err := r.Core.RouteSendPID(from, rc.pid, gen.MessageOptions{}, hmsg{S: s, Seq: seq + 1})
						if err == nil {
							seq++
							rc.ok[s]++
						} else {
							rc.er[s]++
						}
					}
					// let the receiver fall asleep now and then: the wake-up path is what is being exercised
					if s == 0 {
						time.Sleep(time.Microsecond)
					}
				}
			}()
		}
	}
	wg.Wait()
	// quiescence
	deadline := time.Now().Add(5 * time.Second)
	for time.Now().Before(deadline) {
		busy := false
		for _, rc := range recs {
			st, err := r.Node.ProcessState(rc.pid)
			if err == nil && st != gen.ProcessStateSleep {
				busy = true
			}
		}
		if !busy {
			break
		}
		time.Sleep(time.Millisecond)
	}
	time.Sleep(5 * time.Millisecond)
	for i, rc := range recs {
		s := Summary{P: i + 1, Ev: "summary", Senders: senders, Limit: limit}
		for k := range rc.ok {
			s.SentOk += rc.ok[k]
			s.SentErr += rc.er[k]
		}
		s.Handled = rc.h.handled
		s.MaxCb = int(atomic.LoadInt32(&rc.h.maxcb))
		s.FifoBad = rc.h.fifoBad
		s.Terms = int(atomic.LoadInt32(&rc.h.terms))
		if v := rc.h.reason.Load(); v != nil {
			s.Reason = v.(string)
		}
		if info, err := r.Node.ProcessInfo(rc.pid); err == nil {
			s.State = stateName(info.State)
			q := info.MailboxQueues
			s.QLen = q.Main + q.System + q.Urgent + q.Log
		} else {
			s.State = "gone"
		}
		b, _ := json.Marshal(s)
		r.Out.Write(b)
		r.Out.WriteByte('\n')
		r.Steps += int(s.Handled)
		r.Plans++
		r.Node.Kill(rc.pid)
	}
	r.Out.Flush()
	return nil
}
