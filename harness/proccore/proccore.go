//go:build verif

// Package proccore replays TLC-generated plans of spec/ProcCore.tla on a real ergo node
// and records one event per granted step (ndjson) for trace validation by TLC.
package proccore

import (
	"bufio"
	"encoding/json"
	"errors"
	"fmt"
	"math/rand"
	"os"
	"runtime"
	"strings"
	"sync"
	"sync/atomic"
	"time"

	"ergo.services/ergo/act"
	"ergo.services/ergo/gen"
	"ergo.services/ergo/lib"
	"ergo.services/ergo/node"

	"verif/harness/vsched"
)

// ---- scenario / plan files ----

type Op struct {
	Q    string `json:"q"`
	Kind string `json:"kind"`
	Via  string `json:"via"` // pid (default) | name | alias
}

type Scenario struct {
	Name    string          `json:"name"`
	Senders map[string][]Op `json:"senders"`
	Killers []string        `json:"killers"`
	Runners int             `json:"runners"`
	Limit   int64           `json:"limit"`
	Trap    bool            `json:"trap"`
	Raw     bool            `json:"raw"`   // raw gen.ProcessBehavior instead of act.Actor
	Spawn   bool            `json:"spawn"` // the process is spawned (with a registered name) by thread P during the plan
}

type Plan struct {
	ID    int        `json:"id"`
	Steps [][]string `json:"steps"` // [thread, action]
}

type PlanFile struct {
	Scenario Scenario `json:"scenario"`
	Plans    []Plan   `json:"plans"`
}

// action -> yield point the thread must be parked at
var FromPoint = map[string]string{
	"SLookup": "send.lookup", "SAlive": "send.alive", "SPush": "mpsc.push", "SLink": "mpsc.link", "SWake": "run.wake",
	"RBegin": "run.begin", "RPick": "actor.pick", "RCb": "cb", "RCbCall": "cb", "RWaitEnter": "wait.enter", "RWaitLeave": "wait.leave", "RSleep": "run.sleep", "RRecheck": "run.recheck",
	"RReacquire": "run.reacquire", "RTerm": "run.term|run.zombie", "RUnreg": "unreg.delete", "RTermCb": "term",
	"PStart": "start", "PInitDone": "init", "PRegister": "spawn.register", "PWake": "run.wake",
	"KStart": "start", "KSkip": "start", "KLookup": "kill.lookup", "KZombie": "kill.zombie", "KRestore": "kill.restore",
	"KTerm": "kill.term", "KUnreg": "unreg.delete", "TBegin": "kill.tbegin", "TTermCb": "term",
}

var ActivePoints = []string{
	"send.lookup", "send.alive", "mpsc.push", "mpsc.link", "run.wake",
	"run.begin", "actor.pick", "cb", "wait.enter", "wait.leave", "run.sleep", "run.recheck", "run.reacquire", "run.term", "run.zombie", "run.panic",
	"unreg.delete", "term", "init", "spawn.register",
	"kill.lookup", "kill.zombie", "kill.restore", "kill.term", "kill.tbegin",
}

// ---- payloads ----

type Msg struct {
	ID   string
	Kind string
}

// ---- the process under test ----

type world struct {
	ctl      *vsched.Ctl
	mu       sync.Mutex
	proc     gen.Process // the watched process
	pid      gen.PID
	mbox     gen.ProcessMailbox
	incb     int32 // callbacks currently executing (scheduler independent overlap witness)
	maxcb    int32
	trap     bool
	helper   gen.PID // answers the synchronous requests of "call" handlers
	initGate bool    // Init is a yield point (spawn scenarios)
	name     gen.Atom
	alias    gen.Alias
	mkAlias  bool
	// free-running mode: callbacks append to this log instead of yielding to the controller
	free bool
	fmu  sync.Mutex
	flog []Event
	fseq int64
	hold time.Duration // how long a handler stays inside the callback (free mode)
}

// report tells the recorder that a callback has been entered
func (w *world) report(cb, id, reason string, subject any) {
	if !w.free {
		w.ctl.SetInfo("cb", cb)
		w.ctl.SetInfo("id", id)
		w.ctl.SetInfo("reason", reason)
		point := "cb"
		if cb == "term" {
			point = "term"
		}
		w.ctl.Yield(point, subject)
		return
	}
	w.fmu.Lock()
	w.fseq++
	w.flog = append(w.flog, Event{I: int(w.fseq), Ev: "step", Th: "R", Kind: "R", Cb: cb, ID: id, Reason: reason, Mode: "free",
		InCb: int(atomic.LoadInt32(&w.incb)), MaxCb: int(atomic.LoadInt32(&w.maxcb))})
	w.fmu.Unlock()
	if w.hold > 0 {
		time.Sleep(w.hold)
	} else {
		runtime.Gosched()
	}
}

func (w *world) reportOp(th, op, res string) {
	w.fmu.Lock()
	w.fseq++
	w.flog = append(w.flog, Event{I: int(w.fseq), Ev: "step", Th: th, Kind: th[:1], Op: op, Res: res, Mode: "free",
		InCb: int(atomic.LoadInt32(&w.incb)), MaxCb: int(atomic.LoadInt32(&w.maxcb))})
	w.fmu.Unlock()
}

func (w *world) watched(subject any) bool {
	w.mu.Lock()
	defer w.mu.Unlock()
	if pid, ok := subject.(gen.ProcessID); ok {
		return w.name != "" && pid.Name == w.name
	}
	if w.proc == nil {
		return false
	}
	switch s := subject.(type) {
	case gen.Process:
		return s == w.proc
	case gen.PID:
		return s == w.pid
	case gen.ProcessID:
		return w.name != "" && s.Name == w.name
	case gen.Alias:
		return w.alias != gen.Alias{} && s == w.alias
	case lib.QueueMPSC:
		return s == w.mbox.Main || s == w.mbox.System || s == w.mbox.Urgent || s == w.mbox.Log
	}
	return false
}

func (w *world) enter() {
	n := atomic.AddInt32(&w.incb, 1)
	for {
		m := atomic.LoadInt32(&w.maxcb)
		if n <= m || atomic.CompareAndSwapInt32(&w.maxcb, m, n) {
			break
		}
	}
}
func (w *world) leave() { atomic.AddInt32(&w.incb, -1) }

type gactor struct {
	act.Actor
	w *world
}

func (g *gactor) Init(args ...any) error {
	w := args[0].(*world)
	g.w = w
	w.mu.Lock()
	w.proc = g.Process
	w.pid = g.PID()
	w.mbox = g.Mailbox()
	w.mu.Unlock()
	g.SetTrapExit(w.trap)
	if w.initGate {
		w.enter()
		defer w.leave()
		w.ctl.SetInfo("cb", "init")
		w.ctl.Yield("init", g.Process)
	}
	return nil
}

func idOfReason(err error) string {
	if err == nil {
		return ""
	}
	s := err.Error()
	if i := strings.LastIndex(s, "X:"); i >= 0 {
		return s[i+2:]
	}
	return ""
}

// mkAliasCmd: set-up message (before the plan starts) that makes the process create the alias it is addressed by
type mkAliasCmd struct{}

func (g *gactor) HandleMessage(from gen.PID, message any) (rr error) {
	w := g.w
	if _, ok := message.(mkAliasCmd); ok {
		if a, err := g.CreateAlias(); err == nil {
			w.mu.Lock()
			w.alias = a
			w.mu.Unlock()
		}
		return nil
	}
	w.enter()
	defer w.leave()
	var m Msg
	switch x := message.(type) {
	case Msg:
		m = x
	case gen.MessageExitPID:
		m = Msg{ID: idOfReason(x.Reason), Kind: "exit"}
	default:
		m = Msg{ID: fmt.Sprintf("?%T", message), Kind: "?"}
	}
	w.report("msg", m.ID, "", g.Process)
	switch m.Kind {
	case "call":
		// a synchronous request to a helper that answers at once: the process passes through the wait state
		if w.helper != (gen.PID{}) {
			g.CallWithTimeout(w.helper, "ping", 2)
		}
	case "err":
		return errors.New("E:" + m.ID)
	case "panic":
		panic("P:" + m.ID)
	}
	return nil
}

func (g *gactor) Terminate(reason error) {
	w := g.w
	w.enter()
	defer w.leave()
	w.report("term", "", classify(reason), g.Process)
}

func classify(reason error) string {
	if reason == nil {
		return "nil"
	}
	if errors.Is(reason, gen.TerminateReasonKill) {
		return "kill"
	}
	if errors.Is(reason, gen.TerminateReasonPanic) {
		return "panic"
	}
	s := reason.Error()
	if i := strings.LastIndex(s, "X:"); i >= 0 {
		return "exit:" + s[i+2:]
	}
	if i := strings.LastIndex(s, "E:"); i >= 0 {
		return "err:" + s[i+2:]
	}
	return "other:" + s
}

// ---- recorder ----

type Event struct {
	Plan   int        `json:"p"`
	I      int        `json:"i"`
	Ev     string     `json:"ev"` // reset | step | end
	Scn    string     `json:"scn"`
	Th     string     `json:"th"`
	Kind   string     `json:"k"`
	Act    string     `json:"act"` // planned action ("" when not following the plan)
	From   string     `json:"from"`
	To     string     `json:"to"`
	St     string     `json:"st"`
	Tab    string     `json:"tab"` // "T" | "F"
	QLen   []int64    `json:"ql"`  // urgent system main log
	Vis    [][]string `json:"vis"` // visible ids per queue
	InCb   int        `json:"incb"`
	MaxCb  int        `json:"maxcb"`
	Cb     string     `json:"cb"`     // callback entered by this step: msg | term
	ID     string     `json:"id"`     // message id of the entered handler
	Reason string     `json:"reason"` // reason given to the terminate callback
	Op     string     `json:"op"`     // operation completed by this step
	Res    string     `json:"res"`    // its result
	Mode   string     `json:"mode"`   // plan | div | drain
	Stall  bool       `json:"stall"`
	New    []string   `json:"new"` // threads adopted during this step
}

type Runner struct {
	Node gen.Node
	Core gen.Core
	Ctl  *vsched.Ctl
	Out  *bufio.Writer
	Seed int64
	// statistics
	Plans, Steps, Drift, Stalls, Skipped int
	MaxOverlap                           int
	seq                                  int
	Debug                                bool
	helper                               gen.PID
}

func StartNode(name string) (gen.Node, error) {
	var opt gen.NodeOptions
	opt.Log.DefaultLogger.Disable = true
	opt.Log.Level = gen.LogLevelDisabled
	opt.Network.Mode = gen.NetworkModeDisabled
	return node.Start(gen.Atom(name), opt, gen.Version{})
}

// StartNodeLogging starts a node whose log level lets Debug messages reach process loggers (no default logger).
func StartNodeLogging(name string) (gen.Node, error) {
	var opt gen.NodeOptions
	opt.Log.DefaultLogger.Disable = true
	opt.Log.Level = gen.LogLevelDebug
	opt.Network.Mode = gen.NetworkModeDisabled
	return node.Start(gen.Atom(name), opt, gen.Version{})
}

func stateName(s gen.ProcessState) string {
	switch s {
	case gen.ProcessStateInit:
		return "init"
	case gen.ProcessStateSleep:
		return "sleep"
	case gen.ProcessStateRunning:
		return "running"
	case gen.ProcessStateWaitResponse:
		return "wait"
	case gen.ProcessStateTerminated:
		return "terminated"
	case gen.ProcessStateZombee:
		return "zombee"
	}
	return fmt.Sprintf("state%d", int(s))
}

func visible(q lib.QueueMPSC) []string {
	out := []string{}
	for it := q.Item(); it != nil; it = it.Next() {
		mm, ok := it.Value().(*gen.MailboxMessage)
		if !ok || mm == nil {
			out = append(out, "?")
			continue
		}
		switch x := mm.Message.(type) {
		case Msg:
			out = append(out, x.ID)
		case gen.MessageExitPID:
			out = append(out, idOfReason(x.Reason))
		default:
			out = append(out, "?")
		}
		if len(out) > 64 {
			break
		}
	}
	return out
}

func (r *Runner) project(w *world, e *Event) {
	w.mu.Lock()
	known := w.proc != nil
	w.mu.Unlock()
	if !known {
		// the process does not exist yet (spawn scenarios)
		e.St, e.Tab = "init", "F"
		e.QLen = []int64{0, 0, 0, 0}
		e.Vis = [][]string{{}, {}, {}, {}}
		return
	}
	e.St = stateName(w.proc.State())
	if _, err := r.Node.ProcessState(w.pid); err == nil {
		e.Tab = "T"
	} else {
		e.Tab = "F"
	}
	qs := []lib.QueueMPSC{w.mbox.Urgent, w.mbox.System, w.mbox.Main, w.mbox.Log}
	for _, q := range qs {
		e.QLen = append(e.QLen, q.Len())
		e.Vis = append(e.Vis, visible(q))
	}
	e.InCb = int(atomic.LoadInt32(&w.incb))
	e.MaxCb = int(atomic.LoadInt32(&w.maxcb))
}

func (r *Runner) emit(e *Event) {
	b, _ := json.Marshal(e)
	r.Out.Write(b)
	r.Out.WriteByte('\n')
	// the node may crash at any step when the code under test is defective: keep the trace on disk complete
	r.Out.Flush()
}

func prioOf(q string) gen.MessagePriority {
	switch q {
	case "urgent":
		return gen.MessagePriorityMax
	case "system":
		return gen.MessagePriorityHigh
	}
	return gen.MessagePriorityNormal
}

func resName(err error) string {
	switch err {
	case nil:
		return "ok"
	case gen.ErrProcessUnknown:
		return "unknown"
	case gen.ErrProcessTerminated:
		return "terminated"
	case gen.ErrProcessMailboxFull:
		return "full"
	}
	return "other:" + err.Error()
}

func factory() gen.ProcessBehavior { return &gactor{} }

// RunPlan executes one plan on a fresh process.
func (r *Runner) RunPlan(scn *Scenario, plan *Plan) error {
	w := &world{ctl: r.Ctl, trap: scn.Trap}
	active := map[string]bool{}
	for _, p := range ActivePoints {
		active[p] = true
	}
	known := map[string]bool{}
	cfg := vsched.Config{
		Active:      active,
		Watched:     w.watched,
		SpawnPoints: map[string]string{"run.spawn": "run.begin", "kill.spawn": "kill.tbegin"},
		BeginPoints: map[string]func(c *vsched.Ctl, subject any, spawner string) (string, string){
			"run.begin": func(c *vsched.Ctl, _ any, _ string) (string, string) { return c.FreeSlot("R"), "R" },
			"kill.tbegin": func(c *vsched.Ctl, _ any, sp string) (string, string) {
				if strings.HasPrefix(sp, "K") {
					return "T" + sp[1:], "T"
				}
				return c.FreeSlot("TX"), "T"
			},
		},
		EndPoints:    map[string]bool{"run.end": true, "kill.tend": true},
		StallTimeout: 2 * time.Second,
	}
	r.Ctl.Reset(cfg)
	r.Ctl.Install()
	defer r.Ctl.Uninstall()

	w.helper = r.helperPid()
	opts := gen.ProcessOptions{MailboxSize: scn.Limit}
	var pid gen.PID
	r.seq++
	if scn.Spawn {
		// the process is spawned by the controlled thread P during the plan
		w.initGate = true
		w.name = gen.Atom(fmt.Sprintf("pcj_%d_%d", os.Getpid()%10000, r.seq))
	} else {
		var err error
		byName := false
		for _, ops := range scn.Senders {
			for _, op := range ops {
				byName = byName || op.Via == "name"
				w.mkAlias = w.mkAlias || op.Via == "alias"
			}
		}
		if byName {
			w.name = gen.Atom(fmt.Sprintf("pcn_%d_%d", os.Getpid()%10000, r.seq))
			pid, err = r.Node.SpawnRegister(w.name, factory, opts, w)
		} else {
			pid, err = r.Node.Spawn(factory, opts, w)
		}
		if err != nil {
			return fmt.Errorf("spawn: %w", err)
		}
		// the runner started by spawn() finds an empty mailbox: let it finish
		r.Ctl.Settle()
		for guard := 0; guard < 50 && !r.Ctl.AllDone(); guard++ {
			for _, l := range r.Ctl.Parked() {
				r.Ctl.Grant(l)
			}
		}
		if !r.Ctl.AllDone() {
			return fmt.Errorf("initial runner did not finish")
		}
		if w.mkAlias {
			if err := r.Node.Send(pid, mkAliasCmd{}); err != nil {
				return fmt.Errorf("alias set-up: %w", err)
			}
			r.Ctl.Settle()
			for guard := 0; guard < 200 && !r.Ctl.AllDone(); guard++ {
				for _, l := range r.Ctl.Parked() {
					r.Ctl.Grant(l)
				}
				r.Ctl.Settle()
			}
			w.mu.Lock()
			ok := w.alias != gen.Alias{}
			w.mu.Unlock()
			if !ok || !r.Ctl.AllDone() {
				return fmt.Errorf("alias set-up did not finish")
			}
		}
	}

	// driver threads
	if scn.Spawn {
		known["P"] = true
		r.Ctl.Go("P", "P", func() {
			p, err := r.Node.SpawnRegister(w.name, factory, opts, w)
			if err == nil {
				w.mu.Lock()
				w.pid = p
				w.mu.Unlock()
			}
			r.Ctl.SetInfo("res", resName(err))
		})
	}
	for s, ops := range scn.Senders {
		s, ops := s, ops
		known[s] = true
		from := gen.PID{Node: r.Node.Name(), ID: 900000 + uint64(s[1]-'0'), Creation: r.Node.Creation()}
		r.Ctl.Go(s, "S", func() {
			for i, op := range ops {
				id := fmt.Sprintf("%s:%d", s, i+1)
				var err error
				switch op.Kind {
				case "exit":
					err = r.Core.RouteSendExit(from, pid, errors.New("X:"+id))
				case "exitp":
					err = r.Node.SendExit(pid, errors.New("X:"+id))
				default:
					if op.Via == "name" {
						err = r.Core.RouteSendProcessID(from, gen.ProcessID{Name: w.name, Node: r.Node.Name()}, gen.MessageOptions{Priority: prioOf(op.Q)}, Msg{ID: id, Kind: op.Kind})
					} else if op.Via == "alias" {
						w.mu.Lock()
						al := w.alias
						w.mu.Unlock()
						err = r.Core.RouteSendAlias(from, al, gen.MessageOptions{Priority: prioOf(op.Q)}, Msg{ID: id, Kind: op.Kind})
					} else {
						err = r.Core.RouteSendPID(from, pid, gen.MessageOptions{Priority: prioOf(op.Q)}, Msg{ID: id, Kind: op.Kind})
					}
				}
				r.Ctl.SetInfo("op", id)
				r.Ctl.SetInfo("res", resName(err))
			}
		})
	}
	skip := map[string]*int32{}
	for _, k := range scn.Killers {
		k := k
		known[k] = true
		known["T"+k[1:]] = true
		var f int32
		skip[k] = &f
		r.Ctl.Go(k, "K", func() {
			if atomic.LoadInt32(&f) == 1 {
				r.Ctl.SetInfo("res", "skip")
				return
			}
			// a real yield so that KStart is a step of its own
			err := r.Node.Kill(pid)
			r.Ctl.SetInfo("res", resName(err))
		})
	}
	for i := 1; i <= scn.Runners; i++ {
		known[fmt.Sprintf("R%d", i)] = true
	}
	// auto-advance senders from the virtual start to their first real yield point
	for s := range scn.Senders {
		r.Ctl.Grant(s)
	}

	step := 0
	res := &Event{Plan: plan.ID, Ev: "reset", Scn: scn.Name, New: []string{}}
	r.project(w, res)
	r.emit(res)

	expect := map[string]string{}
	grant := func(label, action, mode string) bool {
		before := map[string]bool{}
		for _, t := range r.Ctl.Threads() {
			before[t.Label] = t.State != vsched.StDone
		}
		sn, _ := r.Ctl.Snap(label)
		from, ok, settled := r.Ctl.Grant(label)
		if !ok {
			return false
		}
		step++
		r.Steps++
		after, _ := r.Ctl.Snap(label)
		e := &Event{Plan: plan.ID, I: step, Ev: "step", Th: label, Kind: sn.Kind, Act: action, From: from, To: after.Point, Mode: mode}
		if !settled {
			e.Stall = true
			r.Stalls++
		}
		for _, t := range r.Ctl.Threads() {
			if t.State != vsched.StDone && !before[t.Label] {
				e.New = append(e.New, t.Label)
				delete(expect, t.Label) // a reused slot label is a new thread
			}
		}
		e.New = append([]string{}, e.New...)
		info := r.Ctl.TakeInfo(label)
		str := func(k string) string {
			if v, ok := info[k].(string); ok {
				return v
			}
			return ""
		}
		e.Cb, e.ID, e.Reason, e.Op, e.Res = str("cb"), str("id"), str("reason"), str("op"), str("res")
		r.project(w, e)
		if e.MaxCb > r.MaxOverlap {
			r.MaxOverlap = e.MaxCb
		}
		r.emit(e)
		return true
	}

	matches := func(action, point string) bool {
		fp, ok := FromPoint[action]
		if !ok {
			return false
		}
		for _, p := range strings.Split(fp, "|") {
			if p == point {
				return true
			}
		}
		return false
	}
	drifted := false
	// a thread is divergent when it is not where the model says it is after its last planned step,
	// or when the model does not know it at all
	divergent := func() string {
		for _, t := range r.Ctl.Threads() {
			if t.State != vsched.StParked {
				continue
			}
			if !known[t.Label] {
				return t.Label
			}
			if want, ok := expect[t.Label]; ok && want != t.Point {
				return t.Label
			}
		}
		return ""
	}

	for _, st := range plan.Steps {
		label, action := st[0], st[1]
		if action == "KSkip" {
			atomic.StoreInt32(skip[label], 1)
		}
		sn, ok := r.Ctl.Snap(label)
		if !ok || sn.State != vsched.StParked || !matches(action, sn.Point) {
			r.Skipped++
			drifted = true
			continue
		}
		grant(label, action, "plan")
		if len(st) > 2 {
			expect[label] = st[2]
			if after, _ := r.Ctl.Snap(label); after.Point != st[2] {
				drifted = true
			}
		}
		// divergence-first: a thread that is not where the model expects it runs ahead of everything else
		for guard := 0; guard < 200; guard++ {
			d := divergent()
			if d == "" {
				break
			}
			drifted = true
			delete(expect, d)
			grant(d, "", "div")
		}
	}
	// drain to quiescence with a seeded fair policy
	rng := rand.New(rand.NewSource(r.Seed + int64(plan.ID)*7919))
	for guard := 0; guard < 2000; guard++ {
		p := r.Ctl.Parked()
		if len(p) == 0 {
			break
		}
		l := p[rng.Intn(len(p))]
		if sn, _ := r.Ctl.Snap(l); sn.Kind == "K" && sn.Point == "start" {
			// a killer the plan never started stays away
			atomic.StoreInt32(skip[l], 1)
		}
		grant(l, "", "drain")
	}
	end := &Event{Plan: plan.ID, I: step + 1, Ev: "end", New: []string{}}
	if !r.Ctl.AllDone() {
		end.Stall = true
		r.Stalls++
	}
	r.project(w, end)
	if drifted {
		r.Drift++
		end.Mode = "drift"
	}
	r.emit(end)
	r.Plans++

	// cleanup outside control
	r.Ctl.Disable()
	r.Ctl.Release(time.Second)
	w.mu.Lock()
	pid = w.pid
	w.mu.Unlock()
	if _, err := r.Node.ProcessState(pid); err == nil {
		r.Node.Kill(pid)
	}
	return nil
}

func LoadPlans(path string) (*PlanFile, error) {
	b, err := os.ReadFile(path)
	if err != nil {
		return nil, err
	}
	var pf PlanFile
	if err := json.Unmarshal(b, &pf); err != nil {
		return nil, err
	}
	return &pf, nil
}

type helperActor struct {
	act.Actor
}

func (h *helperActor) HandleCall(from gen.PID, ref gen.Ref, request any) (any, error) {
	return "pong", nil
}

func (r *Runner) helperPid() gen.PID {
	if r.helper == (gen.PID{}) {
		p, err := r.Node.Spawn(func() gen.ProcessBehavior { return &helperActor{} }, gen.ProcessOptions{})
		if err == nil {
			r.helper = p
		}
	}
	return r.helper
}

// RunFree executes a scenario without the controller: real goroutines, real parallelism.
// Lines are ordered by a counter taken under the recorder's lock at the observation point.
func (r *Runner) RunFree(scn *Scenario, id int, killAfter time.Duration, hold time.Duration) error {
	w := &world{ctl: r.Ctl, trap: scn.Trap, free: true, hold: hold, helper: r.helperPid()}
	opts := gen.ProcessOptions{MailboxSize: scn.Limit}
	pid, err := r.Node.Spawn(factory, opts, w)
	if err != nil {
		return fmt.Errorf("spawn: %w", err)
	}
	time.Sleep(time.Millisecond)
	res := &Event{Plan: id, Ev: "reset", Scn: scn.Name, New: []string{}}
	r.project(w, res)
	r.emit(res)
	var wg sync.WaitGroup
	start := make(chan struct{})
	for s, ops := range scn.Senders {
		s, ops := s, ops
		from := gen.PID{Node: r.Node.Name(), ID: 900000 + uint64(len(s))*1000 + uint64(s[len(s)-1]), Creation: r.Node.Creation()}
		wg.Add(1)
		go func() {
			defer wg.Done()
			<-start
			w.reportOp(s, "", "") // the sender has begun
			for i, op := range ops {
				id := fmt.Sprintf("%s:%d", s, i+1)
				var err error
				switch op.Kind {
				case "exit":
					err = r.Core.RouteSendExit(from, pid, errors.New("X:"+id))
				case "exitp":
					err = r.Node.SendExit(pid, errors.New("X:"+id))
				default:
					err = r.Core.RouteSendPID(from, pid, gen.MessageOptions{Priority: prioOf(op.Q)}, Msg{ID: id, Kind: op.Kind})
				}
				w.reportOp(s, id, resName(err))
			}
		}()
	}
	for _, k := range scn.Killers {
		k := k
		wg.Add(1)
		go func() {
			defer wg.Done()
			<-start
			time.Sleep(killAfter)
			w.reportOp(k, "", "start") // logged before the call: a terminate with reason kill may follow at once
			err := r.Node.Kill(pid)
			w.reportOp(k, "", resName(err))
		}()
	}
	close(start)
	wg.Wait()
	// quiescence: the state word is stable at sleep/terminated and nothing is in a callback
	deadline := time.Now().Add(5 * time.Second)
	stable := 0
	for time.Now().Before(deadline) && stable < 5 {
		st := w.proc.State()
		if (st == gen.ProcessStateSleep || st == gen.ProcessStateTerminated) && atomic.LoadInt32(&w.incb) == 0 {
			stable++
		} else {
			stable = 0
		}
		time.Sleep(2 * time.Millisecond)
	}
	w.fmu.Lock()
	for i := range w.flog {
		e := w.flog[i]
		e.Plan = id
		e.New = []string{}
		e.QLen = []int64{0, 0, 0, 0}
		e.Vis = [][]string{{}, {}, {}, {}}
		e.St = "unknown"
		e.Tab = "?"
		r.emit(&e)
		if e.MaxCb > r.MaxOverlap {
			r.MaxOverlap = e.MaxCb
		}
		r.Steps++
	}
	w.fmu.Unlock()
	end := &Event{Plan: id, I: int(w.fseq) + 1, Ev: "end", New: []string{}, Mode: "free"}
	if stable < 5 {
		end.Stall = true
		r.Stalls++
	}
	r.project(w, end)
	r.emit(end)
	r.Plans++
	if _, err := r.Node.ProcessState(pid); err == nil {
		r.Node.Kill(pid)
	}
	return nil
}
