//go:build verif

package proccore

import (
	"encoding/json"
	"fmt"
	"math/rand"
	"strings"
	"sync"
	"time"

	"ergo.services/ergo/act"
	"ergo.services/ergo/gen"

	"verif/harness/gated"
)

// Order histories (C03, C02): sender PROCESSES use the process API (Send, SendWithPriority, by pid / name / alias,
// including sends that fail) and the node logs to the receiver (registered as a logger) while the receiver is parked
// inside a callback; after it is released it records the order in which it handles everything.  One line per history is
// validated by TLC against spec/MailboxOrder.tla.

type oactor struct {
	act.Actor
	mu      sync.Mutex
	handled []string
	held    chan struct{}
	release chan struct{}
	do      chan func() // work done by the receiver itself while it is parked (sends to itself)
	// second hold: inside the first HandleLog
	logHold  bool
	held2    chan struct{}
	release2 chan struct{}
}

type holdCmd struct{}

func (o *oactor) HandleMessage(from gen.PID, message any) error {
	switch m := message.(type) {
	case holdCmd:
		close(o.held)
		for parked := true; parked; {
			select {
			case f := <-o.do:
				f()
			case <-o.release:
				parked = false
			}
		}
	case Msg:
		o.mu.Lock()
		o.handled = append(o.handled, m.ID)
		o.mu.Unlock()
	}
	return nil
}

func (o *oactor) HandleLog(message gen.MessageLog) error {
	if strings.HasPrefix(message.Format, "VLOG:") {
		o.mu.Lock()
		o.handled = append(o.handled, message.Format[5:])
		hold := o.logHold
		o.logHold = false
		o.mu.Unlock()
		if hold {
			close(o.held2)
			<-o.release2
		}
	}
	return nil
}

type OOp struct {
	ID  string `json:"id"`
	S   string `json:"s"`   // sender label ("N" = the node's logger)
	API string `json:"api"` // send | name | alias | prio | failprio | setprio | log
	Cls string `json:"cls"` // class the message must be handled in: urgent system main log ("" for operations that deliver nothing)
	Ok  bool   `json:"ok"`  // the operation reported success
	Res string `json:"res"`
	Ph  int    `json:"ph"` // 1: issued while the receiver was parked in HandleMessage, 2: while it was parked in its first HandleLog
}

type OLine struct {
	P       int      `json:"p"`
	Ev      string   `json:"ev"`
	Ops     []OOp    `json:"ops"`
	Handled []string `json:"handled"`
	HoldLog bool     `json:"holdlog"`
	State   string   `json:"st"`
	QLen    int64    `json:"qlen"`
}

func clsOf(p gen.MessagePriority) string {
	switch p {
	case gen.MessagePriorityMax:
		return "urgent"
	case gen.MessagePriorityHigh:
		return "system"
	}
	return "main"
}

// RunOrder executes n random histories.
func (r *Runner) RunOrder(n int, seed int64) error {
	rng := rand.New(rand.NewSource(seed))
	for h := 1; h <= n; h++ {
		o := &oactor{do: make(chan func()), held: make(chan struct{}), release: make(chan struct{}), held2: make(chan struct{}), release2: make(chan struct{})}
		holdLog := h%3 == 0
		o.logHold = holdLog
		name := gen.Atom(fmt.Sprintf("ord_%d_%d", seed%100000, h))
		rpid, err := r.Node.SpawnRegister(name, func() gen.ProcessBehavior { return o }, gen.ProcessOptions{})
		if err != nil {
			return err
		}
		var alias gen.Alias
		w := &gated.World{}
		// a scripted helper creates nothing on the receiver; the receiver's alias is created by itself
		if err := r.Node.Send(rpid, holdCmd{}); err != nil {
			return err
		}
		<-o.held
		// receiver is parked inside HandleMessage now; its alias has to exist before: create it through the node API is
		// not possible, so the alias addressing mode uses an alias created before the hold in a second receiver callback
		// (done below by releasing once). Keep it simple: no alias when it cannot be created.
		_ = alias
		loggerName := fmt.Sprintf("vlog_%d_%d", seed%100000, h)
		if err := r.Node.LoggerAddPID(rpid, loggerName, gen.LogLevelDebug); err != nil {
			return fmt.Errorf("logger: %w", err)
		}
		dead, _ := r.Node.Spawn(gated.Factory(w, "dead", false, nil), gen.ProcessOptions{})
		r.Node.Kill(dead)
		senders := map[string]gen.PID{}
		prio := map[string]gen.MessagePriority{}
		for _, s := range []string{"A", "B"} {
			p, err := r.Node.Spawn(gated.Factory(w, s, false, nil), gen.ProcessOptions{})
			if err != nil {
				return err
			}
			senders[s] = p
			prio[s] = gen.MessagePriorityNormal
		}
		time.Sleep(200 * time.Microsecond)
		var ops []OOp
		kseq := 0
		issue := func(nops, phase int, forceLogs int) {
			for n := 0; n < nops; n++ {
				kseq++
				k := kseq
				s := []string{"A", "B"}[rng.Intn(2)]
				id := fmt.Sprintf("%s:%d", s, k)
				op := OOp{ID: id, S: s, Ph: phase}
				pr := []gen.MessagePriority{gen.MessagePriorityNormal, gen.MessagePriorityHigh, gen.MessagePriorityMax}[rng.Intn(3)]
				var res error
				c := rng.Intn(10)
				if n < forceLogs {
					c = 9
				}
				// the receiver writes to itself (own pid with a priority, own name): one more sender, "R"
				if phase == 1 && n >= forceLogs && rng.Intn(6) == 0 {
					op.S = "R"
					op.ID = fmt.Sprintf("R:%d", k)
					rid := op.ID
					done := make(chan struct{})
					if rng.Intn(3) > 0 {
						op.API, op.Cls = "selfprio", clsOf(pr)
						o.do <- func() { res = o.SendWithPriority(rpid, Msg{ID: rid, Kind: "msg"}, pr); close(done) }
					} else {
						op.API, op.Cls = "selfname", "main"
						o.do <- func() { res = o.Send(name, Msg{ID: rid, Kind: "msg"}); close(done) }
					}
					<-done
					op.Ok = res == nil
					if res != nil {
						op.Res = res.Error()
					}
					ops = append(ops, op)
					continue
				}
				switch {
				case c < 3:
					op.API, op.Cls = "send", clsOf(prio[s])
					gated.Do(r.Node, senders[s], func(sc *gated.Scripted) error { res = sc.Send(rpid, Msg{ID: id, Kind: "msg"}); return nil })
				case c < 5:
					op.API, op.Cls = "name", clsOf(prio[s])
					gated.Do(r.Node, senders[s], func(sc *gated.Scripted) error { res = sc.Send(name, Msg{ID: id, Kind: "msg"}); return nil })
				case c < 7:
					op.API, op.Cls = "prio", clsOf(pr)
					gated.Do(r.Node, senders[s], func(sc *gated.Scripted) error {
						res = sc.SendWithPriority(rpid, Msg{ID: id, Kind: "msg"}, pr)
						return nil
					})
				case c < 8:
					// a send that fails (terminated target): nothing is delivered, and nothing about later sends may change
					op.API, op.Cls = "failprio", ""
					gated.Do(r.Node, senders[s], func(sc *gated.Scripted) error {
						res = sc.SendWithPriority(dead, Msg{ID: id, Kind: "msg"}, pr)
						return nil
					})
				case c < 9:
					op.API, op.Cls = "setprio", ""
					prio[s] = pr
					gated.Do(r.Node, senders[s], func(sc *gated.Scripted) error { res = sc.SetSendPriority(pr); return nil })
				default:
					op.S, op.API, op.Cls = "N", "log", "log"
					op.ID = fmt.Sprintf("N:%d", k)
					r.Node.Log().Debug("VLOG:" + op.ID)
				}
				op.Ok = res == nil
				if res != nil {
					op.Res = res.Error()
				}
				ops = append(ops, op)
			}
		}
		if holdLog {
			issue(4+rng.Intn(8), 1, 2)
		} else {
			issue(8+rng.Intn(16), 1, 0)
		}
		close(o.release)
		if holdLog {
			// the receiver works through phase 1 and parks inside its first HandleLog; phase 2 arrives while it is busy there
			select {
			case <-o.held2:
				issue(3+rng.Intn(8), 2, 0)
				close(o.release2)
			case <-time.After(3 * time.Second):
				return fmt.Errorf("receiver never reached its first log message")
			}
		}
		// quiescence
		deadline := time.Now().Add(3 * time.Second)
		var st gen.ProcessState
		var ql int64
		for time.Now().Before(deadline) {
			info, err := r.Node.ProcessInfo(rpid)
			if err != nil {
				break
			}
			st = info.State
			q := info.MailboxQueues
			ql = q.Main + q.System + q.Urgent + q.Log
			if st == gen.ProcessStateSleep && ql == 0 {
				time.Sleep(300 * time.Microsecond)
				info2, _ := r.Node.ProcessInfo(rpid)
				if info2.State == gen.ProcessStateSleep {
					break
				}
			}
			time.Sleep(100 * time.Microsecond)
		}
		o.mu.Lock()
		handled := append([]string{}, o.handled...)
		o.mu.Unlock()
		line := OLine{P: h, Ev: "hist", Ops: ops, Handled: handled, HoldLog: holdLog, State: stateName(st), QLen: ql}
		b, _ := json.Marshal(line)
		r.Out.Write(b)
		r.Out.WriteByte('\n')
		r.Plans++
		r.Steps += len(ops)
		r.Node.LoggerDeletePID(rpid)
		r.Node.Kill(rpid)
		for _, p := range senders {
			r.Node.Kill(p)
		}
	}
	r.Out.Flush()
	return nil
}
