//go:build verif

// Package metafam drives a real meta-process (node/meta.go) through one-preemption scenarios: a goroutine of the meta is parked at
// a lib.VerifPoint yield point (or inside a callback), an action is carried out meanwhile (Start() returns, more messages, an exit
// signal), the goroutine is released, more traffic follows; every callback entry / exit is logged under one mutex.  TLC validates the
// log against spec/MetaObs.tla (clauses of spec/MetaCore.tla).
package metafam

import (
	"bufio"
	"encoding/json"
	"errors"
	"fmt"
	"os"
	"sync"
	"time"

	"ergo.services/ergo/act"
	"ergo.services/ergo/gen"
	"ergo.services/ergo/lib"
	"ergo.services/ergo/node"
)

type Scenario struct {
	ID      int      `json:"id"`
	Before  int      `json:"before"`  // messages sent (and handled) before the park is armed
	Point   string   `json:"point"`   // yield point to park at ("" = none, "handling" = inside HandleMessage)
	Nth     int      `json:"nth"`     // which arrival at that point
	Trig    int      `json:"trig"`    // messages sent to make a goroutine arrive there
	During  []string `json:"during"`  // actions while parked: send startret starterr exit
	After   []string `json:"after"`   // actions after the release
	Point2  string   `json:"point2"`  // second park, armed just before the first one is released
	During2 []string `json:"during2"` // actions while parked the second time
	Early   bool     `json:"early"`   // the park is armed before the meta is spawned (any meta): the Start goroutine itself is caught on its way
	Hold    int      `json:"hold"`    // the handler of the Hold-th message is kept inside HandleMessage until the first park has been released
}

type File struct {
	Scenarios []Scenario `json:"scenarios"`
}

type Ev struct {
	Ev     string `json:"ev"` // hb he tb te sr (start returned) send
	ID     string `json:"id"`
	Reason string `json:"reason"`
	Res    string `json:"res"`
}

type Line struct {
	P       int      `json:"p"`
	S       Scenario `json:"s"`
	Parked  bool     `json:"parked"`
	Parked2 bool     `json:"parked2"`
	Events  []Ev     `json:"events"`
	Sent    int      `json:"sent"` // messages whose send returned nil
}

type world struct {
	mu      sync.Mutex
	events  []Ev
	startCh chan error
	holdID  string
	holdCh  chan struct{}
	heldCh  chan struct{}
}

func (w *world) log(e Ev) {
	w.mu.Lock()
	w.events = append(w.events, e)
	w.mu.Unlock()
}

type gmeta struct {
	gen.MetaProcess
	w *world
}

func (g *gmeta) Init(p gen.MetaProcess) error { g.MetaProcess = p; return nil }
func (g *gmeta) Start() error {
	err := <-g.w.startCh
	g.w.log(Ev{Ev: "sr"})
	return err
}
func (g *gmeta) HandleMessage(from gen.PID, message any) error {
	id, _ := message.(string)
	g.w.log(Ev{Ev: "hb", ID: id})
	g.w.mu.Lock()
	hold := g.w.holdID == id && g.w.holdCh != nil
	hc, held := g.w.holdCh, g.w.heldCh
	if hold {
		g.w.holdID = ""
	}
	g.w.mu.Unlock()
	if hold {
		close(held)
		<-hc
	}
	time.Sleep(20 * time.Microsecond)
	g.w.log(Ev{Ev: "he", ID: id})
	if len(id) > 4 && id[:4] == "fail" {
		return errors.New("asked")
	}
	return nil
}
func (g *gmeta) HandleCall(from gen.PID, ref gen.Ref, request any) (any, error) { return nil, nil }
func (g *gmeta) Terminate(reason error) {
	r := "nil"
	if reason != nil {
		r = reason.Error()
	}
	g.w.log(Ev{Ev: "tb", Reason: r})
	time.Sleep(60 * time.Microsecond)
	g.w.log(Ev{Ev: "te"})
}
func (g *gmeta) HandleInspect(from gen.PID, item ...string) map[string]string { return nil }

type parent struct {
	act.Actor
}

type pcmd struct {
	fn   func(p *parent)
	done chan struct{}
}

func (p *parent) HandleMessage(from gen.PID, message any) error {
	if c, ok := message.(pcmd); ok {
		c.fn(p)
		close(c.done)
	}
	return nil
}

// ---- the gate ------------------------------------------------------------------------

type gate struct {
	mu      sync.Mutex
	any     bool // any subject (armed before the alias is known)
	subject gen.Alias
	point   string
	count   int
	parked  chan struct{}
	release chan struct{}
	armed   bool
}

var theGate gate

func hook(point string, subject any) {
	a, ok := subject.(gen.Alias)
	if !ok {
		return
	}
	theGate.mu.Lock()
	if !theGate.armed || theGate.point != point || (!theGate.any && theGate.subject != a) {
		theGate.mu.Unlock()
		return
	}
	theGate.count--
	if theGate.count > 0 {
		theGate.mu.Unlock()
		return
	}
	theGate.armed = false
	pk, rl := theGate.parked, theGate.release
	theGate.mu.Unlock()
	close(pk)
	<-rl
}

type Runner struct {
	Out  *bufio.Writer
	node gen.Node
	par  gen.PID
	seq  int
}

func NewRunner(out *bufio.Writer) (*Runner, error) {
	var opt gen.NodeOptions
	opt.Log.DefaultLogger.Disable = true
	opt.Log.Level = gen.LogLevelDisabled
	opt.Network.Mode = gen.NetworkModeDisabled
	n, err := node.Start(gen.Atom(fmt.Sprintf("meta%d@localhost", os.Getpid())), opt, gen.Version{})
	if err != nil {
		return nil, err
	}
	lib.SetVerifHook(hook)
	return &Runner{Out: out, node: n}, nil
}

func (r *Runner) Close() { lib.SetVerifHook(nil); r.node.StopForce() }

func (r *Runner) onParent(par gen.PID, fn func(p *parent)) bool {
	c := pcmd{fn: fn, done: make(chan struct{})}
	if r.node.Send(par, c) != nil {
		return false
	}
	select {
	case <-c.done:
		return true
	case <-time.After(3 * time.Second):
		return false
	}
}

func (r *Runner) Run(s *Scenario) error {
	r.seq++
	w := &world{startCh: make(chan error, 1)}
	par, err := r.node.Spawn(func() gen.ProcessBehavior { return &parent{} }, gen.ProcessOptions{})
	if err != nil {
		return err
	}
	defer r.node.Kill(par)
	var alias gen.Alias
	var serr error
	var release chan struct{}
	var parked chan struct{}
	if s.Early && s.Point != "" && s.Point != "handling" {
		theGate.mu.Lock()
		theGate.any, theGate.point, theGate.count = true, s.Point, s.Nth
		theGate.parked, theGate.release = make(chan struct{}), make(chan struct{})
		theGate.armed = true
		release, parked = theGate.release, theGate.parked
		theGate.mu.Unlock()
	}
	var holdRelease chan struct{}
	if s.Hold > 0 {
		w.mu.Lock()
		w.holdID = fmt.Sprintf("m%d", s.Hold)
		w.holdCh = make(chan struct{})
		w.heldCh = make(chan struct{})
		holdRelease = w.holdCh
		w.mu.Unlock()
	}
	if !r.onParent(par, func(p *parent) { alias, serr = p.SpawnMeta(&gmeta{w: w}, gen.MetaOptions{}) }) || serr != nil {
		return fmt.Errorf("spawn meta: %v", serr)
	}
	line := Line{P: s.ID, S: *s}
	nmsg := 0
	var wg sync.WaitGroup
	// every send runs in its own goroutine: the sender itself may be the one that gets parked (handle() runs in the sender)
	send := func(prefix string) {
		nmsg++
		id := fmt.Sprintf("%s%d", prefix, nmsg)
		done := make(chan struct{})
		wg.Add(1)
		go func() {
			defer wg.Done()
			defer close(done)
			err := r.node.Send(alias, id)
			res := "ok"
			if err != nil {
				res = err.Error()
			}
			w.mu.Lock()
			if err == nil {
				line.Sent++
			}
			w.events = append(w.events, Ev{Ev: "send", ID: id, Res: res})
			w.mu.Unlock()
		}()
		select {
		case <-done:
		case <-time.After(3 * time.Millisecond):
		}
	}
	quiet := func() {
		last, stable := -1, 0
		for i := 0; i < 400 && stable < 3; i++ {
			w.mu.Lock()
			n := len(w.events)
			w.mu.Unlock()
			if n == last {
				stable++
			} else {
				stable = 0
			}
			last = n
			time.Sleep(300 * time.Microsecond)
		}
	}
	time.Sleep(200 * time.Microsecond)
	for i := 0; i < s.Before; i++ {
		send("m")
	}
	quiet()
	do := func(a string) {
		switch a {
		case "send":
			send("m")
		case "fail":
			send("fail")
		case "startret":
			select {
			case w.startCh <- nil:
			default:
			}
		case "starterr":
			select {
			case w.startCh <- errors.New("start failed"):
			default:
			}
		case "exit":
			r.onParent(par, func(p *parent) { p.SendExitMeta(alias, errors.New("exit asked")) })
		case "quiet":
			quiet()
		}
	}
	if s.Early {
		// armed above
	} else if s.Point == "handling" {
		w.mu.Lock()
		w.holdID = fmt.Sprintf("m%d", nmsg+s.Nth)
		w.holdCh = make(chan struct{})
		w.heldCh = make(chan struct{})
		release, parked = w.holdCh, w.heldCh
		w.mu.Unlock()
	} else if s.Point != "" {
		theGate.mu.Lock()
		theGate.any = false
		theGate.subject, theGate.point, theGate.count = alias, s.Point, s.Nth
		theGate.parked, theGate.release = make(chan struct{}), make(chan struct{})
		theGate.armed = true
		release, parked = theGate.release, theGate.parked
		theGate.mu.Unlock()
	}
	// traffic that makes some goroutine arrive at the point
	for i := 0; i < s.Trig; i++ {
		send("m")
	}
	if parked != nil {
		select {
		case <-parked:
			line.Parked = true
		case <-time.After(30 * time.Millisecond):
		}
	}
	for _, a := range s.During {
		do(a)
		time.Sleep(150 * time.Microsecond)
	}
	if line.Parked {
		quiet()
	}
	var release2, parked2 chan struct{}
	if release != nil {
		theGate.mu.Lock()
		theGate.armed = false
		if s.Point2 != "" {
			theGate.any = false
			theGate.subject, theGate.point, theGate.count = alias, s.Point2, 1
			theGate.parked, theGate.release = make(chan struct{}), make(chan struct{})
			theGate.armed = true
			release2, parked2 = theGate.release, theGate.parked
		}
		theGate.mu.Unlock()
		close(release)
	}
	if parked2 != nil {
		select {
		case <-parked2:
			line.Parked2 = true
		case <-time.After(30 * time.Millisecond):
		}
		for _, a := range s.During2 {
			do(a)
			time.Sleep(150 * time.Microsecond)
		}
		if line.Parked2 {
			quiet()
		}
		theGate.mu.Lock()
		theGate.armed = false
		theGate.mu.Unlock()
		close(release2)
	}
	if holdRelease != nil {
		quiet()
		close(holdRelease)
	}
	wg.Wait()
	quiet()
	for _, a := range s.After {
		do(a)
		time.Sleep(100 * time.Microsecond)
	}
	quiet()
	// let everything end
	w.log(Ev{Ev: "end"})
	select {
	case w.startCh <- nil:
	default:
	}
	quiet()
	w.mu.Lock()
	line.Events = append([]Ev{}, w.events...)
	w.mu.Unlock()
	if line.S.During == nil {
		line.S.During = []string{}
	}
	if line.S.After == nil {
		line.S.After = []string{}
	}
	if line.S.During2 == nil {
		line.S.During2 = []string{}
	}
	b, _ := json.Marshal(&line)
	r.Out.Write(b)
	r.Out.WriteByte('\n')
	return nil
}

func Load(path string) (*File, error) {
	b, err := os.ReadFile(path)
	if err != nil {
		return nil, err
	}
	var f File
	if err := json.Unmarshal(b, &f); err != nil {
		return nil, err
	}
	return &f, nil
}
