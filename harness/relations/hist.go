//go:build verif

package relations

import (
	"bufio"
	"encoding/json"
	"errors"
	"fmt"
	"os"
	"time"

	"ergo.services/ergo/gen"

	"verif/harness/gated"
)

// Sequential relation histories (C04): consumers may hold a link AND a monitor on the same target, add and remove them in any order,
// then the target goes away; every relation still held yields exactly one notification of its kind.

type ROp struct {
	C  int    `json:"c"`  // consumer 1..3
	Op string `json:"op"` // link unlink monitor demonitor
}

type RHist struct {
	ID   int    `json:"id"`
	TK   string `json:"tk"`   // pid name alias event
	Term string `json:"term"` // kill normal unregister
	Ops  []ROp  `json:"ops"`
	// alias targets: the owner creates NAlias aliases, the consumers watch the one at position Watch, and the owner deletes the one at
	// position Del (another one, -1 = none) after the relations are in place - the watched alias is still owed its notices
	NAlias int `json:"nalias"`
	Watch  int `json:"watch"`
	Del    int `json:"del"`
}

type RFile struct {
	Histories []RHist `json:"histories"`
}

type RLine struct {
	P     int      `json:"p"`
	TK    string   `json:"tk"`
	Term  string   `json:"term"`
	Ops   []ROp    `json:"ops"`
	Res   []string `json:"res"`
	Exits []int    `json:"exits"` // per consumer: exit notifications about the target
	Downs []int    `json:"downs"`
	Other []int    `json:"other"` // per consumer: any other notification
	Left  int      `json:"left"`  // relations on the target left in the target manager
}

func rres(err error) string {
	switch {
	case err == nil:
		return "ok"
	case errors.Is(err, gen.ErrTargetExist):
		return "exist"
	case errors.Is(err, gen.ErrTargetUnknown):
		return "norel"
	}
	return "err:" + err.Error()
}

func RunRelHistories(nodeName string, f *RFile, out *bufio.Writer) error {
	n, tm, err := StartNode(nodeName)
	if err != nil {
		return err
	}
	defer n.StopForce()
	for hi := range f.Histories {
		h := &f.Histories[hi]
		w := &gated.World{}
		tname := gen.Atom(fmt.Sprintf("rt_%d", h.ID))
		evname := gen.Atom(fmt.Sprintf("re_%d", h.ID))
		tpid, err := n.SpawnRegister(tname, gated.Factory(w, "T", false, nil), gen.ProcessOptions{})
		if err != nil {
			return err
		}
		var target any = tpid
		var alias gen.Alias
		var allAliases []gen.Alias
		switch h.TK {
		case "name":
			target = gen.ProcessID{Name: tname, Node: n.Name()}
		case "alias":
			na := h.NAlias
			if na < 1 {
				na = 1
			}
			for k := 0; k < na; k++ {
				var a gen.Alias
				if err := gated.Do(n, tpid, func(s *gated.Scripted) error { var e error; a, e = s.CreateAlias(); return e }); err != nil {
					return err
				}
				allAliases = append(allAliases, a)
			}
			if h.Watch < 0 || h.Watch >= na {
				h.Watch = 0
			}
			alias = allAliases[h.Watch]
			target = alias
		case "event":
			if err := gated.Do(n, tpid, func(s *gated.Scripted) error { _, e := s.RegisterEvent(evname, gen.EventOptions{}); return e }); err != nil {
				return err
			}
			target = gen.Event{Name: evname, Node: n.Name()}
		}
		cons := []gen.PID{}
		for i := 1; i <= 3; i++ {
			p, err := n.Spawn(gated.Factory(w, fmt.Sprintf("C%d", i), true, nil), gen.ProcessOptions{})
			if err != nil {
				return err
			}
			cons = append(cons, p)
		}
		line := RLine{P: h.ID, TK: h.TK, Term: h.Term, Ops: h.Ops}
		for _, op := range h.Ops {
			op := op
			var res error
			gated.Do(n, cons[op.C-1], func(s *gated.Scripted) error {
				switch op.Op {
				case "link":
					res = doLink(s, "link", target)
				case "monitor":
					res = doLink(s, "monitor", target)
				case "unlink":
					res = doUnlink(s, "link", target)
				case "demonitor":
					res = doUnlink(s, "monitor", target)
				}
				return nil
			})
			line.Res = append(line.Res, rres(res))
		}
		if h.TK == "alias" && h.Del >= 0 && h.Del < len(allAliases) && h.Del != h.Watch {
			d := allAliases[h.Del]
			gated.Do(n, tpid, func(s *gated.Scripted) error { return s.DeleteAlias(d) })
		}
		switch h.Term {
		case "kill":
			n.Kill(tpid)
		case "normal":
			n.Send(tpid, gated.Cmd{Fn: func(*gated.Scripted) error { return gen.TerminateReasonNormal }})
		case "unregister":
			switch h.TK {
			case "name":
				n.UnregisterName(tname)
			case "alias":
				gated.Do(n, tpid, func(s *gated.Scripted) error { return s.DeleteAlias(alias) })
			case "event":
				gated.Do(n, tpid, func(s *gated.Scripted) error { return s.UnregisterEvent(evname) })
			default:
				n.Kill(tpid)
			}
		}
		// quiescence
		last, stable := -1, 0
		for i := 0; i < 3000 && stable < 5; i++ {
			k := len(w.Snapshot())
			if k == last {
				stable++
			} else {
				stable = 0
			}
			last = k
			time.Sleep(200 * time.Microsecond)
		}
		line.Exits = make([]int, 3)
		line.Downs = make([]int, 3)
		line.Other = make([]int, 3)
		ts := targetString(target)
		for _, nt := range w.Snapshot() {
			var i int
			if _, e := fmt.Sscanf(nt.Who, "C%d", &i); e != nil || i < 1 || i > 3 {
				continue
			}
			switch {
			case nt.Kind == "exit" && nt.Target == ts:
				line.Exits[i-1]++
			case nt.Kind == "down" && nt.Target == ts:
				line.Downs[i-1]++
			case nt.Kind == "exit" || nt.Kind == "down":
				line.Other[i-1]++
			}
		}
		line.Left = len(tm.GetConsumersForTarget(target))
		n.Kill(tpid)
		for _, c := range cons {
			n.Kill(c)
		}
		if line.Res == nil {
			line.Res = []string{}
		}
		b, _ := json.Marshal(&line)
		out.Write(b)
		out.WriteByte('\n')
	}
	return nil
}

func LoadRelHistories(path string) (*RFile, error) {
	b, err := os.ReadFile(path)
	if err != nil {
		return nil, err
	}
	var f RFile
	if err := json.Unmarshal(b, &f); err != nil {
		return nil, err
	}
	return &f, nil
}
