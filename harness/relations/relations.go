//go:build verif

// Package relations replays plans of spec/Relations.tla: link/monitor requests racing with the
// disappearance of their target (process id, registered name, alias, event).
package relations

import (
	"bufio"
	"encoding/json"
	"errors"
	"fmt"
	"os"
	"sort"
	"strings"
	"sync/atomic"
	"time"

	"ergo.services/ergo/gen"
	"ergo.services/ergo/lib"
	"ergo.services/ergo/node"

	"verif/harness/gated"
	"verif/harness/replay"
	"verif/harness/vsched"
)

type Consumer struct {
	Kind string `json:"kind"` // link | monitor
	Undo bool   `json:"undo"`
}

type Scenario struct {
	Name      string              `json:"name"`
	TK        string              `json:"tk"`   // pid | name | alias | event
	Term      string              `json:"term"` // kill | unregname | unregevent
	Consumers map[string]Consumer `json:"consumers"`
	TDel      string              `json:"tdel"`
	TDrain    string              `json:"tdrain"`
}

type PlanFile struct {
	Scenario Scenario      `json:"scenario"`
	Plans    []replay.Plan `json:"plans"`
}

type Runner struct {
	Node gen.Node
	Core gen.Core
	TM   gen.TargetManager
	Ctl  *vsched.Ctl
	Out  *bufio.Writer
	Seed int64
	// stats
	Plans, Steps, Drift, Stalls, Skipped int
	seq                                  int
}

func StartNode(name string) (gen.Node, gen.TargetManager, error) {
	var opt gen.NodeOptions
	opt.Log.DefaultLogger.Disable = true
	opt.Log.Level = gen.LogLevelDisabled
	opt.Network.Mode = gen.NetworkModeDisabled
	tm := &notingTM{TargetManager: gen.CreateDefaultTargetManager()}
	opt.TargetManager = tm
	n, err := node.Start(gen.Atom(name), opt, gen.Version{})
	return n, tm, err
}

// notingTM adds one yield point to the target manager: after a target has been drained and before the node sends the
// notifications (the terminator can be parked between the two).
type notingTM struct {
	gen.TargetManager
}

func (t *notingTM) CleanupTarget(target any) ([]gen.PID, []gen.PID) {
	l, m := t.TargetManager.CleanupTarget(target)
	lib.VerifPoint("tm.drained", target)
	return l, m
}

func resName(err error) string {
	switch {
	case err == nil:
		return "ok"
	case errors.Is(err, gen.ErrProcessUnknown), errors.Is(err, gen.ErrAliasUnknown), errors.Is(err, gen.ErrEventUnknown), errors.Is(err, gen.ErrNameUnknown):
		return "unknown"
	case errors.Is(err, gen.ErrTargetUnknown):
		return "norel"
	case errors.Is(err, gen.ErrTargetExist):
		return "exist"
	case errors.Is(err, gen.ErrProcessTerminated):
		return "terminated"
	}
	return "other:" + err.Error()
}

func doLink(s *gated.Scripted, kind string, target any) error {
	switch t := target.(type) {
	case gen.PID:
		if kind == "link" {
			return s.LinkPID(t)
		}
		return s.MonitorPID(t)
	case gen.ProcessID:
		if kind == "link" {
			return s.LinkProcessID(t)
		}
		return s.MonitorProcessID(t)
	case gen.Alias:
		if kind == "link" {
			return s.LinkAlias(t)
		}
		return s.MonitorAlias(t)
	case gen.Event:
		if kind == "link" {
			_, err := s.LinkEvent(t)
			return err
		}
		_, err := s.MonitorEvent(t)
		return err
	}
	return fmt.Errorf("bad target %T", target)
}

func doUnlink(s *gated.Scripted, kind string, target any) error {
	switch t := target.(type) {
	case gen.PID:
		if kind == "link" {
			return s.UnlinkPID(t)
		}
		return s.DemonitorPID(t)
	case gen.ProcessID:
		if kind == "link" {
			return s.UnlinkProcessID(t)
		}
		return s.DemonitorProcessID(t)
	case gen.Alias:
		if kind == "link" {
			return s.UnlinkAlias(t)
		}
		return s.DemonitorAlias(t)
	case gen.Event:
		if kind == "link" {
			return s.UnlinkEvent(t)
		}
		return s.DemonitorEvent(t)
	}
	return fmt.Errorf("bad target %T", target)
}

// present probes the target's table without side effects (an unlink request of a relation that does not exist)
func (r *Runner) present(target any) bool {
	probe := gen.PID{Node: r.Node.Name(), ID: 999999, Creation: r.Node.Creation()}
	var err error
	switch t := target.(type) {
	case gen.PID:
		err = r.Core.RouteUnlinkPID(probe, t)
	case gen.ProcessID:
		err = r.Core.RouteUnlinkProcessID(probe, t)
	case gen.Alias:
		err = r.Core.RouteUnlinkAlias(probe, t)
	case gen.Event:
		err = r.Core.RouteUnlinkEvent(probe, t)
	}
	return resName(err) != "unknown"
}

func targetString(target any) string {
	switch t := target.(type) {
	case gen.PID:
		return t.String()
	case gen.ProcessID:
		return t.String()
	case gen.Alias:
		return t.String()
	case gen.Event:
		return t.String()
	}
	return "?"
}

func (r *Runner) RunPlan(scn *Scenario, plan *replay.Plan) error {
	r.seq++
	w := &gated.World{}
	nodeName := r.Node.Name()
	tname := gen.Atom(fmt.Sprintf("tp_%d", r.seq))
	evname := gen.Atom(fmt.Sprintf("ev_%d", r.seq))
	var tpid gen.PID
	var err error
	if scn.TK == "name" {
		tpid, err = r.Node.SpawnRegister(tname, gated.Factory(w, "TP", false, nil), gen.ProcessOptions{})
	} else {
		tpid, err = r.Node.Spawn(gated.Factory(w, "TP", false, nil), gen.ProcessOptions{})
	}
	if err != nil {
		return fmt.Errorf("spawn target: %w", err)
	}
	var target any = tpid
	switch scn.TK {
	case "name":
		target = gen.ProcessID{Name: tname, Node: nodeName}
	case "alias":
		var a gen.Alias
		if err := gated.Do(r.Node, tpid, func(s *gated.Scripted) error { var e error; a, e = s.CreateAlias(); return e }); err != nil {
			return fmt.Errorf("alias: %w", err)
		}
		target = a
	case "event":
		if scn.Term == "unregevent" {
			// registered in the name of the node, so that the terminator thread can unregister it directly
			if _, err := r.Node.RegisterEvent(evname, gen.EventOptions{}); err != nil {
				return fmt.Errorf("event: %w", err)
			}
		} else if err := gated.Do(r.Node, tpid, func(s *gated.Scripted) error {
			_, e := s.RegisterEvent(evname, gen.EventOptions{})
			return e
		}); err != nil {
			return fmt.Errorf("event: %w", err)
		}
		target = gen.Event{Name: evname, Node: nodeName}
	}
	labels := []string{}
	for l := range scn.Consumers {
		labels = append(labels, l)
	}
	sort.Strings(labels)
	cpid := map[string]gen.PID{}
	for _, l := range labels {
		p, err := r.Node.Spawn(gated.Factory(w, l, true, nil), gen.ProcessOptions{})
		if err != nil {
			return fmt.Errorf("spawn consumer: %w", err)
		}
		cpid[l] = p
	}
	// every process must be asleep before the controller takes over (their first runner is not controlled)
	all := append([]gen.PID{tpid}, func() []gen.PID {
		var o []gen.PID
		for _, l := range labels {
			o = append(o, cpid[l])
		}
		return o
	}()...)
	if err := gated.WaitAsleep(r.Node, all, 2*time.Second); err != nil {
		return err
	}
	tp := w.Actor("TP")
	watched := func(subject any) bool {
		switch s := subject.(type) {
		case gen.Process:
			if tp != nil && s == tp.Process {
				return true
			}
			for _, l := range labels {
				if a := w.Actor(l); a != nil && s == a.Process {
					return true
				}
			}
			return false
		case gen.PID:
			return s == target
		case gen.ProcessID, gen.Alias, gen.Event:
			return s == target
		case gen.Atom:
			return s == tname
		}
		return false
	}
	active := map[string]bool{"link.check": true, "link.add": true, "link.recheck": true, "unlink.check": true, "unlink.remove": true}
	active[scn.TDel] = true
	active[scn.TDrain] = true
	active["tm.drained"] = true
	cfg := vsched.Config{
		Active:      active,
		Watched:     watched,
		SpawnPoints: map[string]string{"run.spawn": "run.begin", "kill.spawn": "kill.tbegin"},
		BeginPoints: map[string]func(c *vsched.Ctl, subject any, spawner string) (string, string){
			"run.begin": func(c *vsched.Ctl, subject any, _ string) (string, string) {
				if s, ok := subject.(gen.Process); ok {
					for _, l := range labels {
						if a := w.Actor(l); a != nil && s == a.Process {
							if !c.LiveLocked(l) {
								return l, "L"
							}
							return c.FreeSlot(l + "x"), "X"
						}
					}
				}
				return c.FreeSlot("X"), "X"
			},
			"kill.tbegin": func(c *vsched.Ctl, _ any, _ string) (string, string) { return c.FreeSlot("X"), "X" },
		},
		EndPoints:    map[string]bool{"run.end": true, "kill.tend": true},
		StallTimeout: 2 * time.Second,
	}
	r.Ctl.Reset(cfg)
	r.Ctl.Install()
	for _, l := range labels {
		l := l
		c := scn.Consumers[l]
		r.Ctl.Go("D"+l[1:], "D", func() {
			r.Node.Send(cpid[l], gated.Cmd{Fn: func(s *gated.Scripted) error {
				err := doLink(s, c.Kind, target)
				r.Ctl.SetInfo("lres", resName(err))
				if c.Undo && err == nil {
					err2 := doUnlink(s, c.Kind, target)
					r.Ctl.SetInfo("ures", resName(err2))
				}
				return nil
			}})
		})
	}
	var skipT int32
	r.Ctl.Go("T", "T", func() {
		if atomic.LoadInt32(&skipT) == 1 {
			r.Ctl.SetInfo("tres", "skip")
			return
		}
		var err error
		if scn.Term == "unregname" {
			_, err = r.Node.UnregisterName(tname)
		} else if scn.Term == "unregevent" {
			err = r.Node.UnregisterEvent(evname)
		} else {
			err = r.Node.Kill(tpid)
		}
		r.Ctl.SetInfo("tres", resName(err))
	})
	expReason := "kill"
	if scn.Term == "unregname" || scn.Term == "unregevent" {
		expReason = "unregistered"
	}
	project := func() map[string]any {
		rel := []string{}
		got := map[string]any{}
		notes := w.Snapshot()
		other, badreason := 0, 0
		for _, l := range labels {
			has := false
			if scn.Consumers[l].Kind == "link" {
				has = r.TM.HasLink(cpid[l], target)
			} else {
				has = r.TM.HasMonitor(cpid[l], target)
			}
			if has {
				rel = append(rel, l)
			}
			want := "exit"
			if scn.Consumers[l].Kind == "monitor" {
				want = "down"
			}
			n := 0
			for _, x := range notes {
				if x.Who != l || (x.Kind != "exit" && x.Kind != "down") {
					continue
				}
				if x.Kind == want && x.Target == targetString(target) {
					n++
					if x.Reason != expReason {
						badreason++
					}
				} else {
					other++
				}
			}
			got[l] = n
		}
		pr := "F"
		if r.present(target) {
			pr = "T"
		}
		return map[string]any{"rel": rel, "got": got, "present": pr, "other": other, "badreason": badreason}
	}
	run := &replay.Run{
		Ctl: r.Ctl, Scn: scn.Name, Plan: plan,
		Model: func(l string) bool {
			if l == "T" {
				return true
			}
			_, ok := scn.Consumers[l]
			return ok
		},
		From: map[string]string{"LCheck": "link.check", "LAdd": "link.add", "LRecheck": "link.recheck", "UCheck": "unlink.check", "URemove": "unlink.remove",
			"TStart": "start", "TSkip": "start", "TDelete": scn.TDel, "TDrainAll": scn.TDrain},
		Keys:    []string{"lres", "ures", "tres"},
		Project: project,
		Out:     r.Out,
		Seed:    r.Seed,
		Pre: func(label, action string) {
			if label == "T" && action == "TSkip" {
				atomic.StoreInt32(&skipT, 1)
			}
			if label == "T" && action == "" {
				if sn, ok := r.Ctl.Snap("T"); ok && sn.Point == "start" {
					atomic.StoreInt32(&skipT, 1)
				}
			}
		},
	}
	run.Execute()
	r.Plans++
	r.Steps += run.Steps
	r.Skipped += run.Skipped
	r.Stalls += run.Stalls
	if run.Drifted {
		r.Drift++
	}
	// cleanup outside control
	r.Ctl.Disable()
	r.Ctl.Release(time.Second)
	r.Node.Kill(tpid)
	for _, l := range labels {
		r.Node.Kill(cpid[l])
	}
	return nil
}

func LoadPlans(path string) (*PlanFile, error) {
	b, err := os.ReadFile(path)
	if err != nil {
		return nil, err
	}
	var pf PlanFile
	if err := json.Unmarshal(b, &pf); err != nil {
		return nil, err
	}
	return &pf, nil
}

var _ = strings.HasPrefix
