//go:build verif

// Package busy knows which processes of the node are executing right now (the run loop of a process, including its termination
// and the notifications it sends, and the terminating goroutine of Kill), using the run.begin / run.end and kill.tbegin /
// kill.tend yield points.  Harnesses that wait for quiescence use it to close the window in which a process has already left
// the process table but has not yet delivered its exit signals.
package busy

import (
	"sync"

	"ergo.services/ergo/gen"
	"ergo.services/ergo/lib"
)

var (
	mu     sync.Mutex
	active = map[gen.PID]int{}
)

type hasPID interface{ PID() gen.PID }

// Hook is the yield-point callback; it can be chained from another hook.
func Hook(point string, subject any) {
	d := 0
	switch point {
	case "run.begin", "kill.tbegin":
		d = 1
	case "run.end", "kill.tend":
		d = -1
	default:
		return
	}
	p, ok := subject.(hasPID)
	if !ok {
		return
	}
	pid := p.PID()
	mu.Lock()
	if n := active[pid] + d; n <= 0 {
		delete(active, pid)
	} else {
		active[pid] = n
	}
	mu.Unlock()
}

// Install installs the tracker as the yield-point callback (before any process is started).
func Install() {
	mu.Lock()
	active = map[gen.PID]int{}
	mu.Unlock()
	lib.SetVerifHook(Hook)
}

// Any reports whether one of the given processes is between its begin and end points.
func Any(pids ...gen.PID) bool {
	mu.Lock()
	defer mu.Unlock()
	for _, p := range pids {
		if active[p] > 0 {
			return true
		}
	}
	return false
}
