//go:build verif

// Package eventfam runs event histories (register / publish / subscribe / unsubscribe / unregister / terminate) on a real
// node and records, after every operation at quiescence, what every consumer received; TLC validates against spec/Events.tla.
package eventfam

import (
	"bufio"
	"encoding/json"
	"errors"
	"fmt"
	"os"
	"sort"
	"sync"
	"time"
	"verif/harness/busy"

	"ergo.services/ergo/gen"
	"ergo.services/ergo/node"

	"verif/harness/gated"
)

type Op struct {
	Op     string `json:"op"`   // register publish badpublish subscribe unsubscribe unregister kill
	P      string `json:"p"`    // producer / consumer label
	E      string `json:"e"`    // event name
	Kind   string `json:"kind"` // link | monitor
	Buffer int    `json:"buffer"`
	Notify bool   `json:"notify"`
}

type History struct {
	ID  int  `json:"id"`
	Ops []Op `json:"ops"`
}

type File struct {
	Histories []History `json:"histories"`
}

type Line struct {
	P        int                 `json:"p"`
	Ev       string              `json:"ev"`
	Op       string              `json:"op"`
	Who      string              `json:"who"`
	E        string              `json:"e"`
	Kind     string              `json:"kind"`
	Buffer   int                 `json:"buffer"`
	Notify   bool                `json:"notify"`
	ID       string              `json:"id"`
	Res      string              `json:"res"`
	Returned []string            `json:"returned"` // buffered publications handed to a new subscriber
	Recv     map[string][]string `json:"recv"`     // consumer -> "<event>:<payload id>" in arrival order
	Gone     map[string][]string `json:"gone"`     // consumer -> "<exit|down>:<event>:<reason>" in arrival order
	Notices  map[string][]string `json:"notices"`  // producer -> "start:<event>" / "stop:<event>"
	Alive    map[string]bool     `json:"alive"`
}

var Producers = []string{"P1", "P2"}
var Consumers = []string{"C1", "C2", "C3"}
var EventNames = []string{"e1", "e2"}

type Runner struct {
	Node gen.Node
	Out  *bufio.Writer
	mu   sync.Mutex
	// stats
	Histories, Ops int
}

func StartNode(name string) (gen.Node, error) {
	var opt gen.NodeOptions
	opt.Log.DefaultLogger.Disable = true
	opt.Log.Level = gen.LogLevelDisabled
	opt.Network.Mode = gen.NetworkModeDisabled
	busy.Install()
	return node.Start(gen.Atom(name), opt, gen.Version{})
}

func resName(err error) string {
	switch {
	case err == nil:
		return "ok"
	case errors.Is(err, gen.ErrTaken):
		return "taken"
	case errors.Is(err, gen.ErrEventUnknown):
		return "unknown"
	case errors.Is(err, gen.ErrEventOwner):
		return "notowner"
	case errors.Is(err, gen.ErrTargetExist):
		return "exist"
	case errors.Is(err, gen.ErrTargetUnknown):
		return "norel"
	case errors.Is(err, gen.ErrProcessUnknown), errors.Is(err, gen.ErrProcessTerminated):
		return "dead"
	}
	return "err:" + err.Error()
}

func (r *Runner) Run(h *History) ([]Line, error) {
	w := &gated.World{}
	suffix := fmt.Sprintf("_%d_%d", os.Getpid()%1000, h.ID)
	pids := map[string]gen.PID{}
	for _, l := range append(append([]string{}, Producers...), Consumers...) {
		p, err := r.Node.Spawn(gated.Factory(w, l, true, nil), gen.ProcessOptions{})
		if err != nil {
			return nil, err
		}
		pids[l] = p
	}
	evName := func(e string) gen.Atom { return gen.Atom(e + suffix) }
	short := func(ev gen.Event) string {
		s := string(ev.Name)
		for _, e := range EventNames {
			if s == e+suffix {
				return e
			}
		}
		return s
	}
	tokens := map[string]gen.Ref{} // event -> token of the current registration
	seq := 0
	quiesce := func() {
		stable := 0
		last := -1
		deadline := time.Now().Add(3 * time.Second)
		for stable < 4 && time.Now().Before(deadline) {
			ok := true
			for _, p := range pids {
				if st, err := r.Node.ProcessState(p); err == nil && st != gen.ProcessStateSleep {
					ok = false
				}
				if busy.Any(p) {
					ok = false // running or terminating
				}
			}
			n := len(w.Snapshot())
			if ok && n == last {
				stable++
			} else {
				stable = 0
			}
			last = n
			time.Sleep(250 * time.Microsecond)
		}
	}
	observe := func(ln *Line) {
		ln.Recv = map[string][]string{}
		ln.Gone = map[string][]string{}
		ln.Notices = map[string][]string{}
		ln.Alive = map[string]bool{}
		for _, c := range Consumers {
			ln.Recv[c] = []string{}
			ln.Gone[c] = []string{}
		}
		for _, p := range Producers {
			ln.Notices[p] = []string{}
		}
		for l, p := range pids {
			_, err := r.Node.ProcessState(p)
			ln.Alive[l] = err == nil
		}
		for _, x := range w.Snapshot() {
			switch x.Kind {
			case "event":
				if _, ok := ln.Recv[x.Who]; ok {
					id, _ := x.Value.(string)
					// x.Target is Event.String(); recover the short name from the payload id
					ln.Recv[x.Who] = append(ln.Recv[x.Who], id)
				}
			case "exit", "down":
				if _, ok := ln.Gone[x.Who]; ok {
					ln.Gone[x.Who] = append(ln.Gone[x.Who], x.Kind+":"+x.Target+":"+x.Reason)
				}
			case "msg":
				if _, ok := ln.Notices[x.Who]; ok {
					switch m := x.Value.(type) {
					case gen.MessageEventStart:
						ln.Notices[x.Who] = append(ln.Notices[x.Who], "start:"+short(gen.Event{Name: m.Name}))
					case gen.MessageEventStop:
						ln.Notices[x.Who] = append(ln.Notices[x.Who], "stop:"+short(gen.Event{Name: m.Name}))
					}
				}
			}
		}
		// normalise the targets of exit/down notes to short event names
		for c, lst := range ln.Gone {
			for i, s := range lst {
				for _, e := range EventNames {
					full := gen.Event{Name: evName(e), Node: r.Node.Name()}.String()
					if len(s) > len(full) {
						// "<kind>:<full>:<reason>"
						for _, k := range []string{"exit:", "down:"} {
							if len(s) >= len(k)+len(full) && s[:len(k)] == k && s[len(k):len(k)+len(full)] == full {
								lst[i] = k + e + s[len(k)+len(full):]
							}
						}
					}
				}
			}
			ln.Gone[c] = lst
		}
	}
	var lines []Line
	quiesce()
	first := Line{P: h.ID, Ev: "reset"}
	observe(&first)
	lines = append(lines, first)
	for _, op := range h.Ops {
		ln := Line{P: h.ID, Ev: "op", Op: op.Op, Who: op.P, E: op.E, Kind: op.Kind, Buffer: op.Buffer, Notify: op.Notify}
		pid, okp := pids[op.P]
		var res error
		ev := gen.Event{Name: evName(op.E), Node: r.Node.Name()}
		do := func(fn func(s *gated.Scripted) error) {
			if !okp {
				res = errors.New("no such process")
				return
			}
			if _, err := r.Node.ProcessState(pid); err != nil {
				res = gen.ErrProcessUnknown
				return
			}
			e := gated.Do(r.Node, pid, func(s *gated.Scripted) error { res = fn(s); return nil })
			if e != nil {
				res = e
			}
		}
		if op.P == "N" {
			// the node itself owns and publishes the event (it has no mailbox: notices addressed to it go nowhere)
			switch op.Op {
			case "register":
				t, err := r.Node.RegisterEvent(ev.Name, gen.EventOptions{Notify: op.Notify, Buffer: op.Buffer})
				if err == nil {
					tokens[op.E] = t
				}
				res = err
			case "unregister":
				res = r.Node.UnregisterEvent(ev.Name)
			case "publish":
				seq++
				ln.ID = fmt.Sprintf("%s:%d", op.E, seq)
				res = r.Node.SendEvent(ev.Name, tokens[op.E], gen.MessageOptions{}, ln.ID)
			case "badpublish":
				seq++
				ln.ID = fmt.Sprintf("%s:%d", op.E, seq)
				res = r.Node.SendEvent(ev.Name, r.Node.(gen.Core).MakeRef(), gen.MessageOptions{}, ln.ID)
			}
			ln.Res = resName(res)
			quiesce()
			observe(&ln)
			if ln.Returned == nil {
				ln.Returned = []string{}
			}
			lines = append(lines, ln)
			r.Ops++
			continue
		}
		switch op.Op {
		case "register":
			do(func(s *gated.Scripted) error {
				t, err := s.RegisterEvent(ev.Name, gen.EventOptions{Notify: op.Notify, Buffer: op.Buffer})
				if err == nil {
					tokens[op.E] = t
				}
				return err
			})
		case "unregister":
			do(func(s *gated.Scripted) error { return s.UnregisterEvent(ev.Name) })
		case "publish":
			seq++
			ln.ID = fmt.Sprintf("%s:%d", op.E, seq)
			id := ln.ID
			do(func(s *gated.Scripted) error { return s.SendEvent(ev.Name, tokens[op.E], id) })
		case "badpublish":
			seq++
			ln.ID = fmt.Sprintf("%s:%d", op.E, seq)
			id := ln.ID
			do(func(s *gated.Scripted) error { return s.SendEvent(ev.Name, r.Node.(gen.Core).MakeRef(), id) })
		case "subscribe":
			do(func(s *gated.Scripted) error {
				var lst []gen.MessageEvent
				var err error
				if op.Kind == "link" {
					lst, err = s.LinkEvent(ev)
				} else {
					lst, err = s.MonitorEvent(ev)
				}
				for _, m := range lst {
					id, _ := m.Message.(string)
					ln.Returned = append(ln.Returned, id)
				}
				return err
			})
		case "unsubscribe":
			do(func(s *gated.Scripted) error {
				if op.Kind == "link" {
					return s.UnlinkEvent(ev)
				}
				return s.DemonitorEvent(ev)
			})
		case "kill":
			if okp {
				res = r.Node.Kill(pid)
			}
		}
		ln.Res = resName(res)
		quiesce()
		observe(&ln)
		if ln.Returned == nil {
			ln.Returned = []string{}
		}
		lines = append(lines, ln)
		r.Ops++
	}
	lines = append(lines, Line{P: h.ID, Ev: "end", Returned: []string{}})
	for _, p := range pids {
		r.Node.Kill(p)
	}
	r.Histories++
	return lines, nil
}

func (r *Runner) RunAll(f *File, par int) error {
	results := make(map[int][]Line)
	var rmu sync.Mutex
	var firstErr error
	sem := make(chan struct{}, par)
	var wg sync.WaitGroup
	for i := range f.Histories {
		h := &f.Histories[i]
		wg.Add(1)
		sem <- struct{}{}
		go func() {
			defer wg.Done()
			defer func() { <-sem }()
			ls, err := r.Run(h)
			rmu.Lock()
			if err != nil && firstErr == nil {
				firstErr = fmt.Errorf("history %d: %w", h.ID, err)
			}
			results[h.ID] = ls
			rmu.Unlock()
		}()
	}
	wg.Wait()
	ids := make([]int, 0, len(results))
	for id := range results {
		ids = append(ids, id)
	}
	sort.Ints(ids)
	empty := map[string][]string{}
	for _, c := range Consumers {
		empty[c] = []string{}
	}
	emptyN := map[string][]string{}
	for _, p := range Producers {
		emptyN[p] = []string{}
	}
	for _, id := range ids {
		for i := range results[id] {
			ln := &results[id][i]
			if ln.Recv == nil {
				ln.Recv = empty
			}
			if ln.Gone == nil {
				ln.Gone = empty
			}
			if ln.Notices == nil {
				ln.Notices = emptyN
			}
			if ln.Alive == nil {
				ln.Alive = map[string]bool{}
			}
			if ln.Returned == nil {
				ln.Returned = []string{}
			}
			b, _ := json.Marshal(ln)
			r.Out.Write(b)
			r.Out.WriteByte('\n')
		}
	}
	r.Out.Flush()
	return firstErr
}

func Load(path string) (*File, error) {
	b, err := os.ReadFile(path)
	if err != nil {
		return nil, err
	}
	var f File
	if err := json.Unmarshal(b, &f); err != nil {
		return nil, err
	}
	return &f, nil
}
