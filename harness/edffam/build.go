//go:build verif

package edffam

import (
	"errors"
	"fmt"
	"math"
	"reflect"
	"strings"
	"time"

	"ergo.services/ergo/gen"
)

// goType returns the Go type of a type term
func goType(T Term) (reflect.Type, error) {
	k, _ := T["k"].(string)
	switch k {
	case "slice":
		e, err := goType(T["e"].(Term))
		if err != nil {
			return nil, err
		}
		return reflect.SliceOf(e), nil
	case "array":
		e, err := goType(T["e"].(Term))
		if err != nil {
			return nil, err
		}
		return reflect.ArrayOf(num(T["n"]), e), nil
	case "map":
		kt, err := goType(T["key"].(Term))
		if err != nil {
			return nil, err
		}
		e, err := goType(T["e"].(Term))
		if err != nil {
			return nil, err
		}
		return reflect.MapOf(kt, e), nil
	case "reg":
		t, ok := regByName[T["name"].(string)]
		if !ok {
			return nil, fmt.Errorf("unknown registered type %v", T["name"])
		}
		return t, nil
	}
	t, ok := leafTypes[k]
	if !ok {
		return nil, fmt.Errorf("unknown type term %v", T)
	}
	return t, nil
}

func num(x any) int {
	switch v := x.(type) {
	case float64:
		return int(v)
	case int:
		return v
	}
	return 0
}

func str(x any) string { s, _ := x.(string); return s }

func has(V Term, k string) bool { _, ok := V[k]; return ok }

func fillString(n int, fill string) string {
	var sb strings.Builder
	sb.Grow(n + 8)
	switch fill {
	case "pct":
		pat := "%d of 50%s is 100%% %v;"
		for sb.Len() < n {
			sb.WriteString(pat)
		}
	case "utf":
		pat := "é☃𝄞z"
		for sb.Len() < n {
			sb.WriteString(pat)
		}
	default:
		for i := 0; sb.Len() < n; i++ {
			sb.WriteByte(byte('a' + (i*7+3)%26))
		}
	}
	return sb.String()[:n]
}

func intClass(c string, bits int) int64 {
	switch c {
	case "min":
		return -1 << (bits - 1)
	case "max":
		return 1<<(bits-1) - 1
	case "m1":
		return -1
	case "one":
		return 1
	case "pat":
		return int64(0x0102030405060708) >> (64 - bits)
	case "npat":
		return -(int64(0x0102030405060708) >> (64 - bits))
	}
	return 0
}

func uintClass(c string, bits int) uint64 {
	switch c {
	case "max":
		return math.MaxUint64 >> (64 - bits)
	case "one":
		return 1
	case "pat":
		return uint64(0xf1e2d3c4b5a69788) >> (64 - bits)
	case "high":
		return uint64(1) << (bits - 1)
	}
	return 0
}

func floatClass(c string, bits int) float64 {
	switch c {
	case "one":
		return 1.5
	case "neg":
		return -2.25e10
	case "inf":
		return math.Inf(1)
	case "ninf":
		return math.Inf(-1)
	case "nan":
		return math.NaN()
	case "max":
		if bits == 32 {
			return math.MaxFloat32
		}
		return math.MaxFloat64
	case "tiny":
		if bits == 32 {
			return math.SmallestNonzeroFloat32
		}
		return math.SmallestNonzeroFloat64
	case "negzero":
		return math.Copysign(0, -1)
	case "pi":
		if bits == 32 {
			return float64(float32(math.Pi))
		}
		return math.Pi
	}
	return 0
}

func atomOf(V Term) gen.Atom {
	if c, ok := V["c"].(string); ok {
		return CachedAtoms[c]
	}
	return gen.Atom(fillString(num(V["len"]), "a"))
}

func timeClass(c string) time.Time {
	switch c {
	case "utc":
		return time.Date(2024, 2, 29, 23, 59, 59, 999999999, time.UTC)
	case "zone":
		return time.Date(1999, 12, 31, 23, 59, 59, 1, time.FixedZone("X", 5*3600+30*60))
	case "wzone":
		return time.Date(2038, 1, 19, 3, 14, 8, 0, time.FixedZone("", -11*3600))
	case "far":
		return time.Date(9999, 12, 31, 23, 59, 59, 0, time.UTC)
	case "old":
		return time.Date(1, 1, 1, 0, 0, 1, 0, time.UTC)
	case "now":
		return time.Unix(1758650000, 123456789) // local zone
	}
	return time.Time{}
}

// build makes the Go value of type term T described by value term V
func build(T Term, V Term) (reflect.Value, error) {
	t, err := goType(T)
	if err != nil {
		return reflect.Value{}, err
	}
	v := reflect.New(t).Elem()
	if err := fill(v, T, V); err != nil {
		return reflect.Value{}, err
	}
	return v, nil
}

func fill(v reflect.Value, T Term, V Term) error {
	k := str(T["k"])
	switch k {
	case "reg":
		name := str(T["name"])
		t := regByName[name]
		switch {
		case name == "Marsh":
			v.Set(reflect.ValueOf(Marsh{N: num(V["len"])}))
			return nil
		case name == "BinMarsh":
			v.Set(reflect.ValueOf(BinMarsh{N: num(V["len"])}))
			return nil
		case t.Kind() == reflect.Struct:
			fields, _ := V["fields"].([]any)
			if len(fields) != t.NumField() {
				return fmt.Errorf("%s: %d field values for %d fields", name, len(fields), t.NumField())
			}
			for i := range fields {
				ft, err := typeTerm(t.Field(i).Type)
				if err != nil {
					return err
				}
				if err := fill(v.Field(i), ft, fields[i].(Term)); err != nil {
					return err
				}
			}
			return nil
		case t.Kind() == reflect.Slice || t.Kind() == reflect.Array || t.Kind() == reflect.Map:
			var u Term
			et, err := typeTerm(t.Elem())
			if err != nil {
				return err
			}
			switch t.Kind() {
			case reflect.Slice:
				u = Term{"k": "slice", "e": et}
			case reflect.Array:
				u = Term{"k": "array", "n": t.Len(), "e": et}
			default:
				kt, err := typeTerm(t.Key())
				if err != nil {
					return err
				}
				u = Term{"k": "map", "key": kt, "e": et}
			}
			return fillComposite(v, u, V)
		default:
			return fillLeaf(v, kindLeaf[t.Kind()], V)
		}
	case "slice", "array", "map":
		return fillComposite(v, T, V)
	case "any":
		if has(V, "nil") {
			return nil
		}
		x, err := build(V["t"].(Term), V["v"].(Term))
		if err != nil {
			return err
		}
		v.Set(x)
		return nil
	}
	return fillLeaf(v, k, V)
}

func fillComposite(v reflect.Value, T Term, V Term) error {
	switch str(T["k"]) {
	case "slice":
		if has(V, "nil") {
			return nil
		}
		items, _ := V["items"].([]any)
		s := reflect.MakeSlice(v.Type(), len(items), len(items))
		for i := range items {
			if err := fill(s.Index(i), T["e"].(Term), items[i].(Term)); err != nil {
				return err
			}
		}
		v.Set(s)
	case "array":
		items, _ := V["items"].([]any)
		if len(items) != v.Len() {
			return fmt.Errorf("array of %d with %d items", v.Len(), len(items))
		}
		for i := range items {
			if err := fill(v.Index(i), T["e"].(Term), items[i].(Term)); err != nil {
				return err
			}
		}
	case "map":
		if has(V, "nil") {
			return nil
		}
		pairs, _ := V["pairs"].([]any)
		m := reflect.MakeMapWithSize(v.Type(), len(pairs))
		for _, p := range pairs {
			pt := p.(Term)
			kv := reflect.New(v.Type().Key()).Elem()
			if err := fill(kv, T["key"].(Term), pt["k"].(Term)); err != nil {
				return err
			}
			ev := reflect.New(v.Type().Elem()).Elem()
			if err := fill(ev, T["e"].(Term), pt["v"].(Term)); err != nil {
				return err
			}
			m.SetMapIndex(kv, ev)
		}
		if m.Len() != len(pairs) {
			return fmt.Errorf("map keys are not distinct")
		}
		v.Set(m)
	}
	return nil
}

func fillLeaf(v reflect.Value, k string, V Term) error {
	c := str(V["c"])
	switch k {
	case "bool":
		v.SetBool(c == "t")
	case "i8", "i16", "i32", "i64", "int":
		bits := map[string]int{"i8": 8, "i16": 16, "i32": 32, "i64": 64, "int": 64}[k]
		v.SetInt(intClass(c, bits))
	case "u8", "u16", "u32", "u64", "uint":
		bits := map[string]int{"u8": 8, "u16": 16, "u32": 32, "u64": 64, "uint": 64}[k]
		v.SetUint(uintClass(c, bits))
	case "f32":
		v.SetFloat(floatClass(c, 32))
	case "f64":
		v.SetFloat(floatClass(c, 64))
	case "str":
		v.SetString(fillString(num(V["len"]), str(V["fill"])))
	case "bin":
		if has(V, "nil") {
			return nil
		}
		b := make([]byte, num(V["len"]))
		for i := range b {
			b[i] = byte(i*13 + 1)
		}
		v.SetBytes(b)
	case "atom":
		v.Set(reflect.ValueOf(atomOf(V)))
	case "pid":
		v.Set(reflect.ValueOf(gen.PID{Node: atomOf(V["node"].(Term)), ID: uintClass(str(V["id"]), 64), Creation: intClass(str(V["cr"]), 64)}))
	case "procid":
		v.Set(reflect.ValueOf(gen.ProcessID{Node: atomOf(V["node"].(Term)), Name: atomOf(V["name"].(Term))}))
	case "event":
		v.Set(reflect.ValueOf(gen.Event{Node: atomOf(V["node"].(Term)), Name: atomOf(V["name"].(Term))}))
	case "alias":
		id := uintClass(str(V["id"]), 64)
		v.Set(reflect.ValueOf(gen.Alias{Node: atomOf(V["node"].(Term)), ID: [3]uint64{id, id ^ 0x55, id >> 3}, Creation: intClass(str(V["cr"]), 64)}))
	case "ref":
		id := uintClass(str(V["id"]), 64)
		v.Set(reflect.ValueOf(gen.Ref{Node: atomOf(V["node"].(Term)), ID: [3]uint64{id, id ^ 0xaa, id >> 5}, Creation: intClass(str(V["cr"]), 64)}))
	case "time":
		v.Set(reflect.ValueOf(timeClass(c)))
	case "err":
		switch {
		case has(V, "nil"):
		case has(V, "sentinel"):
			e, ok := Sentinels[str(V["sentinel"])]
			if !ok {
				return fmt.Errorf("unknown sentinel %v", V["sentinel"])
			}
			v.Set(reflect.ValueOf(e))
		case has(V, "wrapped"):
			v.Set(reflect.ValueOf(fmt.Errorf("context: %w", Sentinels[str(V["wrapped"])])))
		default:
			tx := V["text"].(Term)
			v.Set(reflect.ValueOf(errors.New(fillString(num(tx["len"]), str(tx["fill"])))))
		}
	default:
		return fmt.Errorf("unknown leaf %q", k)
	}
	return nil
}

// ---- comparison --------------------------------------------------------------------------

// differ returns "" when got is an equal value of the same type as want, else the path of the first difference.
// Leniencies the property allows: nil and empty []byte are the same; NaN equals NaN; times are compared by instant and zone offset;
// errors by text (sentinels by identity when ident is true).
func differ(want, got reflect.Value, ident bool, path string) string {
	if want.IsValid() != got.IsValid() {
		return path + ": nil-ness of the value"
	}
	if !want.IsValid() {
		return ""
	}
	if want.Type() != got.Type() {
		if want.Type().Implements(tErr) && got.Type().Implements(tErr) {
			return differErr(want.Interface().(error), got.Interface().(error), ident, path)
		}
		return fmt.Sprintf("%s: type %v, want %v", path, got.Type(), want.Type())
	}
	t := want.Type()
	if t == tTime {
		a, b := want.Interface().(time.Time), got.Interface().(time.Time)
		_, oa := a.Zone()
		_, ob := b.Zone()
		if !a.Equal(b) || oa != ob {
			return fmt.Sprintf("%s: time %v, want %v", path, b, a)
		}
		return ""
	}
	if t == tBin {
		a, b := want.Bytes(), got.Bytes()
		if string(a) != string(b) {
			return fmt.Sprintf("%s: %d bytes differ from the %d sent", path, len(b), len(a))
		}
		return ""
	}
	switch t.Kind() {
	case reflect.Interface:
		if want.IsNil() != got.IsNil() {
			return path + ": nil-ness of the interface value"
		}
		if want.IsNil() {
			return ""
		}
		if t == tErr || t.Implements(tErr) {
			return differErr(want.Interface().(error), got.Interface().(error), ident, path)
		}
		return differ(want.Elem(), got.Elem(), ident, path)
	case reflect.Pointer:
		if t.Implements(tErr) {
			return differErr(want.Interface().(error), got.Interface().(error), ident, path)
		}
		return path + ": pointer"
	case reflect.Float32, reflect.Float64:
		a, b := want.Float(), got.Float()
		if a != b && !(math.IsNaN(a) && math.IsNaN(b)) {
			return fmt.Sprintf("%s: %v, want %v", path, b, a)
		}
		return ""
	case reflect.Slice:
		if want.IsNil() != got.IsNil() {
			return fmt.Sprintf("%s: nil slice %v, want %v", path, got.IsNil(), want.IsNil())
		}
		if want.Len() != got.Len() {
			return fmt.Sprintf("%s: length %d, want %d", path, got.Len(), want.Len())
		}
		for i := 0; i < want.Len(); i++ {
			if d := differ(want.Index(i), got.Index(i), ident, fmt.Sprintf("%s[%d]", path, i)); d != "" {
				return d
			}
		}
		return ""
	case reflect.Array:
		for i := 0; i < want.Len(); i++ {
			if d := differ(want.Index(i), got.Index(i), ident, fmt.Sprintf("%s[%d]", path, i)); d != "" {
				return d
			}
		}
		return ""
	case reflect.Map:
		if want.IsNil() != got.IsNil() {
			return fmt.Sprintf("%s: nil map %v, want %v", path, got.IsNil(), want.IsNil())
		}
		if want.Len() != got.Len() {
			return fmt.Sprintf("%s: %d entries, want %d", path, got.Len(), want.Len())
		}
		it := want.MapRange()
		for it.Next() {
			g := got.MapIndex(it.Key())
			if !g.IsValid() {
				return fmt.Sprintf("%s: key %v missing", path, short(it.Key()))
			}
			if d := differ(it.Value(), g, ident, fmt.Sprintf("%s[%v]", path, short(it.Key()))); d != "" {
				return d
			}
		}
		return ""
	case reflect.Struct:
		for i := 0; i < t.NumField(); i++ {
			if d := differ(want.Field(i), got.Field(i), ident, path+"."+t.Field(i).Name); d != "" {
				return d
			}
		}
		return ""
	case reflect.String:
		if want.String() != got.String() {
			return fmt.Sprintf("%s: string of %d bytes differs from the %d sent", path, got.Len(), want.Len())
		}
		return ""
	case reflect.Bool:
		if want.Bool() != got.Bool() {
			return path + ": bool"
		}
		return ""
	case reflect.Int, reflect.Int8, reflect.Int16, reflect.Int32, reflect.Int64:
		if want.Int() != got.Int() {
			return fmt.Sprintf("%s: %d, want %d", path, got.Int(), want.Int())
		}
		return ""
	case reflect.Uint, reflect.Uint8, reflect.Uint16, reflect.Uint32, reflect.Uint64:
		if want.Uint() != got.Uint() {
			return fmt.Sprintf("%s: %d, want %d", path, got.Uint(), want.Uint())
		}
		return ""
	}
	return fmt.Sprintf("%s: kind %v is not compared", path, t.Kind())
}

func short(v reflect.Value) string {
	s := fmt.Sprintf("%v", v.Interface())
	if len(s) > 24 {
		s = s[:24] + "..."
	}
	return s
}

func differErr(a, b error, ident bool, path string) string {
	for _, s := range Sentinels {
		if a == s && ident {
			if b != s {
				return fmt.Sprintf("%s: registered error %q came back as another value (%T)", path, a.Error(), b)
			}
			return ""
		}
	}
	if a.Error() != b.Error() {
		x, y := a.Error(), b.Error()
		if len(x) > 60 {
			x = x[:60] + "..."
		}
		if len(y) > 60 {
			y = y[:60] + "..."
		}
		return fmt.Sprintf("%s: error text %q, want %q", path, y, x)
	}
	return ""
}
