//go:build verif

// Package edffam instantiates abstract EDF cases (type term + value term, spec/EDF.tla) as real Go values, runs the real
// edf.Encode / edf.Decode on them under several cache configurations and records what happened; TLC judges the records.
package edffam

import (
	"errors"
	"fmt"
	"io"
	"reflect"
	"time"

	"ergo.services/ergo/gen"
	"ergo.services/ergo/net/edf"
)

// ---- the family of registered types ---------------------------------------------------

type NI16 int16
type NI64 int64
type NU8 uint8
type NU64 uint64
type NInt int
type NStr string
type NF32 float32
type NF64 float64
type NBool bool

type NSliceI []int32
type NSliceAny []any
type NSliceStr []string
type NSliceN []NI16
type NMapSI map[string]int
type NMapAA map[gen.Atom]any
type NMapXS map[any]string
type NMapNL map[NStr][]string
type NArr2 [2]uint16
type NArr0 [0]int
type NArr3S [3]string

type Inner struct {
	A int8
	S string
}

type SEmpty struct{}

type S1 struct {
	B   bool
	I   int64
	U   uint16
	F   float32
	S   string
	Bin []byte
	At  gen.Atom
	E   error
	X   any
}

type S2 struct {
	In  Inner
	L   []Inner
	M   map[string]Inner
	P   gen.PID
	R   gen.Ref
	T   time.Time
	N   NI16
	Arr [2]Inner
}

type S3 struct {
	LL [][]string
	MA map[gen.Atom][]any
	AA [2][]byte
	Al gen.Alias
	Ev gen.Event
	Pr gen.ProcessID
	NS NSliceI
	NM NMapSI
	Em SEmpty
	Ms Marsh
}

type S4 struct {
	X1 any
	E1 error
	X2 any
	E2 error
	U  uint64
	I  int
	F  float64
	S  NStr
}

// S5: collections of interface values and interface slots, each followed by a nested registered struct (they share codec state)
type S5 struct {
	A   []any
	In1 Inner
	M   map[string]any
	In2 Inner
	X   any
	In3 Inner
	Arr [2]any
	In4 Inner
	NA  NSliceAny
	In5 Inner
	E   error
	Nm  NMapXS
	In6 Inner
}

// Marsh implements edf.Marshaler / edf.Unmarshaler: N bytes of a pattern
type Marsh struct {
	N int
}

func (m Marsh) MarshalEDF(w io.Writer) error {
	b := make([]byte, m.N)
	for i := range b {
		b[i] = byte(i*11 + 5)
	}
	_, err := w.Write(b)
	return err
}

func (m *Marsh) UnmarshalEDF(b []byte) error {
	for i := range b {
		if b[i] != byte(i*11+5) {
			return fmt.Errorf("marsh: byte %d is %d", i, b[i])
		}
	}
	m.N = len(b)
	return nil
}

// BinMarsh implements encoding.BinaryMarshaler / BinaryUnmarshaler
type BinMarsh struct {
	N int
}

func (m BinMarsh) MarshalBinary() ([]byte, error) {
	b := make([]byte, m.N)
	for i := range b {
		b[i] = byte(i*7 + 1)
	}
	return b, nil
}

func (m *BinMarsh) UnmarshalBinary(b []byte) error {
	for i := range b {
		if b[i] != byte(i*7+1) {
			return fmt.Errorf("binmarsh: byte %d is %d", i, b[i])
		}
	}
	m.N = len(b)
	return nil
}

type sentinelErr struct{ s string }

func (e *sentinelErr) Error() string { return e.s }

var (
	SentA = errors.New("verif sentinel A")
	SentB = &sentinelErr{"verif sentinel B with 100% of the text"}
	// registration order: a type must be registered before a type that mentions it
	family = []any{
		NI16(0), NI64(0), NU8(0), NU64(0), NInt(0), NStr(""), NF32(0), NF64(0), NBool(false),
		NSliceI(nil), NSliceAny(nil), NSliceStr(nil), NSliceN(nil), NMapSI(nil), NMapAA(nil), NMapXS(nil), NMapNL(nil), NArr2{}, NArr0{}, NArr3S{},
		Inner{}, SEmpty{}, Marsh{}, BinMarsh{}, S1{}, S2{}, S3{}, S4{}, S5{},
	}
	// types the framework registers itself (net/edf/init.go): the first of them owns the lowest cache id
	framework = []any{gen.Env(""), gen.LogLevel(0), gen.ProcessState(0), gen.Version{}, gen.MessageEvent{}, gen.ProcessFallback{}, gen.ProcessShortInfo{}}
	// the names in the partial type cache (every other one)
	CachedAtoms = map[string]gen.Atom{"c1": "verif_cached_atom_one@host", "c2": "c2"}
	Sentinels   = map[string]error{"A": SentA, "B": SentB, "gen": gen.ErrTimeout, "kill": gen.TerminateReasonKill}

	regByName = map[string]reflect.Type{}
	regNames  = map[reflect.Type]string{}
	regOrder  []string
)

var (
	tAtom   = reflect.TypeOf(gen.Atom(""))
	tPID    = reflect.TypeOf(gen.PID{})
	tProcID = reflect.TypeOf(gen.ProcessID{})
	tAlias  = reflect.TypeOf(gen.Alias{})
	tEvent  = reflect.TypeOf(gen.Event{})
	tRef    = reflect.TypeOf(gen.Ref{})
	tTime   = reflect.TypeOf(time.Time{})
	tBin    = reflect.TypeOf([]byte(nil))
	tErr    = reflect.TypeOf((*error)(nil)).Elem()
	tAny    = reflect.TypeOf((*any)(nil)).Elem()

	leafTypes = map[string]reflect.Type{
		"bool": reflect.TypeOf(false), "i8": reflect.TypeOf(int8(0)), "i16": reflect.TypeOf(int16(0)), "i32": reflect.TypeOf(int32(0)),
		"i64": reflect.TypeOf(int64(0)), "int": reflect.TypeOf(int(0)), "u8": reflect.TypeOf(uint8(0)), "u16": reflect.TypeOf(uint16(0)),
		"u32": reflect.TypeOf(uint32(0)), "u64": reflect.TypeOf(uint64(0)), "uint": reflect.TypeOf(uint(0)), "f32": reflect.TypeOf(float32(0)),
		"f64": reflect.TypeOf(float64(0)), "str": reflect.TypeOf(""), "bin": tBin, "atom": tAtom, "pid": tPID, "procid": tProcID,
		"alias": tAlias, "event": tEvent, "ref": tRef, "time": tTime, "err": tErr, "any": tAny,
	}
	kindLeaf = map[reflect.Kind]string{
		reflect.Bool: "bool", reflect.Int8: "i8", reflect.Int16: "i16", reflect.Int32: "i32", reflect.Int64: "i64", reflect.Int: "int",
		reflect.Uint8: "u8", reflect.Uint16: "u16", reflect.Uint32: "u32", reflect.Uint64: "u64", reflect.Uint: "uint",
		reflect.Float32: "f32", reflect.Float64: "f64", reflect.String: "str",
	}
)

// Register registers the family, the cached atoms and the sentinel errors with the real codec (once per process).
func Register() error {
	for _, v := range family {
		t := reflect.TypeOf(v)
		if err := edf.RegisterTypeOf(v); err != nil {
			return fmt.Errorf("register %v: %w", t, err)
		}
		regByName[t.Name()] = t
		regNames[t] = t.Name()
		regOrder = append(regOrder, t.Name())
	}
	for _, v := range framework {
		t := reflect.TypeOf(v)
		regByName[t.Name()] = t
		regNames[t] = t.Name()
		regOrder = append(regOrder, t.Name())
	}
	for _, k := range []string{"c1", "c2"} {
		a := CachedAtoms[k]
		if err := edf.RegisterAtom(a); err != nil {
			return fmt.Errorf("register atom %q: %w", a, err)
		}
	}
	for _, k := range []string{"A", "B"} {
		if err := edf.RegisterError(Sentinels[k]); err != nil {
			return fmt.Errorf("register error %q: %w", k, err)
		}
	}
	return nil
}

// Term is a type term or a value term of spec/EDF.tla (a JSON object)
type Term = map[string]any

// typeTerm derives the type term of a Go type by reflection (registered types by name)
func typeTerm(t reflect.Type) (Term, error) {
	if n, ok := regNames[t]; ok {
		return Term{"k": "reg", "name": n}, nil
	}
	for k, lt := range leafTypes {
		if lt == t {
			return Term{"k": k}, nil
		}
	}
	switch t.Kind() {
	case reflect.Slice:
		e, err := typeTerm(t.Elem())
		if err != nil {
			return nil, err
		}
		return Term{"k": "slice", "e": e}, nil
	case reflect.Array:
		e, err := typeTerm(t.Elem())
		if err != nil {
			return nil, err
		}
		return Term{"k": "array", "n": t.Len(), "e": e}, nil
	case reflect.Map:
		k, err := typeTerm(t.Key())
		if err != nil {
			return nil, err
		}
		e, err := typeTerm(t.Elem())
		if err != nil {
			return nil, err
		}
		return Term{"k": "map", "key": k, "e": e}, nil
	}
	return nil, fmt.Errorf("no type term for %v", t)
}

// Table describes the registered family for the specification: name -> length of the wire name, cache id, position in the
// partial cache, underlying shape (derived by reflection from the Go types, so the specification cannot drift from them).
func Table() (map[string]Term, error) {
	ids := map[string]int{}
	for id, name := range edf.GetRegCache() {
		ids[name] = int(id)
	}
	out := map[string]Term{}
	for i, name := range regOrder {
		t := regByName[name]
		full := fmt.Sprintf("#%s/%s", t.PkgPath(), t.Name())
		var u Term
		switch {
		case name == "Marsh" || name == "BinMarsh":
			u = Term{"k": "marsh"}
		case t.Kind() == reflect.Struct:
			fields := []any{}
			for j := 0; j < t.NumField(); j++ {
				ft, err := typeTerm(t.Field(j).Type)
				if err != nil {
					return nil, err
				}
				fields = append(fields, ft)
			}
			u = Term{"k": "struct", "fields": fields}
		case t.Kind() == reflect.Slice:
			e, err := typeTerm(t.Elem())
			if err != nil {
				return nil, err
			}
			u = Term{"k": "slice", "e": e}
		case t.Kind() == reflect.Array:
			e, err := typeTerm(t.Elem())
			if err != nil {
				return nil, err
			}
			u = Term{"k": "array", "n": t.Len(), "e": e}
		case t.Kind() == reflect.Map:
			k, err := typeTerm(t.Key())
			if err != nil {
				return nil, err
			}
			e, err := typeTerm(t.Elem())
			if err != nil {
				return nil, err
			}
			u = Term{"k": "map", "key": k, "e": e}
		default:
			l, ok := kindLeaf[t.Kind()]
			if !ok {
				return nil, fmt.Errorf("no shape for %v", t)
			}
			u = Term{"k": "named", "of": l}
		}
		id, ok := ids[full]
		if !ok {
			return nil, fmt.Errorf("%s has no cache id", full)
		}
		out[name] = Term{"fulllen": len(full), "id": id, "part": i%2 == 0, "u": u}
	}
	return out, nil
}

// Meta is what the specification needs to know about atoms and errors of this process
func Meta() Term {
	atoms := Term{}
	ac := edf.GetAtomCache()
	for k, a := range CachedAtoms {
		for id, x := range ac {
			if x == a {
				atoms[k] = Term{"id": int(id), "len": len(a)}
			}
		}
	}
	errs := Term{}
	ec := edf.GetErrCache()
	for k, e := range Sentinels {
		for id, x := range ec {
			if x == e {
				_, custom := e.(*sentinelErr)
				errs[k] = Term{"id": int(id), "len": len(e.Error()), "custom": custom}
			}
		}
	}
	return Term{"atoms": atoms, "errs": errs}
}
