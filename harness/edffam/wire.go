//go:build verif

package edffam

import (
	"bufio"
	"encoding/json"
	"fmt"
	"os"
	"reflect"
	"strings"
	"time"

	"ergo.services/ergo/act"
	"ergo.services/ergo/gen"
	"ergo.services/ergo/net/edf"

	"verif/harness/netfam"
)

// Wire is the envelope a case travels in between two real nodes (the value sits in a slot of interface type)
type Wire struct {
	ID int64
	V  any
}

type sink struct {
	act.Actor
	ch chan any
}

func (s *sink) HandleMessage(from gen.PID, message any) error {
	s.ch <- message
	return nil
}

// RunWire sends every case from one real node to another one (caches negotiated by the real handshake) and records what the
// receiving process got: every case inside the envelope, every third one also as the message itself.
func RunWire(in, out string) (int, error) {
	if err := edf.RegisterTypeOf(Wire{}); err != nil {
		return 0, err
	}
	f, err := os.Open(in)
	if err != nil {
		return 0, err
	}
	defer f.Close()
	o, err := os.Create(out)
	if err != nil {
		return 0, err
	}
	defer o.Close()
	bw := bufio.NewWriterSize(o, 1<<20)
	defer bw.Flush()
	pid := os.Getpid()
	p, err := netfam.StartPair(netfam.NodeOpts{Name: fmt.Sprintf("edfa%d@localhost", pid), Cookie: "edf", PoolSize: 1},
		netfam.NodeOpts{Name: fmt.Sprintf("edfb%d@localhost", pid), Cookie: "edf", PoolSize: 1})
	if err != nil {
		return 0, err
	}
	defer p.Stop()
	if _, err := p.Connect("edf"); err != nil {
		return 0, fmt.Errorf("connect: %w", err)
	}
	sk := &sink{ch: make(chan any, 16)}
	spid, err := p.B.SpawnRegister("edfsink", func() gen.ProcessBehavior { return sk }, gen.ProcessOptions{})
	if err != nil {
		return 0, err
	}
	_ = spid
	to := gen.ProcessID{Name: "edfsink", Node: p.B.Name()}
	drain := func() {
		for {
			select {
			case <-sk.ch:
			default:
				return
			}
		}
	}
	// one exchange: send, wait for the arrival
	exchange := func(msg any, id int64, want reflect.Value) Res {
		r := Res{Cfg: "wire", Dec: "none", Again: true, Prefixed: true, Intact: true}
		drain()
		if err := p.A.Send(to, msg); err != nil {
			r.Enc, r.EncErr = "rejected", clip(err.Error())
			return r
		}
		r.Enc = "ok"
		select {
		case got := <-sk.ch:
			r.Dec = "ok"
			gv := reflect.ValueOf(got)
			if id != 0 {
				w, ok := got.(Wire)
				if !ok || w.ID != id {
					r.Diff = fmt.Sprintf("v: arrived as %T (id %v), want the envelope with id %d", got, w.ID, id)
					return r
				}
				gv = reflect.ValueOf(w.V)
			}
			r.Diff = clip(differ(want, gv, true, "v"))
			r.Equal = r.Diff == ""
		case <-time.After(1500 * time.Millisecond):
			r.Dec, r.DecErr = "error", "the message did not arrive"
			// the receiving node may have dropped the connection: make sure there is one for the next case
			p.Connect("edf")
		}
		return r
	}
	sc := bufio.NewScanner(f)
	sc.Buffer(make([]byte, 1<<20), 1<<26)
	n, lost := 0, 0
	// (every lost message costs its timeout: after a few of them the stage stops, the observations so far say enough)
	for lost < 12 && sc.Scan() {
		t := strings.TrimSpace(sc.Text())
		if t == "" {
			continue
		}
		var c Case
		if err := json.Unmarshal([]byte(t), &c); err != nil {
			return n, fmt.Errorf("case line %d: %w", n+1, err)
		}
		want, err := build(c.T, c.V)
		if err != nil {
			return n, fmt.Errorf("case %d: %w", c.ID, err)
		}
		line := Line{ID: c.ID, Res: []Res{}}
		wv := reflect.ValueOf(want.Interface())
		line.Res = append(line.Res, exchange(Wire{ID: int64(c.ID), V: want.Interface()}, int64(c.ID), wv))
		if c.ID%3 == 0 {
			r := exchange(want.Interface(), 0, wv)
			r.Cfg = "wiretop"
			line.Res = append(line.Res, r)
		}
		for _, r := range line.Res {
			if r.Enc == "ok" && r.Dec != "ok" {
				lost++
			}
		}
		b, _ := json.Marshal(&line)
		bw.Write(b)
		bw.WriteByte('\n')
		n++
	}
	return n, sc.Err()
}
