//go:build verif

package edffam

import (
	"bufio"
	"encoding/json"
	"fmt"
	"os"
	"reflect"
	"strings"
	"sync"

	"ergo.services/ergo/gen"
	"ergo.services/ergo/lib"
	"ergo.services/ergo/net/edf"
)

type Case struct {
	ID int  `json:"id"`
	T  Term `json:"t"`
	V  Term `json:"v"`
}

// Res is the observation of one case under one cache configuration
type Res struct {
	Cfg      string `json:"cfg"`
	Enc      string `json:"enc"` // ok rejected panic
	EncErr   string `json:"encerr"`
	Len      int    `json:"len"`
	Dec      string `json:"dec"` // ok error none
	DecErr   string `json:"decerr"`
	Rest     int    `json:"rest"`
	Equal    bool   `json:"equal"`
	Diff     string `json:"diff"`
	Again    bool   `json:"again"`    // a second encoding of the same value (after the caches are warm) has the same length and decodes equal
	Intact   bool   `json:"intact"`   // the value handed to the encoder is unchanged afterwards
	Prefixed bool   `json:"prefixed"` // the encoding, followed by foreign bytes, decodes equal and leaves exactly those bytes
}

type Line struct {
	ID  int   `json:"id"`
	Res []Res `json:"res"`
}

// Config is a pair of option sets as two connected nodes hold them
type Config struct {
	Name  string
	Enc   edf.Options
	Dec   edf.Options
	Ident bool // registered errors come back as the same value
}

// Configs builds the cache configurations the way net/handshake does from the Introduce messages (same process: ids agree)
func Configs() []Config {
	atoms := edf.GetAtomCache()
	regs := edf.GetRegCache()
	errs := edf.GetErrCache()
	encAtoms, decAtoms := new(sync.Map), new(sync.Map)
	for id, a := range atoms {
		encAtoms.Store(a, id)
		decAtoms.Store(id, a)
	}
	var names, part []string
	decRegs := new(sync.Map)
	for id, name := range regs {
		names = append(names, name)
		decRegs.Store(id, name)
	}
	tab, _ := Table()
	for n, e := range tab {
		if e["part"].(bool) {
			part = append(part, fmt.Sprintf("#%s/%s", regByName[n].PkgPath(), n))
		}
	}
	encErrs, decErrs := new(sync.Map), new(sync.Map)
	for id, e := range errs {
		encErrs.Store(e, id)
		decErrs.Store(id, e)
	}
	return []Config{
		{Name: "none"},
		{Name: "cache", Enc: edf.Options{Cache: new(sync.Map)}, Dec: edf.Options{Cache: new(sync.Map)}},
		{Name: "neg", Ident: true,
			Enc: edf.Options{AtomCache: encAtoms, RegCache: edf.MakeEncodeRegTypeCache(names), ErrCache: encErrs},
			Dec: edf.Options{AtomCache: decAtoms, RegCache: decRegs, ErrCache: decErrs}},
		{Name: "negcache", Ident: true,
			Enc: edf.Options{AtomCache: encAtoms, RegCache: edf.MakeEncodeRegTypeCache(names), ErrCache: encErrs, Cache: new(sync.Map)},
			Dec: edf.Options{AtomCache: decAtoms, RegCache: decRegs, ErrCache: decErrs, Cache: new(sync.Map)}},
		{Name: "part",
			Enc: edf.Options{RegCache: edf.MakeEncodeRegTypeCache(part), Cache: new(sync.Map)},
			Dec: edf.Options{RegCache: decRegs, AtomCache: decAtoms, ErrCache: decErrs, Cache: new(sync.Map)}},
	}
}

func encode(x any, o edf.Options) (b []byte, verdict string, msg string) {
	defer func() {
		if r := recover(); r != nil {
			verdict, msg = "panic", fmt.Sprint(r)
		}
	}()
	buf := lib.TakeBuffer()
	defer lib.ReleaseBuffer(buf)
	if err := edf.Encode(x, buf, o); err != nil {
		return nil, "rejected", err.Error()
	}
	return append([]byte{}, buf.B...), "ok", ""
}

func decode(b []byte, o edf.Options) (v any, rest []byte, verdict string, msg string) {
	defer func() {
		if r := recover(); r != nil {
			verdict, msg = "panic", fmt.Sprint(r)
		}
	}()
	v, rest, err := edf.Decode(b, o)
	if err != nil {
		return nil, nil, "error", err.Error()
	}
	return v, rest, "ok", ""
}

func clip(s string) string {
	if len(s) > 160 {
		return s[:160] + "..."
	}
	return s
}

var foreign = []byte{0xff, 0x82, 0x00, 0x01, 0x9d, 0x8d}

// RunCase encodes and decodes one case under every configuration
func RunCase(c *Case, cfgs []Config) (Line, error) {
	line := Line{ID: c.ID, Res: []Res{}}
	for i := range cfgs {
		cfg := &cfgs[i]
		want, err := build(c.T, c.V)
		if err != nil {
			return line, fmt.Errorf("case %d: %w", c.ID, err)
		}
		keep, _ := build(c.T, c.V)
		r := Res{Cfg: cfg.Name, Dec: "none"}
		var b []byte
		b, r.Enc, r.EncErr = encode(want.Interface(), cfg.Enc)
		r.EncErr = clip(r.EncErr)
		r.Len = len(b)
		r.Intact = differ(keep, want, true, "v") == ""
		if r.Enc == "ok" {
			var got any
			var rest []byte
			got, rest, r.Dec, r.DecErr = decode(b, cfg.Dec)
			r.DecErr = clip(r.DecErr)
			if r.Dec == "ok" {
				r.Rest = len(rest)
				r.Diff = clip(differ(reflect.ValueOf(want.Interface()), reflect.ValueOf(got), cfg.Ident, "v"))
				r.Equal = r.Diff == ""
			}
			// once more with warm caches, and with foreign bytes behind the encoding
			b2, v2, _ := encode(want.Interface(), cfg.Enc)
			if v2 == "ok" && len(b2) == len(b) {
				g2, rest2, d2, _ := decode(b2, cfg.Dec)
				r.Again = d2 == "ok" && len(rest2) == 0 && differ(reflect.ValueOf(want.Interface()), reflect.ValueOf(g2), cfg.Ident, "v") == ""
			}
			g3, rest3, d3, _ := decode(append(append([]byte{}, b...), foreign...), cfg.Dec)
			r.Prefixed = d3 == "ok" && string(rest3) == string(foreign) && differ(reflect.ValueOf(want.Interface()), reflect.ValueOf(g3), cfg.Ident, "v") == ""
		}
		line.Res = append(line.Res, r)
	}
	return line, nil
}

// Run reads cases (ndjson) and writes one line of observations per case
func Run(in, out string) (int, error) {
	f, err := os.Open(in)
	if err != nil {
		return 0, err
	}
	defer f.Close()
	o, err := os.Create(out)
	if err != nil {
		return 0, err
	}
	defer o.Close()
	bw := bufio.NewWriterSize(o, 1<<20)
	defer bw.Flush()
	cfgs := Configs()
	sc := bufio.NewScanner(f)
	sc.Buffer(make([]byte, 1<<20), 1<<26)
	n := 0
	for sc.Scan() {
		t := strings.TrimSpace(sc.Text())
		if t == "" {
			continue
		}
		var c Case
		if err := json.Unmarshal([]byte(t), &c); err != nil {
			return n, fmt.Errorf("case line %d: %w", n+1, err)
		}
		line, err := RunCase(&c, cfgs)
		if err != nil {
			return n, err
		}
		b, _ := json.Marshal(&line)
		bw.Write(b)
		bw.WriteByte('\n')
		n++
	}
	return n, sc.Err()
}

var _ = gen.Atom("")
