//go:build verif

// Package boxfam: the two remaining clauses of C02 on a real node - a bounded mailbox with a fallback process, and delayed sends
// racing with their cancellation.  Recorded per case and judged by spec/Box.tla.
package boxfam

import (
	"bufio"
	"encoding/json"
	"errors"
	"fmt"
	"os"
	"sync"
	"time"

	"ergo.services/ergo/gen"
	"ergo.services/ergo/node"

	"verif/harness/gated"
)

type FCase struct {
	ID   int    `json:"id"`
	Cap  int    `json:"cap"`  // mailbox size of the receiver
	Mode string `json:"mode"` // on off unknown self
	Via  string `json:"via"`  // pid name alias
	N    int    `json:"n"`
	Prio string `json:"prio"` // normal high max
}

type DCase struct {
	ID       int   `json:"id"`
	N        int   `json:"n"`
	DelayUs  []int `json:"delayus"`  // per message
	CancelUs []int `json:"cancelus"` // per message: when the cancellation is attempted (-1 = never)
}

type File struct {
	Fallback []FCase `json:"fallback"`
	Delayed  []DCase `json:"delayed"`
}

type FLine struct {
	P      int      `json:"p"`
	Ev     string   `json:"ev"` // fallback
	C      FCase    `json:"c"`
	Res    []string `json:"res"`    // per message: result of the send
	AtR    []int    `json:"atr"`    // per message: times handled by the receiver
	AtF    []int    `json:"atf"`    // per message: times handled by the fallback process (wrapped)
	WrapOK []bool   `json:"wrapok"` // per message handled by the fallback: original recipient and tag were right
	Stray  int      `json:"stray"`  // anything else the fallback process got
}

type DLine struct {
	P      int      `json:"p"`
	Ev     string   `json:"ev"` // delayed
	N      int      `json:"n"`
	Cancel []string `json:"cancel"` // per message: "none" | "true" | "false"
	Count  []int    `json:"count"`  // per message: times delivered
}

func res(err error) string {
	switch {
	case err == nil:
		return "ok"
	case errors.Is(err, gen.ErrProcessMailboxFull):
		return "full"
	case errors.Is(err, gen.ErrProcessUnknown), errors.Is(err, gen.ErrNameUnknown):
		return "unknown"
	}
	return "err:" + err.Error()
}

type Runner struct {
	Node gen.Node
	Out  *bufio.Writer
	seq  int
}

func Start(name string) (gen.Node, error) {
	var opt gen.NodeOptions
	opt.Log.DefaultLogger.Disable = true
	opt.Log.Level = gen.LogLevelDisabled
	opt.Network.Mode = gen.NetworkModeDisabled
	return node.Start(gen.Atom(name), opt, gen.Version{})
}

func quiet(w *gated.World) {
	last, stable := -1, 0
	for i := 0; i < 4000 && stable < 4; i++ {
		n := len(w.Snapshot())
		if n == last {
			stable++
		} else {
			stable = 0
		}
		last = n
		time.Sleep(300 * time.Microsecond)
	}
}

func (r *Runner) RunFallback(c *FCase) error {
	r.seq++
	n := r.Node
	w := &gated.World{}
	fbName := gen.Atom(fmt.Sprintf("fb_%d_%d", os.Getpid()%1000, r.seq))
	rName := gen.Atom(fmt.Sprintf("rc_%d_%d", os.Getpid()%1000, r.seq))
	fpid, err := n.SpawnRegister(fbName, gated.Factory(w, "F", false, nil), gen.ProcessOptions{})
	if err != nil {
		return err
	}
	defer n.Kill(fpid)
	opts := gen.ProcessOptions{MailboxSize: int64(c.Cap)}
	switch c.Mode {
	case "on":
		opts.Fallback = gen.ProcessFallback{Enable: true, Name: fbName, Tag: "t1"}
	case "unknown":
		opts.Fallback = gen.ProcessFallback{Enable: true, Name: "nobody_" + fbName, Tag: "t1"}
	case "self":
		opts.Fallback = gen.ProcessFallback{Enable: true, Name: rName, Tag: "t1"}
	}
	rpid, err := n.SpawnRegister(rName, gated.Factory(w, "R", false, nil), opts)
	if err != nil {
		return err
	}
	defer n.Kill(rpid)
	var alias gen.Alias
	if err := gated.Do(n, rpid, func(s *gated.Scripted) error { var e error; alias, e = s.CreateAlias(); return e }); err != nil {
		return err
	}
	spid, err := n.Spawn(gated.Factory(w, "S", false, nil), gen.ProcessOptions{})
	if err != nil {
		return err
	}
	defer n.Kill(spid)
	// park the receiver inside a handler: the mailbox itself is empty then
	entered, release := make(chan struct{}), make(chan struct{})
	n.Send(rpid, gated.Cmd{Fn: func(*gated.Scripted) error { close(entered); <-release; return nil }})
	select {
	case <-entered:
	case <-time.After(2 * time.Second):
		return fmt.Errorf("receiver could not be parked")
	}
	line := FLine{P: c.ID, Ev: "fallback", C: *c, Res: make([]string, c.N), AtR: make([]int, c.N), AtF: make([]int, c.N), WrapOK: make([]bool, c.N)}
	var to any = rpid
	switch c.Via {
	case "name":
		to = rName
	case "alias":
		to = alias
	}
	if err := gated.Do(n, spid, func(s *gated.Scripted) error {
		for i := 0; i < c.N; i++ {
			id := fmt.Sprintf("m%d", i+1)
			var e error
			switch c.Prio {
			case "high":
				e = s.SendWithPriority(to, id, gen.MessagePriorityHigh)
			case "max":
				e = s.SendWithPriority(to, id, gen.MessagePriorityMax)
			default:
				e = s.Send(to, id)
			}
			line.Res[i] = res(e)
		}
		return nil
	}); err != nil {
		return err
	}
	close(release)
	quiet(w)
	for _, nt := range w.Snapshot() {
		if nt.Kind != "msg" {
			continue
		}
		switch nt.Who {
		case "R":
			if id, ok := nt.Value.(string); ok {
				var k int
				if _, e := fmt.Sscanf(id, "m%d", &k); e == nil && k >= 1 && k <= c.N {
					line.AtR[k-1]++
				}
			}
		case "F":
			if fb, ok := nt.Value.(gen.MessageFallback); ok {
				if id, ok := fb.Message.(string); ok {
					var k int
					if _, e := fmt.Sscanf(id, "m%d", &k); e == nil && k >= 1 && k <= c.N {
						line.AtF[k-1]++
						line.WrapOK[k-1] = fb.PID == rpid && fb.Tag == "t1"
						continue
					}
				}
			}
			line.Stray++
		}
	}
	b, _ := json.Marshal(&line)
	r.Out.Write(b)
	r.Out.WriteByte('\n')
	return nil
}

func (r *Runner) RunDelayed(c *DCase) error {
	r.seq++
	n := r.Node
	w := &gated.World{}
	rpid, err := n.Spawn(gated.Factory(w, "R", false, nil), gen.ProcessOptions{})
	if err != nil {
		return err
	}
	defer n.Kill(rpid)
	spid, err := n.Spawn(gated.Factory(w, "S", false, nil), gen.ProcessOptions{})
	if err != nil {
		return err
	}
	defer n.Kill(spid)
	line := DLine{P: c.ID, Ev: "delayed", N: c.N, Cancel: make([]string, c.N), Count: make([]int, c.N)}
	cancels := make([]gen.CancelFunc, c.N)
	if err := gated.Do(n, spid, func(s *gated.Scripted) error {
		for i := 0; i < c.N; i++ {
			cf, e := s.SendAfter(rpid, fmt.Sprintf("d%d", i+1), time.Duration(c.DelayUs[i])*time.Microsecond)
			if e != nil {
				return e
			}
			cancels[i] = cf
		}
		return nil
	}); err != nil {
		return err
	}
	t0 := time.Now()
	var wg sync.WaitGroup
	for i := 0; i < c.N; i++ {
		line.Cancel[i] = "none"
		if c.CancelUs[i] < 0 {
			continue
		}
		i := i
		wg.Add(1)
		go func() {
			defer wg.Done()
			d := time.Duration(c.CancelUs[i])*time.Microsecond - time.Since(t0)
			if d > 0 {
				time.Sleep(d)
			}
			line.Cancel[i] = fmt.Sprint(cancels[i]())
		}()
	}
	wg.Wait()
	time.Sleep(6 * time.Millisecond)
	quiet(w)
	for _, nt := range w.Snapshot() {
		if nt.Kind == "msg" && nt.Who == "R" {
			if id, ok := nt.Value.(string); ok {
				var k int
				if _, e := fmt.Sscanf(id, "d%d", &k); e == nil && k >= 1 && k <= c.N {
					line.Count[k-1]++
				}
			}
		}
	}
	b, _ := json.Marshal(&line)
	r.Out.Write(b)
	r.Out.WriteByte('\n')
	return nil
}

func Load(path string) (*File, error) {
	b, err := os.ReadFile(path)
	if err != nil {
		return nil, err
	}
	var f File
	if err := json.Unmarshal(b, &f); err != nil {
		return nil, err
	}
	return &f, nil
}
