//go:build verif

// Package callfam executes histories of spec/Call.tla with real callers and callees (C07).
// No controller: the harness orders the events itself (a reply is sent when the history says so);
// request timeouts are scaled down through lib.VerifTimer.
package callfam

import (
	"bufio"
	"encoding/json"
	"errors"
	"fmt"
	"os"
	"regexp"
	"strconv"
	"sync"
	"time"

	"ergo.services/ergo/gen"
	"ergo.services/ergo/lib"
	"ergo.services/ergo/node"

	"verif/harness/gated"
)

type Plan struct {
	ID    int        `json:"id"`
	Steps [][]string `json:"steps"` // [thread, action, to, args...]
	Args  [][]string `json:"args"`
}

type Scenario struct {
	Name    string   `json:"name"`
	Callers []string `json:"callers"`
	K       int      `json:"k"`
}

type PlanFile struct {
	Scenario Scenario `json:"scenario"`
	Plans    []Plan   `json:"plans"`
}

type Event struct {
	P    int    `json:"p"`
	I    int    `json:"i"`
	Ev   string `json:"ev"` // reset | issue | presented | reply | returned | end
	Req  string `json:"req"`
	Kind string `json:"kind"`
	Val  string `json:"val"`
	Who  string `json:"who"`
	To   string `json:"to"`
	Res  string `json:"res"`
}

type Payload struct {
	Req string
}

type Runner struct {
	Node    gen.Node
	Out     *bufio.Writer
	Timeout time.Duration
	mu      sync.Mutex
	seq     int
	plan    int
	// stats
	Plans, Calls, Replies, Timeouts, LateReplies int
}

func StartNode(name string) (gen.Node, error) {
	var opt gen.NodeOptions
	opt.Log.DefaultLogger.Disable = true
	opt.Log.Level = gen.LogLevelDisabled
	opt.Network.Mode = gen.NetworkModeDisabled
	return node.Start(gen.Atom(name), opt, gen.Version{})
}

func (r *Runner) emit(e Event) {
	r.mu.Lock()
	r.seq++
	e.P = r.plan
	e.I = r.seq
	b, _ := json.Marshal(e)
	r.Out.Write(b)
	r.Out.WriteByte('\n')
	r.mu.Unlock()
}

type pending struct {
	from gen.PID
	ref  gen.Ref
}

var reqRe = regexp.MustCompile(`<<"?(\w+)"?, (\d+)>>`)

func reqID(s string) string {
	m := reqRe.FindStringSubmatch(s)
	if m == nil {
		return s
	}
	return m[1] + ":" + m[2]
}

// RunPlan executes one history.
func (r *Runner) RunPlan(scn *Scenario, plan *Plan) error {
	r.plan = plan.ID
	r.seq = 0
	lib.SetVerifTimer(func(t *time.Timer) { t.Reset(r.Timeout) })
	defer lib.SetVerifTimer(nil)
	w := &gated.World{}
	var pmu sync.Mutex
	pend := map[string]pending{} // request id -> from/ref as seen by the callee
	presented := make(chan string, 64)

	callee, err := r.Node.Spawn(gated.Factory(w, "E", false, nil), gen.ProcessOptions{})
	if err != nil {
		return err
	}
	third, err := r.Node.Spawn(gated.Factory(w, "X", false, nil), gen.ProcessOptions{})
	if err != nil {
		return err
	}
	callers := map[string]gen.PID{}
	for _, c := range scn.Callers {
		p, err := r.Node.Spawn(gated.Factory(w, c, false, nil), gen.ProcessOptions{})
		if err != nil {
			return err
		}
		callers[c] = p
	}
	all := []gen.PID{callee, third}
	for _, p := range callers {
		all = append(all, p)
	}
	if err := gated.WaitAsleep(r.Node, all, 2*time.Second); err != nil {
		return err
	}
	r.emit(Event{Ev: "reset"})
	cur := map[string]int{}
	done := map[string]chan struct{}{} // caller -> closed when its current call returned
	returned := map[string]bool{}

	issue := func(c string) {
		cur[c]++
		id := fmt.Sprintf("%s:%d", c, cur[c])
		ch := make(chan struct{})
		done[c] = ch
		r.emit(Event{Ev: "issue", Req: id})
		r.Calls++
		r.Node.Send(callers[c], gated.Cmd{Fn: func(s *gated.Scripted) error {
			defer close(ch)
			req := gated.Req{Fn: func(e *gated.Scripted, from gen.PID, ref gen.Ref) (any, error) {
				pmu.Lock()
				pend[id] = pending{from, ref}
				pmu.Unlock()
				r.emit(Event{Ev: "presented", Req: id})
				presented <- id
				return nil, nil // always asynchronous: the history decides when and by whom the reply is sent
			}}
			v, err := s.CallWithTimeout(callee, req, 1)
			ev := Event{Ev: "returned", Req: id}
			switch {
			case err == nil:
				ev.Kind = "val"
				if pl, ok := v.(Payload); ok {
					ev.Val = pl.Req
				} else {
					ev.Val = fmt.Sprintf("?%v", v)
				}
			case errors.Is(err, gen.ErrTimeout):
				ev.Kind = "timeout"
			default:
				ev.Kind = "error"
				ev.Res = err.Error()
				if t := err.Error(); len(t) > 2 && t[:2] == "E:" {
					// an error reply produced for request t[2:]
					ev.Kind = "val"
					ev.Val = t[2:]
					ev.Res = ""
				}
			}
			r.emit(ev)
			return nil
		}})
		select {
		case <-presented:
		case <-time.After(2 * time.Second):
		}
	}
	waitReturn := func(c string, d time.Duration) bool {
		ch := done[c]
		if ch == nil {
			return true
		}
		select {
		case <-ch:
			returned[c+":"+strconv.Itoa(cur[c])] = true
			return true
		case <-time.After(d):
			return false
		}
	}
	reply := func(id, who, to string) {
		pmu.Lock()
		pd, ok := pend[id]
		pmu.Unlock()
		if !ok {
			return
		}
		dest := pd.from
		if to != "" {
			dest = callers[to]
		}
		sender := callee
		if who == "X" {
			sender = third
		}
		var res error
		asError := r.Replies%3 == 2 // every third reply is an error reply (SendResponseError): it belongs to its request just the same
		gated.Do(r.Node, sender, func(s *gated.Scripted) error {
			if asError {
				res = s.SendResponseError(dest, pd.ref, errors.New("E:"+id))
			} else {
				res = s.SendResponse(dest, pd.ref, Payload{Req: id})
			}
			return nil
		})
		rs := "ok"
		if res != nil {
			rs = res.Error()
		}
		r.Replies++
		r.emit(Event{Ev: "reply", Req: id, Who: who, To: to, Res: rs})
	}

	nrep := 0
	for _, st := range plan.Steps {
		th, action := st[0], st[1]
		switch action {
		case "CallSend":
			// the previous call of this caller must have returned
			if !waitReturn(th, 3*r.Timeout+time.Second) {
				continue
			}
			issue(th)
		case "Timeout":
			waitReturn(th, 3*r.Timeout+time.Second)
			r.Timeouts++
		case "Reply":
			// st[3] = request tuple, st[4] = destination caller
			if len(st) < 5 {
				continue
			}
			id := reqID(st[3])
			who := "E"
			if nrep%2 == 1 {
				who = "X"
			}
			nrep++
			to := st[4]
			owner := id[:len(id)-len(id[indexColon(id):])]
			if to == owner {
				to = ""
			}
			reply(id, who, to)
			// give a waiting caller the chance to consume it
			c := owner
			if to != "" {
				c = to
			}
			waitReturn(c, 2*time.Millisecond)
		case "Mint":
			// burn references (identifier wrap-around scenario)
			if len(st) > 3 {
				n, _ := strconv.Atoi(st[3])
				core := r.Node.(gen.Core)
				for i := 0; i < n; i++ {
					core.MakeRef()
				}
			}
		case "Recv":
			// implicit in the real code
		}
	}
	// let every outstanding call end (by timeout)
	for _, c := range scn.Callers {
		waitReturn(c, 3*r.Timeout+time.Second)
	}
	r.emit(Event{Ev: "end"})
	r.Plans++
	for _, p := range all {
		r.Node.Kill(p)
	}
	return nil
}

func indexColon(s string) int {
	for i := len(s) - 1; i >= 0; i-- {
		if s[i] == ':' {
			return i
		}
	}
	return len(s)
}

func LoadPlans(path string) (*PlanFile, error) {
	b, err := os.ReadFile(path)
	if err != nil {
		return nil, err
	}
	var pf PlanFile
	if err := json.Unmarshal(b, &pf); err != nil {
		return nil, err
	}
	return &pf, nil
}
