//go:build verif

// Package supfam runs supervisor scenarios on real act.Supervisor processes with gated children and
// records, per step, what the real supervisor did; TLC validates the record against spec/SupContract.tla.
package supfam

import (
	"bufio"
	"encoding/json"
	"errors"
	"fmt"
	"os"
	"sort"
	"strings"
	"sync"
	"sync/atomic"
	"time"
	"verif/harness/busy"

	"ergo.services/ergo/act"
	"ergo.services/ergo/gen"
	"ergo.services/ergo/lib"
	"ergo.services/ergo/node"

	"verif/harness/gated"
)

type Step struct {
	Op     string  `json:"op"`     // batch | batchstart | exitsup | disablefault | disable | enable | advance | startchild
	Faults [][]any `json:"faults"` // [[index(1-based), reason], ...]
	I      int     `json:"i"`
	Ms     int64   `json:"ms"`
	Why    string  `json:"why"` // exitsup: reason of the exit signal sent to the supervisor
}

type Scenario struct {
	ID           int    `json:"id"`
	N            int    `json:"n"`
	Type         string `json:"type"` // ofo afo rfo
	Strategy     string `json:"strategy"`
	KeepOrder    bool   `json:"keeporder"`
	AutoShutdown bool   `json:"autoshutdown"`
	Sig          []bool `json:"sig"`
	Intensity    int    `json:"intensity"`
	Period       int    `json:"period"`
	Steps        []Step `json:"steps"`
	Clock        bool   `json:"clock"` // uses the virtual clock (must run alone)
}

type File struct {
	Scenarios []Scenario `json:"scenarios"`
}

type Line struct {
	P            int      `json:"p"`
	Ev           string   `json:"ev"`
	N            int      `json:"n"`
	Type         string   `json:"type"`
	Strategy     string   `json:"strategy"`
	KeepOrder    bool     `json:"keeporder"`
	AutoShutdown bool     `json:"autoshutdown"`
	Sig          []bool   `json:"sig"`
	Intensity    int      `json:"intensity"`
	Period       int      `json:"period"`
	Faults       [][]any  `json:"faults"`
	I            int      `json:"i"`
	Now          int64    `json:"now"`
	Run          []bool   `json:"run"`
	Kept         []bool   `json:"kept"`
	Alive        bool     `json:"alive"`
	Reason       string   `json:"reason"`
	StartOrder   []int    `json:"startorder"`
	StopOrder    []int    `json:"stoporder"`
	Orphans      int      `json:"orphans"`
	Res          string   `json:"res"`
	Why          string   `json:"why"` // exitsup: the reason the supervisor was told to stop with
	Pids         []string `json:"pids"`
	Extra        int      `json:"extra"` // simple-one-for-one: running instances beyond the number that was started
}

// ---- the supervisor under test ----

type holdMsg struct {
	held    chan struct{}
	release chan struct{}
}

type doMsg struct {
	fn   func(s *gsup) error
	done chan error
}

type gsup struct {
	act.Supervisor
	spec   act.SupervisorSpec
	w      *gated.World
	reason atomic.Value
	dead   chan struct{}
}

func (s *gsup) Init(args ...any) (act.SupervisorSpec, error) {
	return s.spec, nil
}

func (s *gsup) HandleMessage(from gen.PID, message any) error {
	switch m := message.(type) {
	case holdMsg:
		close(m.held)
		<-m.release
	case doMsg:
		m.done <- m.fn(s)
	}
	return nil
}

// HandleChildTerminate is invoked in the order in which the supervisor handled the exits of its children:
// the stop order as the supervisor saw it (the children's own Terminate callbacks run after their exit
// signal was sent and may therefore overtake each other).
func (s *gsup) HandleChildTerminate(name gen.Atom, pid gen.PID, reason error) error {
	label := string(name)
	if i := strings.Index(label, "_"); i > 0 {
		label = label[:i]
	}
	s.w.Add(gated.Note{Who: label, Kind: "cterm", Reason: reasonText(reason)})
	return nil
}

func (s *gsup) HandleChildStart(name gen.Atom, pid gen.PID) error { return nil }

func (s *gsup) Terminate(reason error) {
	s.reason.Store(reasonText(reason))
	close(s.dead)
}

func reasonText(err error) string {
	if errors.Is(err, act.ErrSupervisorRestartsExceeded) {
		return "exceeded"
	}
	return gated.ReasonText(err)
}

type Runner struct {
	Node gen.Node
	mu   sync.Mutex
	Out  *bufio.Writer
	// virtual clock (ms); 0 = real time
	clock int64
	// stats
	Scenarios, Steps int
}

func StartNode(name string) (gen.Node, error) {
	var opt gen.NodeOptions
	opt.Log.DefaultLogger.Disable = true
	opt.Log.Level = gen.LogLevelDisabled
	opt.Network.Mode = gen.NetworkModeDisabled
	busy.Install()
	return node.Start(gen.Atom(name), opt, gen.Version{})
}

func (r *Runner) emit(lines []Line) {
	r.mu.Lock()
	for i := range lines {
		ln := &lines[i]
		if ln.Sig == nil {
			ln.Sig = []bool{}
		}
		if ln.Faults == nil {
			ln.Faults = [][]any{}
		}
		if ln.Run == nil {
			ln.Run = []bool{}
		}
		if ln.Kept == nil {
			ln.Kept = []bool{}
		}
		if ln.StartOrder == nil {
			ln.StartOrder = []int{}
		}
		if ln.StopOrder == nil {
			ln.StopOrder = []int{}
		}
		if ln.Pids == nil {
			ln.Pids = []string{}
		}
		b, _ := json.Marshal(ln)
		r.Out.Write(b)
		r.Out.WriteByte('\n')
	}
	r.mu.Unlock()
}

func stype(t string) act.SupervisorType {
	switch t {
	case "afo":
		return act.SupervisorTypeAllForOne
	case "rfo":
		return act.SupervisorTypeRestForOne
	case "sofo":
		return act.SupervisorTypeSimpleOneForOne
	}
	return act.SupervisorTypeOneForOne
}

func sstrategy(s string) act.SupervisorStrategy {
	switch s {
	case "perm":
		return act.SupervisorStrategyPermanent
	case "temp":
		return act.SupervisorStrategyTemporary
	}
	return act.SupervisorStrategyTransient
}

type world struct {
	*gated.World
	mu   sync.Mutex
	pids map[int]gen.PID // spec index -> latest pid
	all  []gen.PID       // every child process there ever was
}

func asleepOrGone(n gen.Node, pid gen.PID) bool {
	st, err := n.ProcessState(pid)
	if err != nil {
		return true
	}
	return st == gen.ProcessStateSleep
}

// Run executes one scenario and returns its trace lines.
func (r *Runner) Run(scn *Scenario) ([]Line, error) {
	var lines []Line
	w := &world{World: &gated.World{}, pids: map[int]gen.PID{}}
	suffix := fmt.Sprintf("_%d_%d", os.Getpid()%1000, scn.ID)
	spec := act.SupervisorSpec{Type: stype(scn.Type), DisableAutoShutdown: !scn.AutoShutdown, EnableHandleChild: true}
	spec.Restart = act.SupervisorRestart{Strategy: sstrategy(scn.Strategy), Intensity: uint16(scn.Intensity), Period: uint16(scn.Period), KeepOrder: scn.KeepOrder}
	sofo := scn.Type == "sofo"
	var born int32
	for i := 1; i <= scn.N && !sofo; i++ {
		i := i
		label := fmt.Sprintf("c%d", i)
		initFn := func(s *gated.Scripted) error {
			w.mu.Lock()
			w.pids[i] = s.PID()
			w.all = append(w.all, s.PID())
			w.mu.Unlock()
			w.Add(gated.Note{Who: label, Kind: "init"})
			return nil
		}
		spec.Children = append(spec.Children, act.SupervisorChildSpec{
			Name:        gen.Atom(label + suffix),
			Significant: scn.Sig[i-1],
			Factory:     gated.Factory(w.World, label, false, initFn),
		})
	}
	if sofo {
		// one spec; instances are numbered by birth (a restarted instance is a new number): the reference compares counts
		spec.Children = append(spec.Children, act.SupervisorChildSpec{
			Name: gen.Atom("c" + suffix),
			Factory: func() gen.ProcessBehavior {
				idx := int(atomic.AddInt32(&born, 1))
				label := fmt.Sprintf("c%d", idx)
				return &gated.Scripted{W: w.World, Label: label, InitFn: func(s *gated.Scripted) error {
					w.mu.Lock()
					w.pids[idx] = s.PID()
					w.all = append(w.all, s.PID())
					w.mu.Unlock()
					w.Add(gated.Note{Who: label, Kind: "init"})
					return nil
				}}
			},
		})
	}
	sup := &gsup{spec: spec, w: w.World, dead: make(chan struct{})}
	supPid, err := r.Node.Spawn(func() gen.ProcessBehavior { return sup }, gen.ProcessOptions{})
	if err != nil {
		return nil, fmt.Errorf("spawn supervisor: %w", err)
	}
	supAlive := func() bool {
		select {
		case <-sup.dead:
			return false
		default:
			return true
		}
	}
	quiesce := func() {
		stable := 0
		last := -1
		deadline := time.Now().Add(3 * time.Second)
		for stable < 4 && time.Now().Before(deadline) {
			ok := true
			if supAlive() {
				info, err := r.Node.ProcessInfo(supPid)
				if err == nil {
					q := info.MailboxQueues
					if info.State != gen.ProcessStateSleep || q.Main+q.System+q.Urgent > 0 {
						ok = false
					}
				} else {
					ok = false // already out of the process table, its Terminate callback has not run yet
				}
			} else if _, err := r.Node.ProcessState(supPid); err == nil {
				ok = false // still being torn down
			}
			w.mu.Lock()
			for _, p := range w.pids {
				if !asleepOrGone(r.Node, p) {
					ok = false
				}
			}
			if busy.Any(supPid) || busy.Any(w.all...) {
				ok = false // a process is running or terminating (it may have left the table without having sent its exit signals yet)
			}
			w.mu.Unlock()
			n := len(w.Snapshot())
			if ok && n == last {
				stable++
			} else {
				stable = 0
			}
			last = n
			time.Sleep(300 * time.Microsecond)
		}
	}
	idxOf := func(label string) int {
		var i int
		fmt.Sscanf(label, "c%d", &i)
		return i
	}
	snapshotPids := func() map[int]gen.PID {
		w.mu.Lock()
		defer w.mu.Unlock()
		m := map[int]gen.PID{}
		for k, v := range w.pids {
			m[k] = v
		}
		return m
	}
	aliveIdx := func(m map[int]gen.PID) []int {
		var out []int
		for i, p := range m {
			if _, err := r.Node.ProcessState(p); err == nil {
				out = append(out, i)
			}
		}
		sort.Ints(out)
		return out
	}
	observe := func(ln *Line, before map[int]gen.PID, notesFrom int, faulted map[int]bool) {
		cur := snapshotPids()
		if sofo {
			// counts: how many instances run, how many of those that ran before are still the same process
			now := aliveIdx(cur)
			kept := 0
			for _, i := range now {
				if before != nil {
					if p, ok := before[i]; ok && p == cur[i] {
						kept++
					}
				}
			}
			for j := 1; j <= scn.N; j++ {
				ln.Run = append(ln.Run, j <= len(now))
				ln.Kept = append(ln.Kept, j <= kept)
				ln.Pids = append(ln.Pids, "")
			}
			if len(now) > scn.N {
				ln.Extra = len(now) - scn.N
			}
		}
		for i := 1; i <= scn.N && !sofo; i++ {
			p, ok := cur[i]
			alive := false
			if ok {
				if _, err := r.Node.ProcessState(p); err == nil {
					alive = true
				}
			}
			ln.Run = append(ln.Run, alive)
			ln.Kept = append(ln.Kept, alive && before != nil && before[i] == p)
			if alive {
				ln.Pids = append(ln.Pids, p.String())
			} else {
				ln.Pids = append(ln.Pids, "")
			}
		}
		ln.Alive = supAlive()
		if !ln.Alive {
			if v := sup.reason.Load(); v != nil {
				ln.Reason = v.(string)
			}
			for _, a := range ln.Run {
				if a {
					ln.Orphans++
				}
			}
		}
		notes := w.Snapshot()
		firstTerm := map[int]bool{}
		for _, x := range notes[notesFrom:] {
			i := idxOf(x.Who)
			if i == 0 {
				continue
			}
			switch x.Kind {
			case "init":
				if !sofo {
					ln.StartOrder = append(ln.StartOrder, i)
				}
			case "cterm":
				if faulted[i] && !firstTerm[i] {
					firstTerm[i] = true // the injected death itself
					continue
				}
				if !sofo {
					ln.StopOrder = append(ln.StopOrder, i)
				}
			}
		}
	}

	if sofo {
		name := gen.Atom("c" + suffix)
		for i := 0; i < scn.N; i++ {
			d := doMsg{done: make(chan error, 1), fn: func(s *gsup) error { return s.StartChild(name) }}
			if err := r.Node.Send(supPid, d); err != nil {
				return nil, err
			}
			select {
			case e := <-d.done:
				if e != nil {
					return nil, fmt.Errorf("StartChild: %w", e)
				}
			case <-time.After(2 * time.Second):
				return nil, fmt.Errorf("StartChild hung")
			}
		}
	}
	quiesce()
	cfg := Line{P: scn.ID, Ev: "cfg", N: scn.N, Type: scn.Type, Strategy: scn.Strategy, KeepOrder: scn.KeepOrder, AutoShutdown: scn.AutoShutdown,
		Sig: scn.Sig, Intensity: scn.Intensity, Period: scn.Period}
	lines = append(lines, cfg)
	st := Line{P: scn.ID, Ev: "started", Now: atomic.LoadInt64(&r.clock)}
	observe(&st, nil, 0, map[int]bool{})
	// "kept" is meaningless for the first observation
	for i := range st.Kept {
		st.Kept[i] = st.Run[i]
	}
	lines = append(lines, st)

	for _, step := range scn.Steps {
		before := snapshotPids()
		notesFrom := len(w.Snapshot())
		ln := Line{P: scn.ID, Ev: step.Op, I: step.I}
		faulted := map[int]bool{}
		termCount := map[string]int{}
		for i := range before {
			l := fmt.Sprintf("c%d", i)
			termCount[l] = w.Count(l, "term")
		}
		ordinal := aliveIdx(before)
		switch step.Op {
		case "advance":
			atomic.AddInt64(&r.clock, step.Ms)
			continue
		case "batch":
			if !supAlive() {
				continue
			}
			// hold the supervisor inside a callback so that the exits queue up in batch order
			h := holdMsg{held: make(chan struct{}), release: make(chan struct{})}
			if err := r.Node.Send(supPid, h); err != nil {
				continue
			}
			select {
			case <-h.held:
			case <-time.After(2 * time.Second):
				return nil, fmt.Errorf("supervisor could not be held")
			}
			for _, f := range step.Faults {
				i := int(f[0].(float64))
				ord := i
				reason := f[1].(string)
				if sofo {
					// the i-th running instance (by birth) at the beginning of the step
					if i < 1 || i > len(ordinal) {
						continue
					}
					i = ordinal[i-1]
				}
				pid, ok := before[i]
				if !ok {
					continue
				}
				faulted[i] = true
				switch reason {
				case "kill":
					r.Node.Kill(pid)
				case "normal":
					r.Node.Send(pid, gated.Cmd{Fn: func(*gated.Scripted) error { return gen.TerminateReasonNormal }})
				case "shutdown":
					r.Node.Send(pid, gated.Cmd{Fn: func(*gated.Scripted) error { return gen.TerminateReasonShutdown }})
				default:
					rr := reason
					r.Node.Send(pid, gated.Cmd{Fn: func(*gated.Scripted) error { return errors.New("R:" + rr) }})
				}
				// the child must be completely gone (its terminate callback runs after its name, aliases and relations
				// were released and its exit signal was put into the supervisor's mailbox) before the next fault is injected
				label := fmt.Sprintf("c%d", i)
				want := termCount[label] + 1
				deadline := time.Now().Add(2 * time.Second)
				for time.Now().Before(deadline) {
					if w.Count(label, "term") >= want {
						break
					}
					time.Sleep(50 * time.Microsecond)
				}
				termCount[label] = w.Count(label, "term")
				ln.Faults = append(ln.Faults, []any{ord, normReason(reason)})
			}
			close(h.release)
		case "batchstart":
			// one child dies while sibling I is busy in a callback (so the restart of an all/rest-for-one supervisor is stuck in
			// its stopping phase); StartChild for the dead child arrives in that window; then the sibling is released.
			// The reference treats the step as the single fault: the management call must be refused or harmless.
			if !supAlive() || sofo || len(step.Faults) != 1 {
				continue
			}
			{
				i := int(step.Faults[0][0].(float64))
				reason := step.Faults[0][1].(string)
				pi, oki := before[i]
				pj, okj := before[step.I]
				if !oki || !okj || i == step.I {
					continue
				}
				entered, release := make(chan struct{}), make(chan struct{})
				r.Node.Send(pj, gated.Cmd{Fn: func(*gated.Scripted) error { close(entered); <-release; return nil }})
				select {
				case <-entered:
				case <-time.After(time.Second):
				}
				faulted[i] = true
				label := fmt.Sprintf("c%d", i)
				want := termCount[label] + 1
				switch reason {
				case "kill":
					r.Node.Kill(pi)
				default:
					rr := reason
					r.Node.Send(pi, gated.Cmd{Fn: func(*gated.Scripted) error { return errors.New("R:" + rr) }})
				}
				deadline := time.Now().Add(2 * time.Second)
				for time.Now().Before(deadline) && w.Count(label, "term") < want {
					time.Sleep(50 * time.Microsecond)
				}
				time.Sleep(2 * time.Millisecond)
				name := gen.Atom(label + suffix)
				d := doMsg{done: make(chan error, 1), fn: func(s *gsup) error { return s.StartChild(name) }}
				if err := r.Node.Send(supPid, d); err == nil {
					select {
					case e := <-d.done:
						if e != nil {
							ln.Res = e.Error()
						} else {
							ln.Res = "ok"
						}
					case <-time.After(time.Second):
						ln.Res = "late"
					}
				}
				close(release)
				ln.Faults = append(ln.Faults, []any{i, normReason(reason)})
			}
		case "disablefault":
			// child I is busy in a callback when DisableChild(I) is called; a sibling dies before I has gone; I is the last one the
			// supervisor waits for.  The outcome is that of the two events one after the other.
			if !supAlive() || sofo || len(step.Faults) != 1 {
				continue
			}
			{
				j := int(step.Faults[0][0].(float64))
				reason := step.Faults[0][1].(string)
				pi, oki := before[step.I]
				pj, okj := before[j]
				if !oki || !okj || j == step.I {
					continue
				}
				entered, release := make(chan struct{}), make(chan struct{})
				r.Node.Send(pi, gated.Cmd{Fn: func(*gated.Scripted) error { close(entered); <-release; return nil }})
				select {
				case <-entered:
				case <-time.After(time.Second):
				}
				name := gen.Atom(fmt.Sprintf("c%d", step.I) + suffix)
				d := doMsg{done: make(chan error, 1), fn: func(s *gsup) error { return s.DisableChild(name) }}
				if err := r.Node.Send(supPid, d); err == nil {
					select {
					case e := <-d.done:
						if e != nil {
							ln.Res = e.Error()
						} else {
							ln.Res = "ok"
						}
					case <-time.After(2 * time.Second):
						ln.Res = "hung"
					}
				}
				faulted[j] = true
				label := fmt.Sprintf("c%d", j)
				want := termCount[label] + 1
				switch reason {
				case "kill":
					r.Node.Kill(pj)
				default:
					rr := reason
					r.Node.Send(pj, gated.Cmd{Fn: func(*gated.Scripted) error { return errors.New("R:" + rr) }})
				}
				deadline := time.Now().Add(2 * time.Second)
				for time.Now().Before(deadline) && w.Count(label, "term") < want {
					time.Sleep(50 * time.Microsecond)
				}
				time.Sleep(3 * time.Millisecond)
				close(release)
				ln.Faults = append(ln.Faults, []any{j, normReason(reason)})
			}
		case "exitsup":
			// the supervisor is told to stop (exit signal with reason Why) while child I is busy in a callback which it then leaves with
			// a reason of its own: the supervisor ends with the reason it was given, not with whatever its last child died of
			if !supAlive() || sofo || len(step.Faults) != 1 {
				continue
			}
			{
				i := int(step.Faults[0][0].(float64))
				r2 := step.Faults[0][1].(string)
				pi, oki := before[i]
				if !oki {
					continue
				}
				entered, release := make(chan struct{}), make(chan struct{})
				r.Node.Send(pi, gated.Cmd{Fn: func(*gated.Scripted) error {
					close(entered)
					<-release
					switch r2 {
					case "normal":
						return gen.TerminateReasonNormal
					case "shutdown":
						return gen.TerminateReasonShutdown
					}
					return errors.New("R:" + r2)
				}})
				select {
				case <-entered:
				case <-time.After(time.Second):
				}
				var why error = gen.TerminateReasonShutdown
				if step.Why != "shutdown" {
					why = errors.New("R:" + step.Why)
				}
				r.Node.SendExit(supPid, why)
				time.Sleep(3 * time.Millisecond)
				close(release)
				ln.Faults = append(ln.Faults, []any{i, normReason(r2)})
				ln.Why = normReason(step.Why)
			}
		case "startchild":
			if !supAlive() || !sofo {
				continue
			}
			{
				name := gen.Atom("c" + suffix)
				d := doMsg{done: make(chan error, 1), fn: func(s *gsup) error { return s.StartChild(name) }}
				if err := r.Node.Send(supPid, d); err == nil {
					select {
					case e := <-d.done:
						if e != nil {
							ln.Res = e.Error()
						} else {
							ln.Res = "ok"
						}
					case <-time.After(2 * time.Second):
						ln.Res = "hung"
					}
				}
			}
		case "disable", "enable":
			if !supAlive() {
				continue
			}
			name := gen.Atom(fmt.Sprintf("c%d", step.I) + suffix)
			if sofo {
				name = gen.Atom("c" + suffix)
			}
			d := doMsg{done: make(chan error, 1)}
			if step.Op == "disable" {
				d.fn = func(s *gsup) error { return s.DisableChild(name) }
			} else {
				d.fn = func(s *gsup) error { return s.EnableChild(name) }
			}
			if err := r.Node.Send(supPid, d); err == nil {
				select {
				case e := <-d.done:
					if e != nil {
						ln.Res = e.Error()
					} else {
						ln.Res = "ok"
					}
				case <-time.After(2 * time.Second):
					ln.Res = "hung"
				}
			}
			if step.Op == "disable" {
				faulted[step.I] = false
			}
		}
		quiesce()
		ln.Now = atomic.LoadInt64(&r.clock)
		observe(&ln, before, notesFrom, faulted)
		lines = append(lines, ln)
		r.Steps++
	}
	lines = append(lines, Line{P: scn.ID, Ev: "end"})
	// cleanup
	if supAlive() {
		r.Node.Kill(supPid)
	}
	for _, p := range snapshotPids() {
		r.Node.Kill(p)
	}
	r.Scenarios++
	return lines, nil
}

func normReason(r string) string {
	switch r {
	case "normal", "shutdown", "kill":
		return r
	}
	return "R:" + r
}

// RunAll runs the scenarios (clock scenarios sequentially with the virtual clock, the others in parallel).
func (r *Runner) RunAll(f *File, par int) error {
	var clocked, free []*Scenario
	for i := range f.Scenarios {
		if f.Scenarios[i].Clock {
			clocked = append(clocked, &f.Scenarios[i])
		} else {
			free = append(free, &f.Scenarios[i])
		}
	}
	results := make(map[int][]Line)
	var rmu sync.Mutex
	var firstErr error
	sem := make(chan struct{}, par)
	var wg sync.WaitGroup
	for _, s := range free {
		s := s
		wg.Add(1)
		sem <- struct{}{}
		go func() {
			defer wg.Done()
			defer func() { <-sem }()
			ls, err := r.Run(s)
			rmu.Lock()
			if err != nil && firstErr == nil {
				firstErr = fmt.Errorf("scenario %d: %w", s.ID, err)
			}
			results[s.ID] = ls
			rmu.Unlock()
		}()
	}
	wg.Wait()
	if len(clocked) > 0 {
		atomic.StoreInt64(&r.clock, 1_000_000_000)
		lib.SetVerifNow(func(int64) int64 { return atomic.LoadInt64(&r.clock) })
		for _, s := range clocked {
			atomic.AddInt64(&r.clock, 100_000_000) // scenarios are far apart in virtual time
			ls, err := r.Run(s)
			if err != nil && firstErr == nil {
				firstErr = fmt.Errorf("scenario %d: %w", s.ID, err)
			}
			results[s.ID] = ls
		}
		lib.SetVerifNow(nil)
	}
	ids := make([]int, 0, len(results))
	for id := range results {
		ids = append(ids, id)
	}
	sort.Ints(ids)
	for _, id := range ids {
		r.emit(results[id])
	}
	return firstErr
}

func Load(path string) (*File, error) {
	b, err := os.ReadFile(path)
	if err != nil {
		return nil, err
	}
	var f File
	if err := json.Unmarshal(b, &f); err != nil {
		return nil, err
	}
	return &f, nil
}

var _ = strings.HasPrefix
