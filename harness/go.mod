module verif/harness

go 1.20

require ergo.services/ergo v0.0.0

replace ergo.services/ergo => /repo
