#!/bin/bash
# Offline setup: parse every specification with SANY and build the conformance harness once (warms the Go build cache).
set -e
cd "$(dirname "$0")"
export GOFLAGS=-mod=mod GOPROXY=off GOSUMDB=off GOTOOLCHAIN=local
T=$(mktemp -d /var/tmp/verif-setup.XXXXXX)
trap 'rm -rf "$T"' EXIT
cp spec/*.tla "$T"/
( cd "$T" && for f in *.tla; do
    case "$f" in MC_*) continue;; esac
    tla-sany "$f" > "$T/sany.out" 2>&1 || { grep -v conda "$T/sany.out" | tail -20; echo "SANY failed on $f"; exit 1; }
  done )
( cd harness && go build -tags verif -o "$T/vh" ./cmd/vh && go vet -tags verif ./... )
echo "setup ok"
