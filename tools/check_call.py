"""Check C07: request/response correlation (Call family)."""
import json, os, random, shutil, sys, time, concurrent.futures as cf
sys.path.insert(0, os.path.dirname(os.path.abspath(__file__)))
import vlib, fam

CLAUSES = ["Correlated", "PresentedOnce", "ConsumedOnce"]

CONFIGS = {
    "quick": [{"name": "one_caller", "callers": ["A"], "k": 3, "cap": 2, "maxrep": 2},
              {"name": "two_callers", "callers": ["A", "B"], "k": 1, "cap": 2, "maxrep": 2}],
    "thorough": [{"name": "one_caller", "callers": ["A"], "k": 3, "cap": 2, "maxrep": 2},
                 {"name": "one_caller4", "callers": ["A"], "k": 4, "cap": 3, "maxrep": 2},
                 {"name": "two_callers", "callers": ["A", "B"], "k": 1, "cap": 2, "maxrep": 2},
                 {"name": "two_callers2", "callers": ["A", "B"], "k": 2, "cap": 2, "maxrep": 1}],
}
U1_BIG = {"name": "u1_big", "callers": ["A", "B"], "k": 2, "cap": 2, "maxrep": 2}


def mc(c, w, tag, invariants=True, refwrap=0):
    defs = {"MC_Callers": fam.tla_set(c["callers"])}
    consts = {"Callers": "<-MC_Callers", "K": str(c["k"]), "Cap": str(c["cap"]), "MaxRep": str(c["maxrep"]), "RefWrap": str(refwrap)}
    return fam.write_mc(w, "MC_Call_%s%s" % (c["name"], tag), "Call", defs, consts, invariants=CLAUSES if invariants else None)


def run_cfg(tier, c, w, vh, seed):
    out = {"scenario": c["name"], "violations": []}
    mod, cfg = mc(c, w, "_U1")
    r = vlib.run_tlc(w, mod, cfg, workers=4, timeout=600)
    if not r.ok():
        raise vlib.Infra("U1 %s: %s %s" % (c["name"], r.violated, r.error or r.out[-1500:]))
    out["u1"] = {"generated": r.generated, "distinct": r.distinct, "depth": r.depth}
    mod, cfg = mc(c, w, "_G", invariants=False)
    plans, st = fam.gen_plans(w, mod, cfg, pcvars=["cpc"], thread_of=lambda a, args: args[0] if a != "Reply" else "R", workers=4, maxlen=60, with_args=True, timeout=600)
    rng = random.Random(seed)
    total = len(plans)
    limit = 1500 if tier == "quick" else 12000
    if len(plans) > limit:
        plans = rng.sample(plans, limit); plans.sort(key=lambda p: p["id"])
    if c["name"] == "one_caller":
        # identifier wrap-around: a late reply to call 1 is queued, 2^18-1 references are minted, call 2 must not take it
        for j, burn in enumerate([262143, 262144, 524287]):
            plans.append({"id": 900000 + j, "steps": [["A", "CallSend", "wait", "A"], ["A", "Timeout", "idle", "A"], ["R", "Reply", "", '<<"A", 1>>', "A"],
                                                      ["A", "Mint", "", str(burn)], ["A", "CallSend", "wait", "A"], ["A", "Timeout", "idle", "A"]]})
    out["graph"] = st; out["plans_total"] = total; out["plans"] = len(plans)
    out["sample_plan"] = plans[rng.randrange(len(plans))]
    # split over parallel harness processes (the timer hook is process-global)
    nshard = 6
    shards = [plans[i::nshard] for i in range(nshard)]
    traces = []
    def one(i):
        pfile = os.path.join(w, "plans_%s_%d.json" % (c["name"], i))
        json.dump({"scenario": {"name": c["name"], "callers": c["callers"], "k": c["k"]}, "plans": shards[i]}, open(pfile, "w"))
        tr = os.path.join(w, "trace_%s_%d.ndjson" % (c["name"], i))
        rc, so, se, to = vlib.run_vh(vh, ["call", "-plans", pfile, "-out", tr, "-node", "vhcall%d_%s%d@localhost" % (os.getpid(), c["name"][:5], i)], timeout=1500)
        if rc != 0 or to:
            raise vlib.Infra("harness failed on %s rc=%s: %s" % (c["name"], rc, (se or so)[-1500:]))
        return tr, json.loads(so.strip().splitlines()[-1])
    with cf.ThreadPoolExecutor(max_workers=nshard) as ex:
        res = list(ex.map(one, range(nshard)))
    trace = os.path.join(w, "trace_%s.ndjson" % c["name"])
    hs = {"plans": 0, "calls": 0, "replies": 0, "timeouts": 0}
    with open(trace, "w") as f:
        for tr, h in res:
            f.write(open(tr).read())
            for k in hs: hs[k] += h[k]
    out["harness"] = hs
    name = "MC_CallT_%s" % c["name"]
    fam.write_mc(w, name, "Call_Trace", {}, {"TraceFile": '"%s"' % os.path.basename(trace), "Checks": fam.tla_set(CLAUSES)},
                 constraint="HWM", postcondition="TraceAccepted")
    tv = fam.validate_trace(w, name + ".tla", name + ".cfg", trace)
    out["trace"] = {k: tv.get(k) for k in ("accepted", "wall", "states", "clause", "line", "plan")}
    if not tv["accepted"]:
        out["violations"].append({"clause": tv["clause"], "scenario": c, "plan": tv["plan"], "at_event": tv["at_event"], "execution": tv["execution"]})
    return out


def main(prop, tier):
    t0 = time.time(); seed = vlib.seed()
    w = vlib.scratch("call_")
    try:
        vh, _ = vlib.build_harness(w)
        vlib.stage_spec(w)
        results = []
        with cf.ThreadPoolExecutor(max_workers=3) as ex:
            futs = [ex.submit(run_cfg, tier, c, w, vh, seed * 7919 + i) for i, c in enumerate(CONFIGS[tier])]
            # the larger design-only configuration (too big for a graph dump)
            big = None
            if tier == "thorough":
                mod, cfg = mc(U1_BIG, w, "_U1")
                big = vlib.run_tlc(w, mod, cfg, workers=6, timeout=900)
                if not big.ok():
                    raise vlib.Infra("U1 big: %s %s" % (big.violated, big.error or big.out[-1500:]))
            # the reference-wrap variant must be refuted by TLC (sanity of the Correlated invariant: non-vacuity)
            mod, cfg = mc(CONFIGS[tier][0], w, "_W", refwrap=2)
            wr = vlib.run_tlc(w, mod, cfg, workers=2, timeout=300)
            if wr.violated != "Correlated":
                raise vlib.Infra("the wrapping-reference variant of Call was not refuted by TLC (vacuous invariant?): %s" % (wr.violated or wr.error))
            for f in futs:
                results.append(f.result())
        violations = [(r["scenario"], v) for r in results for v in r["violations"]]
        execs = sum(r["harness"]["plans"] for r in results if r["trace"]["accepted"])
        cov = {"states": sum(r["u1"]["distinct"] for r in results) + (big.distinct if big else 0),
               "transitions": sum(r["u1"]["generated"] for r in results) + (big.generated if big else 0),
               "traces_validated_against_impl": execs,
               "samples": [{"scenario": r["scenario"], "plan": r["sample_plan"]} for r in results[:3]],
               "model_edges": sum(r["graph"]["edges"] for r in results), "plans_total": sum(r["plans_total"] for r in results),
               "plans_replayed": sum(r["plans"] for r in results),
               "calls": sum(r["harness"]["calls"] for r in results), "replies": sum(r["harness"]["replies"] for r in results),
               "timeouts": sum(r["harness"]["timeouts"] for r in results),
               "clauses": CLAUSES, "per_scenario": [{k: r.get(k) for k in ("scenario", "u1", "plans", "harness", "trace")} for r in results],
               "exhaustive": False}
        assumptions = ["request timeouts are scaled from 1 s to 15 ms through lib.VerifTimer (build tag verif)",
                       "the harness orders replies; Recv steps of the model are implicit in the real code",
                       "channel capacity 10 in the code, 2-3 in the model"]
        vlib.write_evidence(prop, tier, "model_checking", cov, assumptions, time.time() - t0, violations=len(violations))
        for scn, v in violations:
            path = vlib.save_replay(prop, "%s_%s" % (scn, v["clause"]), v)
            print("VIOLATION property=%s replay=%s" % (prop, path))
            print("  clause %s violated by the real code in scenario %s plan %s at event %s" % (v["clause"], scn, v["plan"], v["at_event"]))
        print("%s %s: %d model states, %d histories validated, %d violations, %.0fs" % (prop, tier, cov["states"], execs, len(violations), time.time() - t0))
        return 1 if violations else 0
    finally:
        if not os.environ.get("VERIF_KEEP"):
            shutil.rmtree(w, ignore_errors=True)


if __name__ == "__main__":
    try:
        sys.exit(main(sys.argv[1], sys.argv[2]))
    except vlib.Infra as e:
        print("INFRA: %s" % e)
        sys.exit(2)
