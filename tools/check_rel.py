"""Check C04 (and the relation clauses used by C06): Relations family."""
import json, os, random, re, shutil, sys, time, concurrent.futures as cf
sys.path.insert(0, os.path.dirname(os.path.abspath(__file__)))
import vlib, fam

CLAUSES = {"C04": ["ExactlyOneNotice", "NeverTwice", "RemovedSilent", "NoStray", "Reason"],
           "C06": ["NoStaleRelation", "NeverTwice"]}
CORE_INV = ["ExactlyOneNotice", "NeverTwice", "RemovedSilent", "NoStaleRelation"]

# (target kind, terminator) -> yield points of the table delete and of the drain
POINTS = {("pid", "kill"): ("unreg.delete", "term.drain"), ("name", "kill"): ("unreg.release", "term.drain"),
          ("name", "unregname"): ("unname.delete", "term.drain"), ("alias", "kill"): ("unreg.release", "term.drain"),
          ("event", "kill"): ("unreg.release", "term.drain"), ("event", "unregevent"): ("unevent.delete", "term.drain")}

CONS = {
    "a": {"L1": {"kind": "link", "undo": False}, "L2": {"kind": "monitor", "undo": False}},
    "b": {"L1": {"kind": "link", "undo": True}, "L2": {"kind": "monitor", "undo": True}},
    "c": {"L1": {"kind": "link", "undo": True}, "L2": {"kind": "link", "undo": False}, "L3": {"kind": "monitor", "undo": False}},
}


def scenarios(tier):
    out = []
    for (tk, term), (tdel, tdrain) in POINTS.items():
        for cn, cons in CONS.items():
            if tier == "quick" and cn == "c":
                continue
            out.append({"name": "%s_%s_%s" % (tk, term, cn), "tk": tk, "term": term, "consumers": cons, "tdel": tdel, "tdrain": tdrain})
    return out


def mc(scn, w, tag, fix, trace=None, checks=None):
    cons = sorted(scn["consumers"])
    defs = {"MC_Consumers": fam.tla_set(cons),
            "MC_Kind": fam.tla_fun("MC_Consumers", {c: '"%s"' % scn["consumers"][c]["kind"] for c in cons}, '"link"'),
            "MC_Undo": fam.tla_fun("MC_Consumers", {c: fam.tla_bool(scn["consumers"][c]["undo"]) for c in cons}, "FALSE")}
    consts = {"Consumers": "<-MC_Consumers", "Kind": "<-MC_Kind", "Undo": "<-MC_Undo", "TDel": '"%s"' % scn["tdel"], "TDrain": '"%s"' % scn["tdrain"], "TNote": '"tm.drained"',
              "Fix_LinkRace": fam.tla_bool(fix), "StateChecked": fam.tla_bool(scn["tk"] in ("pid", "name") and scn["term"] == "kill")}
    name = "MC_Rel_%s%s" % (scn["name"], tag)
    if trace:
        consts.update({"TraceFile": '"%s"' % trace, "Checks": fam.tla_set(checks), "ExpReasonOk": "TRUE"})
        return fam.write_mc(w, name, "Relations_Trace", defs, consts, spec="TraceSpec", constraint="HWM", postcondition="TraceAccepted")
    return fam.write_mc(w, name, "Relations", defs, consts, invariants=CORE_INV if (fix and tag == "_U1") else None)


def thread_of(act, args):
    return args[0] if args else "T"


def run_scenario(prop, tier, scn, w, vh, seed, fix):
    out = {"scenario": scn["name"], "violations": []}
    mod, cfg = mc(scn, w, "_U1", fix)
    r = vlib.run_tlc(w, mod, cfg, workers=2, timeout=300)
    if not r.ok():
        raise vlib.Infra("U1 %s: %s %s" % (scn["name"], r.violated, r.error or r.out[-1500:]))
    out["u1"] = {"generated": r.generated, "distinct": r.distinct, "depth": r.depth}
    mod, cfg = mc(scn, w, "_G", fix)
    # no invariants needed for the dump
    plans, st = fam.gen_plans(w, mod, cfg, pcvars=["lpc"], scalar_pcs={"tpc": "T"}, thread_of=thread_of, workers=2)
    out["graph"] = st; out["plans"] = len(plans)
    pfile = os.path.join(w, "plans_%s.json" % scn["name"])
    json.dump({"scenario": scn, "plans": plans}, open(pfile, "w"))
    out["sample_plan"] = plans[random.Random(seed).randrange(len(plans))]
    trace = "trace_%s.ndjson" % scn["name"]
    rc, so, se, to = vlib.run_vh(vh, ["relations", "-plans", pfile, "-out", os.path.join(w, trace), "-seed", str(seed),
                                      "-node", "vhrel%d_%s@localhost" % (os.getpid(), scn["name"])], timeout=900)
    if rc != 0 or to:
        raise vlib.Infra("harness failed on %s rc=%s: %s" % (scn["name"], rc, (se or so)[-1500:]))
    out["harness"] = json.loads(so.strip().splitlines()[-1])
    mod, cfg = mc(scn, w, "_T", fix, trace=trace, checks=CLAUSES[prop])
    tv = fam.validate_trace(w, mod, cfg, os.path.join(w, trace))
    out["trace"] = {k: tv.get(k) for k in ("accepted", "wall", "states", "drift", "clause", "line", "plan", "drift_event")}
    if not tv["accepted"]:
        out["violations"].append({"clause": tv["clause"], "scenario": scn, "plan": tv["plan"], "at_event": tv["at_event"], "execution": tv["execution"]})
    return out


HIST_CLAUSES = ["RelationResult", "ExactlyOneNotice", "NoStray", "NoStaleRelation"]


def rel_histories(tier, rng):
    hs = []
    def H(tk, term, ops, nalias=1, watch=0, dele=-1):
        hs.append({"id": len(hs) + 1, "tk": tk, "term": term, "ops": [{"c": c, "op": o} for c, o in ops], "nalias": nalias, "watch": watch, "del": dele})
    terms = {"pid": ["kill", "normal"], "name": ["kill", "normal", "unregister"], "alias": ["kill", "unregister"], "event": ["kill", "normal", "unregister"]}
    for tk, ts in terms.items():
        for term in ts:
            # one consumer with both kinds (either order), alone and next to others; one kind taken back
            H(tk, term, [(1, "link"), (1, "monitor")])
            H(tk, term, [(1, "monitor"), (1, "link"), (2, "link"), (3, "monitor")])
            H(tk, term, [(1, "link"), (1, "monitor"), (1, "unlink"), (2, "monitor")])
            H(tk, term, [(1, "link"), (1, "monitor"), (1, "demonitor"), (2, "link"), (2, "link")])
            H(tk, term, [(1, "link"), (2, "link"), (2, "monitor"), (3, "link"), (3, "monitor"), (3, "unlink"), (3, "demonitor"), (1, "demonitor")])
    # the owner holds three aliases, deletes one, and terminates: the watched one (every position) is still owed its notices
    for watch in (0, 1, 2):
        for dele in (0, 1, 2):
            if dele != watch:
                H("alias", "kill", [(1, "link"), (2, "monitor"), (3, "link"), (3, "monitor")], nalias=3, watch=watch, dele=dele)
    ops = ["link", "monitor", "link", "monitor", "unlink", "demonitor"]
    for _ in range(60 if tier == "quick" else 1500):
        tk = rng.choice(list(terms)); term = rng.choice(terms[tk])
        na = rng.choice([1, 2, 3]); wa = rng.randrange(na)
        H(tk, term, [(rng.randint(1, 3), rng.choice(ops)) for _ in range(rng.randint(1, 9))], nalias=na, watch=wa, dele=rng.choice([-1] + [x for x in range(na) if x != wa]))
    return hs


def run_hist(tier, w, vh, seed):
    rng = random.Random(seed * 29 + 7)
    hs = rel_histories(tier, rng)
    inp = os.path.join(w, "relhist_in.json"); out = os.path.join(w, "relhist_trace.ndjson")
    json.dump({"histories": hs}, open(inp, "w"))
    rc, so, se, to = vlib.run_vh(vh, ["relhist", "-in", inp, "-out", out], timeout=600)
    if rc != 0 or to:
        raise vlib.Infra("relhist harness failed rc=%s: %s" % (rc, (se or so)[-1200:]))
    lines = open(out).read().splitlines()
    fam.write_mc(w, "MC_RelHT", "RelH", {}, {"TraceFile": '"relhist_trace.ndjson"', "Checks": fam.tla_set(HIST_CLAUSES)}, constraint="HWM", postcondition="TraceAccepted")
    r = vlib.run_tlc(w, "MC_RelHT.tla", "MC_RelHT.cfg", workers=1, timeout=900)
    if re.search(r'TRACE_REJECTED_AT_LINE', r.out):
        raise vlib.Infra("RelH.tla could not consume the trace: %s" % r.out[-800:])
    hits = [(m.group(1), int(m.group(2))) for m in re.finditer(r'"CLAUSE_VIOLATED", "(\w+)", "LINE", (\d+)', r.out)]
    if r.rc != 0 and not hits:
        raise vlib.Infra("RelH validation failed: %s" % (r.error or r.out[-1200:]))
    viol = []
    for clause, line in hits:
        e = json.loads(lines[line - 1])
        viol.append({"clause": clause, "plan": "history %s %s %s" % (e["tk"], e["term"], [(o["c"], o["op"]) for o in e["ops"]]), "at_event": "results %s exits %s downs %s other %s left %d" % (e["res"], e["exits"], e["downs"], e["other"], e["left"]), "history": e})
    return {"histories": len(hs), "violations": viol, "states": r.distinct, "generated": r.generated, "sample": hs[rng.randrange(len(hs))]}


def main(prop, tier):
    t0 = time.time(); seed = vlib.seed()
    w = vlib.scratch("rel_%s_" % prop)
    try:
        vh, _ = vlib.build_harness(w)
        vlib.stage_spec(w)
        fix = os.environ.get("VERIF_REL_FIX", "1") == "1"
        scns = scenarios(tier)
        results = []
        with cf.ThreadPoolExecutor(max_workers=6) as ex:
            futs = [ex.submit(run_scenario, prop, tier, s, w, vh, seed * 7919 + i, fix) for i, s in enumerate(scns)]
            for f in futs:
                results.append(f.result())
        violations = [(r["scenario"], v) for r in results for v in r["violations"]]
        hist = run_hist(tier, w, vh, seed)
        violations += [("hist", v) for v in hist["violations"]]
        execs = sum(r["harness"]["plans"] for r in results if r["trace"]["accepted"]) + hist["histories"] - len(hist["violations"])
        drift = [r["trace"] for r in results if r["trace"].get("drift")]
        cov = {"relation_histories": hist["histories"], "relation_history_clauses": HIST_CLAUSES, "relation_history_sample": hist["sample"],
               "states": sum(r["u1"]["distinct"] for r in results) + hist["states"], "transitions": sum(r["u1"]["generated"] for r in results) + hist["generated"],
               "traces_validated_against_impl": execs,
               "samples": [{"scenario": r["scenario"], "plan": r["sample_plan"]} for r in results[:3]],
               "model_edges": sum(r["graph"]["edges"] for r in results), "plans_replayed": sum(r["plans"] for r in results),
               "steps_replayed": sum(r["harness"]["steps"] for r in results),
               "drift_executions": sum(d["drift"][1] for d in drift), "controller_stalls": sum(r["harness"]["stalls"] for r in results),
               "clauses": CLAUSES[prop], "scenarios": [r["scenario"] for r in results],
               "per_scenario": [{k: r.get(k) for k in ("scenario", "u1", "plans", "harness", "trace")} for r in results],
               "exhaustive": True}
        assumptions = ["every edge of the bounded model's state graph is replayed (edge cover), not every path",
                       "delivery of a notification is atomic with the drain that produced it (auxiliary threads are run to quiescence after each model step)",
                       "2-3 consumers, one target per scenario"]
        vlib.write_evidence(prop, tier, "model_checking", cov, assumptions, time.time() - t0, violations=len(violations))
        for scn, v in violations:
            path = vlib.save_replay(prop, "%s_%s" % (scn, v["clause"]), v)
            print("VIOLATION property=%s replay=%s" % (prop, path))
            print("  clause %s violated by the real code in scenario %s plan %s at event %s" % (v["clause"], scn, v["plan"], v["at_event"]))
        if drift:
            print("note: %d scenario trace(s) contain executions that are not behaviours of the Core spec (drift, not a violation); first: %s" %
                  (len(drift), json.dumps(drift[0])[:500]))
        print("%s %s: %d model states, %d executions validated, %d violations, %.0fs" % (prop, tier, cov["states"], execs, len(violations), time.time() - t0))
        return 1 if violations else 0
    finally:
        if not os.environ.get("VERIF_KEEP"):
            shutil.rmtree(w, ignore_errors=True)


if __name__ == "__main__":
    try:
        sys.exit(main(sys.argv[1], sys.argv[2]))
    except vlib.Infra as e:
        print("INFRA: %s" % e)
        sys.exit(2)
