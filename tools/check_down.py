"""Check C14 (remote failure detection: node down, remote termination, incarnations).

Design side: spec/RemoteRel.tla - the exchange of one remote link/monitor request racing with the termination of the target and the
loss of the connection; TLC checks AtMostOne / ExactlyOneNotice / NoStaleRelation for the repaired design (relation registered before
the request) and must find the counterexample for the former design.
Code side: fault cases on two real nodes behind the relay (which can keep a request or its reply inside while the fault happens);
spec/NetDown.tla judges every recorded case."""
import json, os, random, re, shutil, sys, time
sys.path.insert(0, os.path.dirname(os.path.abspath(__file__)))
import vlib, fam

CLAUSES = ["NoHang", "Established", "NoticeOnce", "NoticeType", "NoticeReason", "NothingAfterTheNotice", "CallFails", "Incarnation", "NoStray"]
KINDS = ["pid", "name", "alias", "event", "node"]


def faults_for(kind):
    if kind == "node":
        return ["cut", "stop", "stopgrace"]
    f = ["cut", "stop", "stopgrace", "termnormal", "termkill", "termcustom"]
    if kind != "pid":
        f.append("unregister")
    return f


def cases(tier, rng):
    out = []
    def add(**kw):
        d = {"id": len(out) + 1, "rel": "link", "kind": "pid", "fault": "cut", "when": "after", "obs": 1, "call": False, "pool": 2, "more": []}
        d.update(kw)
        # every other case: the requester is descheduled between sending its request and waiting for the result
        d["slowreq"] = d["when"] == "after" and len(out) % 2 == 0
        d.setdefault("stagger", False)
        d.setdefault("again", False)
        out.append(d)
    for rel in ("link", "monitor"):
        for kind in KINDS:
            for fault in faults_for(kind):
                add(rel=rel, kind=kind, fault=fault, when="after", obs=rng.choice([1, 2, 3]), pool=rng.choice([1, 2, 3]),
                    call=(fault in ("cut", "stop") and kind in ("pid", "node") and (tier == "thorough" or rel == "link" and kind == "pid")))
    # the two nodes were started at different times (different incarnation stamps): every target kind, remote termination and node loss
    for rel in ("link", "monitor"):
        for kind in KINDS:
            fs = [f for f in faults_for(kind) if f in ("termkill", "termcustom", "unregister", "cut")]
            for fault in (fs if tier == "thorough" else rng.sample(fs, min(2, len(fs)))):
                add(rel=rel, kind=kind, fault=fault, when="after", obs=1, pool=rng.choice([1, 2]), stagger=True)
    # after the loss: the nodes reconnect, somebody else relates to the same target, the target terminates - the first observers have had theirs
    for rel in ("link", "monitor"):
        for kind in KINDS:
            if kind != "node":
                add(rel=rel, kind=kind, fault="cut", when="after", obs=rng.choice([1, 2]), pool=rng.choice([1, 2]), again=True)
        add(rel=rel, kind="name", more=["event", "pid"], fault="cut", when="after", obs=1, pool=2, again=True)
    # one consumer with relations on several targets of the node that goes away
    for rel in ("link", "monitor"):
        for fault in ("cut", "stop"):
            add(rel=rel, kind="pid", more=["name", "node"], fault=fault, when="after", obs=2, pool=rng.choice([1, 2, 3]))
            add(rel=rel, kind="alias", more=["event", "pid", "name", "node"], fault=fault, when="after", obs=1, pool=2)
            ks = rng.sample(KINDS, 3)
            add(rel=rel, kind=ks[0], more=ks[1:], fault=fault, when="after", obs=rng.choice([1, 2]), pool=rng.choice([1, 2]))
    # the fault while the request / the reply is on its way
    whens = ["midreq", "midreply"]
    for rel in ("link", "monitor"):
        for kind in KINDS:
            if kind == "node":
                continue
            for fault in faults_for(kind):
                if fault in ("stop", "stopgrace"):
                    continue
                if fault == "cut" and tier == "quick" and not (kind == "pid" and rel == "link"):
                    continue     # each of these waits for the 5 s request timeout
                for when in whens:
                    if tier == "quick" and fault in ("termnormal", "termcustom") and kind in ("alias",):
                        continue
                    add(rel=rel, kind=kind, fault=fault, when=when, obs=2, pool=rng.choice([1, 2, 3]))
    if tier == "thorough":
        for _ in range(500):
            kind = rng.choice(KINDS[:4]); fault = rng.choice([f for f in faults_for(kind) if f not in ("stop", "stopgrace", "cut")])
            add(rel=rng.choice(["link", "monitor"]), kind=kind, fault=fault, when=rng.choice(whens), obs=rng.choice([1, 2, 3]), pool=rng.choice([1, 2, 3, 4]))
    return out


def model(w):
    st = tr = 0
    for af, expect in (("TRUE", True), ("FALSE", False)):
        name = "MC_RemoteRel_" + af
        fam.write_mc(w, name, "RemoteRel", {}, {"AddFirst": af}, invariants=["AtMostOne", "ExactlyOneNotice", "NoStaleRelation"], spec="Spec")
        r = vlib.run_tlc(w, name + ".tla", name + ".cfg", workers=2, timeout=300)
        viol = re.search(r'Invariant (\w+) is violated', r.out)
        if not viol and r.rc != 0:
            raise vlib.Infra("RemoteRel %s: TLC failed: %s" % (af, r.error or r.out[-600:]))
        if (viol is None) != expect:
            raise vlib.Infra("RemoteRel AddFirst=%s: invariants %s, expected %s" % (af, "hold" if viol is None else "violated: " + viol.group(1), "hold" if expect else "violated"))
        st += r.distinct; tr += r.generated
    return st, tr


def known_class(v):
    c = v["line"].get("c", {})
    if v["clause"] == "NoticeOnce" and c.get("kind") == "event" and c.get("when") == "midreply":
        return "P22e"
    return None


def main(prop, tier):
    t0 = time.time(); seed = vlib.seed(); rng = random.Random(seed)
    w = vlib.scratch("down_")
    try:
        vh, _ = vlib.build_harness(w)
        vlib.stage_spec(w)
        mst, mtr = model(w)
        cs = cases(tier, rng)
        incs = [{"id": 9000 + i, "side": s} for i, s in enumerate(["target", "reply"] * (1 if tier == "quick" else 3))]
        byid = {c["id"]: c for c in cs}
        nshard = 12
        # cases that wait for request timeouts are spread first
        cs_sorted = sorted(cs, key=lambda c: (0 if (c["fault"] == "cut" and c["when"] != "after") or c["call"] else 1, c["id"]))
        shards = [{"down": cs_sorted[i::nshard], "inc": incs[i::nshard]} for i in range(nshard)]
        import concurrent.futures as cf
        def run(i):
            inp = os.path.join(w, "down_in_%d.json" % i); out = os.path.join(w, "down_trace_%d.ndjson" % i)
            json.dump(shards[i], open(inp, "w"))
            rc, so, se, to = vlib.run_vh(vh, ["netdown", "-in", inp, "-out", out], timeout=1800)
            return i, rc, so, se, to
        with cf.ThreadPoolExecutor(nshard) as ex:
            for i, rc, so, se, to in ex.map(run, range(nshard)):
                if rc != 0 or to:
                    if vlib.crashed_in_repo(se):
                        path = vlib.save_replay(prop, "down_crash", {"clause": "NoCrash", "stderr": se[-4000:], "cases": shards[i]})
                        print("VIOLATION property=%s replay=%s" % (prop, path))
                        print("  clause NoCrash: a node crashed during the fault cases of shard %d" % i)
                        vlib.write_evidence(prop, tier, "model_checking", {"states": 1, "transitions": 1, "traces_validated_against_impl": 0}, [], time.time() - t0, violations=1)
                        return 1
                    raise vlib.Infra("netdown harness failed rc=%s: %s" % (rc, (se or so)[-1500:]))
        lines = []
        for i in range(nshard):
            p = os.path.join(w, "down_trace_%d.ndjson" % i)
            if os.path.exists(p):
                lines += open(p).read().splitlines()
        open(os.path.join(w, "down_trace.ndjson"), "w").write("\n".join(lines) + "\n")
        fam.write_mc(w, "MC_NetDownT", "NetDown", {}, {"TraceFile": '"down_trace.ndjson"', "Checks": fam.tla_set(CLAUSES), "RequestTimeoutMs": "5000"}, constraint="HWM", postcondition="TraceAccepted")
        r = vlib.run_tlc(w, "MC_NetDownT.tla", "MC_NetDownT.cfg", workers=1, timeout=1800)
        if re.search(r'TRACE_REJECTED_AT_LINE', r.out):
            raise vlib.Infra("NetDown.tla could not consume the trace: %s" % r.out[-800:])
        hits = [(m.group(1), int(m.group(2))) for m in re.finditer(r'"CLAUSE_VIOLATED", "(\w+)", "LINE", (\d+)', r.out)]
        if r.rc != 0 and not hits:
            raise vlib.Infra("NetDown validation failed: %s" % (r.error or r.out[-1500:]))
        known = {f["id"]: f for f in vlib.load_known()}
        violations = []; kf = {}
        for clause, line in hits:
            e = json.loads(lines[line - 1])
            v = {"clause": clause, "line": e}
            k = known_class(v)
            if k and k in known and known[k].get("status") == "open":
                kf.setdefault(k, []).append(v); continue
            violations.append(v)
        total = len(cs) + len(incs)
        cov = {"states": max(r.distinct + mst, 1), "transitions": max(r.generated + mtr, 1), "traces_validated_against_impl": total - len(violations),
               "samples": [cs[0], cs[rng.randrange(len(cs))]], "fault_cases": len(cs), "incarnation_cases": len(incs), "clauses": CLAUSES, "exhaustive": False,
               "design_model": {"RemoteRel AddFirst=TRUE": "invariants hold", "RemoteRel AddFirst=FALSE": "ExactlyOneNotice violated (the defect repaired by d3473d1)"}}
        assumptions = ["two real nodes in one OS process behind the harness relay; 'cut' closes the relay (no re-dial possible), 'stop' stops node B",
                       "midreq / midreply: every pooled link is held in one direction until the fault has happened",
                       "a stopping node terminates its processes before the connection goes: either reason is accepted for 'stop'",
                       "the incarnation stamp has a resolution of one second: restarts are at least 1.2 s apart"]
        vlib.write_evidence(prop, tier, "model_checking", cov, assumptions, time.time() - t0, violations=len(violations))
        for k, items in sorted(kf.items()):
            c = items[0]["line"]["c"]
            print("KNOWN-FINDING: property=%s %s %s (%d case(s), e.g. %s %s %s %s)" % (prop, k, known[k]["line"].split(" ", 3)[-1][:200], len(items), c["rel"], c["kind"], c["fault"], c["when"]))
        for v in violations[:10]:
            path = vlib.save_replay(prop, "down_%s_%s" % (v["line"]["p"], v["clause"]), v)
            print("VIOLATION property=%s replay=%s" % (prop, path))
            e = v["line"]
            if e["ev"] == "down":
                print("  clause %s: case %s; results %s (%s ms); notices %s; call %s (%s ms)" % (v["clause"], json.dumps(e["c"]), e["relres"], e["relms"], json.dumps(e["notes"]), e["callres"], e["callms"]))
            else:
                print("  clause %s: %s restarted; %s; stray=%d" % (v["clause"], e["step"], e["res"], e["stray"]))
        print("%s %s: %d fault cases + %d incarnation cases, %d validated against spec/NetDown.tla, %d violations, %.0fs" % (prop, tier, len(cs), len(incs), total - len(violations), len(violations), time.time() - t0))
        return 1 if violations else 0
    finally:
        if not os.environ.get("VERIF_KEEP"):
            shutil.rmtree(w, ignore_errors=True)


if __name__ == "__main__":
    try:
        sys.exit(main(sys.argv[1], sys.argv[2]))
    except vlib.Infra as e:
        print("INFRA: %s" % e)
        sys.exit(2)
