"""ProcCore family: MC generation from scenarios, plan generation (edge cover over TLC's state graph)."""
import json, os, random, re, subprocess, sys
sys.path.insert(0, os.path.dirname(os.path.abspath(__file__)))
import vlib

INVARIANTS = ["Serial", "OneOwner", "SlotsSuffice", "TermOnce", "TermFinal", "ReasonRight", "QuiescentState", "KillKills",
              "NoLostWakeup", "ExactlyOnce", "NoDupHandle", "RefusedNever", "HandledWasSent", "SenderFifo"]


def scenarios(tier):
    d = json.load(open(os.path.join(vlib.SPEC, "scenarios", "proccore.json")))
    return [s for s in d["scenarios"] if tier in s["tiers"]]


def tla_str(s):
    return '"%s"' % s


def gen_mc(scn, workdir, tag="", fix=True, mut_norecheck=False, view=False, invariants=True, trace_file=None, inv_list=None):
    """writes MC_PC_<name><tag>.tla/.cfg into workdir; returns (module, cfg)"""
    name = "MC_PC_%s%s" % (scn["name"], tag)
    senders = sorted(scn["senders"])
    def ops(s):
        return "<< " + ", ".join('[q |-> "%s", kind |-> "%s", via |-> "%s"]' % (o["q"], o["kind"], o.get("via", "pid")) for o in scn["senders"][s]) + " >>"
    opsdef = "[s \\in MC_Senders |-> " + "".join('IF s = "%s" THEN %s ELSE ' % (s, ops(s)) for s in senders) + "<< >>]"
    killers = scn["killers"]
    tof = "[k \\in MC_Killers |-> " + "".join('IF k = "%s" THEN "T%s" ELSE ' % (k, k[1:]) for k in killers) + '"T0"]'
    rseq = "<< " + ", ".join('"R%d"' % i for i in range(1, scn["runners"] + 1)) + " >>"
    ext = "ProcCore_Trace" if trace_file else "ProcCore"
    mod = ["---- MODULE %s ----" % name, "EXTENDS " + ext,
           "MC_Senders == {%s}" % ", ".join(tla_str(s) for s in senders),
           "MC_Ops == " + opsdef,
           "MC_Killers == {%s}" % ", ".join(tla_str(k) for k in killers),
           "MC_TOf == " + tof, "MC_RSeq == " + rseq, "===="]
    open(os.path.join(workdir, name + ".tla"), "w").write("\n".join(mod) + "\n")
    cfg = []
    cfg.append("SPECIFICATION TraceSpec" if trace_file else "SPECIFICATION Spec")
    cfg += ["CONSTANTS", " Senders <- MC_Senders", " Ops <- MC_Ops", " Killers <- MC_Killers", " TOf <- MC_TOf", " RSeq <- MC_RSeq",
            " Limit = %d" % scn["limit"], " Trap = %s" % ("TRUE" if scn["trap"] else "FALSE"),
            " WithSpawn = %s" % ("TRUE" if scn.get("spawn") else "FALSE"),
            " Fix_KillZombee = %s" % ("TRUE" if fix else "FALSE"),
            " Mut_NoRecheck = %s" % ("TRUE" if mut_norecheck else "FALSE"), " Mut_WakeBeforePush = FALSE"]
    if trace_file:
        cfg.append(' TraceFile = "%s"' % trace_file)
        cfg += ["CONSTRAINT HWM", "POSTCONDITION TraceAccepted"]
    if invariants:
        cfg += ["INVARIANTS"] + [" " + i for i in (inv_list or INVARIANTS)]
    if view:
        cfg.append("VIEW View")
    cfg.append("CHECK_DEADLOCK FALSE")
    open(os.path.join(workdir, name + ".cfg"), "w").write("\n".join(cfg) + "\n")
    return name + ".tla", name + ".cfg"


def gen_plans(scn, workdir, fix=True, maxlen=80, workers=4, timeout=300, limit_paths=None, rng=None):
    """dumps the state graph (observation variables hidden by VIEW) and returns an edge cover as plans"""
    mod, cfg = gen_mc(scn, workdir, tag="_G" + ("" if fix else "u"), fix=fix, view=True, invariants=False)
    dot = os.path.join(workdir, os.path.splitext(cfg)[0] + ".dot")
    r = vlib.run_tlc(workdir, mod, cfg, workers=workers, timeout=timeout, extra=["-dump", "dot,actionlabels", dot])
    if not r.ok():
        raise vlib.Infra("graph dump failed for %s: %s %s" % (scn["name"], r.violated, r.error or r.out[-2000:]))
    inits, edges, nodes = vlib.parse_dot(dot, want_nodes=True)
    os.remove(dot)
    pcs = {n: node_pcs(lab) for n, lab in nodes.items()}
    del nodes
    paths, st = vlib.edge_cover(inits, edges, maxlen=maxlen, rng=rng, limit_paths=limit_paths, with_nodes=True)
    plans = []
    for i, p in enumerate(paths):
        # step = [thread, action, expected pc of the thread after the step]
        plans.append({"id": i + 1, "steps": [[(args[0] if args else "P"), act, pcs[dst].get((args[0] if args else "P"), "?")] for (act, args, dst) in p]})
    st.update({"graph_states": r.distinct, "graph_generated": r.generated})
    return plans, st


PC_RE = re.compile(r'(\w+) \|-> \\"([^\\"]*)\\"')


def node_pcs(label):
    """thread -> pc from a dot node label (the spc/rpc/kpc/tpc functions)"""
    out = {}
    for var in ("spc", "rpc", "kpc", "tpc"):
        m = re.search(r'/\\\\ ' + var + r' = \[(.*?)\]', label)
        if m:
            for th, pc in PC_RE.findall(m.group(1)):
                out[th] = pc
    m = re.search(r'/\\\\ sp = \[([^\]]*)\]', label)
    if m:
        for k, v in PC_RE.findall(m.group(1)):
            if k == "pc":
                out["P"] = v
    return out


OBS_INVARIANTS = {
    "C01": ["Serial"],
    "C02": ["NoDupHandle", "RefusedNever", "OnlySent", "NoLostWakeup", "ExactlyOnce"],
    "C03": ["SenderFifo", "PriorityPick"],
    "C05": ["TermOnce", "TermFinal", "ReasonRight", "QuiescentState", "KillKills", "CauseTerminates", "TrapDelivers"],
}
CORE_INVARIANTS = {
    "C01": ["Serial", "OneOwner", "SlotsSuffice"],
    "C02": ["NoLostWakeup", "ExactlyOnce", "NoDupHandle", "RefusedNever", "HandledWasSent", "SlotsSuffice"],
    "C03": ["SenderFifo", "SlotsSuffice"],
    "C05": ["TermOnce", "TermFinal", "ReasonRight", "QuiescentState", "KillKills", "SlotsSuffice"],
}


def gen_obs(scn, workdir, trace_file, invariants, controlled=True, tag="_O"):
    name = "MC_PO_%s%s" % (scn["name"], tag)
    senders = sorted(scn["senders"])
    def ops(s):
        return "<< " + ", ".join('[q |-> "%s", kind |-> "%s"]' % (o["q"], o["kind"]) for o in scn["senders"][s]) + " >>"
    opsdef = "[s \\in MC_Senders |-> " + "".join('IF s = "%s" THEN %s ELSE ' % (s, ops(s)) for s in senders) + "<< >>]"
    mod = ["---- MODULE %s ----" % name, "EXTENDS ProcObs",
           "MC_Senders == {%s}" % ", ".join(tla_str(s) for s in senders),
           "MC_Ops == " + opsdef,
           "MC_Killers == {%s}" % ", ".join(tla_str(k) for k in scn["killers"]), "===="]
    open(os.path.join(workdir, name + ".tla"), "w").write("\n".join(mod) + "\n")
    cfg = ["SPECIFICATION Spec", "CONSTANTS", " Senders <- MC_Senders", " Ops <- MC_Ops", " Killers <- MC_Killers",
           " Trap = %s" % ("TRUE" if scn["trap"] else "FALSE"), ' TraceFile = "%s"' % trace_file,
           " Controlled = %s" % ("TRUE" if controlled else "FALSE"),
           " Checks = {%s}" % ", ".join('"%s"' % i for i in invariants),
           "CONSTRAINT HWM", "POSTCONDITION TraceAccepted", "CHECK_DEADLOCK FALSE"]
    open(os.path.join(workdir, name + ".cfg"), "w").write("\n".join(cfg) + "\n")
    return name + ".tla", name + ".cfg"


def scn_for_harness(scn):
    d = {k: scn[k] for k in ("name", "senders", "killers", "runners", "limit", "trap")}
    d["spawn"] = bool(scn.get("spawn"))
    return d
