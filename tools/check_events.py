"""Check C18: events. Systematic and seeded random histories are executed on a real node; TLC replays every recorded line on the
sequential reference spec/Events.tla and compares results, the buffer handed to new subscribers, what every subscriber received (once, in
order), exit/down notifications, and start/stop notices at the producers."""
import json, os, random, re, shutil, sys, time
sys.path.insert(0, os.path.dirname(os.path.abspath(__file__)))
import vlib, fam

CLAUSES = ["Result", "Replay", "Delivery", "Gone", "Notices"]
P = ["P1", "P2"]; C = ["C1", "C2", "C3"]; E = ["e1", "e2"]


def histories(tier, rng):
    out = []; hid = 0
    def add(ops):
        nonlocal hid
        hid += 1; out.append({"id": hid, "ops": ops})
    def reg(p, e, buf=0, notify=False): return {"op": "register", "p": p, "e": e, "buffer": buf, "notify": notify, "kind": ""}
    def pub(p, e): return {"op": "publish", "p": p, "e": e, "buffer": 0, "notify": False, "kind": ""}
    def bad(p, e): return {"op": "badpublish", "p": p, "e": e, "buffer": 0, "notify": False, "kind": ""}
    def sub(c, e, k): return {"op": "subscribe", "p": c, "e": e, "kind": k, "buffer": 0, "notify": False}
    def uns(c, e, k): return {"op": "unsubscribe", "p": c, "e": e, "kind": k, "buffer": 0, "notify": False}
    def unr(p, e): return {"op": "unregister", "p": p, "e": e, "buffer": 0, "notify": False, "kind": ""}
    def kill(p): return {"op": "kill", "p": p, "e": "", "buffer": 0, "notify": False, "kind": ""}
    for buf in (0, 1, 2, 3):
        for notify in (False, True):
            add([reg("P1", "e1", buf, notify), pub("P1", "e1"), pub("P1", "e1"), pub("P1", "e1"), sub("C1", "e1", "link"), pub("P1", "e1"), sub("C2", "e1", "monitor"),
                 pub("P1", "e1"), pub("P1", "e1"), uns("C1", "e1", "link"), pub("P1", "e1"), sub("C3", "e1", "link"), uns("C2", "e1", "monitor"), uns("C3", "e1", "link"),
                 pub("P1", "e1"), sub("C1", "e1", "monitor"), unr("P1", "e1")])
            add([reg("P1", "e1", buf, notify), sub("C1", "e1", "link"), sub("C2", "e1", "monitor"), pub("P1", "e1"), bad("P2", "e1"), bad("P1", "e1"), pub("P2", "e1"),
                 kill("P1"), pub("P2", "e1"), sub("C3", "e1", "link"), reg("P2", "e1", buf, notify), sub("C3", "e1", "link"), pub("P2", "e1")])
            add([reg("P1", "e1", buf, notify), reg("P2", "e2", buf, not notify), reg("P2", "e1"), sub("C1", "e1", "link"), sub("C1", "e2", "monitor"), sub("C1", "e1", "link"),
                 pub("P1", "e1"), pub("P2", "e2"), pub("P1", "e1"), unr("P2", "e1"), unr("P1", "e1"), pub("P2", "e2"), uns("C1", "e1", "link"), uns("C1", "e2", "monitor"), uns("C1", "e2", "monitor")])
    # events owned by the node itself (its notices go nowhere: the first subscriber must still be served)
    for buf in (0, 2):
        for notify in (False, True):
            add([reg("N", "e1", buf, notify), pub("N", "e1"), pub("N", "e1"), sub("C1", "e1", "link"), pub("N", "e1"), sub("C2", "e1", "monitor"), pub("N", "e1"),
                 uns("C1", "e1", "link"), uns("C2", "e1", "monitor"), sub("C3", "e1", "monitor"), bad("N", "e1"), bad("P1", "e1"), pub("N", "e1"), unr("P1", "e1"), unr("N", "e1")])
    for _ in range(400 if tier == "quick" else 4000):
        ops = []
        subs = set(); owner = {}; alive = set(P)
        for _ in range(rng.randint(5, 30)):
            c = rng.random(); e = rng.choice(E)
            if c < 0.12:
                p_ = rng.choice(P)
                ops.append(reg(p_, e, rng.choice([0, 0, 1, 2, 3]), rng.random() < 0.5))
                if p_ in alive and e not in owner:
                    owner[e] = p_
            elif c < 0.45: ops.append(pub(rng.choice(P), e))
            elif c < 0.50: ops.append(bad(rng.choice(P), e))
            elif c < 0.72:
                cc = rng.choice(C); k = rng.choice(["link", "monitor"])
                other = "monitor" if k == "link" else "link"
                if (cc, e, other) in subs:
                    k = other          # never both kinds on one event for one consumer (double delivery is not specified)
                ops.append(sub(cc, e, k))
                if e in owner:
                    subs.add((cc, e, k))
            elif c < 0.86:
                cc = rng.choice(C); k = rng.choice(["link", "monitor"])
                ops.append(uns(cc, e, k)); subs.discard((cc, e, k))
            elif c < 0.95:
                p_ = rng.choice(P)
                ops.append(unr(p_, e))
                if owner.get(e) == p_ and p_ in alive:
                    del owner[e]; subs = {x for x in subs if x[1] != e}
            else:
                p_ = rng.choice(P)
                ops.append(kill(p_)); alive.discard(p_)
                for e2 in [x for x in owner if owner[x] == p_]:
                    del owner[e2]; subs = {x for x in subs if x[1] != e2}
        add(ops)
    return out



REMOTE_CLAUSES = ["EventSubscribe", "EventBuffer", "EventOnce", "EventNotice", "EventLostAtEnd"]


def remote_cases(tier, rng):
    ev = []
    def E(**kw):
        d = {"id": len(ev) + 1, "buffer": 3, "pre": 5, "post": 6, "subs": 2, "rel": "mixed", "pool": 2, "chunk": 0, "size": 40, "end": ""}
        d.update(kw); d["stagger"] = len(ev) % 6 == 2; ev.append(d)
    for buffer in (0, 1, 3):
        for pre in (0, 1, 3, 5):
            E(buffer=buffer, pre=pre, post=rng.choice([1, 4, 9]), rel=rng.choice(["link", "monitor", "mixed"]), subs=rng.choice([1, 2, 3]), pool=rng.choice([1, 2, 3]))
    for end in ("unregister", "kill"):
        for rel in ("link", "monitor", "mixed"):
            E(end=end, rel=rel, post=rng.choice([2, 8]), subs=2)
    E(size=5000, chunk=7, post=20); E(size=70000, post=5, pool=3); E(post=300, subs=3, pool=3, chunk=rng.choice([0, 100]))
    for _ in range(4 if tier == "quick" else 300):
        E(buffer=rng.choice([0, 1, 2, 5, 10]), pre=rng.randint(0, 12), post=rng.randint(0, 40), subs=rng.randint(1, 4), rel=rng.choice(["link", "monitor", "mixed"]),
          pool=rng.choice([1, 2, 3, 4]), chunk=rng.choice([0, 0, 3, 64, 1460]), size=rng.choice([10, 40, 300, 5000]), end=rng.choice(["", "", "unregister", "kill"]))
    return ev


def run_remote(prop, tier, w, vh, rng):
    """subscribers on another node: buffer handed over, every later publication once and in order, one notice at the end"""
    ev = remote_cases(tier, rng)
    nshard = 6
    import concurrent.futures as cf
    def run(i):
        inp = os.path.join(w, "rev_in_%d.json" % i); out = os.path.join(w, "rev_trace_%d.ndjson" % i)
        json.dump({"cases": [], "events": ev[i::nshard]}, open(inp, "w"))
        return (i,) + vlib.run_vh(vh, ["netdeliver", "-in", inp, "-out", out], timeout=1200)
    with cf.ThreadPoolExecutor(nshard) as ex:
        for i, rc, so, se, to in ex.map(run, range(nshard)):
            if rc != 0 or to:
                raise vlib.Infra("remote event harness failed rc=%s: %s" % (rc, (se or so)[-1200:]))
    lines = []
    for i in range(nshard):
        lines += open(os.path.join(w, "rev_trace_%d.ndjson" % i)).read().splitlines()
    open(os.path.join(w, "rev_trace.ndjson"), "w").write("\n".join(lines) + "\n")
    fam.write_mc(w, "MC_NetEvT", "Net", {}, {"TraceFile": '"rev_trace.ndjson"', "Checks": fam.tla_set(REMOTE_CLAUSES)}, constraint="HWM", postcondition="TraceAccepted")
    r = vlib.run_tlc(w, "MC_NetEvT.tla", "MC_NetEvT.cfg", workers=1, timeout=1200)
    if re.search(r'TRACE_REJECTED_AT_LINE', r.out):
        raise vlib.Infra("Net.tla could not consume the remote event trace: %s" % r.out[-800:])
    hits = [(m.group(1), int(m.group(2))) for m in re.finditer(r'"CLAUSE_VIOLATED", "(\w+)", "LINE", (\d+)', r.out)]
    if r.rc != 0 and not hits:
        raise vlib.Infra("remote event validation failed: %s" % (r.error or r.out[-1200:]))
    known = {f["id"]: f for f in vlib.load_known()}
    viol = []; kf = []
    for clause, line in hits:
        e = json.loads(lines[line - 1])
        if clause == "EventLostAtEnd" and known.get("P28", {}).get("status") == "open":
            kf.append(e); continue
        viol.append({"clause": clause, "history": {"id": 100000 + e["p"], "remote_case": e["c"]}, "line": {k: e[k] for k in ("c", "subres", "kinds", "notes")} | {"published": len(e["sums"]), "buf": [len(b) for b in e["buf"]], "live": [len(x) for x in e["live"]]}})
    return {"cases": len(ev), "violations": viol, "known": kf, "states": r.distinct, "generated": r.generated, "sample": ev[rng.randrange(len(ev))]}


def main(prop, tier):
    t0 = time.time(); seed = vlib.seed(); rng = random.Random(seed)
    w = vlib.scratch("ev_")
    try:
        vh, _ = vlib.build_harness(w)
        vlib.stage_spec(w)
        hs = histories(tier, rng)
        byid = {h["id"]: h for h in hs}
        json.dump({"histories": hs}, open(os.path.join(w, "ev_in.json"), "w"))
        trace = os.path.join(w, "ev_trace.ndjson")
        rc, so, se, to = vlib.run_vh(vh, ["events", "-in", os.path.join(w, "ev_in.json"), "-out", trace, "-node", "vhev%d@localhost" % os.getpid(), "-par", "12"], timeout=3000)
        if rc != 0 or to:
            raise vlib.Infra("events harness failed rc=%s: %s" % (rc, (se or so)[-1500:]))
        st = json.loads(so.strip().splitlines()[-1])
        fam.write_mc(w, "MC_EvT", "Events", {}, {"TraceFile": '"ev_trace.ndjson"', "Checks": fam.tla_set(CLAUSES)}, constraint="HWM", postcondition="TraceAccepted")
        r = vlib.run_tlc(w, "MC_EvT.tla", "MC_EvT.cfg", workers=1, timeout=1800)
        if re.search(r'TRACE_REJECTED_AT_LINE', r.out):
            raise vlib.Infra("Events.tla could not consume the trace: %s" % r.out[-800:])
        hits = [(m.group(1), int(m.group(2))) for m in re.finditer(r'"CLAUSE_VIOLATED", "(\w+)", "LINE", (\d+)', r.out)]
        if r.rc != 0 and not hits:
            raise vlib.Infra("Events validation failed: %s" % (r.error or r.out[-1500:]))
        lines = open(trace).read().splitlines()
        violations = []
        for clause, line in hits:
            e = json.loads(lines[line - 1])
            violations.append({"clause": clause, "history": byid[e["p"]], "line": e})
        rem = run_remote(prop, tier, w, vh, rng)
        violations += rem["violations"]
        validated = len(hs) + rem["cases"] - len({v["history"]["id"] for v in violations})
        cov = {"remote_subscriber_cases": rem["cases"], "remote_clauses": REMOTE_CLAUSES, "remote_sample": rem["sample"],
               "states": max(r.distinct + rem["states"], 1), "transitions": max(r.generated + rem["generated"], 1), "traces_validated_against_impl": validated,
               "samples": [hs[0], hs[rng.randrange(len(hs))]], "histories": len(hs), "operations": st["ops"], "clauses": CLAUSES, "exhaustive": False}
        assumptions = ["operations are sequential (quiescence after each); the publish-versus-subscribe race is not bound to the code yet",
                       "2 producers, 3 consumers, 2 events, buffers 0-3; one consumer never holds both a link and a monitor on the same event; consumers are not killed",
                       "remote subscribers: a producer on one real node, 1-4 subscribers on another behind the relay; the subscribe-versus-publish window is not placed"]
        vlib.write_evidence(prop, tier, "model_checking", cov, assumptions, time.time() - t0, violations=len(violations))
        if rem["known"]:
            c = rem["known"][0]["c"]
            print("KNOWN-FINDING: property=%s P28 %s (%d case(s), e.g. end=%s post=%d: subscribers got %s of %d)" % (prop, [f for f in vlib.load_known() if f["id"] == "P28"][0]["line"].split(" ", 3)[-1][:230], len(rem["known"]), c["end"], c["post"], [len(x) for x in rem["known"][0]["live"]], c["post"]))
        for v in violations[:12]:
            path = vlib.save_replay(prop, "ev_h%d_%s" % (v["history"]["id"], v["clause"]), v)
            print("VIOLATION property=%s replay=%s" % (prop, path))
            print("  clause %s: line %s" % (v["clause"], json.dumps(v["line"])[:900]))
        print("%s %s: %d histories (%d operations) + %d remote subscriber cases, %d validated against the reference, %d violations, %.0fs" % (prop, tier, len(hs), st["ops"], rem["cases"], validated, len(violations), time.time() - t0))
        return 1 if violations else 0
    finally:
        if not os.environ.get("VERIF_KEEP"):
            shutil.rmtree(w, ignore_errors=True)


if __name__ == "__main__":
    try:
        sys.exit(main(sys.argv[1], sys.argv[2]))
    except vlib.Infra as e:
        print("INFRA: %s" % e)
        sys.exit(2)
