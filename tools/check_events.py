"""Check C18: events. Systematic and seeded random histories are executed on a real node; TLC replays every recorded line on the
sequential reference spec/Events.tla and compares results, the buffer handed to new subscribers, what every subscriber received (once, in
order), exit/down notifications, and start/stop notices at the producers."""
import json, os, random, re, shutil, sys, time
sys.path.insert(0, os.path.dirname(os.path.abspath(__file__)))
import vlib, fam

CLAUSES = ["Result", "Replay", "Delivery", "Gone", "Notices"]
P = ["P1", "P2"]; C = ["C1", "C2", "C3"]; E = ["e1", "e2"]


def histories(tier, rng):
    out = []; hid = 0
    def add(ops):
        nonlocal hid
        hid += 1; out.append({"id": hid, "ops": ops})
    def reg(p, e, buf=0, notify=False): return {"op": "register", "p": p, "e": e, "buffer": buf, "notify": notify, "kind": ""}
    def pub(p, e): return {"op": "publish", "p": p, "e": e, "buffer": 0, "notify": False, "kind": ""}
    def bad(p, e): return {"op": "badpublish", "p": p, "e": e, "buffer": 0, "notify": False, "kind": ""}
    def sub(c, e, k): return {"op": "subscribe", "p": c, "e": e, "kind": k, "buffer": 0, "notify": False}
    def uns(c, e, k): return {"op": "unsubscribe", "p": c, "e": e, "kind": k, "buffer": 0, "notify": False}
    def unr(p, e): return {"op": "unregister", "p": p, "e": e, "buffer": 0, "notify": False, "kind": ""}
    def kill(p): return {"op": "kill", "p": p, "e": "", "buffer": 0, "notify": False, "kind": ""}
    for buf in (0, 1, 2, 3):
        for notify in (False, True):
            add([reg("P1", "e1", buf, notify), pub("P1", "e1"), pub("P1", "e1"), pub("P1", "e1"), sub("C1", "e1", "link"), pub("P1", "e1"), sub("C2", "e1", "monitor"),
                 pub("P1", "e1"), pub("P1", "e1"), uns("C1", "e1", "link"), pub("P1", "e1"), sub("C3", "e1", "link"), uns("C2", "e1", "monitor"), uns("C3", "e1", "link"),
                 pub("P1", "e1"), sub("C1", "e1", "monitor"), unr("P1", "e1")])
            add([reg("P1", "e1", buf, notify), sub("C1", "e1", "link"), sub("C2", "e1", "monitor"), pub("P1", "e1"), bad("P2", "e1"), bad("P1", "e1"), pub("P2", "e1"),
                 kill("P1"), pub("P2", "e1"), sub("C3", "e1", "link"), reg("P2", "e1", buf, notify), sub("C3", "e1", "link"), pub("P2", "e1")])
            add([reg("P1", "e1", buf, notify), reg("P2", "e2", buf, not notify), reg("P2", "e1"), sub("C1", "e1", "link"), sub("C1", "e2", "monitor"), sub("C1", "e1", "link"),
                 pub("P1", "e1"), pub("P2", "e2"), pub("P1", "e1"), unr("P2", "e1"), unr("P1", "e1"), pub("P2", "e2"), uns("C1", "e1", "link"), uns("C1", "e2", "monitor"), uns("C1", "e2", "monitor")])
    for _ in range(400 if tier == "quick" else 4000):
        ops = []
        subs = set(); owner = {}; alive = set(P)
        for _ in range(rng.randint(5, 30)):
            c = rng.random(); e = rng.choice(E)
            if c < 0.12:
                p_ = rng.choice(P)
                ops.append(reg(p_, e, rng.choice([0, 0, 1, 2, 3]), rng.random() < 0.5))
                if p_ in alive and e not in owner:
                    owner[e] = p_
            elif c < 0.45: ops.append(pub(rng.choice(P), e))
            elif c < 0.50: ops.append(bad(rng.choice(P), e))
            elif c < 0.72:
                cc = rng.choice(C); k = rng.choice(["link", "monitor"])
                other = "monitor" if k == "link" else "link"
                if (cc, e, other) in subs:
                    k = other          # never both kinds on one event for one consumer (double delivery is not specified)
                ops.append(sub(cc, e, k))
                if e in owner:
                    subs.add((cc, e, k))
            elif c < 0.86:
                cc = rng.choice(C); k = rng.choice(["link", "monitor"])
                ops.append(uns(cc, e, k)); subs.discard((cc, e, k))
            elif c < 0.95:
                p_ = rng.choice(P)
                ops.append(unr(p_, e))
                if owner.get(e) == p_ and p_ in alive:
                    del owner[e]; subs = {x for x in subs if x[1] != e}
            else:
                p_ = rng.choice(P)
                ops.append(kill(p_)); alive.discard(p_)
                for e2 in [x for x in owner if owner[x] == p_]:
                    del owner[e2]; subs = {x for x in subs if x[1] != e2}
        add(ops)
    return out


def main(prop, tier):
    t0 = time.time(); seed = vlib.seed(); rng = random.Random(seed)
    w = vlib.scratch("ev_")
    try:
        vh, _ = vlib.build_harness(w)
        vlib.stage_spec(w)
        hs = histories(tier, rng)
        byid = {h["id"]: h for h in hs}
        json.dump({"histories": hs}, open(os.path.join(w, "ev_in.json"), "w"))
        trace = os.path.join(w, "ev_trace.ndjson")
        rc, so, se, to = vlib.run_vh(vh, ["events", "-in", os.path.join(w, "ev_in.json"), "-out", trace, "-node", "vhev%d@localhost" % os.getpid(), "-par", "12"], timeout=3000)
        if rc != 0 or to:
            raise vlib.Infra("events harness failed rc=%s: %s" % (rc, (se or so)[-1500:]))
        st = json.loads(so.strip().splitlines()[-1])
        fam.write_mc(w, "MC_EvT", "Events", {}, {"TraceFile": '"ev_trace.ndjson"', "Checks": fam.tla_set(CLAUSES)}, constraint="HWM", postcondition="TraceAccepted")
        r = vlib.run_tlc(w, "MC_EvT.tla", "MC_EvT.cfg", workers=1, timeout=1800)
        if re.search(r'TRACE_REJECTED_AT_LINE', r.out):
            raise vlib.Infra("Events.tla could not consume the trace: %s" % r.out[-800:])
        hits = [(m.group(1), int(m.group(2))) for m in re.finditer(r'"CLAUSE_VIOLATED", "(\w+)", "LINE", (\d+)', r.out)]
        if r.rc != 0 and not hits:
            raise vlib.Infra("Events validation failed: %s" % (r.error or r.out[-1500:]))
        lines = open(trace).read().splitlines()
        violations = []
        for clause, line in hits:
            e = json.loads(lines[line - 1])
            violations.append({"clause": clause, "history": byid[e["p"]], "line": e})
        validated = len(hs) - len({v["history"]["id"] for v in violations})
        cov = {"states": max(r.distinct, 1), "transitions": max(r.generated, 1), "traces_validated_against_impl": validated,
               "samples": [hs[0], hs[rng.randrange(len(hs))]], "histories": len(hs), "operations": st["ops"], "clauses": CLAUSES, "exhaustive": False}
        assumptions = ["operations are sequential (quiescence after each); the publish-versus-subscribe race is not bound to the code yet",
                       "2 producers, 3 consumers, 2 events, buffers 0-3; one consumer never holds both a link and a monitor on the same event; consumers are not killed",
                       "remote subscribers are not covered here"]
        vlib.write_evidence(prop, tier, "model_checking", cov, assumptions, time.time() - t0, violations=len(violations))
        for v in violations[:12]:
            path = vlib.save_replay(prop, "ev_h%d_%s" % (v["history"]["id"], v["clause"]), v)
            print("VIOLATION property=%s replay=%s" % (prop, path))
            print("  clause %s: line %s" % (v["clause"], json.dumps(v["line"])[:900]))
        print("%s %s: %d histories (%d operations), %d validated against the reference, %d violations, %.0fs" % (prop, tier, len(hs), st["ops"], validated, len(violations), time.time() - t0))
        return 1 if violations else 0
    finally:
        if not os.environ.get("VERIF_KEEP"):
            shutil.rmtree(w, ignore_errors=True)


if __name__ == "__main__":
    try:
        sys.exit(main(sys.argv[1], sys.argv[2]))
    except vlib.Infra as e:
        print("INFRA: %s" % e)
        sys.exit(2)
