"""Check C15 (remote access control: cookie authentication, agreement, spawn/start permissions).

Design side: spec/Handshake.tla - symbolic model of Start/Accept/Join with an intruder that replays and forges but does not know the
cookie; TLC checks AcceptorAuth / InitiatorAuth / JoinAuth and must find the Join replay (JoinNoReplay, known finding P10c).
Code side: cookie matrix and agreement on real node pairs, a raw TCP peer replaying recorded handshake bytes / garbage / truncations
against a real acceptor, and enable/disable histories with two real peers; spec/Access.tla judges every recorded case."""
import json, os, random, re, shutil, sys, time, itertools
sys.path.insert(0, os.path.dirname(os.path.abspath(__file__)))
import vlib, fam

CLAUSES = ["CookieAccepts", "CookieRefuses", "Agreement", "NoCookieNoEntry", "NoForgedDelivery", "HonestStillServed", "OnlyEnabled", "FlagsRespected", "EnvOnlyIfExposed"]


def O(op, name, nodes=(), peer=""):
    return {"op": op, "name": name, "nodes": list(nodes), "peer": peer, "res": "", "env": ""}


def cases(tier, rng):
    out = []
    def base(**kw):
        d = {"id": len(out) + 1, "kind": "cookie", "nodea": "x", "nodeb": "x", "acc": "", "route": "", "spawna": True, "spawnb": True, "appa": True, "appb": True,
             "maxa": 0, "maxb": 0, "mode": "", "cut": 0, "ops": [], "exposespawn": False, "exposeapp": False}
        d.update(kw); out.append(d)
    # cookie matrix: node cookies equal / different x acceptor cookie unset / = dialer's / other x route cookie unset / = acceptor's / other
    for nb in ("x", "y"):
        for acc in ("", "x", "y", "z"):
            for route in ("", "x", "y", "z"):
                if tier == "quick" and rng.random() < 0.35:
                    continue
                base(nodea="x", nodeb=nb, acc=acc, route=route, spawna=rng.random() < 0.5, spawnb=rng.random() < 0.5, appa=rng.random() < 0.5, appb=rng.random() < 0.5,
                     maxa=rng.choice([0, 5000, 70000]), maxb=rng.choice([0, 6000, 90000]))
    # the replaying peer
    base(kind="replay", mode="start")
    base(kind="replay", mode="join")
    for cut in ((1, 2) if tier == "quick" else (1, 2, 3)):
        base(kind="replay", mode="start", cut=cut)
    for cut in (range(0, 6) if tier == "quick" else range(0, 40)):
        base(kind="replay", mode="garbage", cut=cut)
    for cut in ((1, 5, 6, 7, 20, 60) if tier == "quick" else list(range(1, 12)) + [20, 40, 60, 80, 100]):
        base(kind="replay", mode="truncate", cut=cut)
    # permissions: systematic small histories + random ones
    names_s = ["s1", "s2"]; names_a = ["a1", "a2"]; peers = ["P1", "P2"]
    def attempts(kind):
        return [O(kind, n, peer=p) for n in (names_s if kind == "spawn" else names_a) for p in peers]
    for en, dis, att in (("enspawn", "disspawn", "spawn"), ("enapp", "disapp", "app")):
        nm = names_s[0] if att == "spawn" else names_a[0]
        for first in ([], ["P1"], ["P1", "P2"]):
            for second in (None, [], ["P1"], ["P2"]):
                ops = attempts(att) + [O(en, nm, first)] + attempts(att)
                if second is not None:
                    ops += [O(dis, nm, second)] + attempts(att)
                    ops += [O(en, nm, ["P2"])] + attempts(att)
                base(kind="perm", ops=ops, exposespawn=rng.random() < 0.5, exposeapp=rng.random() < 0.5)
    # forged parent: enabled for one peer only, the other one asks in its name (and the other way round)
    for only in ("P1", "P2"):
        for nm in names_s:
            base(kind="perm", ops=[O("enspawn", nm, [only])] + attempts("spawn") + [O("fspawn", nm, peer=p) for p in peers] + [O("disspawn", nm, [only])] + [O("fspawn", nm, peer=p) for p in peers],
                 exposespawn=rng.random() < 0.5, exposeapp=False)
    for spawnb, appb in ((False, True), (True, False), (False, False)):
        base(kind="perm", spawnb=spawnb, appb=appb, ops=[O("enspawn", "s1"), O("enapp", "a1")] + attempts("spawn") + attempts("app"), exposespawn=True, exposeapp=True)
    for _ in range(10 if tier == "quick" else 2500):
        ops = []
        for _ in range(rng.randint(4, 14)):
            r = rng.random()
            nodes = rng.choice([[], [], ["P1"], ["P2"], ["P1", "P2"]])
            if r < 0.2: ops.append(O("enspawn", rng.choice(names_s), nodes))
            elif r < 0.35: ops.append(O("disspawn", rng.choice(names_s), nodes))
            elif r < 0.5: ops.append(O("enapp", rng.choice(names_a), nodes))
            elif r < 0.65: ops.append(O("disapp", rng.choice(names_a), nodes))
            elif r < 0.77: ops.append(O("spawn", rng.choice(names_s), peer=rng.choice(peers)))
            elif r < 0.83: ops.append(O("fspawn", rng.choice(names_s), peer=rng.choice(peers)))
            else: ops.append(O("app", rng.choice(names_a), peer=rng.choice(peers)))
        ops += attempts("spawn") + attempts("app")
        base(kind="perm", ops=ops, spawnb=rng.random() < 0.85, appb=rng.random() < 0.85, exposespawn=rng.random() < 0.5, exposeapp=rng.random() < 0.5)
    return out


def model(w):
    st = tr = 0
    for name, invs, expect in (("auth", ["AcceptorAuth", "InitiatorAuth", "JoinAuth"], True), ("joinreplay", ["JoinNoReplay"], False)):
        mc = "MC_Handshake_" + name
        fam.write_mc(w, mc, "Handshake", {}, {"FixJoinNonce": "FALSE"}, invariants=invs, spec="Spec")
        r = vlib.run_tlc(w, mc + ".tla", mc + ".cfg", workers=8, timeout=900)
        viol = re.search(r'Invariant (\w+) is violated', r.out)
        if not viol and r.rc != 0:
            raise vlib.Infra("Handshake %s: TLC failed: %s" % (name, r.error or r.out[-600:]))
        if (viol is None) != expect:
            raise vlib.Infra("Handshake %s: %s, expected %s" % (name, "holds" if viol is None else "violated " + viol.group(1), "to hold" if expect else "a counterexample"))
        st += r.distinct; tr += r.generated
    return st, tr


def known_class(v):
    e = v["line"]
    if e["ev"] == "replay" and e["c"]["mode"] == "join" and v["clause"] in ("NoCookieNoEntry", "NoForgedDelivery"):
        return "P10c"
    return None


def main(prop, tier):
    t0 = time.time(); seed = vlib.seed(); rng = random.Random(seed)
    w = vlib.scratch("acc_")
    try:
        vh, _ = vlib.build_harness(w)
        vlib.stage_spec(w)
        mst, mtr = model(w)
        cs = cases(tier, rng)
        nshard = 10
        shards = [cs[i::nshard] for i in range(nshard)]
        import concurrent.futures as cf
        def run(i):
            inp = os.path.join(w, "acc_in_%d.json" % i); out = os.path.join(w, "acc_trace_%d.ndjson" % i)
            json.dump({"cases": shards[i]}, open(inp, "w"))
            rc, so, se, to = vlib.run_vh(vh, ["netaccess", "-in", inp, "-out", out], timeout=1800)
            return i, rc, so, se, to
        with cf.ThreadPoolExecutor(nshard) as ex:
            for i, rc, so, se, to in ex.map(run, range(nshard)):
                if rc != 0 or to:
                    if vlib.crashed_in_repo(se):
                        path = vlib.save_replay(prop, "acc_crash", {"clause": "NoCrash", "stderr": se[-4000:], "cases": shards[i]})
                        print("VIOLATION property=%s replay=%s" % (prop, path))
                        print("  clause NoCrash: a node crashed during the access cases of shard %d" % i)
                        vlib.write_evidence(prop, tier, "model_checking", {"states": 1, "transitions": 1, "traces_validated_against_impl": 0}, [], time.time() - t0, violations=1)
                        return 1
                    raise vlib.Infra("netaccess harness failed rc=%s: %s" % (rc, (se or so)[-1500:]))
        lines = []
        for i in range(nshard):
            p = os.path.join(w, "acc_trace_%d.ndjson" % i)
            if os.path.exists(p):
                lines += open(p).read().splitlines()
        open(os.path.join(w, "acc_trace.ndjson"), "w").write("\n".join(lines) + "\n")
        # vacuity guards: some attempts must have succeeded and some cookie cases must have connected
        oks = sum(1 for x in lines for o in json.loads(x)["c"]["ops"] if o["op"] in ("spawn", "app", "fspawn") and o["res"] == "ok")
        conns = sum(1 for x in lines if json.loads(x)["ev"] == "cookie" and json.loads(x)["dial"] == "ok")
        if oks == 0 or conns == 0:
            raise vlib.Infra("vacuous run: %d successful attempts, %d connected pairs" % (oks, conns))
        fam.write_mc(w, "MC_AccessT", "Access", {}, {"TraceFile": '"acc_trace.ndjson"', "Checks": fam.tla_set(CLAUSES)}, constraint="HWM", postcondition="TraceAccepted")
        r = vlib.run_tlc(w, "MC_AccessT.tla", "MC_AccessT.cfg", workers=1, timeout=1800)
        if re.search(r'TRACE_REJECTED_AT_LINE', r.out):
            raise vlib.Infra("Access.tla could not consume the trace: %s" % r.out[-800:])
        hits = [(m.group(1), int(m.group(2))) for m in re.finditer(r'"CLAUSE_VIOLATED", "(\w+)", "LINE", (\d+)', r.out)]
        if r.rc != 0 and not hits:
            raise vlib.Infra("Access validation failed: %s" % (r.error or r.out[-1500:]))
        known = {f["id"]: f for f in vlib.load_known()}
        violations = []; kf = {}
        for clause, line in hits:
            e = json.loads(lines[line - 1])
            v = {"clause": clause, "line": e}
            k = known_class(v)
            if k and k in known and known[k].get("status") == "open":
                kf.setdefault(k, []).append(v); continue
            violations.append(v)
        cov = {"states": max(r.distinct + mst, 1), "transitions": max(r.generated + mtr, 1), "traces_validated_against_impl": len(cs) - len(violations),
               "samples": [cs[0], cs[rng.randrange(len(cs))]], "cases": {k: sum(1 for c in cs if c["kind"] == k) for k in ("cookie", "replay", "perm")},
               "successful_attempts": oks, "connected_pairs": conns, "clauses": CLAUSES, "exhaustive": False,
               "design_model": {"Handshake AcceptorAuth/InitiatorAuth/JoinAuth": "hold", "Handshake JoinNoReplay": "violated (known finding P10c)"}}
        assumptions = ["symbolic model: SHA-256 is a perfect hash, salts do not repeat; 1 initiator, 2 acceptor sessions, 1 joiner, an intruder without the cookie",
                       "the replaying peer is a raw TCP client fed with the bytes the relay recorded from an honest node",
                       "permission model: an attempt may succeed only for a peer the history enabled and did not disable since (over-denial is not judged)"]
        vlib.write_evidence(prop, tier, "model_checking", cov, assumptions, time.time() - t0, violations=len(violations))
        for k, items in sorted(kf.items()):
            print("KNOWN-FINDING: property=%s %s %s (%d case(s))" % (prop, k, known[k]["line"].split(" ", 3)[-1][:220], len(items)))
        for v in violations[:12]:
            e = v["line"]
            path = vlib.save_replay(prop, "acc_%s_%s" % (e["p"], v["clause"]), v)
            print("VIOLATION property=%s replay=%s" % (prop, path))
            c = e["c"]
            if e["ev"] == "cookie":
                print("  clause %s: node cookies A=%r B=%r acceptor=%r route=%r -> dial %s, acceptor lists the dialer: %s; A holds %s, B is %s; B holds %s, A is %s" % (v["clause"], c["nodea"], c["nodeb"], c["acc"], c["route"], e["dial"], e["seenb"], e["aofb"], e["trueb"], e["bofa"], e["truea"]))
            elif e["ev"] == "replay":
                print("  clause %s: mode %s cut %s -> accepted=%s steps=%s listed=%s forged=%s honest=%s" % (v["clause"], c["mode"], c["cut"], e["accepted"], e["steps"], e["listed"], e["forged"], e["honest"]))
            else:
                print("  clause %s: flags spawn=%s app=%s expose spawn=%s app=%s; history %s" % (v["clause"], c["spawnb"], c["appb"], c["exposespawn"], c["exposeapp"], [(o["op"], o["name"], o["nodes"] or o["peer"], o["res"], o["env"]) for o in c["ops"]]))
        print("%s %s: %d cases (%s), %d validated against spec/Access.tla, %d violations, %.0fs" % (prop, tier, len(cs), cov["cases"], len(cs) - len(violations), len(violations), time.time() - t0))
        return 1 if violations else 0
    finally:
        if not os.environ.get("VERIF_KEEP"):
            shutil.rmtree(w, ignore_errors=True)


if __name__ == "__main__":
    try:
        sys.exit(main(sys.argv[1], sys.argv[2]))
    except vlib.Infra as e:
        print("INFRA: %s" % e)
        sys.exit(2)
