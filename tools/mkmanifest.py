#!/usr/bin/env python3
"""Writes /verif/MANIFEST.json from the table below (single source of truth for what is claimed)."""
import json, os, subprocess
HERE = os.path.dirname(os.path.dirname(os.path.abspath(__file__)))

PC_NOTE = ("Trusted: TLC; the controller (harness/vsched) serialises goroutines at lib.VerifPoint granularity, so data races below "
           "yield points are only sampled by the free-running mode; exhaustive only within the bounded scenarios of "
           "spec/scenarios/proccore.json; the gated act.Actor stands for all behaviours.")
PC_TECH = ("TLA+ spec ProcCore model-checked by TLC; edge-cover plans from TLC's state graph replayed on the real code under a "
           "controlling scheduler; recorded traces validated by TLC against ProcCore_Trace (conformance) and ProcObs (property clauses)")

CHECKS = {
    "C01": dict(level="model_checking", ref="DESIGN.md §4 C01, §9",
                text="Exhaustive TLC check of the process-core design (state word, mailbox push halves, run loop, Kill) for small scenarios; every "
                     "transition of the model's state graph is replayed on the real code under a controlling scheduler (sampled in the quick tier) and the recorded "
                     "executions, plus free-running parallel executions, are validated by TLC: at most one callback in progress at any instant. Meta-processes: TLA+ model "
                     "MetaCore (Start goroutine, handler goroutines, senders) model-checked both ways (invariants hold; the Terminate-overlap counterexample P15 and the "
                     "sleep-store mutation are found); one- and two-preemption scenarios park a goroutine of a real meta-process at each meta.* yield point or inside a "
                     "callback while Start returns, messages or an exit arrive; the callback log is validated by TLC against MetaObs (SerialHandlers, SerialTerm, AtMostOnce, NoLoss). The Start goroutine itself is also caught on its way "
                     "(the park is armed before the meta exists) while messages arrive and the handler of the first one is kept inside its callback; the model's switch "
                     "Mut_InitSleep (meta registered asleep) must be refuted by TLC. Scenarios K / L: two senders to one queue of a sleeping process by registered name and by alias.",
                note=PC_NOTE, tech=PC_TECH),
    "C02": dict(level="model_checking", ref="DESIGN.md §4 C02, §9",
                text="Same machinery as C01; clauses: no lost wake-up (nothing left in the mailbox of a sleeping process at quiescence), accepted = handled "
                     "exactly once, refused never handled, bounded mailboxes. Fallback and delayed sends: cases on a real node judged by TLC with the reference Box - a parked "
                     "receiver with a bounded mailbox (1-3, every class, pid / name / alias) and the fallback on / off / unknown / itself: the first cap messages are the "
                     "receiver's, every later one is handled exactly once by the fallback (wrapped with recipient and tag) or refused and handled by nobody; SendAfter with "
                     "cancellations placed around the firing time: a cancellation that reported success means never delivered, otherwise delivered exactly once.",
                note=PC_NOTE, tech=PC_TECH),
    "C03": dict(level="model_checking", ref="DESIGN.md §4 C03, §9",
                text="Same machinery as C01; clauses: per-sender FIFO within a class on every execution, and at every pick (atomic under the controller) the "
                     "handled message is the oldest visible message of the highest non-empty class, judged against the real queue contents. Order histories: sender processes use "
                     "the process API (by pid / name, one-shot and sticky priorities, failing sends), the node logs to the receiver, and the parked receiver also writes to itself "
                     "(own pid with a priority, own name); spec/MailboxOrder.tla judges the order in which everything is handled.",
                note=PC_NOTE, tech=PC_TECH),
    "C05": dict(level="model_checking", ref="DESIGN.md §4 C05, §9",
                text="Same machinery as C01 with termination causes as threads (handler error, panic, untrapped/parent/trapped exit, Kill, double Kill): terminate "
                     "runs once, after the last handler, with a reason that is one of the racing causes; a Kill that returned leaves the process dead. Meta-processes: the "
                     "MetaCore / MetaObs stage described under C01 with the clauses TermOnce, Final (no callback begins after Terminate began) and SerialTerm.",
                note=PC_NOTE, tech=PC_TECH),
}

RACE_NOTE = ("Trusted: TLC; the controller serialises goroutines at lib.VerifPoint granularity; every edge (not every path) of the bounded "
             "model's state graph is replayed; notification delivery is atomic with the drain step that caused it.")
CHECKS["C04"] = dict(level="model_checking", ref="DESIGN.md §4 C04, §9",
    text="TLA+ spec Relations (request = table check, add, re-check; termination = table delete, drain+notify) model-checked exhaustively for 2-3 "
         "consumers x {link, monitor} x {with/without removal} x target kinds {pid, name, alias, event} x {Kill, UnregisterName}; an edge cover of each state graph is "
         "replayed on a real node (real LinkX/MonitorX/UnlinkX calls inside consumer callbacks racing a real Kill/UnregisterName) and every recorded execution is "
         "validated by TLC: exactly one exit/down with the right target and reason for a relation that holds, none otherwise. Sequential relation "
         "histories (one consumer holding a link and a monitor, several targets, unlink / demonitor, then the fault; systematic and seeded random) are run on a real node and "
         "judged by TLC with the reference RelH: one notice per relation held, each of its own kind (alias targets also with owners that hold three aliases and delete another one than the watched one).",
    note=RACE_NOTE, tech="TLA+ spec Relations + TLC; edge-cover plans replayed under the controlling scheduler; traces validated by TLC (Relations_Trace: Core conformance with drift detection, clauses over observations)")

CHECKS["C06"] = dict(level="model_checking", ref="DESIGN.md §4 C06, §9",
    text="TLA+ spec Registry (RegisterName = lookup, flag CAS, table insert, name assignment, re-check; Kill = state swap, table delete, name cleanup) "
         "model-checked exhaustively for 2 processes x 2 names x 2-3 registrars x one Kill; an edge cover of each state graph is replayed on a real node and the "
         "recorded executions are validated by TLC: one winner per name and per process, at quiescence a name resolves (probe message) to nobody or to a live "
         "process that owns it - never to a terminated one. Identifier generators: the bit slicing of MakeRef is measured on the real node, its scaled design is "
         "checked by TLC (spec IdGen), and 600k-1.2M references, thousands of pids and aliases are checked for repetition on the real node. Sequential ownership "
         "histories (create / delete aliases at every position, register / unregister name and events, link / monitor / unlink, then kill / normal / abnormal exit; "
         "systematic and seeded random) are run on a real node and judged by TLC with the reference RegistryH: kept aliases intact, everything the process owned is "
         "released at termination and no relation mentions it any more; name and events are claimed again at the very moment the termination has been announced (the "
         "terminating goroutine is parked behind its exit / down signals: ClaimableOnNotice).",
    note=RACE_NOTE,
    tech="TLA+ specs Registry, IdGen + TLC; edge-cover plans replayed under the controlling scheduler; traces validated by TLC (Registry_Trace)")

CHECKS["C07"] = dict(level="model_checking", ref="DESIGN.md §4 C07, §9",
    text="TLA+ spec Call (fresh reference per call, buffered response channel, drop-and-retry on a foreign reference, timeouts, late / duplicate / third-party / "
         "misdirected replies) model-checked exhaustively for 1-2 callers x 2-4 calls; the variant with wrapping references must be refuted by TLC (non-vacuity). "
         "An edge cover of the state graphs is executed as histories on real callers and callees (timeouts scaled to 15 ms through a build-tag timer hook, replies sent "
         "by the callee or a third process exactly when the history says, every third one as an error reply) plus the reference wrap-around histories; TLC validates every recorded history: a call "
         "returns only the value produced for that very request, a request is presented once, a reply is consumed once.",
    note="Trusted: TLC; the harness orders replies (no controller needed: the property is about histories); Recv steps of the model are implicit in the code; "
         "channel capacity 10 in the code, 2-3 in the model; remote calls are covered by C12/C14.",
    tech="TLA+ spec Call + TLC; edge-cover histories executed on real processes; recorded histories validated by TLC (Call_Trace)")

SUP_NOTE = ("Trusted: TLC; the reference supervisor (spec/SupContract.tla) is written from the documentation; faults are injected while the real supervisor is "
            "held inside a callback, so the order of exit signals in its mailbox is the batch order; 3 children; restart counts are not compared.")
CHECKS["C08"] = dict(level="model_checking", ref="DESIGN.md §4 C08, §9",
    text="Every configuration (type x strategy x KeepOrder x significant child x auto-shutdown) is run on real act.Supervisor processes with gated children through "
         "enumerated fault histories: every child x every reason at quiescence, second faults, DisableChild/EnableChild, and every order of 2-3 overlapping deaths; "
         "DisableChild on a busy child followed by the death of a sibling; an exit signal to the supervisor itself while a child leaves with a reason of its own; "
         "simple-one-for-one supervisors (instances started with StartChild, faults on the k-th running instance, DisableChild / EnableChild / StartChild, compared by counts); "
         "TLC validates each recorded history against the sequential reference supervisor SupContract: running set, which children kept their process, start order, "
         "stop order under KeepOrder (as the supervisor saw it), fate and reason of the supervisor.",
    note=SUP_NOTE + " The three restart state machines are not transcribed transition by transition (planned); open findings P7a-d are matched by exact history.",
    tech="TLA+ reference specification SupContract evaluated by TLC over recorded histories of real supervisors (trace validation)")
CHECKS["C09"] = dict(level="model_checking", ref="DESIGN.md §4 C09, §9",
    text="TLA+ spec Intensity: the transcription of supCheckRestartIntensity equals the sliding-window definition for every timing pattern over I in 1..3, P in 1..2 "
         "(exhaustive TLC runs). The enumerated timing patterns (gaps 0, 1 ms, P*1000-1, P*1000, P*1000+1, 2P*1000 ms) are replayed on real one-for-one, all-for-one "
         "and rest-for-one supervisors under a virtual clock (lib.VerifNow) and TLC validates fate, reason and running set after every failure against SupContract.",
    note=SUP_NOTE + " Time is virtual through a build-tag clock hook inside supCheckRestartIntensity.",
    tech="TLA+ specs Intensity (exhaustive TLC) and SupContract (trace validation of real supervisors under a virtual clock)")

CHECKS["C20"] = dict(level="model_checking", ref="DESIGN.md §4 C20, §9",
    text="Semantics: crontab specifications enumerated from the grammar (item kinds x boundary days x late/early hours, the OR rule, L, dL, d#n, steps; plus seeded "
         "random lists) are added as jobs on a real node in UTC, Europe/Berlin, America/New_York (thorough: Australia/Lord_Howe, Asia/Kolkata, whole years) and what the "
         "real scheduler computes (JobSchedule) is validated per local day by TLC against the TLA+ calendar semantics spec/Cron.tla - 2*10^7 minute decisions in the "
         "quick tier, across both DST changes, 29 February, month and year ends; the complement grammar must be rejected by AddJob. Scheduler: spec/CronSched.tla "
         "(spool, next, tick, add/remove/enable/disable) model-checked exhaustively; hundreds of management-call histories are executed on the real cron and the spool "
         "and Next it reports after every call are validated by TLC against the model (thorough: across real minute boundaries, who fires).",
    note="Trusted: TLC; Go's time package (zone rules); specifications with <= 3 items per field; the timer itself is exercised only in the thorough tier (real minutes).",
    tech="TLA+ semantics Cron.tla as TLC-evaluated oracle over the real scheduler's output; TLA+ model CronSched.tla model-checked and bound by trace validation of management-call histories")

CHECKS["C19"] = dict(level="model_checking", ref="DESIGN.md §4 C19, §9",
    text="TLA+ model Pool of the dispatch ring (pop worker, forward, push back; replace a dead worker on the spot; skip full mailboxes; drop only when all are "
         "full; AddWorkers / RemoveWorkers; Kill) used as sequential oracle: systematic and seeded random operation histories (sends, requests, holding workers inside "
         "their handler so that bounded mailboxes fill, releases, kills, add/remove) are executed on a real act.Pool with gated workers, every operation followed by "
         "quiescence, and TLC replays each recorded line on the model: per worker what it handled, holds and has queued, who is alive (ring keeps its size), and "
         "which reply reached which caller. A worker can also be killed while it is kept inside its handler (zombie): the pool must treat it as dead at once. After AddWorkers the systematic histories fill every original worker so that the added ones must be reached.",
    note="Trusted: TLC; histories are sequential (quiescence after every operation), so concurrent dispatch races are outside this check; pool sizes 1-4, worker mailbox 0-3.",
    tech="TLA+ model Pool evaluated by TLC as oracle over recorded histories of a real pool (trace validation)")

CHECKS["C17"] = dict(level="model_checking", ref="DESIGN.md §4 C17, §9",
    text="TLA+ model App of ApplicationStart / Stop / StopForce and member termination at atomic-step granularity (state word, the group's RW lock, the stop channel): TLC "
         "refutes the three former designs (Kill inside Range: self-deadlock; a stop request during the start: live members under a stopped application; a member gone before it "
         "is registered: a ghost in the group) and the repaired design holds for every mode x force x failing start. TLA+ sequential reference AppContract (dependencies first, members in order, Start once, failed start leaves nothing running, mode rule Permanent / "
         "Transient / Temporary, Terminate once with the causing reason, back to loaded, stop reports success only when everything is down) used as oracle: systematic "
         "histories (every mode x 1-3 members x every member x every reason, a second member leaving its handler with its own reason while the application is already stopping, explicit start modes, failing k-th member, dependencies, stop / stop-force / unload / "
         "restart, unload attempted while a parked member keeps a stop in progress, start attempted while the dependency is on its way down, a member killed between its spawn and its registration, a stop request while the start is between two members, "
         "two overlapping terminations of one run - placed with the app.store / app.term.* yield points) and seeded random ones are executed on a real node in a subprocess (a call that never returns is an observation) and TLC replays every recorded line.",
    note="Trusted: TLC; apart from the three placed races the operations are sequential (quiescence after each); the App model is bound to the code through those placed races, not by "
         "replaying every edge of its state graph; 1-4 members, one dependency.",
    tech="TLA+ model App model-checked by TLC (former designs refuted); TLA+ reference AppContract evaluated by TLC as oracle over recorded histories of a real node (trace validation)")

CHECKS["C18"] = dict(level="model_checking", ref="DESIGN.md §4 C18, §9",
    text="TLA+ sequential reference Events (token rule, last-N buffer, delivery once and in order to every current subscriber, exit/down on unregister or "
         "termination of the owner, start/stop notices) used as oracle: systematic histories for buffers 0-3 x notify on/off and hundreds of seeded random ones "
         "(2 producers, 3 consumers, 2 events; register, publish with and without the token, link/monitor subscribe, unsubscribe, unregister, kill of a producer) are "
         "executed on a real node and TLC replays every recorded line, comparing results, the buffer returned to a new subscriber, the payload sequence at every "
         "subscriber, notifications and notices. Subscribers on another node: a producer on one real node publishes numbered messages before and after 1-4 processes "
         "of a second node (behind the segmenting relay) subscribe by link / monitor; spec/Net.tla judges the buffer handed over (the last N, in order), every later "
         "publication exactly once and in order with an equal payload, and one exit / down notice when the event is unregistered or its producer is killed.",
    note="Trusted: TLC; operations are sequential (quiescence after each): the publish-versus-subscribe window is not placed (the only anomaly the code admits there "
         "is a message that is both in the returned buffer and delivered, DESIGN Appendix I). Open known finding P28 (the end-of-event frame can overtake the last "
         "publications on their way to a remote subscriber).",
    tech="TLA+ reference Events evaluated by TLC as oracle over recorded histories of a real node (trace validation)")

CHECKS["C12"] = dict(level="model_checking", ref="DESIGN.md §4 C12, §9",
    text="TLA+ oracle Net (expected outcome of every send: placed exactly once at the addressee with the true sender and an equal payload; nowhere when the "
         "target is unknown or its mailbox full; refused at the sender beyond the peer's limit; important sends/requests report 'ok' exactly when placed, else "
         "the remote reason; replies equal) evaluated by TLC over histories recorded on two real nodes connected through a relay that carries every pooled TCP "
         "link, cuts the byte stream into segments of 1..4096 bytes and delays links: systematic cases (pid/name/alias x plain/important x send/request x "
         "none/gzip/zlib/lzw x sizes around buffer and 64 KiB boundaries x peer limit) and seeded random cases with two concurrent senders.",
    note="Trusted: TLC, the relay. Compressed payloads within a factor two of the peer's limit may be refused or delivered (compressed size is not modelled). Events "
         "and remote spawn payloads are not part of the cases; the receive-queue lock/unlock kernel is exercised only by free-running traffic, not by controlled schedules.",
    tech="TLA+ oracle Net evaluated by TLC over recorded delivery histories of two real nodes behind a segmenting relay (trace validation)")

CHECKS["C13"] = dict(level="model_checking", ref="DESIGN.md §4 C13, §9",
    text="TLA+ model NetOrder of the path of one pair's messages (order byte -> pooled link, per-link FIFO with arbitrary relative delay, receive queue by the "
         "receiver's residue, one worker per queue, Join/remove of links) is model-checked exhaustively for small constants: PairFifo holds for non-zero residues "
         "on a stable pool and TLC produces the counterexamples for residue 0 and for a changing pool. The same configurations are driven on two real nodes "
         "through the delaying relay (streams of 50-1500 numbered messages per pair, several pairs at once, pool sizes 1-6, link-0 / rotating delays, links "
         "joining during the stream (the harness starts a stream only when both ends have joined the announced number of links: yield point pool.join), receivers whose id residue is a multiple of the number of receive queues, one link cut and traffic continuing after it was re-dialled, compressed and > 64 KiB messages interleaved with small ones); spec/Net.tla judges every recorded arrival sequence (increasing, no duplicate, complete when nothing was cut).",
    note="Trusted: TLC, the relay. The two model counterexamples are genuine defects of the code (known findings P11a, P11b, reproduced on the real nodes by every run); "
         "a reordering in any other configuration is a violation. Re-dial of a cut link is exercised but the window between loss and re-dial is not controlled.",
    tech="TLA+ model NetOrder model-checked by TLC; recorded per-pair arrival sequences of two real nodes behind a delaying relay validated by TLC against spec/Net.tla")

CHECKS["C14"] = dict(level="model_checking", ref="DESIGN.md §4 C14, §9",
    text="TLA+ model RemoteRel of one remote link/monitor exchange (relation registered before or after the request, reply and termination notice travelling "
         "unordered, connection loss cleaning the table, request timeout) is model-checked exhaustively: AtMostOne / ExactlyOneNotice / NoStaleRelation hold for the "
         "repaired design and TLC must find the counterexample for the former one. The behaviours of that model are driven on two real nodes behind the relay: "
         "link and monitor on pid / name / alias / event / node x fault (connection cut, node stopped forcefully or gracefully, target terminated with normal / kill / "
         "custom reason, name / alias / event unregistered) x moment (relation established; request inside the relay; reply inside the relay) x 1-3 observers x pool "
         "1-4, a request in flight, the requester descheduled at the req.wait yield point, and identifiers of an earlier incarnation used after a restart of either "
         "node (send, important send, request, link, monitor, alias, exit, reply to an old request). spec/NetDown.tla judges every recorded case: exactly one notice "
         "of the right kind and reason per holder, at most one for a refused request, nothing hangs beyond its timeout, stale identifiers are refused and reach nobody.",
    note="Trusted: TLC, the relay. A stopping node may report the termination reason of its processes instead of 'no connection' (both accepted). Open known finding "
         "P22e: remote event subscriptions still register after the reply. Proxy connections are not covered.",
    tech="TLA+ model RemoteRel model-checked by TLC; fault cases recorded on two real nodes behind a holding relay validated by TLC against spec/NetDown.tla")

CHECKS["C15"] = dict(level="model_checking", ref="DESIGN.md §4 C15, §9",
    text="TLA+ symbolic model Handshake (Start / Accept / Join message by message, fresh salts, digests over the cookie, an intruder that records, replays and "
         "forges but does not know the cookie) is model-checked: AcceptorAuth, InitiatorAuth, JoinAuth hold; the Join replay is the counterexample TLC must find "
         "(known finding P10c). Conformance on real nodes, judged by TLC with spec/Access.tla: (a) cookie matrix node x acceptor x route cookie on real pairs - "
         "connected iff the effective cookies are equal - and agreement of both ends on name, incarnation, flags and size limit; (b) a raw TCP peer replays the "
         "bytes the relay recorded from an honest node (whole Start side, cut after 1-3 messages, the Join of a pooled link), sends garbage and truncated messages: it "
         "never passes the step that needs the cookie, nothing it sends reaches a process, honest nodes still connect; (c) Enable/Disable Spawn/ApplicationStart "
         "histories (systematic and seeded random) with two real peers: an attempt - also a forged one, in which a peer names the other peer as the parent of the process to be spawned - succeeds only for the connected peer the history enabled and did not disable, only if the "
         "acceptor's flags allow it, and the requester's environment is visible only with exposure on.",
    note="Trusted: TLC; SHA-256 as perfect hash. Over-denial (a peer enabled by the history but refused) is not judged. TLS fingerprints and proxy routes are not covered.",
    tech="TLA+ symbolic model Handshake model-checked by TLC; cookie / replay / permission cases recorded on real nodes validated by TLC against spec/Access.tla")

CHECKS["C10"] = dict(level="fault_enumeration", ref="DESIGN.md §4 C10, §9",
    text="TLA+ model TreeModel of an ownership tree (processes starting / running / dead, faults deferred while a child is being started, restarts, failing "
         "Init, the exit cascade) is model-checked: NoOrphanQ holds for the repaired design and TLC must find the orphan left by a failed Init in the former one. "
         "Fault enumeration on real trees (application -> supervisors of every type and strategy -> pools, simple-one-for-one children, workers, trapping processes outside any supervisor; 4-6 shapes): every "
         "process x kill / exit / crash / panic; a fault on any process while another one is inside its Init during a restart or during start-up, or inside "
         "Terminate during a shutdown (gates in the tree's behaviours); failing Init at start-up and during a restart; 2-3 faults in a row; application stop and "
         "node stop, also right after faults. spec/Tree.tla judges the state recorded at quiescence: nothing alive whose owner is gone, stop calls return, return "
         "only when everything below is gone, node stop ran every Terminate.",
    note="Trusted: TLC. Fault points are the yield points of the tree's own behaviours (Init, Terminate, between operations), not arbitrary points inside framework "
         "code. Open known findings P24 / P24b: pools and abnormally terminated owners take their children down asynchronously, so a stop call can return first.",
    tech="TLA+ model TreeModel model-checked by TLC; fault scripts executed on real supervision trees, end states validated by TLC against spec/Tree.tla")

CHECKS["C16"] = dict(level="exploration", ref="DESIGN.md §4 C16, §9",
    text="TLA+ model Frame of the frame reader (bytes arrive in arbitrary segments; the length field may lie in either direction, be below the header size or beyond the "
         "limit) is model-checked exhaustively for small streams: FramesPreserved / AllDelivered / OverLimitCloses / NoCrash hold for the repaired reader and TLC must "
         "find the crash of the former one. An explicit mutation grammar is then driven against the real code and every observation is judged by TLC with "
         "spec/Hostile.tla: (a) after a genuine handshake a mutated frame (8 honest frame kinds x length field values, magic, version, 29 type bytes, truncation at every "
         "offset 8-59, body byte flips, compressed-envelope size / method, random frames, with and without a size limit) is injected into the live connection; the "
         "attacked node must not die, a request between two local processes and one over an unrelated connection must still be served, in bounded time and live-heap "
         "growth, and after a complete well-framed injection the attacked connection itself either still carries honest messages or is closed (QueueNotStuck); (a') the handshake messages of an honest pair are rewritten on the path in both directions (a flipped byte at any offset, a cut, an entry of the error cache "
         "turned into the nil error - the digests cover salt and cookie only): the nodes go on serving; (b) the real decoder is fed with mutated encodings of a 20-value corpus (truncation, 0xff / 0x00 at every offset, type tags, duplicated tails): value or "
         "error, no panic, no hang, allocation bounded by 64 x input + 8 MiB, and a decoded value re-encodes to bytes that decode to an equal value.",
    note="Trusted: TLC. 'All byte strings' is not enumerable: coverage is the mutation grammar (plus seeded random frames); the handshake reader is attacked in C15's "
         "replay / garbage / truncation cases. Open known finding P12b (declared unpacked size is allocated up front).",
    tech="TLA+ model Frame model-checked by TLC; mutated frames injected into a live connection and mutated encodings fed to the real decoder, observations validated by TLC against spec/Hostile.tla")

CHECKS["C11"] = dict(level="exploration", ref="DESIGN.md §4 C11, §9",
    text="TLA+ model codec EDF of the wire format (folded type descriptors for unnamed composites, names or 3-byte cache ids for registered types, ids that share a "
         "field with lengths - atom id > 255, type id > 4095, error id > 32767, 65535 = nil error -, nil markers, counts) over an abstract value grammar with boundary "
         "classes; TLC checks the round-trip law and the exact set of refused values on the model for every case of a bounded universe x 5 cache configurations "
         "(quick 2.7*10^5 states, thorough 3.7*10^6) and must find the counterexamples of the former string decoder (2 + l in 16 bits) and of the former error decoder "
         "(text used as a format string). TLC writes the universe out; the harness builds every case as a real Go value (the 26 registered types of the specification "
         "are derived by reflection from the harness's Go types), runs the real edf.Encode / edf.Decode under cache configurations built the way net/handshake builds "
         "them, and spec/EDF_Trace.tla judges every observation: what the encoder accepts decodes to an equal value of the same type leaving no byte, also with "
         "foreign bytes behind it and with warm caches, and a value without an encoding is refused. Every case also travels from one real node to a process of another "
         "one (caches negotiated by the real handshake), inside an envelope and as the message itself, and what the process received is judged the same way. Seeded random cases nested to depth 4 are added (and checked "
         "on the model too). The byte length of every real encoding is compared with the model's (reported as drift, not judged).",
    note="Trusted: TLC. The value space is not enumerable: coverage is the grammar (boundary lengths 0/1/255/256, 65533..65536, 32767/32768, buffer growth points, extreme "
         "numbers, NaN, signed zero, nil vs empty at every level, every registered shape, cached and uncached atoms / types / errors). Content of long strings is a fixed "
         "pattern per fill class. Equality is lenient where Go's is not defined (NaN, time zones by offset, errors by text or identity). The wire stage uses one connection with a pool of one link and no compression "
         "(segmentation, pools and compression are C12 / C13).",
    tech="TLA+ model codec EDF model-checked by TLC over a bounded universe; the TLC-enumerated universe replayed into the real encoder / decoder, observations validated by TLC against spec/EDF_Trace.tla")

NOT_YET = {
}


def main():
    props = [json.loads(l) for l in open(os.path.join(HERE, "properties.jsonl"))]
    commits = subprocess.run(["git", "-C", "/repo", "log", "--format=%H %s"], stdout=subprocess.PIPE, text=True).stdout.splitlines()
    hook_commits = [c.split()[0] for c in commits if c.split(" ", 1)[1].startswith("verif:")]
    m = {
        "version": 1,
        "setup_cmd": "./setup.sh",
        "hooks": {
            "guard": "verif",
            "enable": "go build -tags verif (the harness module /verif/harness replaces ergo.services/ergo with /repo and is always built with -tags verif)",
            "baseline_off_cmd": "cd /repo && go test -json -vet=off -count=1 -timeout 25m ./...",
            "source_commits": hook_commits,
            "add_only": True,
        },
        "engines": [
            {"name": "tlc", "path": "tools/vlib.py", "serves_properties": sorted(CHECKS),
             "kind_free_text": "TLC 1.8 model checking, state-graph dump for plan generation, trace validation (ndjson via the Json module)"},
            {"name": "vh", "path": "harness/cmd/vh", "serves_properties": sorted(CHECKS),
             "kind_free_text": "Go conformance harness: cooperative scheduler over real goroutines (lib.VerifPoint), gated behaviours, recorders"},
        ],
        "checks": [],
        "not_applicable": [],
        "notes": "See DESIGN.md. ./check <id> <tier>; exit 0 held, 1 VIOLATION, 2 infrastructure trouble. Known findings: known_findings.json.",
    }
    for p in props:
        pid = p["id"]
        if pid in CHECKS:
            c = CHECKS[pid]
            m["checks"].append({
                "property_id": pid,
                "quick_cmd": "./check %s quick" % pid,
                "thorough_cmd": "./check %s thorough" % pid,
                "evidence_file": "evidence/%s.json" % pid,
                "replay_cmd_template": "./check %s --replay {path}" % pid,
                "engine": "tlc+vh",
                "level_claimed": {"category": c["level"], "text": c["text"], "design_ref": c["ref"]},
                "level_note": c["note"],
                "technique": c["tech"],
            })
        else:
            m["not_applicable"].append({"property_id": pid, "reason": NOT_YET.get(pid, "not claimed yet: the specification module and its conformance binding for this property are still being built (see DESIGN.md §8)")})
    json.dump(m, open(os.path.join(HERE, "MANIFEST.json"), "w"), indent=1)
    print("MANIFEST.json: %d checks, %d not_applicable" % (len(m["checks"]), len(m["not_applicable"])))


if __name__ == "__main__":
    main()
