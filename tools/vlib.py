"""Shared helpers for the /verif checks: TLC runner, dot-graph parser, edge cover, evidence, verdicts."""
import json, os, re, shutil, subprocess, sys, tempfile, time, random, collections

VERIF = os.path.dirname(os.path.dirname(os.path.abspath(__file__)))
SPEC = os.path.join(VERIF, "spec")
HARNESS = os.path.join(VERIF, "harness")
REPO = os.environ.get("VERIF_REPO", "/repo")

GOENV = dict(os.environ, GOFLAGS="-mod=mod", GOPROXY="off", GOSUMDB="off", GOTOOLCHAIN="local")


class Infra(Exception):
    """infrastructure trouble: exit 2, never a violation"""


def scratch(prefix="vf."):
    base = os.environ.get("VERIF_SCRATCH", "/var/tmp")
    os.makedirs(base, exist_ok=True)
    return tempfile.mkdtemp(prefix=prefix, dir=base)


def seed():
    try:
        return int(os.environ.get("VERIF_SEED", "1"))
    except ValueError:
        return 1


def log(*a):
    print(*a, flush=True)


# ---------------------------------------------------------------- Go harness

def build_harness(dst_dir):
    """builds cmd/vh from /repo's working tree with -tags verif; returns path of the binary"""
    out = os.path.join(dst_dir, "vh")
    t0 = time.time()
    extra = []
    if REPO != "/repo":
        # seed testing only: build against another checkout (VERIF_REPO) without touching /repo
        mod = open(os.path.join(HARNESS, "go.mod")).read().replace("=> /repo", "=> " + REPO)
        open(os.path.join(dst_dir, "alt.mod"), "w").write(mod)
        shutil.copy(os.path.join(HARNESS, "go.sum"), os.path.join(dst_dir, "alt.sum"))
        extra = ["-modfile", os.path.join(dst_dir, "alt.mod")]
    p = subprocess.run(["go", "build", "-tags", "verif"] + extra + ["-o", out, "./cmd/vh"], cwd=HARNESS, env=GOENV,
                       stdout=subprocess.PIPE, stderr=subprocess.STDOUT, text=True)
    if p.returncode != 0:
        raise Infra("harness build failed:\n" + p.stdout[-4000:])
    return out, time.time() - t0


def run_vh(vh, args, timeout=600, cwd=None):
    """runs the harness binary in a subprocess; returns (rc, stdout, stderr, timed_out)"""
    try:
        p = subprocess.run([vh] + args, stdout=subprocess.PIPE, stderr=subprocess.PIPE, text=True, timeout=timeout, cwd=cwd)
        return p.returncode, p.stdout, p.stderr, False
    except subprocess.TimeoutExpired as e:
        return -9, (e.stdout or b"").decode() if isinstance(e.stdout, bytes) else (e.stdout or ""), \
               (e.stderr or b"").decode() if isinstance(e.stderr, bytes) else (e.stderr or ""), True


def crashed_in_repo(stderr):
    """True if the harness process died of a Go panic / fatal error whose innermost non-runtime frame is code of the repository under test"""
    if not stderr or not re.search(r'^(panic:|fatal error:)', stderr, re.M):
        return False
    # first goroutine block after the panic line
    # (a fatal error prints "goroutine 1 gp=0x... m=0 mp=0x... [running]:")
    m = re.search(r'^goroutine \d+[^\[\n]*\[[^\]]*\]:\n((?:.+\n?)*)', stderr, re.M)
    if not m:
        return False
    files = re.findall(r'^\t(\S+\.go):\d+', m.group(1), re.M)
    for f in files:
        if "/go/src/" in f or "/golang" in f or f.startswith("runtime/") or "/usr/" in f:
            continue           # runtime / standard library frames
        return f.startswith(REPO + "/")
    return False


# ---------------------------------------------------------------- TLC

TLC_JAR = "/opt/veriftools/tla/tla2tools.jar"


def tlc_classpath():
    # the `tlc` wrapper on PATH knows the classpath incl. CommunityModules; reuse it
    return None


class TlcResult:
    def __init__(self):
        self.rc = None; self.out = ""; self.generated = 0; self.distinct = 0; self.depth = 0
        self.violated = None      # name of violated invariant / property
        self.error = None         # other error text
        self.timeout = False
        self.wall = 0.0
        self.coverage_zero = []

    def ok(self):
        return self.rc == 0 and self.violated is None and self.error is None and not self.timeout


def run_tlc(workdir, module, cfg, workers=4, timeout=300, extra=None, heap=None, deque=False, env_extra=None):
    """runs TLC in workdir (which must contain the module, cfg and everything they extend)."""
    r = TlcResult()
    meta = os.path.join(workdir, "meta_" + os.path.splitext(cfg)[0])
    cmd = ["tlc", "-workers", str(workers), "-metadir", meta, "-config", cfg] + (extra or []) + [module]
    env = dict(os.environ)
    jopts = []
    if deque:
        jopts.append("-Dtlc2.tool.queue.IStateQueue=StateDeque")
    if heap:
        jopts.append("-Xmx" + heap)
    jopts.append("-Xss64m")
    # TLC unpacks its standard modules into java.io.tmpdir on every run: keep that inside the scratch directory of the check
    jtmp = os.path.join(workdir, "jtmp")
    os.makedirs(jtmp, exist_ok=True)
    jopts.append("-Djava.io.tmpdir=" + jtmp)
    if jopts:
        env["JAVA_TOOL_OPTIONS"] = " ".join(jopts)
    if env_extra:
        env.update(env_extra)
    t0 = time.time()
    try:
        p = subprocess.run(cmd, cwd=workdir, env=env, stdout=subprocess.PIPE, stderr=subprocess.STDOUT, text=True, timeout=timeout)
        r.rc = p.returncode; r.out = p.stdout
    except subprocess.TimeoutExpired as e:
        r.timeout = True
        r.out = e.stdout.decode() if isinstance(e.stdout, bytes) else (e.stdout or "")
        subprocess.run(["pkill", "-f", meta], stdout=subprocess.DEVNULL, stderr=subprocess.DEVNULL)
    r.wall = time.time() - t0
    shutil.rmtree(meta, ignore_errors=True)
    m = re.findall(r"(\d+) states generated, (\d+) distinct states found", r.out)
    if m:
        r.generated, r.distinct = int(m[-1][0]), int(m[-1][1])
    m = re.search(r"depth of the complete state graph search is (\d+)", r.out)
    if m:
        r.depth = int(m.group(1))
    m = re.search(r"Error: Invariant (\S+) is violated", r.out)
    if m:
        r.violated = m.group(1)
    m2 = re.search(r"Error: Action property (\S+) is violated|Error: Temporal properties were violated", r.out)
    if m2 and not r.violated:
        r.violated = m2.group(1) or "temporal"
    if r.violated is None and re.search(r"^Error:", r.out, re.M):
        em = re.search(r"^Error:.*(?:\n.*){0,6}", r.out, re.M)
        r.error = em.group(0) if em else "error"
    return r


def stage_spec(workdir, names=None):
    """copies spec/*.tla and spec/mc/* into workdir"""
    for d in (SPEC, os.path.join(SPEC, "mc")):
        if not os.path.isdir(d):
            continue
        for f in os.listdir(d):
            if f.endswith((".tla", ".cfg")):
                shutil.copy(os.path.join(d, f), os.path.join(workdir, f))


# ---------------------------------------------------------------- graph dump / edge cover

EDGE_RE = re.compile(r'^(-?\d+) -> (-?\d+) \[label="((?:[^"\\]|\\.)*)"')
INIT_RE = re.compile(r'^(-?\d+) \[label=.*style = filled\]')
NODE_RE = re.compile(r'^(-?\d+) \[label="((?:[^"\\]|\\.)*)"')


def split_args(text):
    """splits TLA+ action arguments on top-level commas (tuples, sets, records stay whole)"""
    out = []; depth = 0; cur = ""; i = 0
    while i < len(text):
        two = text[i:i + 2]
        if two in ("<<", "(.", ):
            depth += 1; cur += two; i += 2; continue
        if two in (">>", ".)"):
            depth -= 1; cur += two; i += 2; continue
        ch = text[i]
        if ch in "[{(":
            depth += 1
        elif ch in "]})":
            depth -= 1
        if ch == "," and depth == 0:
            out.append(cur); cur = ""
        else:
            cur += ch
        i += 1
    if cur.strip():
        out.append(cur)
    return out


def parse_dot(path, want_nodes=False):
    """returns (init_nodes, edges{src: [(dst, action, args)]}, nodes{id: label} if want_nodes)"""
    inits = []; edges = collections.defaultdict(list); nodes = {}
    with open(path, errors="replace") as f:
        for line in f:
            m = EDGE_RE.match(line)
            if m:
                lab = m.group(3).replace('\\"', '"')
                am = re.match(r'(\w+)(?:\((.*)\))?$', lab)
                act = am.group(1) if am else lab
                args = []
                if am and am.group(2):
                    args = [a.strip().strip('"') for a in split_args(am.group(2))]
                edges[m.group(1)].append((m.group(2), act, tuple(args)))
                continue
            if "style = filled" in line:
                m = NODE_RE.match(line)
                if m:
                    inits.append(m.group(1))
            if want_nodes:
                m = NODE_RE.match(line)
                if m and m.group(1) not in nodes:
                    nodes[m.group(1)] = m.group(2)
    return inits, edges, nodes


def edge_cover(inits, edges, maxlen=60, rng=None, limit_paths=None, with_nodes=False):
    """greedy set of init-rooted paths that covers every edge; returns list of [(action, args)], and stats"""
    rng = rng or random.Random(1)
    # BFS tree for shortest paths from the init nodes
    parent = {}
    dq = collections.deque()
    for i in inits:
        parent[i] = None; dq.append(i)
    while dq:
        u = dq.popleft()
        for k, (v, a, args) in enumerate(edges.get(u, ())):
            if v not in parent:
                parent[v] = (u, k); dq.append(v)

    def path_to(u):
        p = []
        while parent[u] is not None:
            pu, k = parent[u]
            p.append((pu, k)); u = pu
        p.reverse(); return p

    uncovered = {}
    for u, lst in edges.items():
        if u in parent:
            uncovered[u] = set(range(len(lst)))
    total = sum(len(s) for s in uncovered.values())
    order = [u for u in parent if u in uncovered]
    paths = []
    covered = 0
    for u0 in order:
        while uncovered.get(u0):
            pe = path_to(u0)
            u = u0
            steps = list(pe)
            while len(steps) < maxlen:
                unc = uncovered.get(u)
                if unc:
                    k = min(unc)
                else:
                    break
                steps.append((u, k))
                u = edges[u][k][0]
            for (x, k) in steps:
                s = uncovered.get(x)
                if s and k in s:
                    s.discard(k); covered += 1
            if with_nodes:
                paths.append([(edges[x][k][1], edges[x][k][2], edges[x][k][0]) for (x, k) in steps])
            else:
                paths.append([(edges[x][k][1], edges[x][k][2]) for (x, k) in steps])
            if limit_paths and len(paths) >= limit_paths:
                return paths, {"edges": total, "covered": covered, "nodes": len(parent)}
    return paths, {"edges": total, "covered": covered, "nodes": len(parent)}


# ---------------------------------------------------------------- evidence / verdicts

def write_evidence(pid, tier, level, coverage, assumptions, wall, violations=0):
    ev = {"property_id": pid, "tier": tier, "seed": seed(), "level": level, "coverage": coverage,
          "assumptions": assumptions, "wall_s": round(wall, 2), "violations": violations}
    evd = os.path.join(VERIF, "evidence") if REPO == "/repo" else os.path.join("/var/tmp", "alt_evidence_" + re.sub(r'\W', '_', REPO))
    os.makedirs(evd, exist_ok=True)
    p = os.path.join(evd, pid + ".json")
    tmp = p + ".tmp%d" % os.getpid()
    with open(tmp, "w") as f:
        json.dump(ev, f, indent=1, sort_keys=False)
    os.replace(tmp, p)
    return p


def load_known():
    p = os.path.join(VERIF, "known_findings.json")
    if not os.path.exists(p):
        return []
    return json.load(open(p)).get("findings", [])


def save_replay(pid, name, obj):
    d = os.path.join(VERIF, "replays")
    os.makedirs(d, exist_ok=True)
    p = os.path.join(d, "%s_%s_%d.json" % (pid, name, seed()))
    with open(p, "w") as f:
        json.dump(obj, f, indent=1)
    return p
