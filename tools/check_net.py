"""Checks C12 (remote delivery integrity) and C13 (network FIFO between a pair of processes).

Design side: spec/NetOrder.tla is the transition model of the pooled links / receive queues; TLC decides in which
configurations PairFifo holds (non-zero id residues, stable pool) and in which the design itself gives it up
(residue 0 on either side, pool growing or shrinking).
Code side: two real nodes are connected through the harness relay (every pooled TCP link passes it; it re-segments the
byte stream and delays links relative to each other).  Generated cases (payload size x compression x addressing x
important/call x max-message-size x pool size x segmentation) and streams (sender/receiver id residues x pool size x
link delays x pool growth) are executed; spec/Net.tla judges every recorded history."""
import json, os, random, re, shutil, sys, time
sys.path.insert(0, os.path.dirname(os.path.abspath(__file__)))
import vlib, fam

C12_CLAUSES = ["ExactlyOnce", "Addressee", "TrueSender", "PayloadEqual", "ReplyEqual", "OversizeRefused", "ImportantTruthful", "SendResult"]
C13_CLAUSES = ["PairFifo", "StreamOnce", "AfterRedial"]

# configurations of the design model: (name, constants, PairFifo expected to hold)
ORDER_CFGS = [
    ("stable",   dict(N=4, SRes=1, RRes=1, Pool0=3, MaxPool=3, NQ=2, AllowJoin="FALSE", AllowDrop="FALSE"), True),
    ("stable2",  dict(N=4, SRes=2, RRes=3, Pool0=2, MaxPool=2, NQ=3, AllowJoin="FALSE", AllowDrop="FALSE"), True),
    ("sender0",  dict(N=3, SRes=0, RRes=1, Pool0=2, MaxPool=2, NQ=2, AllowJoin="FALSE", AllowDrop="FALSE"), False),
    ("recv0",    dict(N=3, SRes=1, RRes=0, Pool0=2, MaxPool=2, NQ=2, AllowJoin="FALSE", AllowDrop="FALSE"), False),
    ("join",     dict(N=3, SRes=1, RRes=1, Pool0=1, MaxPool=2, NQ=2, AllowJoin="TRUE", AllowDrop="FALSE"), False),
    ("drop",     dict(N=3, SRes=1, RRes=1, Pool0=3, MaxPool=3, NQ=2, AllowJoin="FALSE", AllowDrop="TRUE"), False),
]


def order_model(w, tier):
    """returns (states, transitions, {cfg: holds}) ; raises Infra if an outcome differs from what the design is known to do"""
    st = tr = 0; res = {}
    for name, consts, expect in ORDER_CFGS:
        c = dict(consts)
        if tier == "thorough" and expect:
            c["N"] = 5
        fam.write_mc(w, "MC_NetOrder_" + name, "NetOrder", {}, {k: str(v) for k, v in c.items()},
                     invariants=["PairFifo", "AtMostOnce", "NothingLost"], constraint="Bound", spec="Spec")
        r = vlib.run_tlc(w, "MC_NetOrder_%s.tla" % name, "MC_NetOrder_%s.cfg" % name, workers=8, timeout=900)
        viol = re.search(r'Invariant (\w+) is violated', r.out)
        if viol and viol.group(1) != "PairFifo":
            raise vlib.Infra("NetOrder %s: unexpected %s violated" % (name, viol.group(1)))
        if not viol and r.rc != 0:
            raise vlib.Infra("NetOrder %s: TLC failed: %s" % (name, r.error or r.out[-600:]))
        holds = viol is None
        if holds != expect:
            raise vlib.Infra("NetOrder %s: PairFifo %s in the model, expected %s" % (name, "holds" if holds else "violated", "holds" if expect else "violated"))
        st += r.distinct; tr += r.generated; res[name] = holds
    return st, tr, res


def mk_send(i, rng, **kw):
    d = {"id": "m%d" % i, "from": rng.choice(["S1", "S2"]), "to": "R1", "via": "pid", "size": 10, "comp": "", "important": False, "call": False, "expect": ""}
    d.update(kw)
    return d


SIZES = [0, 1, 63, 64, 65, 255, 256, 4000, 4063, 4064, 4090, 4096, 4097, 5000, 8191, 8192, 8193, 20000, 65535, 65536, 70000, 150000]


def c12_cases(tier, rng):
    cases = []; n = 0
    def add(sends, pool=3, maxsize=0, chunk=0, parallel=False):
        # every eighth case: the two nodes were started at different times (their incarnation stamps differ)
        cases.append({"id": len(cases) + 1, "pool": pool, "maxsize": maxsize, "chunk": chunk, "sends": sends, "streams": [], "delay": "", "growpool": False, "parallel": parallel,
                      "stagger": len(cases) % 8 == 3})
    def nid():
        nonlocal n
        n += 1; return n
    # systematic: every addressing mode x important x compression, small and beyond-one-buffer payloads
    for via in ("pid", "name", "alias"):
        for comp in ("", "gzip", "zlib", "lzw"):
            sends = []
            for size in (40, 5000):
                for imp in (False, True):
                    sends.append(mk_send(nid(), rng, via=via, comp=comp, size=size, important=imp))
                sends.append(mk_send(nid(), rng, via=via, comp=comp, size=size, call=True))
                sends.append(mk_send(nid(), rng, via=via, comp=comp, size=size, call=True, important=True))
            add(sends, chunk=rng.choice([0, 3, 7, 64, 1000]))
    # not placed: unknown target, full mailbox
    sends = []
    for via in ("pid", "name", "alias"):
        for imp in (False, True):
            sends.append(mk_send(nid(), rng, via=via, to="none", important=imp))
        sends.append(mk_send(nid(), rng, via=via, to="none", important=True, call=True))
    for via in ("pid", "name"):
        for imp in (False, True):
            sends.append(mk_send(nid(), rng, via=via, to="R2", important=imp))
        sends.append(mk_send(nid(), rng, via=via, to="R2", important=True, call=True))
    sends.append(mk_send(nid(), rng, size=100))
    add(sends)
    # size limit of the peer
    for maxsize in (1000, 6000):
        sends = []
        for size in (10, maxsize - 300, maxsize + 1, maxsize + 5000):
            for imp in (False, True):
                sends.append(mk_send(nid(), rng, size=size, important=imp, via=rng.choice(["pid", "name", "alias"])))
            sends.append(mk_send(nid(), rng, size=size, call=True))
        sends.append(mk_send(nid(), rng, size=maxsize * 3, comp="gzip", important=True))
        add(sends, maxsize=maxsize)
    # every payload size in the window around the peer's limit: each is either refused at the sender or delivered intact
    for maxsize in ((3000,) if tier == "quick" else (1500, 3000, 9000)):
        for via in (("pid",) if tier == "quick" else ("pid", "name", "alias")):
            sends = [mk_send(nid(), rng, size=sz, via=via, important=False) for sz in range(maxsize - 75, maxsize + 12, 1 if tier == "thorough" else 2)]
            add(sends, maxsize=maxsize, pool=1)
            sends = [mk_send(nid(), rng, size=sz, via=via, call=True) for sz in range(maxsize - 75, maxsize + 12, 3)]
            add(sends, maxsize=maxsize, pool=1)
    # boundary sizes, segmentations
    sizes = SIZES if tier == "thorough" else [0, 1, 64, 4064, 4096, 4097, 8192, 65536, 70000]
    for chunk in ((0, 1, 5, 33, 4096) if tier == "thorough" else (0, 5, 4096)):
        sends = []
        for size in sizes:
            if chunk == 1 and size > 9000:
                continue
            sends.append(mk_send(nid(), rng, size=size, important=rng.random() < 0.5, via=rng.choice(["pid", "name", "alias"])))
        add(sends, chunk=chunk, pool=rng.choice([1, 2, 3]))
    # random cases, two senders working concurrently
    for _ in range(40 if tier == "quick" else 1600):
        sends = []
        maxsize = rng.choice([0, 0, 0, 3000, 9000])
        for _ in range(rng.randint(4, 14)):
            size = rng.choice(SIZES[:-3] + [rng.randint(0, 9000)])
            comp = rng.choice(["", "", "gzip", "zlib", "lzw"])
            if maxsize and maxsize - 200 < size <= maxsize:
                size = maxsize - 300
            to = rng.choice(["R1", "R1", "R1", "R1", "none", "R2"])
            call = rng.random() < 0.25
            imp = rng.random() < 0.5
            if call and not imp and to != "R1":
                imp = True      # a plain request to nobody waits for its whole timeout
            via = rng.choice(["pid", "name", "alias"]) if to != "R2" else rng.choice(["pid", "name"])
            sends.append(mk_send(nid(), rng, size=size, comp=comp, to=to, call=call, important=imp, via=via))
        add(sends, pool=rng.choice([1, 2, 3, 5]), maxsize=maxsize, chunk=rng.choice([0, 0, 2, 9, 100, 1460]), parallel=rng.random() < 0.6)
    return cases


def c13_cases(tier, rng):
    cases = []
    def add(streams, pool=3, delay="", grow=False, chunk=0):
        cases.append({"id": len(cases) + 1, "pool": pool, "maxsize": 0, "chunk": chunk, "sends": [], "streams": streams, "delay": delay, "growpool": grow, "parallel": False,
                      "stagger": len(cases) % 8 == 5})
    def st(n, fromr, tor, via="pid", comp="", big=0):
        return {"from": "", "to": "", "n": n, "via": via, "fromr": fromr, "tor": tor, "comp": comp, "big": big}
    n = 400 if tier == "quick" else 1500
    rs = lambda: rng.randint(1, 254)
    for pool in (1, 2, 3):
        for delay in ("", "link0", "rotate"):
            add([st(n, rs(), rs()), st(n, rs(), rs(), "name"), st(n, rs(), rs())], pool=pool, delay=delay)
    # residues chosen to hit every link / queue of the pool
    for pool in (2, 3):
        add([st(n, pool * 7 + k, 30 + k) for k in range(pool)] , pool=pool, delay="rotate")
    # residues at the wrap points of the arithmetic: the receive queue is order mod (4 x pool), the link is order mod pool - a residue that is a
    # multiple of either must still have one queue / one link of its own (big messages between small ones make an overtaking visible)
    for pool in (1, 2, 3):
        q = 4 * pool
        add([st(n // 2, rs(), q, big=48000), st(n // 2, rs(), 2 * q, "name", big=48000), st(n // 2, pool, rs(), big=20000), st(n // 2, 2 * pool, q * 3, big=20000)], pool=pool, delay=rng.choice(["", "rotate"]))
    # compressed big messages between small plain ones (the envelope must keep the receiver's queue); residues that map to different queues
    for comp in ("gzip", "zlib", "lzw"):
        add([st(n // 4, 3, 8, comp=comp, big=rng.choice([3000, 20000, 200000])), st(n // 4, 17, 30, "name", comp=comp, big=5000)], pool=rng.choice([1, 3]), delay=rng.choice(["", "rotate"]))
    # the design's own exceptions (spec/NetOrder.tla: sender0, recv0, join)
    add([st(n, 0, rs()), st(n, rs(), rs())], pool=3, delay="rotate")
    add([st(n, rs(), 0), st(n, rs(), rs())], pool=3, delay="rotate")
    add([st(n, 5, rs()), st(n, 7, rs())], pool=3, delay="link0", grow=True)
    for pool in (2, 3):
        add([st(n, rs(), rs()), st(n, rs(), rs()), st(n, rs(), rs())], pool=pool, delay="cut")
    for _ in range(4 if tier == "quick" else 400):
        k = rng.randint(1, 4)
        sts = []
        for _ in range(k):
            big = rng.choice([0, 0, 4000, 60000])
            sts.append(st(rng.choice([50, n]) if big == 0 else rng.choice([30, 120]), rs(), rs(), rng.choice(["pid", "name"]), comp=rng.choice(["", "", "gzip", "lzw"]), big=big))
        # tiny segments only for small volumes (the relay writes segment by segment)
        chunk = rng.choice([0, 0, 0, 11, 500]) if all(x["big"] == 0 for x in sts) else rng.choice([0, 0, 1460])
        add(sts, pool=rng.choice([1, 2, 3, 4, 6]), delay=rng.choice(["", "link0", "rotate", "rotate"]), chunk=chunk)
    return cases


def known_class(e):
    """classification of a PairFifo violation by the configuration the design model already gives up on"""
    if e.get("fromr") == 0:
        return "P11a", "order byte 0 for a sender whose id is a multiple of 255: links are chosen round-robin (NetOrder cfg sender0)"
    if e.get("tor") == 0:
        return "P11a", "order byte 0 for a receiver whose id is a multiple of 255: receive queues are chosen round-robin (NetOrder cfg recv0)"
    if e.get("grow"):
        return "P11b", "link index = order mod len(pool) changes while pooled links join (NetOrder cfg join)"
    if e.get("lossy"):
        return "P11b", "link index changes when a pooled link is removed (NetOrder cfg drop)"
    return None, None


def main(prop, tier):
    t0 = time.time(); seed = vlib.seed(); rng = random.Random(seed)
    w = vlib.scratch("net_")
    try:
        vh, _ = vlib.build_harness(w)
        vlib.stage_spec(w)
        mst = mtr = 0; model = {}
        if prop == "C13":
            mst, mtr, model = order_model(w, tier)
        cases = c12_cases(tier, rng) if prop == "C12" else c13_cases(tier, rng)
        clauses = C12_CLAUSES if prop == "C12" else C13_CLAUSES
        byid = {c["id"]: c for c in cases}
        # shards run in parallel (each harness process starts its own pair of nodes per case)
        nshard = 8
        shards = [cases[i::nshard] for i in range(nshard)]
        import concurrent.futures as cf
        def run(i):
            if not shards[i]:
                return i, 0, '{"cases":0,"sends":0}', "", False
            inp = os.path.join(w, "net_in_%d.json" % i); out = os.path.join(w, "net_trace_%d.ndjson" % i)
            json.dump({"cases": shards[i]}, open(inp, "w"))
            rc, so, se, to = vlib.run_vh(vh, ["netdeliver", "-in", inp, "-out", out], timeout=3000)
            return i, rc, so, se, to
        nsends = 0
        with cf.ThreadPoolExecutor(nshard) as ex:
            for i, rc, so, se, to in ex.map(run, range(nshard)):
                if rc != 0 or to:
                    if vlib.crashed_in_repo(se):
                        path = vlib.save_replay(prop, "net_crash", {"clause": "NoCrash", "stderr": se[-4000:], "cases": shards[i]})
                        print("VIOLATION property=%s replay=%s" % (prop, path))
                        print("  clause NoCrash: the node crashed while handling the traffic of shard %d" % i)
                        vlib.write_evidence(prop, tier, "model_checking", {"states": 1, "transitions": 1, "traces_validated_against_impl": 0}, [], time.time() - t0, violations=1)
                        return 1
                    raise vlib.Infra("net harness failed rc=%s: %s" % (rc, (se or so)[-1500:]))
                nsends += json.loads(so.strip().splitlines()[-1])["sends"]
        lines = []
        for i in range(nshard):
            p = os.path.join(w, "net_trace_%d.ndjson" % i)
            if os.path.exists(p):
                lines += open(p).read().splitlines()
        open(os.path.join(w, "net_trace.ndjson"), "w").write("\n".join(lines) + "\n")
        fam.write_mc(w, "MC_NetT", "Net", {}, {"TraceFile": '"net_trace.ndjson"', "Checks": fam.tla_set(clauses)}, constraint="HWM", postcondition="TraceAccepted")
        r = vlib.run_tlc(w, "MC_NetT.tla", "MC_NetT.cfg", workers=1, timeout=3000)
        if re.search(r'TRACE_REJECTED_AT_LINE', r.out):
            raise vlib.Infra("Net.tla could not consume the trace: %s" % r.out[-800:])
        hits = [(m.group(1), int(m.group(2))) for m in re.finditer(r'"CLAUSE_VIOLATED", "(\w+)", "LINE", (\d+)', r.out)]
        if r.rc != 0 and not hits:
            raise vlib.Infra("Net validation failed: %s" % (r.error or r.out[-1500:]))
        known = {f["id"]: f for f in vlib.load_known()}
        violations = []; kf = {}
        for clause, line in hits:
            e = json.loads(lines[line - 1])
            clause, _, sid = clause.partition("__")
            if clause not in clauses:
                continue
            v = {"clause": clause, "case": byid[e["p"]], "line": e}
            if sid:
                v["send"] = [json.loads(x) for x in lines if json.loads(x)["p"] == e["p"] and json.loads(x)["ev"] == "send" and json.loads(x)["s"]["id"] == sid][0]
            if clause == "PairFifo":
                k, why = known_class(e)
                if k and k in known and known[k].get("status") == "open":
                    kf.setdefault(k, []).append((e, why)); continue
            if clause in ("ExactlyOnce", "ImportantTruthful", "SendResult", "OversizeRefused", "Addressee", "TrueSender", "PayloadEqual", "ReplyEqual"):
                v["execution"] = [json.loads(x) for x in lines if json.loads(x)["p"] == e["p"]][:40]
            violations.append(v)
        bad = {v["case"]["id"] for v in violations}
        validated = len(cases) - len(bad)
        nstream = sum(len(c["streams"]) for c in cases)
        cov = {"states": max(r.distinct + mst, 1), "transitions": max(r.generated + mtr, 1), "traces_validated_against_impl": validated,
               "samples": [cases[0], cases[rng.randrange(len(cases))]], "cases": len(cases), "sends": nsends, "streams": nstream,
               "clauses": clauses, "exhaustive": False}
        if model:
            cov["design_model"] = {k: ("PairFifo holds" if v else "PairFifo violated (documented exception)") for k, v in model.items()}
        assumptions = ["two real nodes in one OS process, connected over loopback TCP through the harness relay (all pooled links)",
                       "a case ends with quiescence of the receiving node; receivers have unbounded mailboxes except R2 (one slot, held)",
                       "compressed payloads within 200 bytes of the peer's limit may be refused or delivered (the compressed size is not modelled)"]
        vlib.write_evidence(prop, tier, "model_checking", cov, assumptions, time.time() - t0, violations=len(violations))
        for k, items in sorted(kf.items()):
            print("KNOWN-FINDING: property=%s %s %s (%d stream(s) out of order, e.g. fromr=%s tor=%s pool=%s delay=%s)" % (prop, k, items[0][1], len(items), items[0][0].get("fromr"), items[0][0].get("tor"), items[0][0].get("pool"), items[0][0].get("delay")))
        for v in violations[:10]:
            path = vlib.save_replay(prop, "net_c%d_%s" % (v["case"]["id"], v["clause"]), v)
            print("VIOLATION property=%s replay=%s" % (prop, path))
            if "send" in v:
                x = v["send"]; it = [i for i in v["line"]["items"] if i["id"] == x["s"]["id"]]
                print("  clause %s: send %s result=%s reply=%s; received %d time(s): %s" % (v["clause"], json.dumps(x["s"]), x["res"], x["reply"][:20], len(it), json.dumps(it)[:300]))
            else:
                e = v["line"]
                if e.get("ev") == "stream":
                    seq = e.get("seq", [])
                    breaks = [(seq[i], seq[i + 1]) for i in range(len(seq) - 1) if seq[i + 1] != seq[i] + 1]
                    dups = len(seq) - len(set(seq))
                    print("  clause %s: case %s pool %s delay %s pair %s (sender residue %s -> receiver residue %s): %d of %d messages arrived, %d twice, %d send errors, lossy=%s; order breaks at %s" % (
                        v["clause"], e.get("p"), e.get("pool"), e.get("delay"), e.get("pair"), e.get("fromr"), e.get("tor"), len(set(seq)), e.get("n"), dups, e.get("senderrs"), e.get("lossy"), breaks[:8]))
                else:
                    print("  clause %s: line %s" % (v["clause"], json.dumps(e)[:600]))
        print("%s %s: %d cases (%d sends, %d streams), %d validated against spec/Net.tla, %d violations, %.0fs" % (prop, tier, len(cases), nsends, nstream, validated, len(violations), time.time() - t0))
        return 1 if violations else 0
    finally:
        if not os.environ.get("VERIF_KEEP"):
            shutil.rmtree(w, ignore_errors=True)


if __name__ == "__main__":
    try:
        sys.exit(main(sys.argv[1], sys.argv[2]))
    except vlib.Infra as e:
        print("INFRA: %s" % e)
        sys.exit(2)
