"""Check C10 (no orphans: supervisors, pools, applications and the node take their processes down).

Design side: spec/TreeModel.tla (ownership tree with starting / running / dead processes, faults, restarts, failing Init, the exit
cascade) - NoOrphanQ holds for the repaired design and TLC must find the orphan for the former one (no notice after a failed Init).
Code side: real trees built from shape descriptions; every process x fault kind x phase (steady, while a sibling / a grandchild is
inside its Init during start-up or a restart, while a child is inside Terminate, after an earlier fault) and stop calls; spec/Tree.tla
judges the state recorded at quiescence."""
import json, os, random, re, shutil, sys, time
sys.path.insert(0, os.path.dirname(os.path.abspath(__file__)))
import vlib, fam

CLAUSES = ["NoOrphan", "StopReturns", "StopWaits", "StopWaitsPool"]
# "NodeStopAll" (every Terminate callback ran after a node stop) is a proxy stricter than the property (the process table cannot be read once the
# node is gone): it is evaluated and reported in the evidence, not judged
W = lambda n, free=0: {"name": n, "kind": "worker", "type": "", "strategy": "", "size": free, "kids": []}
S = lambda n, t, kids, st="perm", size=0: {"name": n, "kind": "sup", "type": t, "strategy": st, "size": size, "kids": kids}
P = lambda n, size: {"name": n, "kind": "pool", "type": "", "strategy": "", "size": size, "kids": []}
A = lambda n, kids: {"name": n, "kind": "app", "type": "", "strategy": "", "size": 0, "kids": kids}


def labels(shape, prefix=""):
    """static labels of the first incarnations: (label, kind)"""
    me = prefix + shape["name"]
    out = []
    if shape["kind"] != "app":
        out.append((me, shape["kind"]))
    if shape["kind"] == "pool":
        out += [("%s/#%d" % (me, i + 1), "worker") for i in range(shape["size"])]
    elif shape["kind"] == "sup" and shape["type"] == "sofo":
        for k in shape["kids"]:
            out += [("%s/%s#%d" % (me, k["name"], i + 1), "worker") for i in range(shape["size"])]
    else:
        for k in shape["kids"]:
            out += labels(k, me + "/")
    return out


def shapes(tier, rng):
    out = []
    out.append(S("root", "ofo", [W("w1"), S("s2", "afo", [W("a"), W("b"), P("p", 2)]), S("d", "sofo", [W("w")], size=2)]))
    out.append(S("root", "afo", [S("m", "rfo", [W("x"), S("n", "ofo", [W("y"), P("q", 2)]), W("z")], st="trans"), W("t")]))
    out.append(S("root", "rfo", [P("p", 3), S("s", "sofo", [W("c")], size=2, st="temp"), W("v")], st="trans"))
    out.append(P("root", 3))
    # a worker that spawns a process of its own (no link, trapping exits): a node stop must take it down as well
    out.append(S("root", "ofo", [W("w1", 2), S("s2", "ofo", [W("a", 1)])]))
    if tier == "thorough":
        out.append(S("root", "ofo", [S("a", "ofo", [S("b", "ofo", [S("c", "ofo", [W("leaf"), P("lp", 2)])])])], st="temp"))
        out.append(S("root", "afo", [W("w1"), W("w2"), S("s", "afo", [W("x"), W("y")], st="temp")], st="temp"))
    return out


def cases(tier, rng):
    out = []
    def add(shape, ops):
        out.append({"id": len(out) + 1, "shape": shape, "ops": [{"op": o, "target": t} for o, t in ops]})
    faults = ["kill", "exit", "crash", "panic"]
    for sh in shapes(tier, rng):
        ls = labels(sh)
        names = [l for l, _ in ls]
        add(sh, [])
        # one fault on every process, every kind
        for l, kind in ls:
            for f in faults:
                if kind == "pool" and f in ("crash", "panic"):
                    continue
                if tier == "quick" and f in ("exit", "panic") and rng.random() < 0.5:
                    continue
                add(sh, [(f, l)])
        # a fault on p while another process q is inside its Init during a restart (q was killed first)
        workers = [l for l, k in ls if k == "worker"]
        owners = [l for l, k in ls if k != "worker"]
        pairs = [(q, p) for q in workers for p in names if p != q]
        if tier == "quick":
            pairs = rng.sample(pairs, min(len(pairs), 14))
        for q, p in pairs:
            add(sh, [("holdinit", q), ("kill", q), ("pause", ""), (rng.choice(["kill", "exit"]), p), ("pause", ""), ("release", "")])
        # start-up: q's first Init is held, a process that already runs gets a fault
        for q in (workers if tier == "thorough" else rng.sample(workers, min(4, len(workers)))):
            for p in rng.sample(names, min(3 if tier == "quick" else 6, len(names))):
                if p != q:
                    add(sh, [("holdinit", q), ("start", ""), ("kill", p), ("pause", ""), ("release", "")])
        # a failing Init: at start-up and during a restart
        for q in workers:
            add(sh, [("failinit", q), ("start", "")])
            add(sh, [("failinit", q), ("kill", q)])
        # shutdown phase: a child sits in Terminate while its owner / a sibling is hit
        for q in (workers if tier == "thorough" else rng.sample(workers, min(4, len(workers)))):
            for p in rng.sample(names, min(3 if tier == "quick" else 6, len(names))):
                if p != q:
                    add(sh, [("holdterm", q), ("kill", q), ("pause", ""), ("kill", p), ("pause", ""), ("release", "")])
                    add(sh, [("holdterm", q), ("exit", owners[0]), ("pause", ""), ("kill", p), ("pause", ""), ("release", "")])
        # a pool replaces a dead worker when the next message is dispatched to it: the replacement must go down with the pool as well
        pools = [l for l, k in ls if k == "pool"]
        for pl in pools:
            for wk in [l for l, k in ls if l.startswith(pl + "/#")]:
                for f, tgt in (("kill", pl), ("exit", pl), ("kill", owners[0]), ("exit", owners[0])):
                    add(sh, [("kill", wk), ("pause", ""), ("poke", pl), ("settle", ""), (f, tgt)])
        # two and three faults in a row without waiting
        for _ in range(10 if tier == "quick" else 1200):
            k = rng.choice([2, 2, 3])
            ops = []
            for _ in range(k):
                ops.append((rng.choice(faults), rng.choice(names)))
                if rng.random() < 0.4:
                    ops.append(("pause", ""))
            add(sh, ops)
        # under an application: stop, stop after faults, node stop
        app = A("app", [sh, W("m2", 1)])
        add(app, [("stopapp", "")])
        add(app, [("stopnode", "")])
        add(sh, [("stopnode", "")])
        add(sh, [("kill", rng.choice(names)), ("stopnode", "")])
        for l, kind in (ls if tier == "thorough" else rng.sample(ls, min(5, len(ls)))):
            add(app, [("kill", "app/" + l), ("stopapp", "")])
            add(app, [("kill", "app/" + l), ("settle", ""), ("stopapp", "")])
            add(app, [("crash", "app/" + l), ("stopnode", "")])
        for q in rng.sample(workers, min(3, len(workers))):
            add(app, [("holdterm", "app/" + q), ("stopapp", "")])
            add(app, [("failinit", "app/" + q), ("start", "")])
            add(app, [("kill", "app/m2")])
    return out


def model(w):
    st = tr = 0
    defs = {"MC_Procs": '{"root", "s", "w", "p", "k1", "k2"}',
            "MC_Owner": '[x \\in MC_Procs |-> IF x \\in {"s", "w"} THEN "root" ELSE IF x = "p" THEN "s" ELSE IF x \\in {"k1", "k2"} THEN "p" ELSE "root"]'}
    for nf, expect in (("TRUE", True), ("FALSE", False)):
        name = "MC_TreeModel_" + nf
        fam.write_mc(w, name, "TreeModel", defs, {"Procs": "<- MC_Procs", "Owner": "<- MC_Owner", "NotifyOnFail": nf}, invariants=["NoOrphanQ"], spec="MSpec")
        r = vlib.run_tlc(w, name + ".tla", name + ".cfg", workers=4, timeout=300)
        viol = re.search(r'Invariant (\w+) is violated', r.out)
        if not viol and r.rc != 0:
            raise vlib.Infra("TreeModel %s: TLC failed: %s" % (nf, r.error or r.out[-600:]))
        if (viol is None) != expect:
            raise vlib.Infra("TreeModel NotifyOnFail=%s: NoOrphanQ %s, expected %s" % (nf, "holds" if viol is None else "violated", "to hold" if expect else "a counterexample"))
        st += r.distinct; tr += r.generated
    return st, tr


def main(prop, tier):
    t0 = time.time(); seed = vlib.seed(); rng = random.Random(seed)
    w = vlib.scratch("tree_")
    try:
        vh, _ = vlib.build_harness(w)
        vlib.stage_spec(w)
        mst, mtr = model(w)
        cs = cases(tier, rng)
        byid = {c["id"]: c for c in cs}
        nshard = 6
        shards = [cs[i::nshard] for i in range(nshard)]
        import concurrent.futures as cf
        def run(i):
            inp = os.path.join(w, "tree_in_%d.json" % i); out = os.path.join(w, "tree_trace_%d.ndjson" % i)
            json.dump({"cases": shards[i]}, open(inp, "w"))
            rc, so, se, to = vlib.run_vh(vh, ["tree", "-in", inp, "-out", out, "-par", "6"], timeout=3000)
            return i, rc, so, se, to
        with cf.ThreadPoolExecutor(nshard) as ex:
            for i, rc, so, se, to in ex.map(run, range(nshard)):
                if rc != 0 or to:
                    if vlib.crashed_in_repo(se):
                        path = vlib.save_replay(prop, "tree_crash", {"clause": "NoCrash", "stderr": se[-4000:]})
                        print("VIOLATION property=%s replay=%s" % (prop, path))
                        print("  clause NoCrash: the node crashed during the fault scripts of shard %d: %s" % (i, se[-300:].replace("\n", " | ")))
                        vlib.write_evidence(prop, tier, "fault_enumeration", {"states": 1, "transitions": 1, "traces_validated_against_impl": 0}, [], time.time() - t0, violations=1)
                        return 1
                    raise vlib.Infra("tree harness failed rc=%s: %s" % (rc, (se or so)[-1500:]))
        lines = []
        for i in range(nshard):
            p = os.path.join(w, "tree_trace_%d.ndjson" % i)
            if os.path.exists(p):
                lines += open(p).read().splitlines()
        open(os.path.join(w, "tree_trace.ndjson"), "w").write("\n".join(lines) + "\n")
        skipped = sum(len(json.loads(x)["skipped"]) for x in lines)
        nops = sum(len(c["ops"]) for c in cs)
        fam.write_mc(w, "MC_TreeT", "Tree", {}, {"TraceFile": '"tree_trace.ndjson"', "Checks": fam.tla_set(CLAUSES)}, constraint="HWM", postcondition="TraceAccepted")
        r = vlib.run_tlc(w, "MC_TreeT.tla", "MC_TreeT.cfg", workers=1, timeout=3000)
        if re.search(r'TRACE_REJECTED_AT_LINE', r.out):
            raise vlib.Infra("Tree.tla could not consume the trace: %s" % r.out[-800:])
        hits = [(m.group(1), int(m.group(2))) for m in re.finditer(r'"CLAUSE_VIOLATED", "(\w+)", "LINE", (\d+)', r.out)]
        if r.rc != 0 and not hits:
            raise vlib.Infra("Tree validation failed: %s" % (r.error or r.out[-1500:]))
        known = {f["id"]: f for f in vlib.load_known()}
        violations = []; kf = {}
        missing_cb = 0
        for x in lines:
            e = json.loads(x)
            if e.get("stopkind") == "stopnode" and any(p["inited"] and not p["termed"] for p in e["procs"]):
                missing_cb += 1
        for clause, line in hits:
            e = json.loads(lines[line - 1])
            v = {"clause": clause, "case": byid[e["p"]], "line": e}
            if clause == "StopWaitsPool" and known.get("P24", {}).get("status") == "open":
                kf.setdefault("P24", []).append(v); continue
            if clause == "StopWaits" and known.get("P24b", {}).get("status") == "open":
                # the stop was issued while the cascade of an abnormal termination (kill, crash, failed restart) was still in flight
                inflight = False
                for o in e["ops"]:
                    if o["op"] in ("kill", "crash", "panic", "exit", "failinit", "holdterm"):
                        inflight = True
                    elif o["op"] == "settle":
                        inflight = False
                    elif o["op"] in ("stopapp", "stopnode"):
                        break
                if inflight:
                    kf.setdefault("P24b", []).append(v); continue
            violations.append(v)
        seen = set(); nontrivial = 0
        for x in lines:
            e = json.loads(x)
            faults = [(o["op"], o["target"]) for o in e["ops"] if o["op"] + ":" + o["target"] not in e["skipped"]]
            hit = any(o[0] in ("kill", "exit", "crash", "panic", "failinit", "stopapp", "stopnode") for o in faults)
            died = any(p["inited"] and not p["alive"] for p in e["procs"]) or e["stop"] != ""
            key = json.dumps([byid[e["p"]]["shape"], e["ops"]], sort_keys=True)
            if hit and died and key not in seen:
                seen.add(key); nontrivial += 1
        cov = {"evaluations": len(cs), "distinct_nontrivial": nontrivial,
               "rule": "fault scripts are enumerated per shape (every process x fault kind; fault pairs with a gate held in Init or Terminate; failing Init; 2-3 faults in a row; stop calls) plus "
                       "seeded random ones; a script counts as non-trivial when at least one of its faults found a live target and at least one started process died (or a stop call ran), "
                       "and as distinct by (shape, operation list)",
               "states": max(r.distinct + mst, 1), "transitions": max(r.generated + mtr, 1), "traces_validated_against_impl": len(cs) - len(violations),
               "samples": [cs[1], cs[rng.randrange(len(cs))]], "fault_scripts": len(cs), "operations": nops, "operations_without_live_target": skipped,
               "shapes": len(shapes(tier, rng)), "clauses": CLAUSES, "exhaustive": False, "node_stops_with_a_terminate_callback_missing_2s_later": missing_cb,
               "design_model": {"TreeModel NotifyOnFail=TRUE": "NoOrphanQ holds", "TreeModel NotifyOnFail=FALSE": "NoOrphanQ violated (the defect repaired by 3cbfff4)"}}
        assumptions = ["fault points are placed with gates inside Init / Terminate of the tree's own behaviours; faults inside framework code between two yield points are not placed",
                       "a process inside its Init is not in the process table: faults aimed at it are recorded as skipped",
                       "liveness after node stop is observed through Terminate callbacks, not the process table"]
        vlib.write_evidence(prop, tier, "fault_enumeration", cov, assumptions, time.time() - t0, violations=len(violations))
        for k, items in sorted(kf.items()):
            e = items[0]["line"]
            print("KNOWN-FINDING: property=%s %s %s (%d script(s), e.g. %s left %s)" % (prop, k, known[k]["line"].split(" ", 3)[-1][:200], len(items), [(o["op"], o["target"]) for o in e["ops"]], e["left"][:4]))
        for v in violations[:10]:
            e = v["line"]
            path = vlib.save_replay(prop, "tree_c%d_%s" % (e["p"], v["clause"]), v)
            print("VIOLATION property=%s replay=%s" % (prop, path))
            orphans = [p["label"] for p in e["procs"] if p["alive"] and not p["palive"]]
            print("  clause %s: script %s; orphans %s; stop=%s (%s ms) left=%s; root shape %s/%s" % (v["clause"], [(o["op"], o["target"]) for o in e["ops"]], orphans, e["stop"], e["stopms"], e["left"], v["case"]["shape"]["kind"], v["case"]["shape"].get("type")))
        print("%s %s: %d fault scripts (%d operations, %d without a live target), %d validated against spec/Tree.tla, %d violations, %.0fs" % (prop, tier, len(cs), nops, skipped, len(cs) - len(violations), len(violations), time.time() - t0))
        return 1 if violations else 0
    finally:
        if not os.environ.get("VERIF_KEEP"):
            shutil.rmtree(w, ignore_errors=True)


if __name__ == "__main__":
    try:
        sys.exit(main(sys.argv[1], sys.argv[2]))
    except vlib.Infra as e:
        print("INFRA: %s" % e)
        sys.exit(2)
