"""Helper used once to insert add-only lib.VerifPoint one-liners into /repo (kept for the record)."""
import re
class F:
    def __init__(self, path):
        self.path = path; self.s = open(path).read()
    def region(self, start, end=None):
        a = self.s.index(start)
        b = self.s.index(end, a + 1) if end else len(self.s)
        return a, b
    def ins(self, anchor, new, where='before', occ=0, within=None, extra=''):
        a, b = (0, len(self.s)) if within is None else self.region(*within)
        body = self.s[a:b]
        idxs = [m.start() for m in re.finditer(re.escape(anchor), body)]
        assert idxs, (self.path, anchor)
        targets = idxs if occ == 'all' else [idxs[occ]]
        for i in reversed(targets):
            ls = body.rfind('\n', 0, i) + 1
            le = body.find('\n', i) + 1
            indent = re.match(r'[ \t]*', body[ls:]).group(0) + extra
            line = indent + new + '\n'
            body = body[:ls] + line + body[ls:] if where == 'before' else body[:le] + line + body[le:]
        self.s = self.s[:a] + body + self.s[b:]
    def save(self):
        open(self.path, 'w').write(self.s)
