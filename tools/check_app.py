"""Check C17: application lifecycle. Systematic and seeded random histories of load / start(mode) / member failures / stop / stop-force /
unload are executed on a real node (subprocess; a call that does not return is an observation); TLC validates each recorded line against
the sequential reference spec/AppContract.tla."""
import json, os, random, re, shutil, sys, time
sys.path.insert(0, os.path.dirname(os.path.abspath(__file__)))
import vlib, fam

CLAUSES = ["NoHang", "UnloadRefused", "StartNeedsDeps", "Result", "State", "Members", "StartOnce", "TermOnce", "TermReason", "StartMode", "MembersInOrder", "DepsFirst", "NoOrphan"]
MODES = ["temp", "trans", "perm"]
REASONS = ["normal", "shutdown", "abn", "kill"]


def histories(tier, rng):
    out = []; hid = 0
    def add(n, mode, failat, dep, ops):
        nonlocal hid
        hid += 1; out.append({"id": hid, "n": n, "mode": mode, "failat": failat, "dep": dep, "ops": ops})
    L = {"op": "load"}; U = {"op": "unload"}; ST = {"op": "stop"}; SF = {"op": "stopforce"}
    def S(m=""): return {"op": "start", "mode": m}
    def F(i, r): return {"op": "fault", "i": i, "reason": r}
    def F2(i, r, j, r2): return {"op": "fault2", "i": i, "reason": r, "j": j, "reason2": r2}
    def SU(j): return {"op": "stopunload", "j": j}
    DSS = {"op": "depstopstart"}
    def SD(i): return {"op": "startdie", "i": i}
    def SS(i, how): return {"op": "startstop", "i": i, "reason": how}
    def TR(i, r, j): return {"op": "termrace", "i": i, "reason": r, "j": j}
    for mode in MODES:
        for n in (1, 2, 3):
            # every member x every reason, then the state must allow a restart
            for i in range(1, n + 1):
                for r in REASONS:
                    add(n, mode, 0, False, [L, S(), F(i, r), S(), ST, U])
            add(n, mode, 0, False, [L, S(), S(), ST, ST, S(), SF, U, U])
            add(n, mode, 0, True, [L, S(), ST, S(mode), SF])
            # failed start: member k fails in Init
            for k in range(1, n + 1):
                add(n, mode, k, False, [L, S(), S(), ST, U])
            # explicit start mode overrides the spec
            for m2 in MODES:
                add(n, mode, 0, False, [L, S(m2), F(1, "abn"), S(), F(n, "normal")] + ([F(1, "normal")] if n > 1 else []) + [S(), ST])
            # all members one by one
            for r in ("normal", "abn"):
                add(n, mode, 0, False, [L, S()] + [F(i, r) for i in range(1, n + 1)] + [S(), SF, U])
    # a second member leaves its handler with its own reason while the application is already going down because of the first
    for mode in MODES:
        for n in (2, 3):
            for r in ("abn", "kill", "normal"):
                for r2 in ("abn2", "normal", "shutdown"):
                    add(n, mode, 0, False, [L, S(), F2(1, r, n, r2), S(), ST, U])
                    add(n, mode, 0, False, [L, S(), F2(n, r, 1, r2), S(), SF])
    # unload attempted while a stop is in progress
    for mode in MODES:
        for n in (1, 2, 3):
            add(n, mode, 0, False, [L, S(), SU(n), S(), ST, U])
            add(n, mode, 0, False, [L, S(), SU(1), U, L, S(), SF])
    # the application is started while its dependency is on its way down (a member keeps that stop in progress)
    for mode in MODES:
        for n in (1, 2):
            add(n, mode, 0, True, [L, S(), ST, DSS, S(), ST, U])
            add(n, mode, 0, True, [L, S(), DSS, ST, S(), DSS, SF])
    # a member dies in the window between its spawn and its entry into the group
    for mode in MODES:
        for n in (1, 2, 3):
            for i in range(1, n + 1):
                add(n, mode, 0, False, [L, SD(i), S(), ST, S(), SF, U])
            if n > 1:
                # ... and the start fails at a later member: the one that had gone early must not stay behind in the group
                add(n, mode, n, False, [L, SD(1), S(), ST, S(), SF, U])
    # a stop request while the start is between two members; two overlapping terminations of one run
    for mode in MODES:
        for n in (2, 3):
            for i in range(1, n + 1):
                for how in ("force", "grace"):
                    add(n, mode, 0, False, [L, SS(i, how), ST, S(), SF, U])
            for r in ("normal", "abn", "kill"):
                add(n, mode, 0, False, [L, S(), TR(1, r, n), S(), ST, U])
                add(n, mode, 0, False, [L, S(), TR(n, r, 1), S(), SF])
    add(2, "temp", 0, False, [S(), ST, U, L, U, L, S(), U, ST, U])
    for _ in range(40 if tier == "quick" else 1600):
        n = rng.choice([1, 2, 3, 4]); mode = rng.choice(MODES)
        ops = [L]
        for _ in range(rng.randint(3, 12)):
            c = rng.random()
            if c < 0.3: ops.append(S(rng.choice(["", "", "temp", "trans", "perm"])))
            elif c < 0.58: ops.append(F(rng.randint(1, n), rng.choice(REASONS)))
            elif c < 0.65: ops.append(F2(rng.randint(1, n), rng.choice(REASONS), rng.randint(1, n), rng.choice(["abn2", "normal", "shutdown"])))
            elif c < 0.76: ops.append(ST)
            elif c < 0.8: ops.append(SU(rng.randint(1, n)))
            elif c < 0.83: ops.append(DSS)
            elif c < 0.9: ops.append(SF)
            elif c < 0.95: ops.append(U)
            else: ops.append(L)
        add(n, mode, rng.choice([0, 0, 0, 1, n]), rng.random() < 0.2, ops)
    return out


APP_INV = ["NoSelfDeadlock", "NoPanic", "FailedStartClean", "NoGhost", "BackToLoaded", "StopTruthful"]


def app_model(w, tier):
    """spec/App.tla (start / stop / terminate at atomic-step granularity): the three former designs must be refuted, the repaired one must hold"""
    import concurrent.futures as cf
    runs = [("former", "FALSE", "TRUE", "TRUE", 2, "temp", "TRUE", APP_INV, "NoSelfDeadlock"),
            ("nostartstop", "TRUE", "FALSE", "TRUE", 0, "temp", "TRUE", APP_INV, "StopTruthful"),
            ("noearly", "TRUE", "TRUE", "FALSE", 0, "temp", "TRUE", APP_INV, "NoGhost")]
    for mode in ("temp", "trans", "perm"):
        for force in ("TRUE", "FALSE"):
            for fail in (0, 2):
                # Permanent without a failing start: TLC finds the double close of the 'stopped' channel when two terminations of one run
                # overlap (an observation: on the real code the panic is swallowed by the process's recover, nothing observable differs)
                exp = "NoPanic" if (mode == "perm" and fail == 0) else None
                runs.append(("rep_%s_%s_%d" % (mode, force, fail), "TRUE", "TRUE", "TRUE", fail, mode, force, APP_INV, exp))
    def one(r):
        name, fr, fs, fe, fail, mode, force, invs, expect = r
        mc = "MC_App_" + name
        fam.write_mc(w, mc, "App", {}, {"N": "2", "FailAt": str(fail), "Mode": '"%s"' % mode, "Force": force, "WithStopper": "TRUE", "MaxFaults": "1",
                                        "FixRangeKill": fr, "FixStartStop": fs, "FixEarly": fe}, invariants=invs, spec="Spec")
        t = vlib.run_tlc(w, mc + ".tla", mc + ".cfg", workers=2, timeout=600)
        viol = re.search(r'Invariant (\w+) is violated', t.out)
        if not viol and t.rc != 0:
            raise vlib.Infra("App %s: TLC failed: %s" % (name, t.error or t.out[-600:]))
        got = viol.group(1) if viol else None
        if got != expect:
            raise vlib.Infra("App %s: %s, expected %s" % (name, "violates " + got if got else "holds", "a violation of " + expect if expect else "to hold"))
        return t.distinct, t.generated
    st = tr = 0
    with cf.ThreadPoolExecutor(6) as ex:
        for d, g in ex.map(one, runs):
            st += d; tr += g
    return st, tr


def main(prop, tier):
    t0 = time.time(); seed = vlib.seed(); rng = random.Random(seed)
    w = vlib.scratch("app_")
    try:
        vh, _ = vlib.build_harness(w)
        vlib.stage_spec(w)
        mst, mtr = app_model(w, tier)
        hs = histories(tier, rng)
        byid = {h["id"]: h for h in hs}
        json.dump({"histories": hs}, open(os.path.join(w, "app_in.json"), "w"))
        trace = os.path.join(w, "app_trace.ndjson")
        nxt = 0; restarts = 0; ops = 0
        while nxt < len(hs):
            rc, so, se, to = vlib.run_vh(vh, ["app", "-in", os.path.join(w, "app_in.json"), "-out", trace, "-from", str(nxt),
                                              "-node", "vhapp%d_%d@localhost" % (os.getpid(), restarts)], timeout=3000)
            if to or rc not in (0, 3):
                raise vlib.Infra("app harness failed rc=%s: %s" % (rc, (se or so)[-1500:]))
            st = json.loads(so.strip().splitlines()[-1])
            ops += st["ops"]
            nxt = st["next"]
            if rc == 3:
                restarts += 1          # a call hung (recorded in the trace): go on with a fresh node process
                if restarts > 50:
                    break
        fam.write_mc(w, "MC_AppT", "AppContract", {}, {"TraceFile": '"app_trace.ndjson"', "Checks": fam.tla_set(CLAUSES)}, constraint="HWM", postcondition="TraceAccepted")
        r = vlib.run_tlc(w, "MC_AppT.tla", "MC_AppT.cfg", workers=1, timeout=1800)
        if re.search(r'TRACE_REJECTED_AT_LINE', r.out):
            raise vlib.Infra("AppContract could not consume the trace: %s" % r.out[-800:])
        hits = [(m.group(1), int(m.group(2))) for m in re.finditer(r'"CLAUSE_VIOLATED", "(\w+)", "LINE", (\d+)', r.out)]
        if r.rc != 0 and not hits:
            raise vlib.Infra("AppContract validation failed: %s" % (r.error or r.out[-1500:]))
        lines = open(trace).read().splitlines()
        violations = []
        for clause, line in hits:
            e = json.loads(lines[line - 1])
            violations.append({"clause": clause, "history": byid[e["p"]], "line": e})
        validated = len(hs) - len({v["history"]["id"] for v in violations})
        cov = {"states": max(r.distinct, 1) + mst, "transitions": max(r.generated, 1) + mtr, "design_model_states": mst, "traces_validated_against_impl": validated,
               "samples": [hs[0], hs[rng.randrange(len(hs))]], "histories": len(hs), "operations": ops, "node_restarts_after_hung_calls": restarts,
               "clauses": CLAUSES, "exhaustive": False}
        assumptions = ["every operation is followed by quiescence (no concurrent API calls in this check)", "1-4 members, one optional dependency",
                       "whether Terminate runs after a failed start is not specified and not judged"]
        vlib.write_evidence(prop, tier, "model_checking", cov, assumptions, time.time() - t0, violations=len(violations))
        for v in violations[:12]:
            path = vlib.save_replay(prop, "app_h%d_%s" % (v["history"]["id"], v["clause"]), v)
            print("VIOLATION property=%s replay=%s" % (prop, path))
            print("  clause %s: history %s; line %s" % (v["clause"], json.dumps(v["history"])[:500], json.dumps(v["line"])[:500]))
        print("%s %s: %d histories (%d operations), %d validated against the reference, %d violations, %.0fs" % (prop, tier, len(hs), ops, validated, len(violations), time.time() - t0))
        return 1 if violations else 0
    finally:
        if not os.environ.get("VERIF_KEEP"):
            shutil.rmtree(w, ignore_errors=True)


if __name__ == "__main__":
    try:
        sys.exit(main(sys.argv[1], sys.argv[2]))
    except vlib.Infra as e:
        print("INFRA: %s" % e)
        sys.exit(2)
