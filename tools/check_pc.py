"""Checks C01 C02 C03 C05: ProcCore family.

Pipeline per scenario: U1 exhaustive TLC run of spec/ProcCore.tla (design), U2 edge-cover plans from TLC's state graph,
replay on the real code under the controller (harness/proccore), U3 validation of the recorded trace by TLC against
ProcCore_Trace (conformance: is the execution a behaviour of the spec?) and against ProcObs (verdict: do the property
clauses hold on what the real code did?).  Free-running executions (no controller) are validated against ProcObs only.
"""
import json, os, random, re, shutil, sys, time, concurrent.futures as cf
sys.path.insert(0, os.path.dirname(os.path.abspath(__file__)))
import vlib, pc, fam

SCN_FOR = {
    "C01": {"quick": ["A", "G", "J", "K"], "thorough": ["A", "B", "D", "E", "F", "G", "J", "K", "L"]},
    "C02": {"quick": ["B", "C", "H", "I", "J", "K", "L"], "thorough": ["A", "B", "C", "E", "F", "H", "I", "J", "K", "L"]},
    "C03": {"quick": ["B", "E"], "thorough": ["B", "C", "E", "F"]},
    "C05": {"quick": ["A", "D", "E", "G"], "thorough": ["A", "B", "D", "E", "F", "G"]},
}
QUICK_PLANS = 2500
LEVEL = "model_checking"


def free_scenario(rng, idx):
    """a bigger scenario for the free-running mode (no TLC graph; ProcObs constants are generated from it)"""
    ns = rng.choice([4, 8, 12])
    nm = rng.choice([20, 40])
    kinds = ["msg"] * 30 + ["exit", "call", "call"]
    senders = {}
    trap = True
    for i in range(1, ns + 1):
        ops = []
        for j in range(nm):
            k = rng.choice(kinds)
            ops.append({"q": rng.choice(["main", "main", "system", "urgent"]), "kind": k})
        senders["S%d" % i] = ops
    mode = idx % 4
    scn = {"name": "FREE%d" % idx, "senders": senders, "killers": [], "runners": 0, "limit": 0, "trap": trap}
    if mode == 1:
        scn["limit"] = rng.choice([1, 2, 5])
    if mode == 2:
        scn["killers"] = ["K1", "K2"]
    if mode == 3:
        # one cause of termination somewhere in the middle
        s = rng.choice(sorted(senders)); j = rng.randrange(nm)
        senders[s][j] = {"q": "main", "kind": rng.choice(["err", "panic", "exitp"])}
    return scn


SUM_CLAUSES = {"C01": ["Serial"], "C02": ["ExactlyOnce", "NoLostWakeup", "NoSpontaneousTermination"], "C03": ["SenderFifo"],
               "C05": ["NoSpontaneousTermination"]}


def run_hammer(prop, tier, w, vh, idx, limit):
    """high-volume free-running executions; one summary line per actor validated by TLC against spec/ProcSum.tla"""
    name = "HAMMER%d" % idx
    out = {"scenario": name, "violations": []}
    trace = "trace_%s.ndjson" % name
    ms = 2500 if tier == "quick" else 12000
    args = ["proccore", "-hammer_ms", str(ms), "-actors", "8", "-senders", str(3 + idx), "-limit", str(limit), "-out", os.path.join(w, trace),
            "-node", "vhpc%d_%s@localhost" % (os.getpid(), name)]
    rc, so, se, to = vlib.run_vh(vh, args, timeout=600)
    if rc != 0 and not to and vlib.crashed_in_repo(se):
        out["violations"].append({"clause": "NoCrash", "scenario": {"name": name, "hammer": True}, "plan": None, "at_event": None, "crash": se[:3000]})
        out["harness"] = {"plans": 0, "steps": 0, "stalls": 0}
        return out
    if rc != 0 or to:
        raise vlib.Infra("hammer failed rc=%s timeout=%s: %s" % (rc, to, (se or so)[-1500:]))
    out["harness"] = json.loads(so.strip().splitlines()[-1])
    mname = "MC_PS_%s" % name
    import fam
    fam.write_mc(w, mname, "ProcSum", {}, {"TraceFile": '"%s"' % trace, "Checks": fam.tla_set(SUM_CLAUSES[prop])}, constraint="HWM", postcondition="TraceAccepted")
    r = vlib.run_tlc(w, mname + ".tla", mname + ".cfg", workers=1, timeout=300)
    post = parse_post(r.out)
    if r.rc == 0 and post is None:
        out["obs"] = {"accepted": True, "executions": out["harness"]["plans"], "wall": round(r.wall, 1), "states": r.distinct}
    elif post and post[0] == "violated":
        lines = open(os.path.join(w, trace)).read().splitlines()
        out["obs"] = {"accepted": False, "clause": post[1], "line": post[2]}
        out["violations"].append({"clause": post[1], "scenario": {"name": name, "hammer": True, "limit": limit}, "plan": post[2], "at_event": None,
                                  "execution": [json.loads(x) for x in lines]})
    else:
        raise vlib.Infra("ProcSum could not consume %s: %s" % (name, (r.error or r.out[-1200:])))
    return out


ORDER_CLAUSES = {"C02": ["ExactlyOnce", "NoLostWakeup"], "C03": ["Order"]}


def run_order(prop, tier, w, vh, seed):
    """order histories: process-API senders (incl. failing sends, SetSendPriority) and log messages against a parked receiver"""
    import fam
    name = "ORDER"
    out = {"scenario": name, "violations": []}
    trace = "trace_%s.ndjson" % name
    n = 200 if tier == "quick" else 3000
    rc, so, se, to = vlib.run_vh(vh, ["proccore", "-order", str(n), "-seed", str(seed), "-out", os.path.join(w, trace), "-node", "vhpc%d_ord@localhost" % os.getpid()], timeout=900)
    if rc != 0 or to:
        raise vlib.Infra("order mode failed rc=%s timeout=%s: %s" % (rc, to, (se or so)[-1500:]))
    out["harness"] = json.loads(so.strip().splitlines()[-1])
    fam.write_mc(w, "MC_Order", "MailboxOrder", {}, {"TraceFile": '"%s"' % trace, "Checks": fam.tla_set(ORDER_CLAUSES[prop])}, constraint="HWM", postcondition="TraceAccepted")
    r = vlib.run_tlc(w, "MC_Order.tla", "MC_Order.cfg", workers=1, timeout=900)
    if re.search(r'TRACE_REJECTED_AT_LINE', r.out):
        raise vlib.Infra("MailboxOrder could not consume the trace: %s" % r.out[-800:])
    hits = [(m.group(1), int(m.group(2))) for m in re.finditer(r'"CLAUSE_VIOLATED", "(\w+)", "LINE", (\d+)', r.out)]
    if r.rc != 0 and not hits:
        raise vlib.Infra("MailboxOrder validation failed: %s" % (r.error or r.out[-1200:]))
    lines = open(os.path.join(w, trace)).read().splitlines()
    for clause, line in hits[:5]:
        out["violations"].append({"clause": clause, "scenario": {"name": name, "order_history": True}, "plan": line, "at_event": None, "execution": [json.loads(lines[line - 1])]})
    out["obs"] = {"accepted": not hits, "executions": out["harness"]["plans"] - len(hits), "wall": round(r.wall, 1), "states": r.distinct}
    if hits:
        out["obs"]["clause"] = hits[0][0]
    out["sample_plan"] = json.loads(lines[0])
    return out


def parse_post(out):
    m = re.search(r'"CLAUSE_VIOLATED", "(\w+)", "LINE", (\d+)', out)
    if m:
        return ("violated", m.group(1), int(m.group(2)))
    m = re.search(r'"TRACE_REJECTED_AT_LINE", (\d+), "OF", (\d+)', out)
    if m:
        return ("rejected", int(m.group(1)), int(m.group(2)))
    return None


def execution_of(trace_path, line):
    """returns the lines of the execution that contains trace line `line` (1-based)"""
    cur = []; hit = None
    with open(trace_path) as f:
        for i, ln in enumerate(f, 1):
            e = json.loads(ln)
            if e["ev"] == "reset":
                if hit is not None:
                    break
                cur = []
            cur.append(e)
            if i == line:
                hit = len(cur)
    return cur, hit


def run_scenario(prop, tier, scn, w, vh, rng_seed, stats, free=0):
    rng = random.Random(rng_seed)
    name = scn["name"]
    out = {"scenario": name, "violations": [], "drift": None}
    if free == 0:
        # U1: design check
        mod, cfg = pc.gen_mc(scn, w, tag="_U1", inv_list=pc.CORE_INVARIANTS[prop])
        r = vlib.run_tlc(w, mod, cfg, workers=4, timeout=900 if tier == "thorough" else 240)
        if not r.ok():
            raise vlib.Infra("U1 %s: TLC did not pass on the repaired-design constants (spec regression?): %s %s" % (name, r.violated, (r.error or r.out[-1500:])))
        out["u1"] = {"generated": r.generated, "distinct": r.distinct, "depth": r.depth, "wall": round(r.wall, 1)}
        if scn.get("plans") == "none":
            return out
        # U2: plans
        plans, st = pc.gen_plans(scn, w, fix=True, workers=4, timeout=900 if tier == "thorough" else 240)
        out["graph"] = st
        total_plans = len(plans)
        if tier == "quick" and len(plans) > QUICK_PLANS:
            plans = rng.sample(plans, QUICK_PLANS)
            plans.sort(key=lambda p: p["id"])
        out["plans_total"] = total_plans
        out["plans"] = len(plans)
        pfile = os.path.join(w, "plans_%s.json" % name)
        json.dump({"scenario": pc.scn_for_harness(scn), "plans": plans}, open(pfile, "w"))
        out["sample_plan"] = plans[rng.randrange(len(plans))]
    else:
        pfile = os.path.join(w, "plans_%s.json" % name)
        json.dump({"scenario": pc.scn_for_harness(scn), "plans": []}, open(pfile, "w"))
    trace = "trace_%s.ndjson" % name
    args = ["proccore", "-plans", pfile, "-out", os.path.join(w, trace), "-seed", str(rng_seed), "-node", "vhpc%d_%s@localhost" % (os.getpid(), name)]
    if free:
        args += ["-free", str(free)]
    rc, so, se, to = vlib.run_vh(vh, args, timeout=1200)
    if rc != 0 and not to and vlib.crashed_in_repo(se):
        # the node process died inside ergo code while executing the scenario: an observation, not a harness failure
        last = None
        try:
            with open(os.path.join(w, trace)) as f:
                for ln in f:
                    last = ln
        except OSError:
            pass
        out["violations"].append({"clause": "NoCrash", "scenario": pc.scn_for_harness(scn) if free == 0 else {"name": name, "free": True},
                                  "plan": json.loads(last)["p"] if last else None, "at_event": None, "crash": se[:3000]})
        out["harness"] = {"plans": 0, "steps": 0, "stalls": 0}
        return out
    if rc != 0 or to:
        raise vlib.Infra("harness failed on %s rc=%s timeout=%s: %s" % (name, rc, to, (se or so)[-1500:]))
    hs = json.loads(so.strip().splitlines()[-1])
    out["harness"] = hs
    nlines = sum(1 for _ in open(os.path.join(w, trace)))
    out["trace_lines"] = nlines
    # U3a: conformance against the Core actions
    if free == 0:
        mod, cfg = pc.gen_mc(scn, w, tag="_T", trace_file=trace, invariants=False)
        r = vlib.run_tlc(w, mod, cfg, workers=1, timeout=1800)
        post = parse_post(r.out)
        if r.rc == 0 and post is None:
            out["core"] = {"accepted": True, "executions": hs["plans"], "wall": round(r.wall, 1)}
        elif post and post[0] == "rejected":
            ex, hit = execution_of(os.path.join(w, trace), post[1])
            out["core"] = {"accepted": False, "rejected_at_line": post[1], "of": post[2], "wall": round(r.wall, 1),
                           "plan": ex[0]["p"] if ex else None, "event": ex[hit - 1] if ex and hit else None}
            out["drift"] = out["core"]
        else:
            raise vlib.Infra("Core trace validation failed on %s: %s" % (name, (r.error or r.out[-1500:])))
    # U3b: verdict from the observation-level trace spec
    mod, cfg = pc.gen_obs(scn, w, trace, pc.OBS_INVARIANTS[prop], controlled=(free == 0))
    r = vlib.run_tlc(w, mod, cfg, workers=1, timeout=1800)
    post = parse_post(r.out)
    if r.rc == 0 and post is None:
        out["obs"] = {"accepted": True, "executions": hs["plans"], "wall": round(r.wall, 1), "states": r.distinct}
    elif post and post[0] == "violated":
        ex, hit = execution_of(os.path.join(w, trace), post[2])
        out["obs"] = {"accepted": False, "clause": post[1], "line": post[2]}
        out["violations"].append({"clause": post[1], "scenario": pc.scn_for_harness(scn) if free == 0 else {"name": name, "free": True},
                                  "plan": ex[0]["p"] if ex else None, "at_event": hit, "execution": ex[:400]})
    else:
        raise vlib.Infra("Obs trace validation could not consume the trace of %s: %s" % (name, (r.error or r.out[-1500:])))
    if free == 0 and not os.environ.get("VERIF_KEEP"):
        for f in (pfile, os.path.join(w, trace)):
            try: os.remove(f)
            except OSError: pass
    return out



META_POINTS = ["meta.start.sleep", "meta.start.spawn", "meta.start.call", "meta.wake", "meta.spawn", "meta.begin", "meta.pick", "meta.sleep", "meta.recheck", "handling"]
META_CLAUSES = {"C01": ["SerialHandlers", "SerialTerm", "AtMostOnce", "NoLoss"], "C05": ["TermOnce", "Final", "SerialTerm"]}


def meta_scenarios(tier, rng):
    sc = []
    def S(**kw):
        d = {"id": len(sc) + 1, "before": 1, "point": "", "nth": 1, "trig": 1, "during": [], "after": ["send"], "point2": "", "during2": [], "early": False, "hold": 0}
        d.update(kw); sc.append(d)
    S(); S(before=0, trig=3); S(after=["send", "fail", "send"])
    durings = [["startret"], ["starterr"], ["send"], ["send", "send"], ["exit"], ["send", "exit"], ["send", "startret"], ["fail"], ["exit", "send"]]
    afters = [["send"], ["send", "send", "quiet", "send"], ["startret", "send"], ["exit", "send"], ["fail", "send"]]
    for pt in META_POINTS:
        for nth in (1, 2):
            for du in durings:
                if tier == "quick" and rng.random() < 0.45:
                    continue
                S(point=pt, nth=nth, before=rng.choice([0, 1, 2]), trig=max(1, nth), during=du, after=rng.choice(afters))
    # second preemption: the goroutine that gave the process back (meta.sleep) is parked again on its way through recheck / reacquire
    for p2 in ("meta.recheck", "meta.reacquire", "meta.pick"):
        for du in ([["send"], ["send", "send"]]):
            for du2 in ([[], ["startret"], ["send"], ["exit"], ["send", "startret"]]):
                S(point="meta.sleep", during=du, point2=p2, during2=du2, after=rng.choice(afters))
    for pt in ("meta.pick", "handling"):
        for du2 in ([["startret"], ["exit"], ["send"]]):
            S(point=pt, during=["send"], point2="meta.sleep", during2=du2, after=rng.choice(afters))
            S(point=pt, during=["fail", "send"], point2="meta.term", during2=du2, after=rng.choice(afters))
    # the Start goroutine itself caught on its way (the park is armed before the meta exists); messages arrive meanwhile, the handler
    # of the first one is kept inside its callback until the Start goroutine has gone on
    for pt in ("meta.start.sleep", "meta.start.spawn", "meta.start.call"):
        for du in (["send"], ["send", "send"], ["send", "send", "send"]):
            for hold in (0, 1):
                S(early=True, point=pt, before=0, trig=0, during=du, hold=hold, after=rng.choice(afters))
    if tier == "thorough":
        for _ in range(300):
            S(point=rng.choice(META_POINTS), nth=rng.choice([1, 1, 2, 3]), before=rng.choice([0, 1, 2, 3]), trig=rng.choice([1, 2, 3]),
              during=[rng.choice(["send", "send", "startret", "starterr", "exit", "fail"]) for _ in range(rng.randint(1, 3))],
              point2=rng.choice(["", "", "meta.sleep", "meta.recheck", "meta.reacquire", "meta.pick", "meta.term"]),
              during2=[rng.choice(["send", "startret", "exit"]) for _ in range(rng.randint(0, 2))],
              after=[rng.choice(["send", "send", "startret", "exit", "fail", "quiet"]) for _ in range(rng.randint(1, 4))])
    return sc


def run_meta(prop, tier, w, vh, seed):
    """meta-processes: MetaCore model-checked both ways, one/two-preemption scenarios on a real meta-process validated against MetaObs"""
    rng = random.Random(seed * 31 + 5)
    res = {"scenario": "META", "violations": [], "known": []}
    st = tr = 0
    for name, mayfail, mut, mut2, invs, expect in (("pinned", "TRUE", "FALSE", "FALSE", ["SlotsSuffice", "SerialHandlers", "TermOnce", "Final", "NoLostWakeup"], None),
                                                   ("p15", "TRUE", "FALSE", "FALSE", ["SerialTerm"], "SerialTerm"),
                                                   ("sleepstore", "TRUE", "TRUE", "FALSE", ["SlotsSuffice", "SerialHandlers", "TermOnce", "Final"], "Final"),
                                                   ("initsleep", "FALSE", "FALSE", "TRUE", ["SerialHandlers"], "SerialHandlers")):
        mc = "MC_MetaCore_" + name
        fam.write_mc(w, mc, "MetaCore", {}, {"Senders": "{s1, s2}", "Handlers": "{h1, h2, h3}", "MayFail": mayfail, "Mut_SleepStore": mut, "Mut_InitSleep": mut2}, invariants=invs, spec="Spec")
        r = vlib.run_tlc(w, mc + ".tla", mc + ".cfg", workers=4, timeout=300)
        viol = re.search(r'Invariant (\w+) is violated', r.out)
        got = viol.group(1) if viol else None
        if not viol and r.rc != 0:
            raise vlib.Infra("MetaCore %s: TLC failed: %s" % (name, r.error or r.out[-600:]))
        if got != expect:
            raise vlib.Infra("MetaCore %s: %s, expected %s" % (name, "violates " + got if got else "holds", expect or "to hold"))
        st += r.distinct; tr += r.generated
    sc = meta_scenarios(tier, rng)
    inp = os.path.join(w, "meta_in.json"); out = os.path.join(w, "meta_trace.ndjson")
    json.dump({"scenarios": sc}, open(inp, "w"))
    rc, so, se, to = vlib.run_vh(vh, ["meta", "-in", inp, "-out", out], timeout=240)
    if rc != 0 or to:
        if vlib.crashed_in_repo(se):
            res["violations"].append({"clause": "NoCrash", "plan": "meta", "at_event": 0, "stderr": se[-3000:]})
            return res
        raise vlib.Infra("meta harness failed rc=%s: %s" % (rc, (se or so)[-1200:]))
    lines = open(out).read().splitlines()
    parked = sum(1 for x in lines if json.loads(x)["parked"])
    fam.write_mc(w, "MC_MetaObsT", "MetaObs", {}, {"TraceFile": '"meta_trace.ndjson"', "Checks": fam.tla_set(META_CLAUSES[prop])}, constraint="HWM", postcondition="TraceAccepted")
    r = vlib.run_tlc(w, "MC_MetaObsT.tla", "MC_MetaObsT.cfg", workers=1, timeout=1200)
    if re.search(r'TRACE_REJECTED_AT_LINE', r.out):
        raise vlib.Infra("MetaObs.tla could not consume the trace: %s" % r.out[-800:])
    hits = [(m.group(1), int(m.group(2))) for m in re.finditer(r'"CLAUSE_VIOLATED", "(\w+)", "LINE", (\d+)', r.out)]
    if r.rc != 0 and not hits:
        raise vlib.Infra("MetaObs validation failed: %s" % (r.error or r.out[-1200:]))
    known = {f["id"]: f for f in vlib.load_known()}
    for clause, line in hits:
        if clause not in META_CLAUSES[prop]:
            continue
        e = json.loads(lines[line - 1])
        if clause == "SerialTerm" and known.get("P15", {}).get("status") == "open":
            res["known"].append(e["s"]); continue
        res["violations"].append({"clause": clause, "plan": "meta scenario %s" % json.dumps(e["s"]), "at_event": 0, "scenario": e["s"], "events": e["events"]})
    res["u1"] = {"distinct": st + r.distinct, "generated": tr + r.generated}
    res["obs"] = {"executions": len(sc) - len({json.dumps(v["scenario"]) for v in res["violations"]}), "accepted": True}
    res["harness"] = {"plans": len(sc), "steps": sum(len(json.loads(x)["events"]) for x in lines), "stalls": 0, "parked": parked}
    return res


BOX_CLAUSES = ["TruthfulOnce", "FallbackResult", "FallbackTarget", "FallbackWrapped", "CancelledNeverSent", "DelayedOnce"]


def run_box(prop, tier, w, vh, seed):
    """C02: bounded mailbox with a fallback process; delayed sends racing with their cancellation"""
    rng = random.Random(seed * 17 + 3)
    fb = []; dl = []
    for mode in ("on", "off", "unknown", "self"):
        for via in ("pid", "name", "alias"):
            for cap in (1, 2, 3):
                for prio in (("normal", "high", "max") if (tier == "thorough" or via == "pid") else ("normal",)):
                    fb.append({"id": len(fb) + 1, "cap": cap, "mode": mode, "via": via, "n": cap + rng.choice([1, 2, 4]), "prio": prio})
    for k in range(20 if tier == "quick" else 300):
        n = 24
        delays = [rng.choice([300, 800, 1500, 3000, 6000]) for _ in range(n)]
        cancels = []
        for d in delays:
            r = rng.random()
            cancels.append(-1 if r < 0.25 else max(0, d + rng.choice([-2000, -600, -200, -60, -20, 0, 20, 60, 200, 600])))
        dl.append({"id": 10000 + k, "n": n, "delayus": delays, "cancelus": cancels})
    inp = os.path.join(w, "box_in.json"); out = os.path.join(w, "box_trace.ndjson")
    json.dump({"fallback": fb, "delayed": dl}, open(inp, "w"))
    rc, so, se, to = vlib.run_vh(vh, ["box", "-in", inp, "-out", out], timeout=600)
    res = {"scenario": "BOX", "violations": []}
    if rc != 0 or to:
        if vlib.crashed_in_repo(se):
            res["violations"].append({"clause": "NoCrash", "plan": "box", "at_event": 0, "stderr": se[-3000:]})
            return res
        raise vlib.Infra("box harness failed rc=%s: %s" % (rc, (se or so)[-1200:]))
    lines = open(out).read().splitlines()
    fam.write_mc(w, "MC_BoxT", "Box", {}, {"TraceFile": '"box_trace.ndjson"', "Checks": fam.tla_set(BOX_CLAUSES)}, constraint="HWM", postcondition="TraceAccepted")
    r = vlib.run_tlc(w, "MC_BoxT.tla", "MC_BoxT.cfg", workers=1, timeout=600)
    if re.search(r'TRACE_REJECTED_AT_LINE', r.out):
        raise vlib.Infra("Box.tla could not consume the trace: %s" % r.out[-800:])
    hits = [(m.group(1), int(m.group(2))) for m in re.finditer(r'"CLAUSE_VIOLATED", "(\w+)", "LINE", (\d+)', r.out)]
    if r.rc != 0 and not hits:
        raise vlib.Infra("Box validation failed: %s" % (r.error or r.out[-1200:]))
    for clause, line in hits:
        e = json.loads(lines[line - 1])
        res["violations"].append({"clause": clause, "plan": "box case %s" % json.dumps(e)[:500], "at_event": 0, "case": e})
    cancelled = sum(1 for x in lines if '"delayed"' in x for c in json.loads(x)["cancel"] if c == "true")
    late = sum(1 for x in lines if '"delayed"' in x for c in json.loads(x)["cancel"] if c == "false")
    res["u1"] = {"distinct": r.distinct, "generated": r.generated}
    res["obs"] = {"executions": len(lines) - len(res["violations"]), "accepted": True}
    res["harness"] = {"plans": len(lines), "steps": sum(c["n"] for c in fb) + sum(c["n"] for c in dl), "stalls": 0, "cancel_won": cancelled, "cancel_lost": late}
    return res


def main(prop, tier):
    t0 = time.time()
    seed = vlib.seed()
    w = vlib.scratch("pc_%s_" % prop)
    try:
        vh, bt = vlib.build_harness(w)
        vlib.stage_spec(w)
        allscn = {s["name"]: s for s in pc.scenarios("thorough")}
        names = SCN_FOR[prop][tier]
        jobs = []
        for n in names:
            scn = allscn[n]
            if n == "F":
                scn = dict(scn); scn["plans"] = "none" if tier == "quick" else "all"
            jobs.append((scn, 0))
        rng = random.Random(seed * 1000003 + 17)
        nfree = 4 if tier == "quick" else 16
        for i in range(nfree):
            jobs.append((free_scenario(rng, i), 6 if tier == "quick" else 25))
        results = []
        with cf.ThreadPoolExecutor(max_workers=4 if tier == "quick" else 6) as ex:
            futs = [ex.submit(run_scenario, prop, tier, scn, w, vh, seed * 7919 + i, None, free) for i, (scn, free) in enumerate(jobs)]
            for f in futs:
                results.append(f.result())
        if prop in ORDER_CLAUSES:
            results.append(run_order(prop, tier, w, vh, seed))
        if prop in META_CLAUSES:
            results.append(run_meta(prop, tier, w, vh, seed))
        if prop == "C02":
            results.append(run_box(prop, tier, w, vh, seed))
        # the high-volume mode wants the cores for itself: run it after the controlled replays
        results.append(run_hammer(prop, tier, w, vh, 0, 0))
        if tier == "thorough" or prop == "C02":
            results.append(run_hammer(prop, tier, w, vh, 1, 64))
        # ---- verdict
        violations = [(r["scenario"], v) for r in results for v in r["violations"]]
        states = sum(r.get("u1", {}).get("distinct", 0) for r in results)
        trans = sum(r.get("u1", {}).get("generated", 0) for r in results)
        execs_obs = sum(r.get("obs", {}).get("executions", 0) for r in results if r.get("obs", {}).get("accepted") or r["scenario"] == "ORDER")
        execs_core = sum(r.get("core", {}).get("executions", 0) for r in results if r.get("core", {}).get("accepted"))
        drift = [r["drift"] for r in results if r.get("drift")]
        stalls = sum(r.get("harness", {}).get("stalls", 0) for r in results)
        samples = []
        for r in results:
            if "sample_plan" in r:
                samples.append({"scenario": r["scenario"], "plan": r["sample_plan"]})
        samples = samples[:3]
        cov = {
            "states": max(states, 1), "transitions": max(trans, 1),
            "traces_validated_against_impl": execs_obs,
            "traces_accepted_by_core_spec": execs_core,
            "samples": samples,
            "model_edges": sum(r.get("graph", {}).get("edges", 0) for r in results),
            "plans_total": sum(r.get("plans_total", 0) for r in results),
            "plans_replayed": sum(r.get("plans", 0) for r in results),
            "steps_replayed": sum(r.get("harness", {}).get("steps", 0) for r in results),
            "free_running_executions": sum(r.get("harness", {}).get("plans", 0) for r in results if r["scenario"].startswith("FREE")),
            "hammer_messages": sum(r.get("harness", {}).get("steps", 0) for r in results if r["scenario"].startswith("HAMMER")),
            "drift_events": len(drift), "drift": drift[:3],
            "controller_stalls": stalls,
            "clauses": pc.OBS_INVARIANTS[prop],
            "per_scenario": [{k: r.get(k) for k in ("scenario", "u1", "graph", "plans", "harness", "core", "obs")} for r in results],
            "tlc_constants": "scenarios %s of spec/scenarios/proccore.json; Fix_KillZombee=TRUE" % ",".join(names),
            "exhaustive": False,
        }
        assumptions = [
            "the controller serialises goroutines at lib.VerifPoint granularity: data races below yield points are only sampled by the free-running mode",
            "TLC results hold for the listed bounded scenarios (2-3 senders, <=2 messages each, <=2 killers)",
            "the harness' gated act.Actor stands for every actor behaviour",
        ]
        rc = 0
        if violations:
            rc = 1
        if stalls > 0 and stalls > 0.02 * max(1, cov["plans_replayed"]):
            raise vlib.Infra("controller stalled %d times" % stalls)
        vlib.write_evidence(prop, tier, LEVEL, cov, assumptions, time.time() - t0, violations=len(violations))
        for scn, v in violations:
            path = vlib.save_replay(prop, "%s_%s" % (scn, v["clause"]), v)
            print("VIOLATION property=%s replay=%s" % (prop, path))
            print("  clause %s violated by the real code in scenario %s plan %s at event %s" % (v["clause"], scn, v["plan"], v["at_event"]))
        for r in results:
            if r.get("known"):
                print("KNOWN-FINDING: property=%s P15 meta-process: when Start() returns while a handler goroutine is inside a callback, Terminate runs concurrently with it (%d scenario(s), e.g. %s)" % (prop, len(r["known"]), json.dumps(r["known"][0])[:200]))
        if drift:
            print("note: %d scenario trace(s) were not behaviours of the Core spec (model drift, not a violation): first at %s" % (len(drift), json.dumps(drift[0])[:400]))
        print("%s %s: %d model states, %d executions validated (%d accepted by the Core spec), %d violations, %.0fs" %
              (prop, tier, states, execs_obs, execs_core, len(violations), time.time() - t0))
        return rc
    finally:
        if not os.environ.get("VERIF_KEEP"):
            shutil.rmtree(w, ignore_errors=True)


if __name__ == "__main__":
    try:
        sys.exit(main(sys.argv[1], sys.argv[2]))
    except vlib.Infra as e:
        print("INFRA: %s" % e)
        sys.exit(2)
