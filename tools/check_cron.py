"""Check C20: cron. Semantics part: crontab specifications enumerated from the grammar (systematically over item kinds x boundary days x
late/early hours, plus seeded random combinations) are given to the real scheduler of a node in several time zones; what JobSchedule
computes per local day is validated by TLC against the TLA+ semantics spec/Cron.tla (the oracle). Malformed specifications must be rejected.
Scheduler part: spec/CronSched.tla (spool / next / tick) model-checked; the real spool is observed after every management call."""
import json, os, random, re, shutil, sys, time, concurrent.futures as cf
sys.path.insert(0, os.path.dirname(os.path.abspath(__file__)))
import vlib, fam

FIELDS = [("min", 0, 59), ("hour", 0, 23), ("dom", 1, 31), ("mon", 1, 12), ("dow", 1, 7)]


def item_str(it):
    k = it["k"]
    if k == "num": return str(it["a"])
    if k == "range": return "%d-%d" % (it["a"], it["b"]) if it["s"] == 1 and not it.get("explicit") else "%d-%d/%d" % (it["a"], it["b"], it["s"])
    if k == "every": return "*/%d" % it["s"]
    if k == "L": return "L"
    if k == "dL": return "%dL" % it["a"]
    if k == "nth": return "%d#%d" % (it["a"], it["b"])
    raise ValueError(k)


def field_str(f):
    return "*" if f["star"] else ",".join(item_str(i) for i in f["items"])


def mk(min="*", hour="*", dom="*", mon="*", dow="*"):
    def fld(x):
        if x == "*":
            return {"star": True, "items": []}
        return {"star": False, "items": [dict({"a": 0, "b": 0, "s": 1, "x": bool(i.get("explicit"))}, **i) for i in x]}
    sp = {"min": fld(min), "hour": fld(hour), "dom": fld(dom), "mon": fld(mon), "dow": fld(dow), "wellformed": True}
    return {"str": " ".join(field_str(sp[n]) for n, _, _ in FIELDS), "spec": sp}


def num(a): return {"k": "num", "a": a}
def rng(a, b, s=1, explicit=False): return {"k": "range", "a": a, "b": b, "s": s, "explicit": explicit}
def every(s): return {"k": "every", "s": s}


def systematic(tier):
    """item kinds x boundary days x late/early hours"""
    cases = []
    times = [([num(30)], [num(23)]), ([num(30)], [num(0)]), ([num(30)], [num(2)]), ([num(30)], [num(1)]), ([num(0)], [num(12)])]
    if tier == "quick":
        times = times[:4]
    for mi, ho in times:
        for d in range(1, 8):
            cases.append(mk(mi, ho, dow=[{"k": "dL", "a": d}]))
            cases.append(mk(mi, ho, dow=[num(d)]))
            for n in ([1, 5] if tier == "quick" else [1, 2, 3, 4, 5]):
                cases.append(mk(mi, ho, dow=[{"k": "nth", "a": d, "b": n}]))
        cases.append(mk(mi, ho, dom=[{"k": "L"}]))
        for d in (1, 28, 29, 30, 31):
            cases.append(mk(mi, ho, dom=[num(d)]))
        cases.append(mk(mi, ho, dom=[rng(1, 31, 2, True)]))
        cases.append(mk(mi, ho, dom=[rng(2, 30, 2, True)]))
        cases.append(mk(mi, ho, dom=[every(10)]))
        cases.append(mk(mi, ho, dom=[num(15), {"k": "L"}], dow=[num(2), num(7)]))       # OR rule
        cases.append(mk(mi, ho, dom=[num(31)], dow=[{"k": "dL", "a": 5}]))               # OR rule with dL
        cases.append(mk(mi, ho, dom=[{"k": "L"}], mon=[every(3)]))
        cases.append(mk(mi, ho, mon=[rng(2, 4)], dow=[rng(6, 7)]))
        cases.append(mk(mi, ho, mon=[num(2)], dom=[num(29)]))
    cases.append(mk([every(15)], [rng(1, 23, 2, True)]))
    cases.append(mk([rng(2, 58, 7, True)], [every(6)]))
    cases.append(mk([num(0), num(59)], [num(0), num(23)], dow=[rng(1, 5)]))
    cases.append(mk([every(59)], [every(23)], dom=[every(31)], mon=[every(12)]))
    cases.append(mk([rng(0, 59)], [num(3)], dom=[num(1)]))
    return cases


def random_cases(rng_, n):
    out = []
    def rfield(name, lo, hi):
        if rng_.random() < 0.35:
            return "*"
        items = []
        for _ in range(rng_.choice([1, 1, 2, 3])):
            k = rng_.random()
            if k < 0.4:
                items.append(num(rng_.randint(lo, hi)))
            elif k < 0.65:
                a = rng_.randint(lo, hi); b = rng_.randint(a, hi)
                if name in ("mon", "dow") or rng_.random() < 0.5:
                    items.append(rng(a, b))
                else:
                    items.append(rng(a, b, rng_.randint(1, max(1, (hi - lo) // 2)), True))
            elif k < 0.8 and name != "dow":
                items.append(every(rng_.randint(1, hi)))
            elif name == "dom":
                items.append({"k": "L"})
            elif name == "dow":
                items.append(rng_.choice([{"k": "dL", "a": rng_.randint(1, 7)}, {"k": "nth", "a": rng_.randint(1, 7), "b": rng_.randint(1, 5)}]))
            else:
                items.append(num(rng_.randint(lo, hi)))
        return items
    for _ in range(n):
        out.append(mk(rfield("min", 0, 59), rfield("hour", 0, 23), rfield("dom", 1, 31), rfield("mon", 1, 12), rfield("dow", 1, 7)))
    return out


def invalid_cases(rng_):
    """the complement grammar: every one of these must be rejected by AddJob (or accepted exactly when the model says it is valid)"""
    out = []
    def bad(**kw):
        c = mk(**kw); out.append(c)
    bad(min=[num(60)]); bad(hour=[num(24)]); bad(dom=[num(0)]); bad(dom=[num(32)]); bad(mon=[num(0)]); bad(mon=[num(13)])
    bad(dow=[num(0)]); bad(dow=[num(8)]); bad(min=[rng(30, 10)]); bad(hour=[rng(5, 4)]); bad(min=[every(0)]); bad(min=[every(60)])
    bad(hour=[every(24)]); bad(dom=[rng(1, 32)]); bad(min=[rng(0, 59, 0, True)]); bad(min=[rng(0, 59, 60, True)])
    bad(dow=[{"k": "nth", "a": 1, "b": 6}]); bad(dow=[{"k": "nth", "a": 8, "b": 1}]); bad(dow=[{"k": "nth", "a": 0, "b": 4}])
    bad(dow=[{"k": "dL", "a": 8}]); bad(dow=[{"k": "dL", "a": 0}])
    bad(min=[{"k": "L"}]); bad(hour=[{"k": "L"}]); bad(mon=[{"k": "L"}]); bad(dom=[{"k": "dL", "a": 3}]); bad(min=[{"k": "nth", "a": 2, "b": 2}])
    bad(mon=[rng(1, 12, 2, True)]); bad(mon=[rng(1, 12, 1, True)]); bad(dow=[rng(1, 5, 1, True)]); bad(dow=[rng(1, 7, 2, True)]); bad(dow=[every(2)])
    # syntactically broken strings (the structured form is irrelevant: wellformed = FALSE)
    for s in ["* * * *", "* * * * * *", "", "a * * * *", "1,,2 * * * *", "*,5 * * * *", "*/x * * * *", "1-2-3 * * * *", "-1 * * * *", "1 2 3 4 5 6",
              "* * * * #1", "* * * * 1#", "* * L-1 * *", "@yearly", "* * * * 1,8", "5/2 * * * *", "* * ? * *", "1.5 * * * *"]:
        c = mk(); c["str"] = s; c["spec"]["wellformed"] = False; out.append(c)
    # valid edge cases next to them
    out += [mk(min=[num(59)]), mk(hour=[num(23)]), mk(dom=[num(31)]), mk(mon=[num(12)]), mk(dow=[num(7)]), mk(min=[every(59)]), mk(min=[every(1)]),
            mk(dow=[{"k": "nth", "a": 7, "b": 5}]), mk(dow=[{"k": "dL", "a": 7}]), mk(dom=[rng(31, 31)]), mk(min=[rng(0, 59, 59, True)])]
    for s in ["@hourly", "@daily", "@monthly", "@weekly"]:
        pass
    return out


def windows(tier):
    w = [
        {"zone": "UTC", "from": "2024-02-20", "days": 20},            # 29 February, month end
        {"zone": "Europe/Berlin", "from": "2024-03-18", "days": 18},   # spring forward 31 March 02:00 -> 03:00, last weekdays of March
        {"zone": "Europe/Berlin", "from": "2024-10-20", "days": 14},   # fall back 27 October 03:00 -> 02:00
        {"zone": "America/New_York", "from": "2023-12-24", "days": 14},  # year end
    ]
    if tier == "thorough":
        w += [
            {"zone": "America/New_York", "from": "2024-03-03", "days": 14}, {"zone": "America/New_York", "from": "2024-10-27", "days": 14},
            {"zone": "Australia/Lord_Howe", "from": "2024-03-30", "days": 12}, {"zone": "Australia/Lord_Howe", "from": "2024-09-28", "days": 12},
            {"zone": "Asia/Kolkata", "from": "2025-01-25", "days": 40},
            {"zone": "UTC", "from": "2023-01-01", "days": 366}, {"zone": "Europe/Berlin", "from": "2025-01-01", "days": 365},
        ]
    return w


def shard_validate(w, trace, clauses, nshard):
    lines = open(trace).read().splitlines()
    shards = [lines[i::nshard] for i in range(nshard)]
    def one(i):
        if not shards[i]:
            return [], 0
        tf = "cron_shard_%d.ndjson" % i
        open(os.path.join(w, tf), "w").write("\n".join(shards[i]) + "\n")
        name = "MC_Cron_%d" % i
        fam.write_mc(w, name, "Cron", {}, {"TraceFile": '"%s"' % tf, "Checks": fam.tla_set(clauses)}, constraint="HWM", postcondition="TraceAccepted")
        r = vlib.run_tlc(w, name + ".tla", name + ".cfg", workers=1, timeout=3000)
        if re.search(r'TRACE_REJECTED_AT_LINE', r.out):
            raise vlib.Infra("Cron.tla could not consume shard %d: %s" % (i, r.out[-800:]))
        hits = [(m.group(1), shards[i][int(m.group(2)) - 1]) for m in re.finditer(r'"CLAUSE_VIOLATED", "(\w+)", "LINE", (\d+)', r.out)]
        if r.rc != 0 and not hits:
            raise vlib.Infra("Cron validation failed: %s" % (r.error or r.out[-1500:]))
        return hits, r.distinct
    with cf.ThreadPoolExecutor(max_workers=nshard) as ex:
        res = list(ex.map(one, range(nshard)))
    return [h for hs, _ in res for h in hs], sum(s for _, s in res)


def classify(clause, e):
    """known findings by exact (spec string, zone, date)"""
    inst = json.load(open(os.path.join(vlib.VERIF, "known_findings_cron.json")))
    key = json.dumps([clause, e.get("str"), e.get("zone"), e.get("y"), e.get("m"), e.get("d")])
    rec = os.environ.get("VERIF_RECORD_KNOWN")
    if rec:
        with open(rec, "a") as f:
            f.write(key + "\n")
    for k in vlib.load_known():
        if k.get("status") == "open" and "C20" in k.get("property", []) and key in inst.get(k["id"], []):
            return k
    return None


def main(prop, tier):
    t0 = time.time(); seed = vlib.seed(); rng_ = random.Random(seed)
    w = vlib.scratch("cron_")
    try:
        vh, _ = vlib.build_harness(w)
        vlib.stage_spec(w)
        cases = systematic(tier) + random_cases(rng_, 60 if tier == "quick" else 400) + invalid_cases(rng_)
        json.dump({"cases": cases, "windows": windows(tier)}, open(os.path.join(w, "cron_in.json"), "w"))
        trace = os.path.join(w, "cron_trace.ndjson")
        rc, so, se, to = vlib.run_vh(vh, ["cron", "-in", os.path.join(w, "cron_in.json"), "-out", trace, "-node", "vhcron%d@localhost" % os.getpid()], timeout=3000)
        if rc != 0 or to:
            raise vlib.Infra("cron harness failed rc=%s: %s" % (rc, (se or so)[-1500:]))
        hs = json.loads(so.strip().splitlines()[-1])
        hits, tstates = shard_validate(w, trace, ["FiresIffMatches", "RejectsInvalid"], 12)
        # scheduler model and scheduler histories on the real node
        sched = sched_model(w)
        shits, shs, shists = run_sched(tier, w, vh, rng_)
        sched["histories_on_real_node"] = shs
        violations = []; knownhits = {}
        byid = {h["id"]: h for h in shists}
        for clause, e in shits:
            violations.append({"clause": clause, "line": e, "history": byid.get(e["p"])})
        for clause, line in hits:
            e = json.loads(line)
            k = classify(clause, e)
            v = {"clause": clause, "line": {k2: e[k2] for k2 in ("ev", "str", "zone", "y", "m", "d", "regular", "reported", "accepted") if k2 in e}, "history": None}
            if k:
                knownhits.setdefault(k["id"], []).append(v)
            else:
                violations.append(v)
        nlines = sum(1 for _ in open(trace))
        sample = [json.loads(x) for x in open(trace).read().splitlines()[:2000:500]]
        for s in sample:
            s.pop("spec", None)
        cov = {"states": max(sched["states"], 1), "transitions": max(sched["transitions"], 1),
               "traces_validated_against_impl": nlines - len(hits) + shs["hists"] - len({e["p"] for _, e in shits}),
               "samples": sample + [c["str"] for c in cases[:40:8]],
               "specifications": hs["cases"], "accepted_by_addjob": hs["accepted"], "spec_days": hs["days"], "minute_decisions": hs["minutes"],
               "fired_minutes": hs["fired"], "zones": sorted({x["zone"] for x in windows(tier)}), "windows": windows(tier),
               "known_findings_reproduced": {k: len(v) for k, v in knownhits.items()}, "scheduler_model": sched, "exhaustive": False}
        assumptions = ["Go's time package (zone rules, local <-> UTC) is trusted; the TLA+ calendar arithmetic decides day of week, month length, last/n-th weekday",
                       "specifications come from the grammar (lists of <= 3 items per field); the semantics is evaluated per (specification, local day)",
                       "the scheduler (spool / next / timer) is model-checked on spec/CronSched.tla; on the real node only the spool after each management call is observed in the quick tier"]
        vlib.write_evidence(prop, tier, "model_checking", cov, assumptions, time.time() - t0, violations=len(violations))
        for kid, vs in knownhits.items():
            k = [x for x in vlib.load_known() if x["id"] == kid][0]
            print("KNOWN-FINDING: property=%s %s (%d instances, e.g. %s)" % (prop, k["line"], len(vs), json.dumps(vs[0]["line"])[:200]))
        for v in violations[:20]:
            path = vlib.save_replay(prop, "cron_%s_%d" % (v["clause"], violations.index(v)), v)
            print("VIOLATION property=%s replay=%s" % (prop, path))
            print("  clause %s: %s %s" % (v["clause"], json.dumps(v["line"])[:500], json.dumps(v.get("history"))[:400] if v.get("history") else ""))
        print("%s %s: %d specifications, %d (spec, day) records = %d minute decisions validated by the TLA+ semantics, %d violations, %d known-finding instances, %.0fs" %
              (prop, tier, hs["cases"], hs["days"], hs["minutes"], len(violations), sum(len(v) for v in knownhits.values()), time.time() - t0))
        return 1 if violations else 0
    finally:
        if not os.environ.get("VERIF_KEEP"):
            shutil.rmtree(w, ignore_errors=True)


def sched_histories(tier, rng_):
    hists = []; hid = 0
    jobs = ["j1", "j2"]
    # systematic: every pair of operations on one job after an add, both "due" settings
    for due in (True, False):
        for a in ("disable", "enable", "remove", "add"):
            for b in ("disable", "enable", "remove", "add"):
                for c in ("enable", "disable"):
                    hid += 1
                    hists.append({"id": hid, "ops": [{"op": "add", "job": "j1", "due": due}, {"op": a, "job": "j1", "due": due}, {"op": b, "job": "j1", "due": due},
                                                     {"op": c, "job": "j1", "due": due}]})
    for _ in range(150 if tier == "quick" else 1500):
        hid += 1
        ops = []
        for _ in range(rng_.randint(2, 7)):
            ops.append({"op": rng_.choice(["add", "add", "remove", "enable", "disable", "disable"]), "job": rng_.choice(jobs), "due": rng_.random() < 0.6})
        hists.append({"id": hid, "ops": ops})
    return hists


def timed_histories():
    """across real minute boundaries: who fires at the tick (each history runs in its own node process, in parallel)"""
    T = {"op": "tick", "job": "", "due": False}
    def A(j, due=True): return {"op": "add", "job": j, "due": due}
    def D(j): return {"op": "disable", "job": j, "due": True}
    def E(j): return {"op": "enable", "job": j, "due": True}
    def R(j): return {"op": "remove", "job": j, "due": True}
    return [
        {"id": 900001, "ops": [A("j1"), A("j2"), D("j2"), E("j2"), T, D("j1"), T]},          # disable+enable within a minute: once
        {"id": 900002, "ops": [A("j1"), D("j1"), T, E("j1"), T]},                              # disabled over a tick, enabled again: fires at the next one
        {"id": 900003, "ops": [A("j1"), A("j2", False), R("j1"), A("j1"), T, R("j2"), A("j2"), T]},
        {"id": 900004, "ops": [T, A("j1"), D("j1"), E("j1"), D("j1"), E("j1"), T, R("j1"), T]},
    ]


    return hists


def run_sched(tier, w, vh, rng_):
    hists = sched_histories(tier, rng_)
    json.dump({"hists": hists}, open(os.path.join(w, "sched_in.json"), "w"))
    trace = os.path.join(w, "sched_trace.ndjson")
    timed = timed_histories() if tier == "thorough" else []
    def one_timed(h):
        fin = os.path.join(w, "sched_in_%d.json" % h["id"]); fout = os.path.join(w, "sched_trace_%d.ndjson" % h["id"])
        json.dump({"hists": [h]}, open(fin, "w"))
        rc, so, se, to = vlib.run_vh(vh, ["cronsched", "-in", fin, "-out", fout, "-node", "vhcrt%d_%d@localhost" % (os.getpid(), h["id"])], timeout=900)
        if rc != 0 or to:
            raise vlib.Infra("cronsched (timed) failed rc=%s: %s" % (rc, (se or so)[-1500:]))
        return fout
    with cf.ThreadPoolExecutor(max_workers=max(1, len(timed) + 1)) as ex:
        tf = [ex.submit(one_timed, h) for h in timed]
        rc, so, se, to = vlib.run_vh(vh, ["cronsched", "-in", os.path.join(w, "sched_in.json"), "-out", trace, "-node", "vhcrs%d@localhost" % os.getpid()], timeout=600)
        if rc != 0 or to:
            raise vlib.Infra("cronsched harness failed rc=%s: %s" % (rc, (se or so)[-1500:]))
        hs = json.loads(so.strip().splitlines()[-1])
        with open(trace, "a") as f:
            for t in tf:
                f.write(open(t.result()).read())
        hs["timed_histories"] = len(timed)
    hists = hists + timed
    fam.write_mc(w, "MC_CronSchedT", "CronSched_Trace", {}, {"Jobs": '{"j1", "j2"}', "MaxTick": "5", "MaxOps": "1000000", "Fix_NextInit": "TRUE", "Fix_Respool": "TRUE",
                                                             "TraceFile": '"sched_trace.ndjson"', "Checks": '{"Result", "NextSet", "SpoolMatches", "FiredMatches"}'},
                 spec="TraceSpec", constraint="HWM", postcondition="TraceAccepted")
    r = vlib.run_tlc(w, "MC_CronSchedT.tla", "MC_CronSchedT.cfg", workers=1, timeout=900)
    if re.search(r'TRACE_REJECTED_AT_LINE', r.out):
        raise vlib.Infra("CronSched_Trace could not consume the trace: %s" % r.out[-800:])
    lines = open(trace).read().splitlines()
    hits = [(m.group(1), json.loads(lines[int(m.group(2)) - 1])) for m in re.finditer(r'"CLAUSE_VIOLATED", "(\w+)", "LINE", (\d+)', r.out)]
    if r.rc != 0 and not hits:
        raise vlib.Infra("CronSched_Trace failed: %s" % (r.error or r.out[-1500:]))
    return hits, hs, hists


def sched_model(w):
    out = {"states": 0, "transitions": 0}
    if not os.path.exists(os.path.join(w, "CronSched.tla")):
        return out
    fam.write_mc(w, "MC_CronSched", "CronSched", {}, {"Jobs": '{"j1", "j2"}', "MaxTick": "2", "MaxOps": "4", "Fix_NextInit": "TRUE", "Fix_Respool": "TRUE"},
                 invariants=["OnlyMatching", "AtMostOnce", "OnlyEnabled", "DueIsSpooled"])
    r = vlib.run_tlc(w, "MC_CronSched.tla", "MC_CronSched.cfg", workers=4, timeout=600)
    if not r.ok():
        raise vlib.Infra("CronSched: %s %s" % (r.violated, r.error or r.out[-1200:]))
    out["states"] = r.distinct; out["transitions"] = r.generated
    return out


if __name__ == "__main__":
    try:
        sys.exit(main(sys.argv[1], sys.argv[2]))
    except vlib.Infra as e:
        print("INFRA: %s" % e)
        sys.exit(2)
