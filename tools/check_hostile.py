"""Check C16 (hostile input safety of the frame parser, the decoder and the handshake reader).

Design side: spec/Frame.tla - the frame reader state machine under every segmentation of the byte stream and with lying length
fields; FramesPreserved / AllDelivered / NoCrash hold for the repaired design and TLC must find the crash for the former one
(declared length shorter than the header).
Code side: mutated frames injected into an established connection of a live node (a witness connection and local processes must stay
served), mutated encodings fed to the real decoder; spec/Hostile.tla judges every recorded case.  Garbage and truncated handshake
messages against a real acceptor are part of C15's replay cases."""
import json, os, random, re, shutil, sys, time
sys.path.insert(0, os.path.dirname(os.path.abspath(__file__)))
import vlib, fam

CLAUSES = ["LocalUnaffected", "OthersUnaffected", "NoHang", "QueueNotStuck", "AllocBounded", "DecoderNoPanic", "ReencodeStable"]
FRAMES = ["pid", "name", "alias", "call", "callname", "exit", "any", "z"]
VALUES = ["int", "string", "binary", "atom", "float", "pid", "ref", "alias", "slice", "slice2", "map", "mapany", "anys", "struct", "named", "namedmap", "namedarr", "anynamed", "zeroarr", "error", "time", "array", "array2", "array3", "nested", "bool"]
TYPES = [0, 1, 100, 101, 102, 103, 104, 105, 106, 107, 121, 122, 123, 124, 129, 130, 181, 182, 183, 184, 185, 186, 199, 200, 201, 202, 203, 250, 255]

FRAME_CFGS = [  # (name, Lens, Decl, MaxMsg, Fix, invariant expected to be violated or None)
    ("honest", "<<8, 9, 12>>", "<<8, 9, 12>>", 0, "TRUE", None),
    ("honest4", "<<9, 8, 10, 8>>", "<<9, 8, 10, 8>>", 0, "TRUE", None),
    ("limit", "<<8, 9, 12>>", "<<8, 9, 12>>", 10, "TRUE", None),
    ("short", "<<8, 9, 12>>", "<<8, 3, 12>>", 0, "TRUE", None),
    ("zero", "<<8, 9, 12>>", "<<8, 0, 12>>", 0, "TRUE", None),
    ("long", "<<8, 9, 12>>", "<<8, 11, 12>>", 0, "TRUE", None),
    ("huge", "<<8, 9, 12>>", "<<8, 40, 12>>", 20, "TRUE", None),
    ("short_pinned", "<<8, 9, 12>>", "<<8, 3, 12>>", 0, "FALSE", "NoCrash"),
    ("zero_pinned", "<<8, 9, 12>>", "<<8, 0, 12>>", 0, "FALSE", "NoCrash"),
]


def model(w):
    st = tr = 0
    for name, lens, decl, mx, fix, expect in FRAME_CFGS:
        mc = "MC_Frame_" + name
        fam.write_mc(w, mc, "Frame", {"MC_Lens": lens, "MC_Decl": decl}, {"Lens": "<- MC_Lens", "Decl": "<- MC_Decl", "MaxMsg": str(mx), "FixShortFrame": fix},
                     invariants=["FramesPreserved", "AllDelivered", "OverLimitCloses", "NoCrash"], spec="Spec")
        r = vlib.run_tlc(w, mc + ".tla", mc + ".cfg", workers=4, timeout=300)
        viol = re.search(r'Invariant (\w+) is violated', r.out)
        if not viol and r.rc != 0:
            raise vlib.Infra("Frame %s: TLC failed: %s" % (name, r.error or r.out[-600:]))
        got = viol.group(1) if viol else None
        if got != expect:
            raise vlib.Infra("Frame %s: %s, expected %s" % (name, "violates " + got if got else "holds", "a violation of " + expect if expect else "to hold"))
        st += r.distinct; tr += r.generated
    return st, tr


def cases(tier, rng):
    live = []; edf = []
    def L(frame, mut, arg, mx=0):
        live.append({"id": len(live) + 1, "frame": frame, "mut": mut, "arg": arg, "max": mx})
    for fr in FRAMES:
        L(fr, "lenrel", 0)
        for v in (0, 1, 6, 7, 8, 9, 0x7fffffff, 0xffffffff) if (tier == "thorough" or fr in ("pid", "any", "z")) else (0, 7, 8):
            L(fr, "len", v)
        for d in (-1, 1, 1000) if (tier == "thorough" or fr in ("pid", "call")) else (1,):
            L(fr, "lenrel", d)
        L(fr, "len", 70000, 65000)
        L(fr, "magic", rng.choice([0, 77, 79, 87, 255]))
        L(fr, "version", rng.choice([0, 2, 255]))
        for t in (TYPES if tier == "thorough" else rng.sample(TYPES, 5)):
            L(fr, "type", t)
        for cut in (range(8, 60) if tier == "thorough" else rng.sample(range(8, 60), 8)):
            L(fr, "trunc", cut)
        for k in range(60 if tier == "thorough" else 4):
            L(fr, "flip", rng.randint(0, 10000))
    for sz in (0, 1, 100, 2999, 3001, 10 ** 6, 10 ** 8):
        L("z", "zsize", sz)
    for k in (0, 1, 99, 100, 101, 102, 103, 255):
        L("z", "zkind", k)
    for k in range(600 if tier == "thorough" else 12):
        L("pid", "raw", rng.randint(0, 100000))
    hs = []
    def H(msg, mut, arg=0, dir="up"):
        hs.append({"id": 200000 + len(hs), "dir": dir, "msg": msg, "mut": mut, "arg": arg})
    H(2, "none"); H(2, "nilerr"); H(1, "none")
    for off in (range(0, 160) if tier == "thorough" else rng.sample(range(0, 160), 10)):
        H(1, "flip", off)
    for off in (list(range(0, 400)) + [rng.randint(400, 7000) for _ in range(200)] if tier == "thorough" else rng.sample(range(0, 400), 16) + [rng.randint(400, 7000) for _ in range(8)]):
        H(2, "flip", off)
    for cut in ((0, 1, 2, 5, 50, 100, 500, 3000) if tier == "thorough" else (0, 50, 3000)):
        H(2, "cut", cut); H(1, "cut", min(cut, 100))
    # the acceptor's messages altered on their way to the dialer: Hello, Accept (pool size, addresses), Introduce
    for msg, span in ((1, 160), (2, 120), (3, 400)):
        H(msg, "none", dir="down")
        for off in (range(0, span) if tier == "thorough" else rng.sample(range(0, span), 10)):
            H(msg, "flip", off, dir="down")
        H(msg, "cut", 0, dir="down"); H(msg, "cut", 30, dir="down")
    H(3, "nilerr", dir="down")
    # (the pool size announced in the Accept message sits at payload offsets 78 - 85)
    for off in range(76, 90):
        H(2, "flip", off, dir="down")
    def E(value, mut, arg, arg2=0):
        edf.append({"id": 100000 + len(edf), "value": value, "mut": mut, "arg": arg, "arg2": arg2})
    for v in VALUES:
        E(v, "none", 0)
        rngpos = range(0, 260) if tier == "thorough" else sorted(rng.sample(range(0, 130), 24))
        for pos in rngpos:
            E(v, "trunc", pos)
            E(v, "setff", pos, 0); E(v, "setff", pos, 1)
            E(v, "set00", pos)
            if pos < 16:
                E(v, "ffapp", pos, 1)
            if v in ("array2", "array3", "slice2", "nested"):
                for d in (1, 2, 3, 4, 5, 6, 7, 8):
                    E(v, "setff2", pos, d)
            for t in (range(0, 22) if tier == "thorough" else rng.sample(range(0, 22), 3)):
                E(v, "tag", pos, t)
        for pos in (range(0, 40) if tier == "thorough" else rng.sample(range(0, 40), 4)):
            E(v, "dup", pos)
    return live, edf, hs


def main(prop, tier):
    t0 = time.time(); seed = vlib.seed(); rng = random.Random(seed)
    w = vlib.scratch("host_")
    try:
        vh, _ = vlib.build_harness(w)
        vlib.stage_spec(w)
        mst, mtr = model(w)
        live, edf, hs = cases(tier, rng)
        nshard = 12
        shards = [{"live": live[i::nshard], "edf": edf[i::nshard], "hs": hs[i::nshard]} for i in range(nshard)]
        import concurrent.futures as cf
        def run(i):
            inp = os.path.join(w, "host_in_%d.json" % i); out = os.path.join(w, "host_trace_%d.ndjson" % i)
            json.dump(shards[i], open(inp, "w"))
            rc, so, se, to = vlib.run_vh(vh, ["nethostile", "-in", inp, "-out", out], timeout=3000)
            return i, rc, so, se, to
        crashes = []
        with cf.ThreadPoolExecutor(nshard) as ex:
            for i, rc, so, se, to in ex.map(run, range(nshard)):
                if rc != 0 or to:
                    if vlib.crashed_in_repo(se):
                        last = [x for x in se.splitlines() if x.startswith("LIVE ")]
                        crashes.append({"clause": "NoCrash", "case": last[-1] if last else "?", "stderr": se[-3000:]})
                        continue
                    raise vlib.Infra("nethostile harness failed rc=%s: %s" % (rc, (se or so)[-1500:]))
        if crashes:
            for c in crashes[:5]:
                path = vlib.save_replay(prop, "host_crash", c)
                print("VIOLATION property=%s replay=%s" % (prop, path))
                m = re.search(r'^(panic:.*|fatal error:.*)$', c["stderr"], re.M)
                print("  clause NoCrash: the node process died while handling injected case '%s': %s" % (c["case"], m.group(1) if m else ""))
            vlib.write_evidence(prop, tier, "exploration", {"states": max(mst, 1), "transitions": max(mtr, 1), "traces_validated_against_impl": 0}, [], time.time() - t0, violations=len(crashes))
            return 1
        lines = []
        for i in range(nshard):
            p = os.path.join(w, "host_trace_%d.ndjson" % i)
            if os.path.exists(p):
                lines += open(p).read().splitlines()
        open(os.path.join(w, "host_trace.ndjson"), "w").write("\n".join(lines) + "\n")
        notfound = sum(1 for x in lines if '"ev":"live"' in x and not json.loads(x)["found"])
        if notfound > len(live) // 4:
            raise vlib.Infra("%d of %d live cases did not find their honest frame in the recording" % (notfound, len(live)))
        fam.write_mc(w, "MC_HostileT", "Hostile", {}, {"TraceFile": '"host_trace.ndjson"', "Checks": fam.tla_set(CLAUSES)}, constraint="HWM", postcondition="TraceAccepted")
        r = vlib.run_tlc(w, "MC_HostileT.tla", "MC_HostileT.cfg", workers=1, timeout=3000)
        if re.search(r'TRACE_REJECTED_AT_LINE', r.out):
            raise vlib.Infra("Hostile.tla could not consume the trace: %s" % r.out[-800:])
        hits = [(m.group(1), int(m.group(2))) for m in re.finditer(r'"CLAUSE_VIOLATED", "(\w+)", "LINE", (\d+)', r.out)]
        if r.rc != 0 and not hits:
            raise vlib.Infra("Hostile validation failed: %s" % (r.error or r.out[-1500:]))
        known = {f["id"]: f for f in vlib.load_known()}
        violations = []; kf = {}
        for clause, line in hits:
            e = json.loads(lines[line - 1])
            v = {"clause": clause, "line": e}
            if clause in ("AllocBounded", "NoHang", "QueueNotStuck") and e["ev"] == "live" and e.get("itype") == 200 and known.get("P12b", {}).get("status") == "open":
                kf.setdefault("P12b", []).append(v); continue
            if clause == "ReencodeStable" and e["ev"] == "edf" and e.get("zeroelem") and known.get("P30b", {}).get("status") == "open":
                kf.setdefault("P30b", []).append(v); continue
            violations.append(v)
        total = len(live) + len(edf) + len(hs)
        outcomes = {}
        for x in lines:
            e = json.loads(x)
            if e["ev"] == "edf":
                outcomes[e["outcome"]] = outcomes.get(e["outcome"], 0) + 1
        seen = set(); nontrivial = 0
        for x in lines:
            e = json.loads(x)
            if not e.get("changed") or (e["ev"] == "live" and not e["found"]):
                continue
            key = (e["ev"], e["l"]["frame"] if e["ev"] == "live" else e["e"]["value"], e["hash"], e["l"]["max"] if e["ev"] == "live" else 0)
            if key not in seen:
                seen.add(key); nontrivial += 1
        cov = {"evaluations": total, "distinct_nontrivial": nontrivial,
               "rule": "cases come from the mutation grammar (systematic positions and values per tier, plus seeded random frames); a case counts as non-trivial and distinct when the bytes "
                       "actually injected / decoded differ from the honest ones and their hash (with the frame kind or corpus value) was not seen before in this run",
               "states": max(r.distinct + mst, 1), "transitions": max(r.generated + mtr, 1), "traces_validated_against_impl": total - len(violations),
               "samples": [live[0], edf[rng.randrange(len(edf))]], "live_cases": len(live), "decoder_cases": len(edf), "handshake_tamper_cases": len(hs), "decoder_outcomes": outcomes,
               "live_cases_without_their_frame": notfound, "clauses": CLAUSES + ["NoCrash"], "exhaustive": False}
        assumptions = ["the mutation grammar: length field (absolute and relative values), magic, version, type byte, truncation at every offset 8-59, body byte flips, compressed-envelope size and method, random frames; decoder: truncation, 0xff / 0x00 at every offset < 130, type tags, duplicated tails",
                       "memory: live cases - high-water mark of the live heap above its level before the injection (sampled every 3 ms until the witness requests are done); decoder cases - bytes allocated by the call; limit 64 x input + 32 MiB",
                       "inputs outside the grammar are not covered; the handshake reader is attacked in C15's replay cases"]
        vlib.write_evidence(prop, tier, "exploration", cov, assumptions, time.time() - t0, violations=len(violations))
        for k, items in sorted(kf.items()):
            e = items[0]["line"]
            eg = ("declared size %d for %d bytes: %d KiB allocated" % (e["l"]["arg"], e["injected"], e["allockb"])) if e["ev"] == "live" else ("value %s mutation %s(%s)" % (e["e"]["value"], e["e"]["mut"], e["e"]["arg"]))
            print("KNOWN-FINDING: property=%s %s %s (%d case(s), e.g. %s)" % (prop, k, known[k]["line"].split(" ", 3)[-1][:220], len(items), eg))
        for v in violations[:10]:
            e = v["line"]
            path = vlib.save_replay(prop, "host_%s_%s" % (e["p"], v["clause"]), v)
            print("VIOLATION property=%s replay=%s" % (prop, path))
            if e["ev"] == "hs":
                print("  clause %s: handshake message %s (direction %s) altered on the path (%s %s): connection up=%s, local=%s witness=%s" % (v["clause"], e["h"]["msg"], e["h"].get("dir") or "up", e["h"]["mut"], e["h"]["arg"], e["connup"], e["local"], e["witness"]))
            elif e["ev"] == "live":
                print("  clause %s: frame %s mutation %s(%s) max=%s: %d bytes injected; local=%s witness=%s node=%s conn_up=%s alloc=%d KiB %d ms" % (v["clause"], e["l"]["frame"], e["l"]["mut"], e["l"]["arg"], e["l"]["max"], e["injected"], e["local"], e["witness"], e["nodeok"], e["connup"], e["allockb"], e["ms"]))
            else:
                print("  clause %s: value %s mutation %s(%s,%s): %d bytes -> %s stable=%s alloc=%d KiB" % (v["clause"], e["e"]["value"], e["e"]["mut"], e["e"]["arg"], e["e"]["arg2"], e["len"], e["outcome"], e["stable"], e["allockb"]))
        print("%s %s: %d live cases + %d handshake cases + %d decoder cases, %d validated against spec/Hostile.tla, %d violations, %.0fs" % (prop, tier, len(live), len(hs), len(edf), total - len(violations), len(violations), time.time() - t0))
        return 1 if violations else 0
    finally:
        if not os.environ.get("VERIF_KEEP"):
            shutil.rmtree(w, ignore_errors=True)


if __name__ == "__main__":
    try:
        sys.exit(main(sys.argv[1], sys.argv[2]))
    except vlib.Infra as e:
        print("INFRA: %s" % e)
        sys.exit(2)
