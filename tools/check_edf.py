"""Check C11 (EDF round trip).

Design side: spec/EDF.tla is a model codec of the wire format (folded type descriptors, registered names / cache ids, ids sharing a
field with lengths, nil markers) over an abstract value grammar; spec/EDF_Model.tla lets TLC check the round-trip law and the exact set
of refused values for every case of a bounded universe x 5 cache configurations.  The former string decoder (2 + l in 16 bits) and the
former error decoder (text used as a format string) are switches: TLC must find both counterexamples.
Code side: TLC writes the universe out; the harness builds every case as a real Go value (the registered types of the specification are
derived by reflection from the harness's Go types), runs the real edf.Encode / edf.Decode under cache configurations built the way
net/handshake builds them, and spec/EDF_Trace.tla judges every observation.  Seeded random deeper cases are added and also checked on
the model by the trace specification."""
import json, os, random, re, shutil, sys, time, concurrent.futures as cf
sys.path.insert(0, os.path.dirname(os.path.abspath(__file__)))
import vlib, fam

CLAUSES = ["RoundTrip", "ExactConsumption", "WarmCaches", "RejectsUnrepresentable"]
NUM = ["i8", "i16", "i32", "i64", "int", "u8", "u16", "u32", "u64", "uint"]
LEAVES = ["bool"] + NUM + ["f32", "f64", "str", "bin", "atom", "pid", "procid", "alias", "event", "ref", "time", "err", "any"]


def mc_cfg(w, name, depth, fix_str, fix_err, cases_out):
    open(os.path.join(w, name + ".tla"), "w").write("---- MODULE %s ----\nEXTENDS EDF_Model\n====\n" % name)
    open(os.path.join(w, name + ".cfg"), "w").write("\n".join([
        "SPECIFICATION Spec", "CONSTANTS", ' TableFile = "edf_table.json"', " Fix_StrLen = %s" % fix_str, " Fix_ErrText = %s" % fix_err,
        " Depth = %d" % depth, ' CasesOut = "%s"' % cases_out, "INVARIANTS", " LawRoundTrip", " LawRejects", "POSTCONDITION DumpCases", "CHECK_DEADLOCK FALSE"]) + "\n")


def model(w, depth):
    mc_cfg(w, "MC_EDF", depth, "TRUE", "TRUE", "edfu")
    r = vlib.run_tlc(w, "MC_EDF.tla", "MC_EDF.cfg", workers=14, timeout=5400)
    if not r.ok():
        raise vlib.Infra("EDF model: %s" % (("violates " + r.violated) if r.violated else (r.error or r.out[-800:])))
    st, tr = r.distinct, r.generated
    for name, a, b in (("MC_EDF_str", "FALSE", "TRUE"), ("MC_EDF_err", "TRUE", "FALSE")):
        mc_cfg(w, name, 0, a, b, "")
        f = vlib.run_tlc(w, name + ".tla", name + ".cfg", workers=8, timeout=1200)
        if f.violated != "LawRoundTrip":
            raise vlib.Infra("EDF model %s: the former decoder must violate LawRoundTrip, got %s" % (name, f.violated or f.error or "no violation"))
        st += f.distinct; tr += f.generated
    return st, tr


# ---- seeded random cases beyond the enumerated universe (same term language)

class Gen:
    def __init__(self, rng, table):
        self.r = rng; self.tab = table["types"]; self.meta = table["meta"]
        self.keyable = [{"k": k} for k in ("str", "i16", "u64", "atom", "bool", "any", "i8", "u32")] + [{"k": "reg", "name": n} for n in ("NStr", "NI16", "NU64", "Env") if n in self.tab] + [
            {"k": "array", "n": 2, "e": {"k": "i16"}}, {"k": "array", "n": 1, "e": {"k": "str"}}, {"k": "array", "n": 2, "e": {"k": "array", "n": 1, "e": {"k": "u8"}}}]

    def type(self, d):
        r = self.r
        if d <= 0 or r.random() < 0.25:
            if r.random() < 0.35:
                return {"k": "reg", "name": r.choice(sorted(self.tab))}
            return {"k": r.choice(LEAVES)}
        c = r.random()
        if c < 0.4:
            e = self.type(d - 1)
            return {"k": "slice", "e": e if e != {"k": "u8"} else {"k": "u16"}}   # []uint8 is the leaf "bin"
        if c < 0.65:
            return {"k": "array", "n": r.choice([0, 1, 2, 3]), "e": self.type(d - 1)}
        return {"k": "map", "key": r.choice(self.keyable), "e": self.type(d - 1)}

    def length(self, bounds):
        r = self.r
        return r.choice(bounds) if r.random() < 0.5 else r.randint(0, 300)

    def atom(self):
        r = self.r
        return {"c": r.choice(["c1", "c2"])} if r.random() < 0.3 else {"len": r.choice([0, 1, 2, 17, 254, 255, 255, 256]) if r.random() < 0.4 else r.randint(0, 60)}

    def leaf(self, k, d):
        r = self.r
        if k == "bool":
            return {"c": r.choice(["t", "f"])}
        if k in ("i8", "i16", "i32", "i64", "int"):
            return {"c": r.choice(["min", "m1", "max", "pat", "npat", "one", "zero"])}
        if k in ("u8", "u16", "u32", "u64", "uint"):
            return {"c": r.choice(["zero", "max", "pat", "high", "one"])}
        if k in ("f32", "f64"):
            return {"c": r.choice(["zero", "negzero", "nan", "inf", "ninf", "pi", "max", "tiny", "neg", "one"])}
        if k == "str":
            return {"len": self.length([0, 1, 255, 256, 4095, 4096, 32767, 32768, 65533, 65534, 65535, 65536]), "fill": r.choice(["a", "pct", "utf"])}
        if k == "bin":
            return {"nil": True} if r.random() < 0.15 else {"len": self.length([0, 1, 4095, 4096, 4097, 8193, 65535, 65536, 70000])}
        if k == "atom":
            return self.atom()
        if k in ("pid", "alias", "ref"):
            return {"node": self.atom(), "id": r.choice(["zero", "max", "pat", "high", "one"]), "cr": r.choice(["zero", "min", "max", "pat", "m1"])}
        if k in ("procid", "event"):
            return {"node": self.atom(), "name": self.atom()}
        if k == "time":
            return {"c": r.choice(["zero", "utc", "zone", "wzone", "far", "old", "now"])}
        if k == "err":
            c = r.random()
            if c < 0.15:
                return {"nil": True}
            if c < 0.4:
                return {"sentinel": r.choice(sorted(self.meta["errs"]))}
            if c < 0.5:
                return {"wrapped": r.choice(["A", "gen"])}
            return {"text": {"len": self.length([0, 1, 2, 255, 256, 32766, 32767, 32768]), "fill": r.choice(["a", "pct", "utf"])}}
        if k == "any":
            if d <= 0 or r.random() < 0.15:
                return {"nil": True}
            while True:
                t = self.type(d - 1)
                if t["k"] == "any":
                    continue
                v = self.value(t, d - 1)
                if t["k"] == "err" and "nil" in v:
                    continue
                return {"t": t, "v": v}
        raise ValueError(k)

    def keyvals(self, kt, n):
        """n distinct key values of key type kt"""
        out = []; seen = set()
        for _ in range(n * 6):
            if len(out) == n:
                break
            k = kt["k"]; of = self.tab[kt["name"]]["u"]["of"] if k == "reg" else k
            if of == "array":
                v = {"items": [self.keyvals(kt["e"], 1)[0] for _ in range(kt["n"])]}
            elif of == "any":
                t = self.r.choice([{"k": "str"}, {"k": "u8"}, {"k": "atom"}, {"k": "reg", "name": "NI16"}, {"k": "bool"}])
                v = {"t": t, "v": self.keyvals(t, 1)[0]}
            elif of == "str":
                n = self.r.choice([0, 1, 2, 3, 255, 256, 1000, 65535])
                v = {"len": n, "fill": self.r.choice(["a", "utf"]) if n else "a"}
            elif of == "atom":
                v = self.r.choice([{"c": "c1"}, {"c": "c2"}, {"len": 0}, {"len": 1}, {"len": 3}, {"len": 255}])
            elif of == "bool":
                v = {"c": self.r.choice(["t", "f"])}
            elif of in ("i8", "i16", "i32", "i64", "int"):
                v = {"c": self.r.choice(["min", "m1", "max", "pat", "zero"])}
            else:
                v = {"c": self.r.choice(["zero", "max", "pat", "high"])}
            s = json.dumps(v, sort_keys=True)
            if s not in seen:
                seen.add(s); out.append(v)
        return out

    def coll(self, u, d):
        r = self.r
        if u["k"] == "slice":
            if r.random() < 0.15:
                return {"nil": True}
            return {"items": [self.value(u["e"], d - 1) for _ in range(r.choice([0, 1, 1, 2, 3, 5]))]}
        if u["k"] == "array":
            return {"items": [self.value(u["e"], d - 1) for _ in range(u["n"])]}
        if r.random() < 0.15:
            return {"nil": True}
        ks = self.keyvals(u["key"], r.choice([0, 1, 2, 3]))
        return {"pairs": [{"k": k, "v": self.value(u["e"], d - 1)} for k in ks]}

    def value(self, t, d):
        k = t["k"]
        if k in ("slice", "array", "map"):
            return self.coll(t, d)
        if k == "reg":
            u = self.tab[t["name"]]["u"]
            if u["k"] == "struct":
                return {"fields": [self.value(ft, d - 1) for ft in u["fields"]]}
            if u["k"] == "named":
                return self.leaf(u["of"], d)
            if u["k"] == "marsh":
                return {"len": self.r.choice([0, 1, 2, 4000, 4092, 4093, 5000, 70000]) if self.r.random() < 0.5 else self.r.randint(0, 300)}
            return self.coll(u, d)
        return self.leaf(k, d)

    def case(self, depth):
        while True:
            t = self.type(depth)
            if t["k"] == "any":
                continue
            v = self.value(t, depth + 1)
            if t["k"] == "err" and "nil" in v:
                continue
            return {"t": t, "v": v, "x": True}


def main(prop, tier):
    t0 = time.time(); seed = vlib.seed(); rng = random.Random(seed)
    w = vlib.scratch("edf_")
    try:
        vh, _ = vlib.build_harness(w)
        vlib.stage_spec(w)
        rc, so, se, to = vlib.run_vh(vh, ["edf", "-table", os.path.join(w, "edf_table.json")], timeout=120)
        if rc != 0:
            raise vlib.Infra("edf table: %s" % (se or so)[-800:])
        table = json.load(open(os.path.join(w, "edf_table.json")))
        mst, mtr = model(w, 2 if tier == "thorough" else 1)
        # the cases go straight into the shard files (round robin, numbered within the shard); nothing but counts is kept in memory
        nshard = 14
        outs = [open(os.path.join(w, "edf_cases_%d.ndjson" % i), "w") for i in range(nshard)]
        counts = [0] * nshard
        total = 0; samples = []
        def put(line):
            nonlocal total
            i = total % nshard; counts[i] += 1; total += 1
            outs[i].write(line[:-1] + ',"id":%d}\n' % counts[i])
        for f in sorted(x for x in os.listdir(w) if re.match(r'edfu_\d+\.ndjson$', x)):
            for x in open(os.path.join(w, f)):
                x = x.strip()
                if x:
                    if total % 9973 == 0 and len(samples) < 2:
                        samples.append(json.loads(x))
                    put(x)
        if total < 1000:
            raise vlib.Infra("TLC wrote only %d cases" % total)
        nuni = total
        g = Gen(rng, table)
        seen = set(); nrand = 100000 if tier == "thorough" else 8000
        for i in range(nrand):
            c = g.case(rng.choice([1, 2, 2, 3, 3, 4]))
            x = json.dumps(c)
            seen.add(hash(x))
            if i == 0:
                samples.append(c)
            put(x)
        for o in outs:
            o.close()
        def case_of(i, j):
            """the j-th case (from 1) of shard i"""
            with open(os.path.join(w, "edf_cases_%d.ndjson" % i)) as f:
                for k, x in enumerate(f, 1):
                    if k == j:
                        return json.loads(x)
            return {}
        def run(i):
            cp = os.path.join(w, "edf_cases_%d.ndjson" % i); op = os.path.join(w, "edf_obs_%d.ndjson" % i)
            rc, so, se, to = vlib.run_vh(vh, ["edf", "-in", cp, "-out", op], timeout=3000)
            if rc != 0 or to:
                if vlib.crashed_in_repo(se):
                    return i, None, "CRASH " + se[:6000]
                return i, None, "harness rc=%s: %s" % (rc, (se or so)[:2500])
            # the same cases (thorough: every fourth) between two real nodes; the observations join the others of the case
            wp = os.path.join(w, "edf_wire_%d.ndjson" % i); wc = os.path.join(w, "edf_wcases_%d.ndjson" % i)
            with open(wc, "w") as f:
                for j, x in enumerate(open(cp), 1):
                    if tier != "thorough" or j % 4 == 0:
                        f.write(x)
            rc, so, se, to = vlib.run_vh(vh, ["edf", "-wire", "-in", wc, "-out", wp], timeout=3000)
            if rc != 0 or to:
                if vlib.crashed_in_repo(se):
                    return i, None, "CRASH " + se[:6000]
                return i, None, "wire harness rc=%s: %s" % (rc, (se or so)[-1200:])
            wire = {}
            for x in open(wp):
                d = json.loads(x); wire[d["id"]] = d["res"]
            with open(op + ".m", "w") as fo:
                for x in open(op):
                    d = json.loads(x)
                    if d["id"] in wire:
                        d["res"] += wire[d["id"]]; x = json.dumps(d) + "\n"
                    fo.write(x)
            os.replace(op + ".m", op)
            name = "MC_EDFT_%d" % i
            open(os.path.join(w, name + ".tla"), "w").write("---- MODULE %s ----\nEXTENDS EDF_Trace\n====\n" % name)
            open(os.path.join(w, name + ".cfg"), "w").write("\n".join([
                "SPECIFICATION TSpec", "CONSTANTS", ' TableFile = "edf_table.json"', " Fix_StrLen = TRUE", " Fix_ErrText = TRUE", " Depth = 0", ' CasesOut = ""',
                ' CasesFile = "edf_cases_%d.ndjson"' % i, ' ObsFile = "edf_obs_%d.ndjson"' % i, "CONSTRAINT HWM", "POSTCONDITION TraceAccepted", "CHECK_DEADLOCK FALSE"]) + "\n")
            r = vlib.run_tlc(w, name + ".tla", name + ".cfg", workers=1, timeout=5400, heap="3g")
            return i, r, None
        viol = []; nviol = 0; drift_over = drift_len = 0; tst = ttr = 0; lenline = None
        with cf.ThreadPoolExecutor(nshard) as ex:
            for i, r, err in ex.map(run, range(nshard)):
                if err and err.startswith("CRASH "):
                    path = vlib.save_replay(prop, "edf_wire_crash", {"clause": "RoundTrip", "stderr": err[6:]})
                    print("VIOLATION property=%s replay=%s" % (prop, path))
                    print("  the process died inside the codec on bytes the encoder had produced (direct call or between two real nodes): %s" % (re.search(r'^(panic:.*|fatal error:.*)$', err, re.M) or [""])[0])
                    return 1
                if err:
                    raise vlib.Infra("shard %d: %s" % (i, err))
                if re.search(r'TRACE_REJECTED_AT_LINE', r.out):
                    raise vlib.Infra("EDF_Trace could not consume shard %d: %s" % (i, r.out[-800:]))
                hits = [(m.group(1), int(m.group(2))) for m in re.finditer(r'"CLAUSE_VIOLATED", "(\w+)", "LINE", (\d+)', r.out)]
                if r.rc != 0 and not hits:
                    raise vlib.Infra("EDF_Trace shard %d failed: %s" % (i, r.error or r.out[-1500:]))
                m = re.search(r'"DRIFT", "over", (\d+), "len", (\d+), "lenline", (\d+)', r.out)
                if not m:
                    raise vlib.Infra("EDF_Trace shard %d: no drift line: %s" % (i, r.out[-600:]))
                drift_over += int(m.group(1)); drift_len += int(m.group(2))
                want = {line for _, line in hits[:200]} | ({int(m.group(3))} if int(m.group(3)) and lenline is None else set())
                obs = {}
                if want:
                    for k, x in enumerate(open(os.path.join(w, "edf_obs_%d.ndjson" % i)), 1):
                        if k in want:
                            obs[k] = json.loads(x)
                if int(m.group(3)) and lenline is None:
                    o = obs[int(m.group(3))]; lenline = {"case": case_of(i, o["id"]), "res": o["res"]}
                tst += r.distinct; ttr += r.generated
                nviol += len(hits)
                for clause, line in hits[:200]:
                    o = obs[line]
                    viol.append({"clause": clause, "case": case_of(i, o["id"]) if len(viol) < 60 else {"t": {}, "v": {}}, "res": o["res"]})
        broken = [v for v in viol if v["clause"] == "ModelBroken"]
        if broken:
            raise vlib.Infra("the model codec itself fails the law on a replayed case (specification error): %s" % json.dumps(broken[0]["case"])[:600])
        evals = total * 5
        if drift_over > evals // 50:
            raise vlib.Infra("the encoder refused %d of %d representable (case, configuration) pairs: the harness no longer matches the code" % (drift_over, evals))
        distinct = nuni + len(seen)
        cov = {"evaluations": evals, "distinct_nontrivial": distinct,
               "rule": "a case is a (type term, value term) pair; the TLC-enumerated universe is duplicate-free by construction, random cases are de-duplicated by their JSON; every "
                       "case is run under 5 cache configurations (none, codec cache, negotiated atom/type/error caches, both, partial type cache) and sent between two real nodes "
                       "(quick: every case, thorough: every fourth; inside an envelope, every third also as the message itself)",
               "states": mst + tst, "transitions": mtr + ttr, "traces_validated_against_impl": total - nviol,
               "samples": samples[:3],
               "universe_cases": nuni, "random_cases": total - nuni, "configurations": 5, "clauses": CLAUSES,
               "representable_but_refused": drift_over, "length_differs_from_model": drift_len, "length_drift_example": lenline, "exhaustive": False}
        assumptions = ["the value grammar of spec/EDF.tla: boundary classes per leaf type (lengths 0/1/255/256 for atoms, 65533..65536 for strings, 32767/32768 for error texts, buffer growth points for binaries and custom marshalers; extreme numbers, NaN, infinities, signed zero), the registered types of the harness family (own types and seven the framework registers itself), nesting as enumerated (quick: one level of interface values; thorough: one level of unnamed composites around every type) plus seeded random nesting to depth 4",
                       "equality: same dynamic type everywhere; nil and empty kept apart except []byte; NaN equals NaN; time by instant and zone offset; errors by text, registered errors by identity when the error cache is negotiated",
                       "the five direct configurations are built in one process from the codec's own registries the way net/handshake does; the wire configurations use what two real nodes negotiated (one connection, pool of one link, no compression)"]
        vlib.write_evidence(prop, tier, "exploration", cov, assumptions, time.time() - t0, violations=nviol)
        seen = set()
        for v in viol:
            key = (v["clause"], json.dumps(v["case"]["t"], sort_keys=True)[:200])
            if key in seen or len(seen) >= 10:
                continue
            seen.add(key)
            bad = [r for r in v["res"] if r["enc"] == "ok" and not (r["dec"] == "ok" and r["equal"] and r["rest"] == 0 and r["again"] and r["prefixed"])] or [r for r in v["res"] if r["enc"] != "rejected"] or v["res"]
            b = bad[0]
            path = vlib.save_replay(prop, "edf_%s" % v["clause"], v)
            print("VIOLATION property=%s replay=%s" % (prop, path))
            print("  clause %s: type %s value %s; configuration %s: encode %s (%d bytes) decode %s %s rest=%d equal=%s again=%s prefixed=%s %s" % (
                v["clause"], json.dumps(v["case"]["t"])[:160], json.dumps(v["case"]["v"])[:200], b["cfg"], b["enc"], b["len"], b["dec"], b["decerr"][:80], b["rest"], b["equal"], b["again"], b["prefixed"], b["diff"][:120]))
        print("%s %s: %d model states; %d cases (%d enumerated by TLC + %d random) x 5 configurations, %d validated against spec/EDF_Trace.tla, %d violations; refused though representable: %d, length differs from the model: %d; %.0fs" % (
            prop, tier, mst, total, nuni, total - nuni, total - nviol, nviol, drift_over, drift_len, time.time() - t0))
        return 1 if nviol else 0
    finally:
        if not os.environ.get("VERIF_KEEP"):
            shutil.rmtree(w, ignore_errors=True)


if __name__ == "__main__":
    try:
        sys.exit(main(sys.argv[1], sys.argv[2]))
    except vlib.Infra as e:
        print("INFRA: %s" % e)
        sys.exit(2)
