"""Check C06: Registry family (name registration races; sequential registry histories; identifier generators)."""
import json, os, random, re, shutil, sys, time, concurrent.futures as cf
sys.path.insert(0, os.path.dirname(os.path.abspath(__file__)))
import vlib, fam

RACE_CLAUSES = ["OneWinner", "Released", "Resolves", "Unique", "WinnerHolds"]
CORE_INV = ["OneWinner", "OwnerConsistent", "Released", "WinnerHolds"]


def race_scenarios(tier):
    s = [
        {"name": "same_name_two_procs", "procs": ["P1", "P2"], "names": ["n1"],
         "registrars": {"G1": {"tgt": "P1", "want": "n1", "via": "node"}, "G2": {"tgt": "P2", "want": "n1", "via": "node"}}, "victim": "P1"},
        {"name": "two_names_one_proc", "procs": ["P1"], "names": ["n1", "n2"],
         "registrars": {"G1": {"tgt": "P1", "want": "n1", "via": "node"}, "G2": {"tgt": "P1", "want": "n2", "via": "node"}}, "victim": "P1"},
        {"name": "self_vs_node", "procs": ["P1", "P2"], "names": ["n1", "n2"],
         "registrars": {"G1": {"tgt": "P1", "want": "n1", "via": "self"}, "G2": {"tgt": "P2", "want": "n1", "via": "node"}}, "victim": "P2"},
    ]
    if tier == "thorough":
        s.append({"name": "three_claims", "procs": ["P1", "P2"], "names": ["n1", "n2"],
                  "registrars": {"G1": {"tgt": "P1", "want": "n1", "via": "node"}, "G2": {"tgt": "P2", "want": "n1", "via": "node"},
                                 "G3": {"tgt": "P1", "want": "n2", "via": "node"}}, "victim": "P1"})
    return s


def mc(scn, w, tag, fix, trace=None):
    regs = sorted(scn["registrars"])
    defs = {"MC_Procs": fam.tla_set(scn["procs"]), "MC_Names": fam.tla_set(scn["names"]), "MC_Regs": fam.tla_set(regs),
            "MC_Tgt": fam.tla_fun("MC_Regs", {g: '"%s"' % scn["registrars"][g]["tgt"] for g in regs}, '""'),
            "MC_Want": fam.tla_fun("MC_Regs", {g: '"%s"' % scn["registrars"][g]["want"] for g in regs}, '""')}
    consts = {"Procs": "<-MC_Procs", "Names": "<-MC_Names", "Registrars": "<-MC_Regs", "Tgt": "<-MC_Tgt", "Want": "<-MC_Want",
              "Victim": '"%s"' % scn["victim"], "Fix_NameLeak": fam.tla_bool(fix)}
    name = "MC_Reg_%s%s" % (scn["name"], tag)
    if trace:
        consts.update({"TraceFile": '"%s"' % trace, "Checks": fam.tla_set(RACE_CLAUSES)})
        return fam.write_mc(w, name, "Registry_Trace", defs, consts, spec="TraceSpec", constraint="HWM", postcondition="TraceAccepted")
    return fam.write_mc(w, name, "Registry", defs, consts, invariants=CORE_INV if (fix and tag == "_U1") else None)


def run_race(tier, scn, w, vh, seed, fix):
    out = {"scenario": scn["name"], "violations": []}
    mod, cfg = mc(scn, w, "_U1", fix)
    r = vlib.run_tlc(w, mod, cfg, workers=2, timeout=300)
    if not r.ok():
        raise vlib.Infra("U1 %s: %s %s" % (scn["name"], r.violated, r.error or r.out[-1500:]))
    out["u1"] = {"generated": r.generated, "distinct": r.distinct, "depth": r.depth}
    mod, cfg = mc(scn, w, "_G", fix)
    plans, st = fam.gen_plans(w, mod, cfg, pcvars=["gpc"], scalar_pcs={"tpc": "T"}, thread_of=lambda a, args: args[0] if args else "T", workers=2)
    out["graph"] = st; out["plans"] = len(plans)
    pfile = os.path.join(w, "plans_%s.json" % scn["name"])
    json.dump({"scenario": scn, "plans": plans}, open(pfile, "w"))
    out["sample_plan"] = plans[random.Random(seed).randrange(len(plans))]
    trace = "trace_%s.ndjson" % scn["name"]
    rc, so, se, to = vlib.run_vh(vh, ["regrace", "-plans", pfile, "-out", os.path.join(w, trace), "-seed", str(seed),
                                      "-node", "vhreg%d_%s@localhost" % (os.getpid(), scn["name"][:6])], timeout=900)
    if rc != 0 or to:
        raise vlib.Infra("harness failed on %s rc=%s: %s" % (scn["name"], rc, (se or so)[-1500:]))
    out["harness"] = json.loads(so.strip().splitlines()[-1])
    mod, cfg = mc(scn, w, "_T", fix, trace=trace)
    tv = fam.validate_trace(w, mod, cfg, os.path.join(w, trace))
    out["trace"] = {k: tv.get(k) for k in ("accepted", "wall", "states", "drift", "clause", "line", "plan", "drift_event")}
    if not tv["accepted"]:
        out["violations"].append({"clause": tv["clause"], "scenario": scn, "plan": tv["plan"], "at_event": tv["at_event"], "execution": tv["execution"]})
    return out


def run_ids(tier, w, vh):
    """identifier generators: measure the real slicing, check the scaled design with TLC, brute-force uniqueness on the real node"""
    n = 600000 if tier == "quick" else 1200000
    rc, so, se, to = vlib.run_vh(vh, ["ids", "-refs", str(n), "-procs", "3000" if tier == "quick" else "20000", "-node", "vhids%d@localhost" % os.getpid()], timeout=600)
    if rc != 0 or to:
        raise vlib.Infra("ids harness failed: %s" % (se or so)[-800:])
    m = json.loads(so.strip().splitlines()[-1])
    out = {"measured": m, "violations": []}
    lp, sp = m["low_period"], m["shift_period"]
    # scaled design check: Low' = 3, Shift' = 3 if the measured periods agree, 5 if word 1 advances later (or never within the run)
    if lp == 0:
        raise vlib.Infra("could not measure the period of the first word of references")
    shift = 3 if sp == lp else (2 if (sp != 0 and sp < lp) else 5)
    fam.write_mc(w, "MC_IdGen", "IdGen", {}, {"Low": "3", "Shift": str(shift), "Max": "40"}, invariants=["Fresh"])
    r = vlib.run_tlc(w, "MC_IdGen.tla", "MC_IdGen.cfg", workers=1, timeout=120)
    out["design"] = {"low": 3, "shift": shift, "fresh": r.ok(), "states": r.distinct, "generated": r.generated}
    if r.violated is None and not r.ok():
        raise vlib.Infra("IdGen: %s" % (r.error or r.out[-800:]))
    if m["dup_at"] >= 0:
        out["violations"].append({"clause": "FreshIds", "what": "reference %s minted twice: calls %s and %s" % (m.get("dup_ref"), m.get("dup_of"), m["dup_at"]), "measured": m})
    if m.get("pid_dup") or not m["pid_monotone"]:
        out["violations"].append({"clause": "FreshIds", "what": "process id repeated or not increasing", "measured": m})
    if m.get("alias_dup"):
        out["violations"].append({"clause": "FreshIds", "what": "alias repeated: %s" % m["alias_dup"], "measured": m})
    return out



HIST_CLAUSES = ["AliasesIntact", "OwnerKeeps", "ClaimableOnNotice", "ReleasedAliases", "ReleasedName", "ReleasedEvents", "NoRelationOfDead"]


def hist_cases(tier, rng):
    hs = []
    def H(ops, ex="kill"):
        hs.append({"id": len(hs) + 1, "ops": [{"op": o, "k": k} for o, k in ops], "exit": ex})
    exits = ["kill", "normal", "abn"]
    # aliases: every deletion position out of 1..4 aliases, also two deletions
    for n in (1, 2, 3, 4):
        for d in range(1, n + 1):
            H([("alias", 0)] * n + [("delalias", d)], rng.choice(exits))
            H([("alias", 0)] * n + [("delalias", d), ("alias", 0)], rng.choice(exits))
        for d1 in range(1, n + 1):
            for d2 in range(1, n + 1):
                if d1 != d2 and (tier == "thorough" or rng.random() < 0.4):
                    H([("alias", 0)] * n + [("delalias", d1), ("delalias", d2)], rng.choice(exits))
    for ex in exits:
        H([("name", 1), ("event", 1), ("event", 2), ("unevent", 1), ("link", 0), ("monitor", 1), ("unlink", 0)], ex)
        H([("link", 0), ("monitor", 1), ("link", 1), ("monitor", 0)], ex)
        H([("name", 1), ("unname", 0), ("name", 2), ("alias", 0), ("event", 1)], ex)
        H([("monitor", 0), ("demonitor", 0), ("monitor", 0), ("link", 2)], ex)
        H([("name", 1), ("event", 1), ("event", 2), ("rival", 0), ("alias", 0), ("rival", 1)], ex)
        H([("event", 1), ("rival", 1), ("unevent", 1), ("event", 1), ("name", 2), ("rival", 0)], ex)
    ops = ["alias", "alias", "delalias", "name", "unname", "event", "unevent", "link", "unlink", "monitor", "demonitor", "rival"]
    for _ in range(60 if tier == "quick" else 1500):
        H([(rng.choice(ops), rng.randint(0, 4)) for _ in range(rng.randint(2, 12))], rng.choice(exits))
    return hs


def run_hist(tier, w, vh, seed):
    rng = random.Random(seed * 13 + 1)
    hs = hist_cases(tier, rng)
    inp = os.path.join(w, "reghist_in.json"); out = os.path.join(w, "reghist_trace.ndjson")
    json.dump({"histories": hs}, open(inp, "w"))
    rc, so, se, to = vlib.run_vh(vh, ["reghist", "-in", inp, "-out", out], timeout=600)
    if rc != 0 or to:
        raise vlib.Infra("reghist harness failed rc=%s: %s" % (rc, (se or so)[-1200:]))
    lines = open(out).read().splitlines()
    nopark = sum(1 for x in lines if "nopark" in json.loads(x).get("notice", []))
    if nopark > len(lines) // 5:
        raise vlib.Infra("the terminating goroutine was not caught behind its notifications in %d of %d histories (yield point unreg.name)" % (nopark, len(lines)))
    fam.write_mc(w, "MC_RegistryHT", "RegistryH", {}, {"TraceFile": '"reghist_trace.ndjson"', "Checks": fam.tla_set(HIST_CLAUSES)}, constraint="HWM", postcondition="TraceAccepted")
    r = vlib.run_tlc(w, "MC_RegistryHT.tla", "MC_RegistryHT.cfg", workers=1, timeout=900)
    if re.search(r'TRACE_REJECTED_AT_LINE', r.out):
        raise vlib.Infra("RegistryH.tla could not consume the trace: %s" % r.out[-800:])
    hits = [(m.group(1), int(m.group(2))) for m in re.finditer(r'"CLAUSE_VIOLATED", "(\w+)", "LINE", (\d+)', r.out)]
    if r.rc != 0 and not hits:
        raise vlib.Infra("RegistryH validation failed: %s" % (r.error or r.out[-1200:]))
    viol = []
    for clause, line in hits:
        e = json.loads(lines[line - 1])
        viol.append({"clause": clause, "history": e, "what": "history %s exit=%s: aliases after termination %s (before: %s), name %r, events %s, relations left %d/%d" %
                     ([(o["op"], o["k"]) for o in e["ops"]], e["exit"], e["aliases"], e["mid"], e["name"], e["events"], e["rels"], e["relst"])})
    return {"histories": len(hs), "notice_not_caught": nopark, "violations": viol, "states": r.distinct, "generated": r.generated, "sample": hs[rng.randrange(len(hs))]}


def main(prop, tier):
    t0 = time.time(); seed = vlib.seed()
    w = vlib.scratch("reg_%s_" % prop)
    try:
        vh, _ = vlib.build_harness(w)
        vlib.stage_spec(w)
        fix = os.environ.get("VERIF_REG_FIX", "1") == "1"
        results = []
        with cf.ThreadPoolExecutor(max_workers=4) as ex:
            futs = [ex.submit(run_race, tier, s, w, vh, seed * 7919 + i, fix) for i, s in enumerate(race_scenarios(tier))]
            for f in futs:
                results.append(f.result())
        ids = run_ids(tier, w, vh)
        hist = run_hist(tier, w, vh, seed)
        violations = [(r["scenario"], v) for r in results for v in r["violations"]]
        violations += [("ids", v) for v in ids["violations"]]
        violations += [("hist", v) for v in hist["violations"]]
        execs = sum(r["harness"]["plans"] for r in results if r["trace"]["accepted"])
        drift = [r["trace"] for r in results if r["trace"].get("drift")]
        cov = {"states": sum(r["u1"]["distinct"] for r in results) + ids["design"]["states"] + hist["states"], "transitions": sum(r["u1"]["generated"] for r in results) + ids["design"]["generated"] + hist["generated"],
               "traces_validated_against_impl": execs + hist["histories"] - len(hist["violations"]),
               "registry_histories": hist["histories"], "registry_histories_notice_not_caught": hist["notice_not_caught"], "registry_history_clauses": HIST_CLAUSES, "registry_history_sample": hist["sample"],
               "samples": [{"scenario": r["scenario"], "plan": r["sample_plan"]} for r in results[:3]],
               "model_edges": sum(r["graph"]["edges"] for r in results), "plans_replayed": sum(r["plans"] for r in results),
               "drift_executions": sum(d["drift"][1] for d in drift), "controller_stalls": sum(r["harness"]["stalls"] for r in results),
               "clauses": RACE_CLAUSES + ["FreshIds"], "identifier_generators": ids, "per_scenario": [{k: r.get(k) for k in ("scenario", "u1", "plans", "harness", "trace")} for r in results],
               "exhaustive": True}
        assumptions = ["edge cover of the bounded model's state graph, not every path", "2 processes, 2 names, 2-3 registrars, one Kill"]
        vlib.write_evidence(prop, tier, "model_checking", cov, assumptions, time.time() - t0, violations=len(violations))
        for scn, v in violations:
            path = vlib.save_replay(prop, "%s_%s" % (scn, v["clause"]), v)
            print("VIOLATION property=%s replay=%s" % (prop, path))
            print("  clause %s violated by the real code in scenario %s: %s" % (v["clause"], scn, v.get("what") or "plan %s at event %s" % (v.get("plan"), v.get("at_event"))))
        if drift:
            print("note: %d scenario trace(s) contain executions that are not behaviours of the Core spec (drift, not a violation); first: %s" %
                  (len(drift), json.dumps(drift[0])[:500]))
        print("%s %s: %d model states, %d executions + %d ownership histories validated, %d violations, %.0fs" % (prop, tier, cov["states"], execs, hist["histories"], len(violations), time.time() - t0))
        return 1 if violations else 0
    finally:
        if not os.environ.get("VERIF_KEEP"):
            shutil.rmtree(w, ignore_errors=True)


if __name__ == "__main__":
    try:
        sys.exit(main(sys.argv[1], sys.argv[2]))
    except vlib.Infra as e:
        print("INFRA: %s" % e)
        sys.exit(2)
