#!/bin/bash
# usage: seedtest2.sh <src dir with patch.diff + demo *_test.go> <seed id> <demo package dir> <checks...>
# like seedtest.sh, but never touches /repo: the change is applied in a scratch worktree and the checks are
# built against that worktree (VERIF_REPO), so several seeds can be tested while /repo is in use.
set -u
SRC=$1; ID=$2; PKG=$3; shift 3
export GOFLAGS=-mod=mod GOPROXY=off GOSUMDB=off GOTOOLCHAIN=local
WT=/tmp/seedwt_$ID
git -C /repo worktree remove --force $WT 2>/dev/null
git -C /repo worktree add -q --detach $WT HEAD || exit 2
cd $WT
TESTS=$(grep -ho '^func Test[A-Za-z0-9_]*' $SRC/*_test.go | sed 's/func //' | paste -sd'|')
mkdir -p $WT/$PKG; cp $SRC/*_test.go $WT/$PKG/
echo "--- demo WITHOUT change ($TESTS)"
timeout 400 go test -count=1 -run "$TESTS" ./$PKG/ > /tmp/seed_without_$ID.log 2>&1; echo "exit=$? $(tail -1 /tmp/seed_without_$ID.log | cut -c1-120)"
if git apply --check $SRC/patch.diff 2>/dev/null; then git apply $SRC/patch.diff; else echo "patch needs 3-way"; git apply -3 $SRC/patch.diff || { echo "PATCH DOES NOT APPLY"; cd /; git -C /repo worktree remove --force $WT; exit 3; }; fi
git diff --stat | tail -1
go build ./... || echo "BUILD FAILS"
echo "--- demo WITH change"
timeout 400 go test -count=1 -run "$TESTS" ./$PKG/ > /tmp/seed_with_$ID.log 2>&1; echo "exit=$? $(tail -1 /tmp/seed_with_$ID.log | cut -c1-120)"
rm -f $WT/$PKG/zz_*_test.go; for f in $SRC/*_test.go; do rm -f $WT/$PKG/$(basename $f); done
echo "--- checks against the changed worktree"
cd /verif
for c in "$@"; do
  tier=quick; case $c in *:thorough) tier=thorough; c=${c%:thorough};; esac
  VERIF_REPO=$WT ./check $c $tier > /tmp/seed_check_${ID}_$c.log 2>&1; rc=$?
  echo "check $c $tier: exit=$rc; $(grep -c '^VIOLATION' /tmp/seed_check_${ID}_$c.log) VIOLATION line(s); $(tail -1 /tmp/seed_check_${ID}_$c.log | cut -c1-160)"
done
cd /; git -C /repo worktree remove --force $WT
