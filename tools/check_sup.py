"""Checks C08 (restart semantics) and C09 (restart intensity): supervisor family.
Scenarios (configurations x fault histories) are executed on real act.Supervisor processes; TLC validates each recorded
history against the sequential reference supervisor spec/SupContract.tla.  C09 additionally model-checks spec/Intensity.tla
(window arithmetic of supCheckRestartIntensity vs the sliding-window definition) and replays the enumerated timing patterns
on real supervisors under a virtual clock (lib.VerifNow)."""
import itertools, json, os, random, shutil, sys, time
sys.path.insert(0, os.path.dirname(os.path.abspath(__file__)))
import vlib, fam

CLAUSES = {"C08": ["Fate", "Reason", "Running", "Kept", "StartOrder", "StopOrder"],
           "C09": ["Fate", "Reason", "Running"]}
REASONS = ["normal", "shutdown", "abn", "kill"]


def known():
    return [k for k in vlib.load_known() if k.get("status") == "open"]


def c08_scenarios(tier, rng):
    out = []; sid = 0
    types = ["ofo", "afo", "rfo"]
    for typ in types:
        for strategy in ["perm", "trans", "temp"]:
            for keep in ([False] if typ == "ofo" else [False, True]):
                for sigpat in ([0, 2] if strategy != "perm" else [0]):
                    for auto in ([True, False] if strategy != "perm" else [True]):
                        n = 3
                        sig = [False] * n
                        if sigpat:
                            sig[sigpat - 1] = True
                        base = dict(n=n, type=typ, strategy=strategy, keeporder=keep, autoshutdown=auto, sig=sig, intensity=50, period=5, clock=False)
                        hists = []
                        # single faults at quiescence: every child x every reason, then a second fault
                        for i in range(1, n + 1):
                            for r in REASONS:
                                hists.append([{"op": "batch", "faults": [[i, r]]}])
                        seq2 = [(i, r, j, q) for i in range(1, n + 1) for r in REASONS for j in range(1, n + 1) for q in REASONS]
                        rng.shuffle(seq2)
                        for (i, r, j, q) in seq2[: (6 if tier == "quick" else 40)]:
                            hists.append([{"op": "batch", "faults": [[i, r]]}, {"op": "batch", "faults": [[j, q]]}])
                        # management calls
                        for i in range(1, n + 1):
                            hists.append([{"op": "disable", "i": i}, {"op": "batch", "faults": [[(i % n) + 1, "abn"]]}, {"op": "enable", "i": i}])
                        # StartChild for the dead child while the restart is waiting for a busy sibling
                        for (i, j) in [(1, 2), (1, 3), (2, 3), (3, 1)]:
                            for r in ("abn", "kill"):
                                hists.append([{"op": "batchstart", "faults": [[i, r]], "i": j}, {"op": "batch", "faults": [[1, "abn"]]}])
                        # DisableChild on a busy child, a sibling dies before the busy one has gone
                        for (i, j) in [(1, 2), (2, 3), (3, 1), (2, 1)]:
                            for r in ("abn", "kill"):
                                hists.append([{"op": "disablefault", "i": i, "faults": [[j, r]]}, {"op": "batch", "faults": [[(j % n) + 1, "abn"]]}])
                        # the supervisor is told to stop while a child is busy and then leaves with a reason of its own
                        for (i, why, r2) in [(n, "shutdown", "own"), (1, "sig", "own"), (2, "shutdown", "normal"), (n, "sig", "shutdown")]:
                            hists.append([{"op": "exitsup", "faults": [[i, r2]], "why": why}])
                        hists.append([{"op": "batch", "faults": [[1, "abn"]]}, {"op": "exitsup", "faults": [[n, "own"]], "why": "shutdown"}])
                        # overlapping deaths: two children die before the supervisor handles the first
                        pairs = [(i, j) for i in range(1, n + 1) for j in range(1, n + 1) if i != j]
                        for (i, j) in pairs:
                            for r in (["abn"] if tier == "quick" else ["abn", "normal"]):
                                hists.append([{"op": "batch", "faults": [[i, r], [j, "abn"]]}])
                        if tier == "thorough":
                            for perm in itertools.permutations(range(1, n + 1)):
                                hists.append([{"op": "batch", "faults": [[p, "abn"] for p in perm]}])
                        for h in hists:
                            sid += 1
                            out.append(dict(base, id=sid, steps=h))
    # simple-one-for-one: n instances of one spec; faults name the k-th running instance
    for strategy in ["perm", "trans", "temp"]:
        n = 3
        base = dict(n=n, type="sofo", strategy=strategy, keeporder=False, autoshutdown=False, sig=[False] * n, intensity=50, period=5, clock=False)
        hists = []
        for i in range(1, n + 1):
            for r in REASONS:
                hists.append([{"op": "batch", "faults": [[i, r]]}, {"op": "batch", "faults": [[1, "abn"]]}])
        for (i, j) in [(1, 2), (2, 1), (1, 3), (3, 2)]:
            for r in ("abn", "normal", "kill"):
                hists.append([{"op": "batch", "faults": [[i, r], [j, "abn"]]}, {"op": "batch", "faults": [[1, "kill"]]}])
        hists.append([{"op": "batch", "faults": [[1, "abn"], [2, "abn"], [3, "abn"]]}])
        hists.append([{"op": "disable", "i": 1}, {"op": "startchild"}, {"op": "enable", "i": 1}, {"op": "startchild"}, {"op": "batch", "faults": [[1, "abn"]]}, {"op": "startchild"}])
        hists.append([{"op": "batch", "faults": [[2, "normal"]]}, {"op": "disable", "i": 1}, {"op": "batch", "faults": [[1, "abn"]]}, {"op": "enable", "i": 1}])
        for h in hists:
            sid += 1
            out.append(dict(base, id=sid, steps=h))
    return out


def c09_scenarios(tier, rng):
    """timing patterns under the virtual clock: failures of child 1 separated by dt (ms); the reference slides the window"""
    out = []; sid = 100000
    pats = []
    for I in ([1, 2] if tier == "quick" else [1, 2, 3]):
        for P in [1, 2]:
            unit = [0, 1, P * 1000 - 1, P * 1000, P * 1000 + 1, 2 * P * 1000]
            for k in range(I + 1, I + 3):
                combos = list(itertools.product(unit, repeat=k - 1))
                rng.shuffle(combos)
                for c in combos[: (12 if tier == "quick" else 60)]:
                    pats.append((I, P, c))
    # simple-one-for-one: instances stopped by DisableChild are not failures; real failures afterwards get the full budget
    for I in (1, 2, 3):
        for nchild in (2, 4):
            for strategy in ("perm", "trans"):
                # DisableChild stops every instance (no failures); after EnableChild new instances get the whole budget
                sid += 1
                out.append(dict(id=sid, n=nchild, type="sofo", strategy=strategy, keeporder=False, autoshutdown=False, sig=[False] * nchild,
                                intensity=I, period=30, clock=True,
                                steps=[{"op": "disable", "i": 1}, {"op": "enable", "i": 1}, {"op": "startchild"}, {"op": "startchild"}] +
                                      [{"op": "batch", "faults": [[1, "abn"]]}] * (I + 1)))
                sid += 1
                out.append(dict(id=sid, n=nchild, type="sofo", strategy=strategy, keeporder=False, autoshutdown=False, sig=[False] * nchild,
                                intensity=I, period=30, clock=True,
                                steps=[{"op": "batch", "faults": [[1, "abn"]]}] * I + [{"op": "batch", "faults": [[1, "abn"]]}]))
                sid += 1
                out.append(dict(id=sid, n=nchild, type="sofo", strategy=strategy, keeporder=False, autoshutdown=False, sig=[False] * nchild,
                                intensity=I, period=30, clock=True,
                                steps=[{"op": "batch", "faults": [[1, "abn"]]}] * I + [{"op": "advance", "ms": 31000}, {"op": "batch", "faults": [[1, "abn"]]}]))
    # long periods (the clock is virtual, so they cost nothing): the period is a 16-bit number of seconds, the window is counted in milliseconds
    for I in (1, 2):
        for P in (65, 66, 132, 600, 65535):
            for gaps in ([700] * I, [P * 1000 - 1] * I, [P * 1000 - 1] * (I - 1) + [700], [P * 1000 + 1] + [700] * I, [40000] * I):
                pats.append((I, P, tuple(gaps)))
    for typ in ["ofo", "afo", "rfo", "sofo"]:
        for (I, P, gaps) in pats:
            for nchild in ([1, 3] if tier == "thorough" else [3]):
                steps = [{"op": "batch", "faults": [[1, "abn"]]}]
                for g in gaps:
                    steps.append({"op": "advance", "ms": g})
                    steps.append({"op": "batch", "faults": [[1 if nchild == 1 else rng.choice([1, 2, 3]), "abn"]]})
                sid += 1
                out.append(dict(id=sid, n=nchild, type=typ, strategy="perm", keeporder=False, autoshutdown=(typ != "sofo"), sig=[False] * nchild,
                                intensity=I, period=P, clock=True, steps=steps))
    return out


def intensity_model(w):
    """U1: the transcription of supCheckRestartIntensity agrees with the sliding-window definition for all timing patterns"""
    states = trans = 0
    for I in (1, 2, 3):
        for P in (1, 2):
            name = "MC_Int_%d_%d" % (I, P)
            fam.write_mc(w, name, "Intensity", {}, {"I": str(I), "P": str(P), "MaxT": "6", "MaxF": "5"}, invariants=["Agree", "PrunedOnlyOld"])
            r = vlib.run_tlc(w, name + ".tla", name + ".cfg", workers=2, timeout=300)
            if not r.ok():
                raise vlib.Infra("Intensity I=%d P=%d: %s %s" % (I, P, r.violated, r.error or r.out[-1200:]))
            states += r.distinct; trans += r.generated
    return states, trans


def inst_key(v, scn):
    return json.dumps([scn["type"], scn["strategy"], scn["keeporder"], scn["autoshutdown"], scn["sig"], scn["n"], scn["steps"], v["clause"]], sort_keys=True)


def class_of(v, scn):
    steps = scn["steps"]
    multi = any(s["op"] == "batch" and len(s.get("faults", [])) >= 2 for s in steps)
    if scn["type"] == "afo" and scn["keeporder"] and multi:
        return "afo-keeporder-overlap"
    if scn["type"] == "rfo" and multi:
        return "rfo-overlap"
    if scn["type"] in ("afo", "rfo") and scn["keeporder"] and any(s["op"] == "disablefault" for s in steps) and v["line"].get("reason") == "panic":
        return "arfo-keeporder-disable-overlap"
    if scn["type"] in ("afo", "rfo") and v["line"]["ev"] == "enable" and v["line"].get("res") == "supervisor strategy is active":
        return "arfo-stuck-starting"
    return None


def classify(v, scn):
    """a violation is a known finding only if this very history with this very clause is listed (known_findings_sup.json)"""
    c = class_of(v, scn)
    if c is None:
        return None
    inst = json.load(open(os.path.join(vlib.VERIF, "known_findings_sup.json")))
    key = inst_key(v, scn)
    rec = os.environ.get("VERIF_RECORD_KNOWN")
    if rec:
        with open(rec, "a") as f:
            f.write(json.dumps({"class": c, "key": key}) + "\n")
    for k in known():
        if k.get("signature", {}).get("class") == c and key in inst.get(c, []):
            return k
    return None


def main(prop, tier):
    t0 = time.time(); seed = vlib.seed(); rng = random.Random(seed)
    w = vlib.scratch("sup_%s_" % prop)
    try:
        vh, _ = vlib.build_harness(w)
        vlib.stage_spec(w)
        scns = c08_scenarios(tier, rng) if prop == "C08" else c09_scenarios(tier, rng)
        states = trans = 0
        if prop == "C09":
            states, trans = intensity_model(w)
        byid = {s["id"]: s for s in scns}
        sfile = os.path.join(w, "scenarios.json")
        json.dump({"scenarios": scns}, open(sfile, "w"))
        trace = os.path.join(w, "trace.ndjson")
        rc, so, se, to = vlib.run_vh(vh, ["sup", "-scenarios", sfile, "-out", trace, "-node", "vhsup%d@localhost" % os.getpid(), "-par", "12"], timeout=3000)
        if rc != 0 or to:
            raise vlib.Infra("sup harness failed rc=%s: %s" % (rc, (se or so)[-1500:]))
        hs = json.loads(so.strip().splitlines()[-1])
        # one TLC run judges every scenario: a failed clause is recorded and the rest of that scenario is skipped
        violations = []; knownhits = {}
        fam.write_mc(w, "MC_SupT", "SupContract", {}, {"TraceFile": '"trace.ndjson"', "Checks": fam.tla_set(CLAUSES[prop])},
                     constraint="HWM", postcondition="TraceAccepted")
        r = vlib.run_tlc(w, "MC_SupT.tla", "MC_SupT.cfg", workers=1, timeout=1800)
        tstates = r.distinct
        import re
        hits = [(m.group(1), int(m.group(2))) for m in re.finditer(r'"CLAUSE_VIOLATED", "(\w+)", "LINE", (\d+)', r.out)]
        if re.search(r'TRACE_REJECTED_AT_LINE', r.out):
            raise vlib.Infra("SupContract could not consume the trace: %s" % r.out[-800:])
        if r.rc != 0 and not hits:
            raise vlib.Infra("SupContract validation failed: %s" % (r.error or r.out[-1500:]))
        lines = open(trace).read().splitlines()
        bad = set()
        for clause, line in hits:
            e = json.loads(lines[line - 1])
            sid = e["p"]
            bad.add(sid)
            v = {"clause": clause, "scenario": byid[sid], "line": e, "execution": [json.loads(x) for x in lines if json.loads(x)["p"] == sid]}
            k = classify(v, byid[sid])
            if k:
                knownhits.setdefault(k["id"], []).append(sid)
            else:
                violations.append(v)
        validated = len(scns) - len(bad)
        sample = scns[rng.randrange(len(scns))]
        cov = {"states": max(states + tstates, 1), "transitions": max(trans + tstates, 1), "traces_validated_against_impl": validated,
               "samples": [sample, scns[0]], "scenarios": len(scns), "steps": hs["steps"], "clauses": CLAUSES[prop],
               "known_findings_reproduced": {k: len(v) for k, v in knownhits.items()},
               "configurations": len({(s["type"], s["strategy"], s["keeporder"], s["autoshutdown"], tuple(s["sig"]), s["n"], s["intensity"], s["period"]) for s in scns}),
               "exhaustive": False}
        assumptions = ["faults are injected while the supervisor is held inside a callback, so the order of exit signals in its mailbox is the batch order",
                       "the reference supervisor handles a batch sequentially and drops exits of incarnations that were already replaced",
                       "3 children per supervisor; restart counts are not compared, only running set, kept processes, order, fate and reason"]
        if prop == "C09":
            assumptions.append("time is virtual (lib.VerifNow, build tag verif); boundary gaps P*1000-1, P*1000, P*1000+1 ms are included")
        vlib.write_evidence(prop, tier, "model_checking", cov, assumptions, time.time() - t0, violations=len(violations))
        for kid, sids in knownhits.items():
            k = [x for x in known() if x["id"] == kid][0]
            print("KNOWN-FINDING: property=%s %s (%d scenarios, e.g. %d)" % (prop, k["line"], len(sids), sids[0]))
        for v in violations:
            path = vlib.save_replay(prop, "scn%d_%s" % (v["scenario"]["id"], v["clause"]), v)
            print("VIOLATION property=%s replay=%s" % (prop, path))
            print("  clause %s: scenario %s, reported %s" % (v["clause"], json.dumps({k: v["scenario"][k] for k in ("type", "strategy", "keeporder", "autoshutdown", "sig", "intensity", "period", "steps")}), json.dumps(v["line"])[:600]))
        print("%s %s: %d scenarios, %d validated against the reference, %d violations, %d known-finding scenarios, %.0fs" %
              (prop, tier, len(scns), validated, len(violations), sum(len(v) for v in knownhits.values()), time.time() - t0))
        return 1 if violations else 0
    finally:
        if not os.environ.get("VERIF_KEEP"):
            shutil.rmtree(w, ignore_errors=True)


if __name__ == "__main__":
    try:
        sys.exit(main(sys.argv[1], sys.argv[2]))
    except vlib.Infra as e:
        print("INFRA: %s" % e)
        sys.exit(2)
