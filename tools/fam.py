"""Generic pipeline for the small 'race' families (Relations, Registry, App, Events, ...):
MC generation, U1 exhaustive check, U2 plans by edge cover of TLC's state graph, replay by the harness, U3 trace validation."""
import json, os, random, re, sys, time
sys.path.insert(0, os.path.dirname(os.path.abspath(__file__)))
import vlib


def write_mc(workdir, name, extends, defs, consts, spec="Spec", invariants=None, view=None, extra=None, constraint=None, postcondition=None):
    """defs: {MC_X: tla expr}; consts: {Const: 'MC_X' (substitution, prefixed '<-') or literal string}"""
    mod = ["---- MODULE %s ----" % name, "EXTENDS " + extends]
    for k, v in defs.items():
        mod.append("%s == %s" % (k, v))
    mod.append("====")
    open(os.path.join(workdir, name + ".tla"), "w").write("\n".join(mod) + "\n")
    cfg = ["SPECIFICATION " + spec, "CONSTANTS"]
    for k, v in consts.items():
        if isinstance(v, str) and v.startswith("<-"):
            cfg.append(" %s <- %s" % (k, v[2:].strip()))
        else:
            cfg.append(" %s = %s" % (k, v))
    if constraint:
        cfg.append("CONSTRAINT " + constraint)
    if postcondition:
        cfg.append("POSTCONDITION " + postcondition)
    if invariants:
        cfg += ["INVARIANTS"] + [" " + i for i in invariants]
    if view:
        cfg.append("VIEW " + view)
    cfg += (extra or [])
    cfg.append("CHECK_DEADLOCK FALSE")
    open(os.path.join(workdir, name + ".cfg"), "w").write("\n".join(cfg) + "\n")
    return name + ".tla", name + ".cfg"


def tla_set(items):
    return "{" + ", ".join('"%s"' % i for i in items) + "}"


def tla_fun(domain_name, mapping, default):
    """[x \\in D |-> IF x = "a" THEN va ELSE ... default]"""
    return "[x \\in %s |-> " % domain_name + "".join('IF x = "%s" THEN %s ELSE ' % (k, v) for k, v in mapping.items()) + default + "]"


def tla_bool(b):
    return "TRUE" if b else "FALSE"


PC_RE = re.compile(r'(\w+) \|-> \\"([^\\"]*)\\"')


def node_pcs(label, pcvars, scalar_pcs=None):
    """thread -> pc from a dot node label. pcvars: names of function-valued pc variables;
    scalar_pcs: {var: thread label} for scalar pc variables (e.g. tpc -> 'T')"""
    out = {}
    for var in pcvars:
        m = re.search(r'/\\\\ ' + var + r' = \[(.*?)\]', label)
        if m:
            for th, pc in PC_RE.findall(m.group(1)):
                out[th] = pc
    for var, th in (scalar_pcs or {}).items():
        m = re.search(r'/\\\\ ' + var + r' = \\"([^\\"]*)\\"', label)
        if m:
            out[th] = m.group(1)
    return out


def gen_plans(workdir, mod, cfg, pcvars, scalar_pcs=None, thread_of=None, maxlen=80, workers=4, timeout=300, rng=None, with_args=False):
    """dumps the state graph and returns an edge cover as plans [[thread, action, expected-to], ...]"""
    dot = os.path.join(workdir, os.path.splitext(cfg)[0] + ".dot")
    r = vlib.run_tlc(workdir, mod, cfg, workers=workers, timeout=timeout, extra=["-dump", "dot,actionlabels", dot])
    if not r.ok():
        raise vlib.Infra("graph dump failed for %s: %s %s" % (cfg, r.violated, r.error or r.out[-2000:]))
    inits, edges, nodes = vlib.parse_dot(dot, want_nodes=True)
    os.remove(dot)
    pcs = {n: node_pcs(lab, pcvars, scalar_pcs) for n, lab in nodes.items()}
    del nodes
    paths, st = vlib.edge_cover(inits, edges, maxlen=maxlen, rng=rng, with_nodes=True)
    plans = []
    for i, p in enumerate(paths):
        steps = []
        for (act, args, dst) in p:
            th = thread_of(act, args) if thread_of else (args[0] if args else act)
            steps.append([th, act, pcs[dst].get(th, "")] + (list(args) if with_args else []))
        plans.append({"id": i + 1, "steps": steps})
    st.update({"graph_states": r.distinct, "graph_generated": r.generated})
    return plans, st


def parse_post(out):
    """parses the PrintT lines of the TraceAccepted postconditions"""
    res = {"violated": None, "rejected": None, "drift": None}
    m = re.search(r'"CLAUSE_VIOLATED", "(\w+)", "LINE", (\d+)', out)
    if m:
        res["violated"] = (m.group(1), int(m.group(2)))
    m = re.search(r'"TRACE_REJECTED_AT_LINE", (\d+), "OF", (\d+)', out)
    if m:
        res["rejected"] = (int(m.group(1)), int(m.group(2)))
    m = re.search(r'"CORE_DRIFT_AT_LINE", (\d+), "EXECUTIONS", (\d+)', out)
    if m:
        res["drift"] = (int(m.group(1)), int(m.group(2)))
    return res


def execution_of(trace_path, line, key="p"):
    cur = []; hit = None
    with open(trace_path) as f:
        for i, ln in enumerate(f, 1):
            e = json.loads(ln)
            if e["ev"] == "reset":
                if hit is not None:
                    break
                cur = []
            cur.append(e)
            if i == line:
                hit = len(cur)
    return cur, hit


def validate_trace(workdir, mod, cfg, trace_path, timeout=1800):
    """runs a *_Trace spec with the flag-and-stop convention; returns dict(accepted, violated, drift, ...)"""
    r = vlib.run_tlc(workdir, mod, cfg, workers=1, timeout=timeout)
    post = parse_post(r.out)
    out = {"wall": round(r.wall, 1), "states": r.distinct, "drift": post["drift"]}
    if post["violated"]:
        clause, line = post["violated"]
        ex, hit = execution_of(trace_path, line)
        out.update({"accepted": False, "clause": clause, "line": line, "plan": ex[0]["p"] if ex else None, "at_event": hit, "execution": ex[:300]})
    elif post["rejected"]:
        raise vlib.Infra("trace spec could not consume %s at line %d of %d: %s" % (trace_path, post["rejected"][0], post["rejected"][1], r.out[-800:]))
    elif r.rc == 0:
        out["accepted"] = True
    else:
        raise vlib.Infra("trace validation failed (%s): %s" % (cfg, (r.error or r.out[-1500:])))
    if post["drift"]:
        ex, hit = execution_of(trace_path, post["drift"][0])
        out["drift_event"] = ex[hit - 1] if ex and hit else None
    return out
