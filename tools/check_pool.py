"""Check C19: pool dispatch. Random (seeded) and systematic operation histories are executed on a real act.Pool with gated workers;
TLC replays every recorded line on the sequential dispatch model spec/Pool.tla and compares, per worker, what it handled, what it holds
and has queued, who is alive, and which replies reached the callers."""
import json, os, random, re, shutil, sys, time
sys.path.insert(0, os.path.dirname(os.path.abspath(__file__)))
import vlib, fam

CLAUSES = ["Alive", "Dispatch", "Replies", "OneWorker"]


def histories(tier, rng):
    out = []; hid = 0
    def add(size, cap, ops):
        nonlocal hid
        hid += 1; out.append({"id": hid, "size": size, "cap": cap, "ops": ops})
    S = lambda: {"op": "send", "w": 0, "n": 0}
    C = lambda: {"op": "call", "w": 0, "n": 0}
    H = lambda w: {"op": "hold", "w": w, "n": 0}
    R = lambda w: {"op": "release", "w": w, "n": 0}
    K = lambda w: {"op": "kill", "w": w, "n": 0}
    KH = lambda w: {"op": "killheld", "w": w, "n": 0}
    # systematic: fill-and-skip, all-full drop, dead worker replaced at dispatch, rotation
    for size in (1, 2, 3):
        for cap in (1, 2):
            add(size, cap, [S() for _ in range(2 * size + 1)])                                  # round robin
            add(size, cap, [H(1)] + [S() for _ in range((cap + 2) * size + 2)] + [R(1)])         # worker 1 fills, is skipped
            add(size, cap, [H(w) for w in range(1, size + 1)] + [S() for _ in range((cap + 1) * size + 2)] + [R(w) for w in range(1, size + 1)])  # all full: drop
            add(size, cap, [K(1), S(), S(), S()])                                              # dead worker found at dispatch
            add(size, cap, [H(1), S(), S(), K(1), S(), S()] + [S() for _ in range(size)])         # messages queued at a worker that dies are lost
            add(size, cap, [C(), C(), H(1), C(), C(), R(1), C()])
            # a worker killed while it is busy is a zombie until its handler returns: the pool must treat it as dead at once
            add(size, cap, [H(1), S(), KH(1)] + [S() for _ in range(size)] + [C() for _ in range(size + 1)] + [R(1), S(), C()])
            add(size, cap, [H(1), C(), S(), KH(1), C(), S(), R(1), C()])
            add(size, cap, [{"op": "add", "w": 0, "n": 1}, S(), S(), S(), S(), {"op": "remove", "w": 0, "n": 1}, S(), S(), S()])
    # workers added later are part of the round: when every original worker is full the message must reach an added one
    for size in (1, 2):
        for cap in (1, 2):
            for extra in (1, 2):
                A = {"op": "add", "w": 0, "n": extra}
                hold = [H(w) for w in range(1, size + 1)]
                add(size, cap, [A] + hold + [S() for _ in range((cap + 1) * size + extra + 1)] + [C(), C()] + [R(w) for w in range(1, size + 1)])
                add(size, cap, hold + [S() for _ in range((cap + 1) * size)] + [A] + [S(), C(), S()] + [R(w) for w in range(1, size + 1)])
    for size in (2, 3):
        add(size, 0, [H(1)] + [S() for _ in range(7)] + [R(1)])                                    # unbounded mailboxes never skip
    n = 60 if tier == "quick" else 6000
    for _ in range(n):
        size = rng.choice([1, 2, 2, 3, 3, 4]); cap = rng.choice([0, 1, 1, 2, 3])
        ops = []; nw = size
        for _ in range(rng.randint(4, 22)):
            c = rng.random()
            if c < 0.45: ops.append(S())
            elif c < 0.55: ops.append(C())
            elif c < 0.70: ops.append(H(rng.randint(1, nw)))
            elif c < 0.82: ops.append(R(rng.randint(1, nw)))
            elif c < 0.87: ops.append(K(rng.randint(1, nw))); nw += 0
            elif c < 0.90: ops.append(KH(rng.randint(1, nw)))
            elif c < 0.95: ops.append({"op": "add", "w": 0, "n": rng.choice([1, 2])}); nw += 2
            else: ops.append({"op": "remove", "w": 0, "n": 1})
            if ops[-1]["op"] in ("send", "call"):
                nw += 0
        add(size, cap, ops)
    return out


def main(prop, tier):
    t0 = time.time(); seed = vlib.seed(); rng = random.Random(seed)
    w = vlib.scratch("pool_")
    try:
        vh, _ = vlib.build_harness(w)
        vlib.stage_spec(w)
        hs = histories(tier, rng)
        byid = {h["id"]: h for h in hs}
        json.dump({"histories": hs}, open(os.path.join(w, "pool_in.json"), "w"))
        trace = os.path.join(w, "pool_trace.ndjson")
        rc, so, se, to = vlib.run_vh(vh, ["pool", "-in", os.path.join(w, "pool_in.json"), "-out", trace, "-node", "vhpool%d@localhost" % os.getpid(), "-par", "12"], timeout=3000)
        if rc != 0 or to:
            raise vlib.Infra("pool harness failed rc=%s: %s" % (rc, (se or so)[-1500:]))
        st = json.loads(so.strip().splitlines()[-1])
        fam.write_mc(w, "MC_PoolT", "Pool", {}, {"TraceFile": '"pool_trace.ndjson"', "Checks": fam.tla_set(CLAUSES)}, constraint="HWM", postcondition="TraceAccepted")
        r = vlib.run_tlc(w, "MC_PoolT.tla", "MC_PoolT.cfg", workers=1, timeout=1800)
        if re.search(r'TRACE_REJECTED_AT_LINE', r.out):
            raise vlib.Infra("Pool.tla could not consume the trace: %s" % r.out[-800:])
        hits = [(m.group(1), int(m.group(2))) for m in re.finditer(r'"CLAUSE_VIOLATED", "(\w+)", "LINE", (\d+)', r.out)]
        if r.rc != 0 and not hits:
            raise vlib.Infra("Pool validation failed: %s" % (r.error or r.out[-1500:]))
        lines = open(trace).read().splitlines()
        violations = []
        for clause, line in hits:
            e = json.loads(lines[line - 1])
            violations.append({"clause": clause, "history": byid[e["p"]], "line": e, "execution": [json.loads(x) for x in lines if json.loads(x)["p"] == e["p"]]})
        validated = len(hs) - len({v["history"]["id"] for v in violations})
        cov = {"states": max(r.distinct, 1), "transitions": max(r.generated, 1), "traces_validated_against_impl": validated,
               "samples": [hs[0], hs[rng.randrange(len(hs))]], "histories": len(hs), "operations": st["ops"], "clauses": CLAUSES, "exhaustive": False}
        assumptions = ["every operation is followed by quiescence, so a history is sequential and the model is deterministic",
                       "workers are held inside their handler to fill mailboxes; pool sizes 1-4, worker mailbox 0-3",
                       "request timeouts are the real ones (3 s) only for requests the model expects to be lost"]
        vlib.write_evidence(prop, tier, "model_checking", cov, assumptions, time.time() - t0, violations=len(violations))
        for v in violations[:10]:
            path = vlib.save_replay(prop, "pool_h%d_%s" % (v["history"]["id"], v["clause"]), v)
            print("VIOLATION property=%s replay=%s" % (prop, path))
            print("  clause %s: history %s; line %s" % (v["clause"], json.dumps(v["history"])[:400], json.dumps(v["line"])[:500]))
        print("%s %s: %d histories (%d operations), %d validated against the dispatch model, %d violations, %.0fs" % (prop, tier, len(hs), st["ops"], validated, len(violations), time.time() - t0))
        return 1 if violations else 0
    finally:
        if not os.environ.get("VERIF_KEEP"):
            shutil.rmtree(w, ignore_errors=True)


if __name__ == "__main__":
    try:
        sys.exit(main(sys.argv[1], sys.argv[2]))
    except vlib.Infra as e:
        print("INFRA: %s" % e)
        sys.exit(2)
