#!/bin/bash
# usage: seedrun.sh <seed id under /verif/seeded> <demo package dir> <checks...>
# re-tests a saved seeded change: copies it to a scratch directory (demo tests get their .go name back) and calls seedtest2.sh
ID=$1; PKG=$2; shift 2
SRC=/tmp/seedsrc_$ID; rm -rf $SRC; mkdir -p $SRC
cp /verif/seeded/$ID/patch.diff $SRC/
for f in /verif/seeded/$ID/*_test.go.txt; do [ -f "$f" ] && cp "$f" $SRC/$(basename "${f%.txt}"); done
/verif/tools/seedtest2.sh $SRC $ID $PKG "$@"
rm -rf $SRC
