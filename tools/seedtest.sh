#!/bin/bash
# usage: seedtest.sh <src dir with patch.diff + demo *_test.go> <seed id> <demo package dir> <checks...>
# 1. confirms the demonstration in a scratch worktree (fails with the change, passes without)
# 2. applies the change to /repo, runs the given checks (quick), restores /repo
set -u
SRC=$1; ID=$2; PKG=$3; shift 3
export GOFLAGS=-mod=mod GOPROXY=off GOSUMDB=off GOTOOLCHAIN=local
WT=/tmp/seedwt_$ID
git -C /repo worktree remove --force $WT 2>/dev/null
git -C /repo worktree add -q --detach $WT HEAD || exit 2
cd $WT
TESTS=$(grep -ho '^func Test[A-Za-z0-9_]*' $SRC/*_test.go | sed 's/func //' | paste -sd'|')
mkdir -p $WT/$PKG; cp $SRC/*_test.go $WT/$PKG/
if git apply --check $SRC/patch.diff 2>/dev/null; then git apply $SRC/patch.diff; else echo "patch needs 3-way"; git apply -3 $SRC/patch.diff || { echo "PATCH DOES NOT APPLY"; cd /; git -C /repo worktree remove --force $WT; exit 3; }; fi
git diff --stat | tail -1
go build ./... || echo "BUILD FAILS"
echo "--- demo WITH change ($TESTS)"
timeout 400 go test -count=1 -run "$TESTS" ./$PKG/ > /tmp/seed_with_$ID.log 2>&1; echo "exit=$? $(tail -1 /tmp/seed_with_$ID.log | cut -c1-120)"
git checkout -q -- . 2>/dev/null; git reset -q --hard; mkdir -p $WT/$PKG; cp $SRC/*_test.go $WT/$PKG/
echo "--- demo WITHOUT change"
timeout 400 go test -count=1 -run "$TESTS" ./$PKG/ > /tmp/seed_without_$ID.log 2>&1; echo "exit=$? $(tail -1 /tmp/seed_without_$ID.log | cut -c1-120)"
cd /; git -C /repo worktree remove --force $WT
echo "--- checks on /repo with the change"
cd /repo && (git apply $SRC/patch.diff 2>/dev/null || git apply -3 $SRC/patch.diff)
git -C /repo status --short | head -3
cd /verif
for c in "$@"; do
  ./check $c quick > /tmp/seed_check_${ID}_$c.log 2>&1; rc=$?
  echo "check $c: exit=$rc; $(grep -c '^VIOLATION' /tmp/seed_check_${ID}_$c.log) VIOLATION line(s); $(tail -1 /tmp/seed_check_${ID}_$c.log | cut -c1-160)"
done
git -C /repo checkout -- . ; git -C /repo reset -q; git -C /repo status --short | head -3
