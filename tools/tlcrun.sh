#!/bin/bash
# usage: tlcrun.sh <timeout_s> <workers> <cfg> <module.tla> [extra tlc args...]; runs in a scratch copy of /verif/spec
set -u
TO=$1; W=$2; CFG=$3; MOD=$4; shift 4
T=$(mktemp -d /var/tmp/tlc.XXXXXX)
cp /verif/spec/*.tla $T/ 2>/dev/null
cp /verif/spec/mc/* $T/ 2>/dev/null
cd $T
timeout $TO tlc -workers $W -metadir $T/meta -config $CFG $MOD "$@" 2>&1 | grep -v '^WARNING conda'
rc=${PIPESTATUS[0]}
cd /; rm -rf $T
exit $rc
